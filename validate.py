#!/usr/bin/env python3-vt
# Validates MANIFEST.json and every evidence file against the given schemas.
import json, sys, glob, jsonschema
ok = True
m = json.load(open('/verif/MANIFEST.json'))
try:
    jsonschema.validate(m, json.load(open('/root/.vp/MANIFEST.schema.json'))); print('MANIFEST ok,', len(m['checks']), 'checks')
except Exception as e:
    ok = False; print('MANIFEST INVALID', e)
es = json.load(open('/root/.vp/EVIDENCE.schema.json'))
for f in sorted(glob.glob('/verif/evidence/*.json')):
    try:
        jsonschema.validate(json.load(open(f)), es)
    except Exception as e:
        ok = False; print(f, 'INVALID', str(e)[:300])
props = [json.loads(l)['id'] for l in open('/verif/properties.jsonl')]
claimed = {c['property_id'] for c in m['checks']}
na = {c['property_id'] for c in m.get('not_applicable', [])}
for p in props:
    if p not in claimed and p not in na: print('property', p, 'neither claimed nor not_applicable'); ok = False
sys.exit(0 if ok else 1)

#!/usr/bin/env python3
"""Regenerates the machine-produced table of DESIGN.md A.7 (which check catches which change) from
seeded/*/meta.json, the output of seeded/detect.py (passed as argv[1]) and mutants/*.json."""
import json, glob, os, re, sys
det = {}
if len(sys.argv) > 1:
    for l in open(sys.argv[1]):
        m = re.match(r'(DETECTED|MISSED)\s+(\S+)\s+(.*)', l)
        if m: det[m.group(2)] = (m.group(1), m.group(3))
rows = ['| change | what was changed (sub-agent\'s summary, shortened) | needs | verdict | fired |', '|---|---|---|---|---|']
for d in sorted(glob.glob('/verif/seeded/C*')):
    if not os.path.isdir(d): continue
    mid = os.path.basename(d); meta = json.load(open(d + '/meta.json'))
    st, rules = det.get(mid, ('?', ''))
    fired = '; '.join(sorted(set(re.findall(r'(R\d+L?) construct=([^;]+)', rules) and [a + ' ' + b.strip().split('/')[-1][:48] for a, b in re.findall(r'(R\d+L?) construct=([^;]+)', rules)]))[:3])
    cut = lambda s, n: (s[:n].rsplit(' ', 1)[0] + ' …') if len(s) > n else s
    rows.append('| %s | %s | %s | %s | %s |' % (mid, cut(meta.get('summary', '').replace('|', '/').replace('\n', ' '), 170), cut(meta.get('needs', '').replace('|', '/').replace('\n', ' '), 110), st.lower(), fired.replace('|', '/')))
own = ['| property | hand-written variant | expected |', '|---|---|---|']
for f in sorted(glob.glob('/verif/mutants/C*.json')):
    for m in json.load(open(f)):
        own.append('| %s | %s | %s |' % (os.path.basename(f)[:3], m['name'], ('rule ' + m['expect'] + ' fires') if m.get('expect') not in (None, 'None', '') else 'silent (benign)'))
text = '**Changes written by independent sub-agents** (`seeded/`, regenerate with `python3 seeded/detect.py`):\n\n' + '\n'.join(rows) + '\n\n**Hand-written variants of the self-test** (`mutants/`, `python3 mutants/run.py`):\n\n' + '\n'.join(own) + '\n'
p = '/verif/DESIGN.md'; s = open(p).read()
a, b = s.index('<!-- BEGIN:DETECTION -->'), s.index('<!-- END:DETECTION -->')
s = s[:a] + '<!-- BEGIN:DETECTION -->\n' + text + s[b:]
open(p, 'w').write(s)
print(len(rows) - 2, 'seeded;', len(own) - 2, 'own variants')

#!/bin/bash
# usage: tools_try.sh <patch.diff> <prop> : apply patch to scratch copy, run the check, print violations with facts
set -e
T=$(mktemp -d /tmp/vt-try-XXXX)
rsync -a --exclude .git /repo/ $T/repo/
P=$(readlink -f "$1"); (cd $T/repo && patch -p1 -s < "$P")
VERIF_REPO=$T/repo VERIF_OUT=$T/out /verif/bin/casketlint check $2 2>&1 | grep -v "^WARNING" | grep -v "KNOWN-FINDING" | cut -c1-400 || true
for f in $T/out/out/violations/*.json $T/out/violations/*.json; do [ -f "$f" ] && python3 -c "
import json,sys;d=json.load(open('$f'));v=d.get('violation',d);print(v.get('construct'), v.get('facts'))"; done
rm -rf $T

#!/usr/bin/env python3
"""Regenerates MANIFEST.json from the table below; properties whose check is not built yet go to not_applicable."""
import json, subprocess

built = {}
for l in subprocess.run(['/verif/bin/casketlint', 'list', '--json'], capture_output=True, text=True).stdout.splitlines():
    d = json.loads(l); built[d['id']] = d
NA_REASON = 'check not built yet in this session (static rules designed in DESIGN.md §2; will be claimed at level other once armed)'
props = [json.loads(l)['id'] for l in open('/verif/properties.jsonl')]
checks, na = [], []
for p in props:
    if p in built:
        tech = built[p]['technique']
        text = 'Structural necessary conditions decided from /repo\'s source on every path of the anchored code: ' + built[p]['decided'] + ' NOT decided (stated plainly): ' + built[p]['not_decided']
        checks.append({
            'property_id': p,
            'quick_cmd': './bin/casketlint check %s --tier quick' % p,
            'thorough_cmd': './bin/casketlint check %s --tier thorough' % p,
            'evidence_file': 'evidence/%s.json' % p,
            'replay_cmd_template': './bin/casketlint explain {path}',
            'engine': 'casketlint',
            'level_claimed': {'category': 'other', 'text': text, 'design_ref': 'DESIGN.md §A and §2 ' + p},
            'level_note': 'Trusts go/types, x/tools v0.29.0 SSA construction, the abstract evaluator of DESIGN.md A.8 where a rule uses it, and (for new helper functions) the behaviour-preserving source normalisation described in DESIGN.md A.3; CFG reasoning is path-insensitive except for constant-phi jump threading; panics inside callees are not treated as exits; rule tables in /verif/checker are hand-confirmed against the source. Decides the named structural clauses, not the behaviour.',
            'technique': tech,
        })
    else:
        na.append({'property_id': p, 'reason': NA_REASON})
m = {
 'version': 1,
 'setup_cmd': 'cd /verif/checker && GOFLAGS=-mod=mod GOPROXY=off GOSUMDB=off GOTOOLCHAIN=local GOWORK=off go build -o ../bin/casketlint .',
 'hooks': {'guard': 'verif', 'enable': 'none needed: static analysis reads /repo\'s source; nothing is compiled into casket',
           'baseline_off_cmd': 'cd /repo && GOFLAGS=-mod=mod go test -vet=off -count=1 -timeout 25m ./...',
           'source_commits': [], 'add_only': True},
 'engines': [{'name': 'casketlint', 'path': 'checker/', 'serves_properties': [c['property_id'] for c in checks],
              'kind_free_text': 'repository-specific static analyser over go/types + go/ssa (x/tools v0.29.0): CFG reachability with removed edges/instructions (dominance, must-pass, guards), acquire/release pairing, intraprocedural value flow, constant-table agreement, bounds-obligation discharge, decision-table extraction by abstract evaluation of SSA over a finite abstraction (E10)'}],
 'checks': checks,
 'not_applicable': na,
 'notes': 'All claims are at level "other": each check decides structural necessary conditions of its property from /repo\'s current source (see DESIGN.md). fix: commits in /repo and known findings are listed in known_findings.txt.',
}
json.dump(m, open('/verif/MANIFEST.json', 'w'), indent=1)
print(len(checks), 'checks;', len(na), 'not applicable')

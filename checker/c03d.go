package main

import (
	"fmt"
	"go/types"
	"net/url"
	"strings"
)

// c03R7: what a rewrite leaves in r.URL.Path is a request path again.  The protectors (basicauth, internal) run after
// rewrite and match their scopes against r.URL.Path with Path.Matches, which compares cleaned, *rooted* scopes; the
// file server behind them opens http.Dir(root).Open(path), which resolves an unrooted path as well.  A rewrite (or
// tryfiles) target written without its leading slash — `secret/page.html`, or a target whose `without` prefix took the
// slash with it — therefore has to leave a rooted path, or every scope is walked around.  rewrite.To is evaluated
// (E10; no file system, the replacer is the identity, net/url's own Parse on concrete strings is the oracle) on a
// table of targets; the path stored into the request must begin with "/" and name the same file.
func c03R7(h H) {
	r := h.r
	r.Rule("R7", "rewritten paths are rooted (E10; net/url's Parse as the oracle): rewrite.To, evaluated without a file system on a table of 10 targets — rooted, unrooted, with dot segments, a trailing slash, a query, several alternatives, and a `without` prefix that takes the leading slash with it — stores into the request a path that begins with / and is the cleaned target", 1)
	fn := h.fn("R7", "caskethttp/rewrite", "To")
	if fn == nil {
		return
	}
	urlT := h.p.typeByName("net/url", "URL")
	if urlT == nil || len(fn.Params) < 4 {
		r.Unresolve("R7", "rewrite.To: signature (fs, r, to, replacer, without...) / net/url.URL not found")
		return
	}
	reqT := fn.Params[1].Type().(*types.Pointer).Elem()
	type cs struct {
		to, without string
		want        string
	}
	cases := []cs{
		{"/ok/page.html", "", "/ok/page.html"}, {"secret/page.html", "", "/secret/page.html"}, {"secret/", "", "/secret/"},
		{"../secret/x", "", "/secret/x"}, {"./secret/x", "", "/secret/x"}, {"/a/../secret/x", "", "/secret/x"},
		{"secret/x?q=1", "", "/secret/x"}, {"missing.html secret/index.html", "", "/secret/index.html"},
		{"/api/secret/x", "/api/", "/secret/x"}, {"/api/secret/x", "/api", "/secret/x"},
	}
	bad, nrun := "", 0
	for _, c := range cases {
		env := &absEnv{globals: map[string]*aobj{}, noFork: true, maxSteps: 200000}
		env.ext = func(callee string, args []aval) (aval, bool) {
			switch callee {
			case "invoke:Replace":
				return args[1], true
			case "net/url.Parse":
				if s, ok := args[0].(astr); ok {
					u, err := url.Parse(string(s))
					if err != nil {
						return atuple{anil{}, aiface{aptr{&aobj{name: "url error", typ: types.Typ[types.Int], f: map[string]aval{}}, ""}, types.Typ[types.Int]}}, true
					}
					o := &aobj{name: "parsed " + u.String(), typ: urlT, f: map[string]aval{"Scheme": astr(u.Scheme), "Host": astr(u.Host), "Path": astr(u.Path), "RawPath": astr(u.RawPath), "RawQuery": astr(u.RawQuery), "Fragment": astr(u.Fragment)}}
					return atuple{aptr{o, ""}, anil{}}, true
				}
			case "log.Printf":
				return atuple{}, true
			}
			return nil, false
		}
		u := &aobj{name: "request url", typ: urlT, f: map[string]aval{"Path": astr("/requested"), "RawQuery": astr(""), "Fragment": astr("")}}
		req := &aobj{name: "request", typ: reqT, f: map[string]aval{"URL": aptr{u, ""}}}
		req.in = func(o *aobj, path string, t types.Type) aval { return aunk{"request field " + path} }
		var without []aval
		if c.without != "" {
			without = append(without, astr(c.without))
		}
		var wv aval = anil{}
		if len(without) > 0 {
			wv = newVals(without, types.Typ[types.String])
		}
		repl := aiface{aptr{&aobj{name: "replacer", typ: types.Typ[types.Int], f: map[string]aval{}}, ""}, types.Typ[types.Int]}
		args := []aval{anil{}, aptr{req, ""}, astr(c.to), repl}
		if len(fn.Params) >= 5 {
			args = append(args, wv)
		}
		_, und := env.run(fn, args)
		nrun++
		desc := fmt.Sprintf("rewrite target %q", c.to)
		if c.without != "" {
			desc += fmt.Sprintf(" without %q", c.without)
		}
		got, _ := env.load(u, "Path").(astr)
		switch {
		case und != "":
			bad = desc + ": undecided — " + und
		case !strings.HasPrefix(string(got), "/"):
			bad = fmt.Sprintf("%s: the request path becomes %q — not rooted, so no basicauth or internal scope matches it, while the file server resolves it all the same", desc, string(got))
		case string(got) != c.want:
			bad = fmt.Sprintf("%s: the request path becomes %q, the target names %q", desc, string(got), c.want)
		}
		if bad != "" {
			break
		}
	}
	r.Check(bad == "", "R7", "rewrite.To/rooted-table", fn.Pos(), "a rewrite leaves a rooted request path, which the protectors' scopes are matched against", fmt.Sprintf("%d targets evaluated", nrun), bad)
}

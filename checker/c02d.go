package main

import (
	"fmt"
	"go/types"
	"net/url"
	"strings"
)

// c02R6: stripping a site's path prefix keeps the request on this origin.  Server.ServeHTTP replaces r.URL by
// trimPathPrefix(r.URL, prefix) for sites defined with a path; the file server builds its canonical-path redirect from
// a copy of that URL.  What is left after the prefix can begin with two slashes (/foo//evil.com/dir): a URL parser
// reads that as a reference to another host, and the redirect then points there.  trimPathPrefix is evaluated (E10)
// on request URLs — net/url's own functions on concrete strings being the oracle (the checker calls the real ones) —
// and must return a URL without scheme, user or host whose path is the rest of the request path and whose query is
// the request's.
func c02R6(h H) {
	r := h.r
	r.Rule("R6", "prefix stripping stays on-origin, as a decision table (E10, net/url's real functions as the oracle): trimPathPrefix, evaluated for the prefix /foo on the request paths /foo/x, /foo, /foo/, /foo//evil.com/dir, /foo//evil.com, /foo///evil.com/x, /foo/%2f/evil.com/x and /foo/x?q=//evil.com, returns a URL with no scheme, user or host, whose path is the request's path without the prefix (at least \"/\") and whose query is the request's", 1)
	fn := h.fn("R6", hs, "trimPathPrefix")
	if fn == nil {
		return
	}
	urlT := h.p.typeByName("net/url", "URL")
	if urlT == nil {
		r.Unresolve("R6", "net/url.URL not found")
		return
	}
	mkURL := func(u *url.URL) *aobj {
		o := &aobj{name: "url " + u.String(), typ: urlT, f: map[string]aval{
			"Scheme": astr(u.Scheme), "Opaque": astr(u.Opaque), "Host": astr(u.Host), "Path": astr(u.Path), "RawPath": astr(u.RawPath),
			"RawQuery": astr(u.RawQuery), "Fragment": astr(u.Fragment), "RawFragment": astr(u.RawFragment), "ForceQuery": abool(u.ForceQuery), "OmitHost": abool(u.OmitHost),
			"User": anil{},
		}}
		return o
	}
	str := func(env *absEnv, p aptr, f string) string {
		if s, ok := env.load(p.obj, joinPath(p.path, f)).(astr); ok {
			return string(s)
		}
		return "?"
	}
	back := func(env *absEnv, p aptr) *url.URL {
		u := &url.URL{Scheme: str(env, p, "Scheme"), Host: str(env, p, "Host"), Path: str(env, p, "Path"), RawPath: str(env, p, "RawPath"), RawQuery: str(env, p, "RawQuery"), Fragment: str(env, p, "Fragment"), RawFragment: str(env, p, "RawFragment")}
		if b, ok := env.load(p.obj, joinPath(p.path, "ForceQuery")).(abool); ok {
			u.ForceQuery = bool(b)
		}
		return u
	}
	type cs struct{ target, wantPath, wantQuery string }
	cases := []cs{
		{"/foo/x", "/x", ""}, {"/foo", "/", ""}, {"/foo/", "/", ""}, {"/foo//evil.com/dir", "//evil.com/dir", ""}, {"/foo//evil.com", "//evil.com", ""},
		{"/foo///evil.com/x", "///evil.com/x", ""}, {"/foo/%2f/evil.com/x", "///evil.com/x", ""}, {"/foo/x?q=//evil.com", "/x", "q=//evil.com"}, {"/foo//evil.com/dir?a=b", "//evil.com/dir", "a=b"},
	}
	bad, nrun := "", 0
	for _, c := range cases {
		in, err := url.ParseRequestURI(c.target)
		if err != nil {
			continue
		}
		env := &absEnv{globals: map[string]*aobj{}, noFork: true, maxSteps: 200000}
		env.ext = func(callee string, args []aval) (aval, bool) {
			switch callee {
			case "(*net/url.URL).EscapedPath":
				if p, ok := args[0].(aptr); ok {
					return astr(back(env, p).EscapedPath()), true
				}
			case "(*net/url.URL).String":
				if p, ok := args[0].(aptr); ok {
					return astr(back(env, p).String()), true
				}
			case "net/url.Parse", "net/url.ParseRequestURI":
				if s, ok := args[0].(astr); ok {
					var u *url.URL
					var err error
					if callee == "net/url.Parse" {
						u, err = url.Parse(string(s))
					} else {
						u, err = url.ParseRequestURI(string(s))
					}
					if err != nil {
						return atuple{anil{}, aiface{aptr{&aobj{name: "url error", typ: types.Typ[types.Int], f: map[string]aval{}}, ""}, types.Typ[types.Int]}}, true
					}
					return atuple{aptr{mkURL(u), ""}, anil{}}, true
				}
			case "net/url.PathUnescape", "net/url.QueryUnescape":
				if s, ok := args[0].(astr); ok {
					v, err := url.PathUnescape(string(s))
					if err != nil {
						return atuple{astr(""), aiface{aptr{&aobj{name: "url error", typ: types.Typ[types.Int], f: map[string]aval{}}, ""}, types.Typ[types.Int]}}, true
					}
					return atuple{astr(v), anil{}}, true
				}
			case "log.Printf":
				return atuple{}, true
			}
			return nil, false
		}
		res, und := env.run(fn, []aval{aptr{mkURL(in), ""}, astr("/foo")})
		nrun++
		desc := fmt.Sprintf("site prefix /foo, request target %s", c.target)
		if und != "" {
			bad = desc + ": undecided — " + und
			break
		}
		p, ok := res.(aptr)
		if !ok {
			bad = desc + ": returns " + describeAval(res)
			break
		}
		got := back(env, p)
		_, userNil := env.load(p.obj, joinPath(p.path, "User")).(anil)
		switch {
		case got.Host != "" || got.Scheme != "" || !userNil || str(env, p, "Opaque") != "":
			bad = fmt.Sprintf("%s: the request URL becomes a reference to another origin (scheme %q, host %q, path %q): redirects built from it (%s) leave this site", desc, got.Scheme, got.Host, got.Path, strings.TrimSuffix(got.String(), "/")+"/")
		case got.Path != c.wantPath:
			bad = fmt.Sprintf("%s: the path becomes %q, specification says %q", desc, got.Path, c.wantPath)
		case got.RawQuery != c.wantQuery:
			bad = fmt.Sprintf("%s: the query becomes %q, specification says %q", desc, got.RawQuery, c.wantQuery)
		}
		if bad != "" {
			break
		}
	}
	r.Check(bad == "" && nrun >= 8, "R6", "httpserver.trimPathPrefix/origin-table", fn.Pos(), "whatever follows the site's path prefix in the request path, the stripped URL has no host of its own and keeps path and query", fmt.Sprintf("%d request targets evaluated", nrun), bad)
}

package main

// De-literalisation: the second half of source normalisation.  When the
// inliner cannot reduce a call to statements (the callee has several
// returns), it leaves an immediately-invoked function literal
//
//	x := func() T { …; return a; …; return b }()
//
// which would hide the helper's control flow from every per-function rule.
// This pass rewrites such a literal, in the statement contexts where Go's
// evaluation order makes it exact, into straight-line code inside a labelled
// single-clause switch (`return e` becomes `tmp = e; break L`); in the
// condition of an if statement the literal's returns are compiled directly
// into branches (`return c` becomes "break TRUE"/"break FALSE" by the usual
// short-circuit scheme), so that no boolean flag is introduced and the
// control-flow graph is the one the hand-inlined code would have.  Literals
// that contain defer or recover, that are variadic, or that sit in any other
// expression context are left alone.  Only literals introduced by the inliner
// are touched (pre-existing ones are recognised by their printed text).

import (
	"bytes"
	"fmt"
	"go/ast"
	"go/format"
	"go/parser"
	"go/printer"
	"go/token"
	"regexp"
	"strconv"
	"strings"
)

var vtName = regexp.MustCompile(`\bvt[A-Z](\d+)`)

type delit struct {
	fset     *token.FileSet
	n        int
	old      map[string]bool // printed texts of the function literals that existed before inlining
	changed  int
	consumed map[*ast.FuncLit]bool // literals whose body was spliced into the enclosing function
	// breakable context of the statement being processed
	brk []*brkCtx
}

type brkCtx struct {
	label  string
	needed bool
}

func nodeText(fset *token.FileSet, n ast.Node) string {
	var b bytes.Buffer
	printer.Fprint(&b, fset, n)
	return strings.Join(strings.Fields(b.String()), " ")
}

// iifeTexts lists the printed text of every immediately-invoked function literal in src.
func iifeTexts(name string, src []byte) map[string]bool {
	out := map[string]bool{}
	fset := token.NewFileSet()
	f, err := parser.ParseFile(fset, name, src, parser.SkipObjectResolution)
	if err != nil {
		return out
	}
	ast.Inspect(f, func(n ast.Node) bool {
		if c, ok := n.(*ast.CallExpr); ok {
			if fl, ok := ast.Unparen(c.Fun).(*ast.FuncLit); ok {
				out[nodeText(fset, fl)] = true
			}
		}
		return true
	})
	return out
}

// deliteralize rewrites the new immediately-invoked literals of src; returns the new source and how many were rewritten.
func deliteralize(name string, src []byte, old map[string]bool) ([]byte, int) {
	fset := token.NewFileSet()
	f, err := parser.ParseFile(fset, name, src, parser.SkipObjectResolution)
	if err != nil {
		return src, 0
	}
	type edit struct {
		from, to int
		text     []byte
	}
	var edits []edit
	total := 0
	tf := fset.File(f.Pos())
	// names generated in earlier rounds stay unique
	base := 0
	for _, m := range vtName.FindAllSubmatch(src, -1) {
		if v, _ := strconv.Atoi(string(m[1])); v >= base {
			base = v + 1
		}
	}
	for _, dcl := range f.Decls {
		fd, ok := dcl.(*ast.FuncDecl)
		if !ok || fd.Body == nil {
			continue
		}
		d := &delit{fset: fset, old: old, n: base + total*100, consumed: map[*ast.FuncLit]bool{}}
		// ordinary closures of the function are processed too (each with its own break context)
		var lits []*ast.FuncLit
		ast.Inspect(fd.Body, func(n ast.Node) bool {
			if fl, ok := n.(*ast.FuncLit); ok {
				lits = append(lits, fl)
			}
			return true
		})
		fd.Body.List = d.stmts(fd.Body.List)
		for _, fl := range lits {
			if !d.consumed[fl] {
				d.brk = nil
				fl.Body.List = d.stmts(fl.Body.List)
			}
		}
		if d.changed == 0 {
			continue
		}
		total += d.changed
		doc := fd.Doc
		fd.Doc = nil
		var b bytes.Buffer
		if err := printer.Fprint(&b, fset, fd); err != nil {
			return src, 0
		}
		fd.Doc = doc
		edits = append(edits, edit{tf.Offset(fd.Pos()), tf.Offset(fd.End()), b.Bytes()})
	}
	if total == 0 {
		return src, 0
	}
	out := append([]byte{}, src...)
	for i := len(edits) - 1; i >= 0; i-- {
		e := edits[i]
		out = append(append(append([]byte{}, out[:e.from]...), e.text...), out[e.to:]...)
	}
	fm, err := format.Source(out)
	if err != nil {
		return src, 0
	}
	return fm, total
}

func (d *delit) fresh(prefix string) string {
	d.n++
	return fmt.Sprintf("vt%s%d", prefix, d.n)
}

// iife returns the literal and call if e is a transformable immediately-invoked new function literal.
func (d *delit) iife(e ast.Expr) (*ast.FuncLit, *ast.CallExpr) {
	c, ok := ast.Unparen(e).(*ast.CallExpr)
	if !ok || c.Ellipsis.IsValid() {
		return nil, nil
	}
	fl, ok := ast.Unparen(c.Fun).(*ast.FuncLit)
	if !ok || d.old[nodeText(d.fset, fl)] {
		return nil, nil
	}
	// parameters: one argument per parameter name, no variadic
	np := 0
	if fl.Type.Params != nil {
		for _, p := range fl.Type.Params.List {
			if _, ok := p.Type.(*ast.Ellipsis); ok {
				return nil, nil
			}
			if len(p.Names) == 0 {
				np++
			} else {
				np += len(p.Names)
			}
		}
	}
	if np != len(c.Args) {
		return nil, nil
	}
	bad := false
	inspectNoLit(fl.Body, func(n ast.Node) {
		switch t := n.(type) {
		case *ast.DeferStmt:
			bad = true
		case *ast.CallExpr:
			if id, ok := t.Fun.(*ast.Ident); ok && id.Name == "recover" {
				bad = true
			}
		}
	})
	if bad {
		return nil, nil
	}
	return fl, c
}

// inspectNoLit visits the nodes of n without entering nested function literals.
func inspectNoLit(n ast.Node, f func(ast.Node)) {
	ast.Inspect(n, func(x ast.Node) bool {
		if x == nil {
			return false
		}
		if _, ok := x.(*ast.FuncLit); ok && x != n {
			return false
		}
		f(x)
		return true
	})
}

func hasIIFE(d *delit, e ast.Expr) bool {
	switch t := e.(type) {
	case *ast.ParenExpr:
		return hasIIFE(d, t.X)
	case *ast.UnaryExpr:
		if t.Op == token.NOT {
			return hasIIFE(d, t.X)
		}
	case *ast.BinaryExpr:
		if t.Op == token.LAND || t.Op == token.LOR {
			return hasIIFE(d, t.X) || hasIIFE(d, t.Y)
		}
	}
	fl, _ := d.iife(e)
	return fl != nil && boolResult(fl)
}

func boolResult(fl *ast.FuncLit) bool {
	r := fl.Type.Results
	if r == nil || len(r.List) != 1 || len(r.List[0].Names) > 1 {
		return false
	}
	id, ok := r.List[0].Type.(*ast.Ident)
	return ok && id.Name == "bool"
}

func resultCount(fl *ast.FuncLit) int {
	n := 0
	if fl.Type.Results != nil {
		for _, r := range fl.Type.Results.List {
			if len(r.Names) == 0 {
				n++
			} else {
				n += len(r.Names)
			}
		}
	}
	return n
}

func ident(s string) *ast.Ident { return ast.NewIdent(s) }

func brkTo(l string) ast.Stmt { return &ast.BranchStmt{Tok: token.BREAK, Label: ident(l)} }

// lswitch builds `label: switch { default: body }` (without the label if it is never targeted).
func lswitch(label string, body []ast.Stmt) ast.Stmt {
	sw := &ast.SwitchStmt{Body: &ast.BlockStmt{List: []ast.Stmt{&ast.CaseClause{Body: body}}}}
	if label == "" || !usesLabel(body, label) {
		return sw
	}
	return &ast.LabeledStmt{Label: ident(label), Stmt: sw}
}

func usesLabel(body []ast.Stmt, label string) bool {
	found := false
	for _, s := range body {
		inspectNoLit(s, func(n ast.Node) {
			if b, ok := n.(*ast.BranchStmt); ok && b.Label != nil && b.Label.Name == label {
				found = true
			}
		})
	}
	return found
}

// paramBindings returns the statements that bind the literal's parameters to the call's arguments (evaluated in order).
func paramBindings(fl *ast.FuncLit, c *ast.CallExpr) []ast.Stmt {
	if len(c.Args) == 0 {
		return nil
	}
	var names []*ast.Ident
	var vals []ast.Expr
	i := 0
	for _, p := range fl.Type.Params.List {
		cnt := len(p.Names)
		if cnt == 0 {
			cnt = 1
		}
		for k := 0; k < cnt; k++ {
			nm := ident("_")
			if len(p.Names) > 0 {
				nm = ident(p.Names[k].Name)
			}
			names = append(names, nm)
			vals = append(vals, &ast.CallExpr{Fun: &ast.ParenExpr{X: p.Type}, Args: []ast.Expr{c.Args[i]}})
			i++
		}
	}
	// one parallel declaration: every right-hand side still sees the enclosing scope
	out := []ast.Stmt{&ast.DeclStmt{Decl: &ast.GenDecl{Tok: token.VAR, Specs: []ast.Spec{&ast.ValueSpec{Names: names, Values: vals}}}}}
	// parameters may be unused in the body
	var lhs, rhs []ast.Expr
	for _, id := range names {
		if id.Name != "_" {
			lhs = append(lhs, ident("_"))
			rhs = append(rhs, ident(id.Name))
		}
	}
	if len(lhs) > 0 {
		out = append(out, &ast.AssignStmt{Lhs: lhs, Tok: token.ASSIGN, Rhs: rhs})
	}
	return out
}

// renameLabels gives the labels declared in the literal's body unique names.
func (d *delit) renameLabels(body *ast.BlockStmt) {
	ren := map[string]string{}
	inspectNoLit(body, func(n ast.Node) {
		if l, ok := n.(*ast.LabeledStmt); ok {
			ren[l.Label.Name] = d.fresh("L") + "_" + l.Label.Name
		}
	})
	if len(ren) == 0 {
		return
	}
	inspectNoLit(body, func(n ast.Node) {
		switch t := n.(type) {
		case *ast.LabeledStmt:
			t.Label = ident(ren[t.Label.Name])
		case *ast.BranchStmt:
			if t.Label != nil && ren[t.Label.Name] != "" {
				t.Label = ident(ren[t.Label.Name])
			}
		}
	})
}

// mapReturns rewrites every return statement of the literal's body (not of nested literals) with f.
func mapReturns(s ast.Stmt, f func(*ast.ReturnStmt) ast.Stmt) ast.Stmt {
	switch t := s.(type) {
	case *ast.ReturnStmt:
		return f(t)
	case *ast.BlockStmt:
		for i := range t.List {
			t.List[i] = mapReturns(t.List[i], f)
		}
	case *ast.IfStmt:
		mapReturns(t.Body, f)
		if t.Else != nil {
			t.Else = mapReturns(t.Else, f)
		}
	case *ast.ForStmt:
		mapReturns(t.Body, f)
	case *ast.RangeStmt:
		mapReturns(t.Body, f)
	case *ast.SwitchStmt:
		mapReturns(t.Body, f)
	case *ast.TypeSwitchStmt:
		mapReturns(t.Body, f)
	case *ast.SelectStmt:
		mapReturns(t.Body, f)
	case *ast.CaseClause:
		for i := range t.Body {
			t.Body[i] = mapReturns(t.Body[i], f)
		}
	case *ast.CommClause:
		for i := range t.Body {
			t.Body[i] = mapReturns(t.Body[i], f)
		}
	case *ast.LabeledStmt:
		t.Stmt = mapReturns(t.Stmt, f)
	}
	return s
}

// namedResults returns declarations for the literal's named results, and their names in order.
func namedResults(fl *ast.FuncLit) ([]ast.Stmt, []string) {
	var decls []ast.Stmt
	var names []string
	if fl.Type.Results == nil {
		return nil, nil
	}
	for _, r := range fl.Type.Results.List {
		for _, nm := range r.Names {
			if nm.Name == "_" {
				names = append(names, "")
				continue
			}
			names = append(names, nm.Name)
			decls = append(decls,
				&ast.DeclStmt{Decl: &ast.GenDecl{Tok: token.VAR, Specs: []ast.Spec{&ast.ValueSpec{Names: []*ast.Ident{ident(nm.Name)}, Type: r.Type}}}},
				&ast.AssignStmt{Lhs: []ast.Expr{ident("_")}, Tok: token.ASSIGN, Rhs: []ast.Expr{ident(nm.Name)}})
		}
	}
	return decls, names
}

// valueForm expands the literal call into statements that leave its results in fresh temporaries.
func (d *delit) valueForm(fl *ast.FuncLit, c *ast.CallExpr) (pre []ast.Stmt, temps []ast.Expr, ok bool) {
	nres := resultCount(fl)
	d.consumed[fl] = true
	label := d.fresh("L")
	var tnames []string
	if fl.Type.Results != nil {
		for _, r := range fl.Type.Results.List {
			cnt := len(r.Names)
			if cnt == 0 {
				cnt = 1
			}
			for k := 0; k < cnt; k++ {
				tn := d.fresh("R")
				tnames = append(tnames, tn)
				pre = append(pre, &ast.DeclStmt{Decl: &ast.GenDecl{Tok: token.VAR, Specs: []ast.Spec{&ast.ValueSpec{Names: []*ast.Ident{ident(tn)}, Type: r.Type}}}},
					&ast.AssignStmt{Lhs: []ast.Expr{ident("_")}, Tok: token.ASSIGN, Rhs: []ast.Expr{ident(tn)}})
				temps = append(temps, ident(tn))
			}
		}
	}
	d.renameLabels(fl.Body)
	ndecls, rnames := namedResults(fl)
	fail := false
	body := mapReturns(fl.Body, func(r *ast.ReturnStmt) ast.Stmt {
		var out []ast.Stmt
		switch {
		case nres == 0:
		case len(r.Results) == 0:
			// bare return with named results
			if len(rnames) != nres {
				fail = true
				break
			}
			var rhs []ast.Expr
			for i, n := range rnames {
				if n == "" {
					fail = true
					n = "nil"
				}
				_ = i
				rhs = append(rhs, ident(n))
			}
			out = append(out, &ast.AssignStmt{Lhs: idExprs(tnames), Tok: token.ASSIGN, Rhs: rhs})
		default:
			// return e1, …, en   or   return f() (n results)
			out = append(out, &ast.AssignStmt{Lhs: idExprs(tnames), Tok: token.ASSIGN, Rhs: r.Results})
		}
		out = append(out, brkTo(label))
		return &ast.BlockStmt{List: out}
	}).(*ast.BlockStmt)
	if fail {
		return nil, nil, false
	}
	inner := append(paramBindings(fl, c), ndecls...)
	inner = append(inner, d.stmts(body.List)...)
	pre = append(pre, lswitch(label, inner))
	return pre, temps, true
}

func idExprs(names []string) []ast.Expr {
	var out []ast.Expr
	for _, n := range names {
		out = append(out, ident(n))
	}
	return out
}

// cond emits statements that evaluate the boolean expression e and leave by `break t` if it is true, `break f` if false.
func (d *delit) cond(e ast.Expr, t, f string) []ast.Stmt {
	if !hasIIFE(d, e) {
		if id, ok := ast.Unparen(e).(*ast.Ident); ok && id.Name == "true" {
			return []ast.Stmt{brkTo(t)}
		} else if ok && id.Name == "false" {
			return []ast.Stmt{brkTo(f)}
		}
		return []ast.Stmt{&ast.IfStmt{Cond: e, Body: &ast.BlockStmt{List: []ast.Stmt{brkTo(t)}}}, brkTo(f)}
	}
	switch x := e.(type) {
	case *ast.ParenExpr:
		return d.cond(x.X, t, f)
	case *ast.UnaryExpr:
		return d.cond(x.X, f, t)
	case *ast.BinaryExpr:
		n := d.fresh("N")
		if x.Op == token.LAND {
			first := d.cond(x.X, n, f)
			return append([]ast.Stmt{lswitch(n, first)}, d.cond(x.Y, t, f)...)
		}
		first := d.cond(x.X, t, n)
		return append([]ast.Stmt{lswitch(n, first)}, d.cond(x.Y, t, f)...)
	}
	fl, c := d.iife(e)
	d.changed++
	d.consumed[fl] = true
	d.renameLabels(fl.Body)
	ndecls, rnames := namedResults(fl)
	body := mapReturns(fl.Body, func(r *ast.ReturnStmt) ast.Stmt {
		if len(r.Results) == 1 {
			return &ast.BlockStmt{List: d.cond(r.Results[0], t, f)}
		}
		// bare return of a named bool result
		nm := "false"
		if len(rnames) == 1 && rnames[0] != "" {
			nm = rnames[0]
		}
		return &ast.BlockStmt{List: d.cond(ident(nm), t, f)}
	}).(*ast.BlockStmt)
	inner := append(paramBindings(fl, c), ndecls...)
	inner = append(inner, d.stmts(body.List)...)
	return []ast.Stmt{&ast.BlockStmt{List: inner}}
}

// simpleLHS: identifiers and selector chains of identifiers (no calls, indexing or dereferences to reorder).
func simpleLHS(e ast.Expr) bool {
	switch t := e.(type) {
	case *ast.Ident:
		return true
	case *ast.SelectorExpr:
		return simpleLHS(t.X)
	case *ast.ParenExpr:
		return simpleLHS(t.X)
	}
	return false
}

// stmts processes a statement list, expanding transformable literal calls.
func (d *delit) stmts(list []ast.Stmt) []ast.Stmt {
	var out []ast.Stmt
	for _, s := range list {
		out = append(out, d.stmt(s)...)
	}
	return out
}

func (d *delit) block(b *ast.BlockStmt) {
	if b != nil {
		b.List = d.stmts(b.List)
	}
}

// breakable processes a for/switch/select statement; if a rewritten `if` inside it needed to turn a plain
// `break` into a labelled one, the statement gets a label.
func (d *delit) breakable(s ast.Stmt, label string, body func()) ast.Stmt {
	ctx := &brkCtx{label: label}
	d.brk = append(d.brk, ctx)
	body()
	d.brk = d.brk[:len(d.brk)-1]
	if ctx.needed && label == "" {
		return &ast.LabeledStmt{Label: ident(ctx.label), Stmt: s}
	}
	return s
}

// relabelBreaks turns the plain `break`s of stmts that target the enclosing breakable statement into labelled ones.
func (d *delit) relabelBreaks(list []ast.Stmt) bool {
	var fix func(s ast.Stmt) bool
	okAll := true
	fix = func(s ast.Stmt) bool {
		switch t := s.(type) {
		case *ast.BranchStmt:
			if t.Tok == token.BREAK && t.Label == nil {
				if len(d.brk) == 0 {
					okAll = false
					return false
				}
				c := d.brk[len(d.brk)-1]
				if c.label == "" {
					c.label = d.fresh("B")
				}
				c.needed = true
				t.Label = ident(c.label)
			}
		case *ast.BlockStmt:
			for _, x := range t.List {
				fix(x)
			}
		case *ast.IfStmt:
			fix(t.Body)
			if t.Else != nil {
				fix(t.Else)
			}
		case *ast.LabeledStmt:
			fix(t.Stmt)
		case *ast.CaseClause, *ast.CommClause, *ast.ForStmt, *ast.RangeStmt, *ast.SwitchStmt, *ast.TypeSwitchStmt, *ast.SelectStmt:
			// a plain break inside these targets them, not the outer statement
		}
		return true
	}
	for _, s := range list {
		fix(s)
	}
	return okAll
}

// callsInOrder appends to *out the slots of the calls evaluated by *e, in evaluation order (Go evaluates
// function calls, method calls and conversions' operands in lexical left-to-right order; a call's function and
// argument expressions are evaluated before the call itself).  It returns true (stop) when it meets an operand
// that is only conditionally evaluated (right side of && / ||) and contains a call, or a channel receive:
// nothing after that point may be moved in front of the statement.  soleArg marks calls that are the only
// argument of another call (they may be multi-valued and cannot be bound to one temporary).
func (d *delit) callsInOrder(e *ast.Expr, out *[]*ast.Expr, soleArg map[*ast.Expr]bool) (stop bool) {
	switch t := (*e).(type) {
	case nil:
		return false
	case *ast.ParenExpr:
		return d.callsInOrder(&t.X, out, soleArg)
	case *ast.SelectorExpr:
		return d.callsInOrder(&t.X, out, soleArg)
	case *ast.StarExpr:
		return d.callsInOrder(&t.X, out, soleArg)
	case *ast.UnaryExpr:
		if t.Op == token.ARROW {
			return true
		}
		return d.callsInOrder(&t.X, out, soleArg)
	case *ast.TypeAssertExpr:
		return d.callsInOrder(&t.X, out, soleArg)
	case *ast.IndexExpr:
		return d.callsInOrder(&t.X, out, soleArg) || d.callsInOrder(&t.Index, out, soleArg)
	case *ast.SliceExpr:
		return d.callsInOrder(&t.X, out, soleArg) || d.callsInOrder(&t.Low, out, soleArg) || d.callsInOrder(&t.High, out, soleArg) || d.callsInOrder(&t.Max, out, soleArg)
	case *ast.BinaryExpr:
		if d.callsInOrder(&t.X, out, soleArg) {
			return true
		}
		if t.Op == token.LAND || t.Op == token.LOR {
			return containsCall(t.Y)
		}
		return d.callsInOrder(&t.Y, out, soleArg)
	case *ast.KeyValueExpr:
		if _, isIdent := t.Key.(*ast.Ident); !isIdent {
			if d.callsInOrder(&t.Key, out, soleArg) {
				return true
			}
		}
		return d.callsInOrder(&t.Value, out, soleArg)
	case *ast.CompositeLit:
		for i := range t.Elts {
			if d.callsInOrder(&t.Elts[i], out, soleArg) {
				return true
			}
		}
		return false
	case *ast.CallExpr:
		if fl, _ := d.iife(t); fl != nil {
			*out = append(*out, e)
			return false
		}
		if _, isLit := ast.Unparen(t.Fun).(*ast.FuncLit); !isLit {
			if d.callsInOrder(&t.Fun, out, soleArg) {
				return true
			}
		}
		for i := range t.Args {
			if len(t.Args) == 1 {
				if _, isCall := ast.Unparen(t.Args[i]).(*ast.CallExpr); isCall {
					soleArg[&t.Args[i]] = true
				}
			}
			if d.callsInOrder(&t.Args[i], out, soleArg) {
				return true
			}
		}
		*out = append(*out, e)
		return false
	}
	return false
}

func containsCall(e ast.Expr) bool {
	found := false
	ast.Inspect(e, func(n ast.Node) bool {
		switch t := n.(type) {
		case *ast.FuncLit:
			return false
		case *ast.CallExpr:
			found = true
		case *ast.UnaryExpr:
			if t.Op == token.ARROW {
				found = true
			}
		}
		return !found
	})
	return found
}

// hoistFirst moves the new literal calls of the given expression slots (listed in evaluation order) in front of
// the statement, replacing each by a temporary.  Calls evaluated before such a literal call are moved too (each
// bound to a temporary, in order), so the order of all calls is exactly the original one.
func (d *delit) hoistFirst(slots []*ast.Expr) (pre []ast.Stmt) {
	for iter := 0; iter < 8; iter++ {
		var calls []*ast.Expr
		soleArg := map[*ast.Expr]bool{}
		for _, e := range slots {
			if d.callsInOrder(e, &calls, soleArg) {
				break
			}
		}
		k := -1
		for i, c := range calls {
			if fl, _ := d.iife(*c); fl != nil && resultCount(fl) == 1 && !soleArg[c] {
				k = i
				break
			}
		}
		if k < 0 {
			return pre
		}
		// everything evaluated before it must be bindable to a temporary
		for _, c := range calls[:k] {
			if fl, _ := d.iife(*c); fl != nil || soleArg[c] || !bindable(*c) {
				return pre
			}
		}
		for _, c := range calls[:k] {
			tn := d.fresh("H")
			pre = append(pre, &ast.AssignStmt{Lhs: []ast.Expr{ident(tn)}, Tok: token.DEFINE, Rhs: []ast.Expr{*c}},
				&ast.AssignStmt{Lhs: []ast.Expr{ident("_")}, Tok: token.ASSIGN, Rhs: []ast.Expr{ident(tn)}})
			*c = ident(tn)
		}
		slot := calls[k]
		fl, c := d.iife(*slot)
		p, temps, ok := d.valueForm(fl, c)
		if !ok || len(temps) != 1 {
			return pre
		}
		d.changed++
		pre = append(pre, p...)
		*slot = temps[0]
	}
	return pre
}

// bindable: a call whose single result can be given to `tmp := call` (not a void builtin).
func bindable(e ast.Expr) bool {
	c, ok := ast.Unparen(e).(*ast.CallExpr)
	if !ok {
		return false
	}
	if id, ok := c.Fun.(*ast.Ident); ok {
		switch id.Name {
		case "panic", "delete", "close", "print", "println", "clear":
			return false
		}
	}
	return true
}

func exprSlots(xs []ast.Expr) []*ast.Expr {
	var out []*ast.Expr
	for i := range xs {
		out = append(out, &xs[i])
	}
	return out
}

func (d *delit) stmt(s ast.Stmt) []ast.Stmt {
	// general case: a single-result literal call that is the first call the statement evaluates
	switch t := s.(type) {
	case *ast.ExprStmt:
		if fl, _ := d.iife(t.X); fl == nil {
			if pre := d.hoistFirst([]*ast.Expr{&t.X}); pre != nil {
				return append(pre, s)
			}
		}
	case *ast.AssignStmt:
		simple := true
		for _, l := range t.Lhs {
			simple = simple && simpleLHS(l)
		}
		direct := false
		if len(t.Rhs) == 1 {
			fl, _ := d.iife(t.Rhs[0])
			direct = fl != nil
		}
		if simple && !direct && (t.Tok == token.ASSIGN || t.Tok == token.DEFINE) {
			if pre := d.hoistFirst(exprSlots(t.Rhs)); pre != nil {
				return append(pre, s)
			}
		}
	case *ast.ReturnStmt:
		direct := false
		if len(t.Results) == 1 {
			fl, _ := d.iife(t.Results[0])
			direct = fl != nil
		}
		if !direct {
			if pre := d.hoistFirst(exprSlots(t.Results)); pre != nil {
				return []ast.Stmt{&ast.BlockStmt{List: append(pre, s)}}
			}
		}
	case *ast.RangeStmt:
		if pre := d.hoistFirst([]*ast.Expr{&t.X}); pre != nil {
			return []ast.Stmt{&ast.BlockStmt{List: append(pre, d.breakableStmt(s, ""))}}
		}
	case *ast.SwitchStmt:
		if t.Init == nil && t.Tag != nil {
			if pre := d.hoistFirst([]*ast.Expr{&t.Tag}); pre != nil {
				return []ast.Stmt{&ast.BlockStmt{List: append(pre, d.breakableStmt(s, ""))}}
			}
		}
	}
	switch t := s.(type) {
	case *ast.ExprStmt:
		if fl, c := d.iife(t.X); fl != nil {
			if pre, _, ok := d.valueForm(fl, c); ok {
				d.changed++
				return pre
			}
		}
	case *ast.AssignStmt:
		if len(t.Rhs) == 1 && (t.Tok == token.ASSIGN || t.Tok == token.DEFINE) {
			if fl, c := d.iife(t.Rhs[0]); fl != nil && resultCount(fl) == len(t.Lhs) {
				simple := true
				for _, l := range t.Lhs {
					simple = simple && simpleLHS(l)
				}
				if simple {
					if pre, temps, ok := d.valueForm(fl, c); ok {
						d.changed++
						t.Rhs = temps
						return append(pre, t)
					}
				}
			}
		}
	case *ast.ReturnStmt:
		if len(t.Results) == 1 {
			if fl, c := d.iife(t.Results[0]); fl != nil && resultCount(fl) >= 1 {
				if pre, temps, ok := d.valueForm(fl, c); ok {
					d.changed++
					t.Results = temps
					return []ast.Stmt{&ast.BlockStmt{List: append(pre, t)}}
				}
			}
		}
	case *ast.DeclStmt:
		if gd, ok := t.Decl.(*ast.GenDecl); ok && gd.Tok == token.VAR && len(gd.Specs) == 1 {
			if vs, ok := gd.Specs[0].(*ast.ValueSpec); ok && len(vs.Values) == 1 {
				if fl, c := d.iife(vs.Values[0]); fl != nil && resultCount(fl) == len(vs.Names) {
					if pre, temps, ok := d.valueForm(fl, c); ok {
						d.changed++
						vs.Values = temps
						return append(pre, t)
					}
				}
			}
		}
	case *ast.BlockStmt:
		d.block(t)
	case *ast.LabeledStmt:
		switch inner := t.Stmt.(type) {
		case *ast.ForStmt, *ast.RangeStmt, *ast.SwitchStmt, *ast.TypeSwitchStmt, *ast.SelectStmt:
			t.Stmt = d.breakableStmt(inner, t.Label.Name)
			return []ast.Stmt{t}
		}
		r := d.stmt(t.Stmt)
		if len(r) == 1 {
			t.Stmt = r[0]
		} else {
			t.Stmt = &ast.BlockStmt{List: r}
		}
		return []ast.Stmt{t}
	case *ast.ForStmt, *ast.RangeStmt, *ast.SwitchStmt, *ast.TypeSwitchStmt, *ast.SelectStmt:
		return []ast.Stmt{d.breakableStmt(s, "")}
	case *ast.IfStmt:
		return []ast.Stmt{d.ifStmt(t)}
	}
	return []ast.Stmt{s}
}

func (d *delit) breakableStmt(s ast.Stmt, label string) ast.Stmt {
	return d.breakable(s, label, func() {
		switch t := s.(type) {
		case *ast.ForStmt:
			d.block(t.Body)
		case *ast.RangeStmt:
			d.block(t.Body)
		case *ast.SwitchStmt:
			d.clauses(t.Body)
		case *ast.TypeSwitchStmt:
			d.clauses(t.Body)
		case *ast.SelectStmt:
			d.clauses(t.Body)
		}
	})
}

func (d *delit) clauses(b *ast.BlockStmt) {
	for _, c := range b.List {
		switch cc := c.(type) {
		case *ast.CaseClause:
			cc.Body = d.stmts(cc.Body)
		case *ast.CommClause:
			cc.Body = d.stmts(cc.Body)
		}
	}
}

func (d *delit) ifStmt(t *ast.IfStmt) ast.Stmt {
	// `if x, ok := f(); cond`: a literal call in the init statement is expanded in front, inside a block that
	// keeps the scope of the init's variables
	if t.Init != nil {
		if r := d.stmt(t.Init); len(r) > 1 {
			t.Init = nil
			return &ast.BlockStmt{List: append(r, d.ifStmt(t))}
		}
	}
	d.block(t.Body)
	var elseList []ast.Stmt
	switch e := t.Else.(type) {
	case *ast.BlockStmt:
		d.block(e)
		elseList = e.List
	case *ast.IfStmt:
		r := d.ifStmt(e)
		t.Else = r
		if _, still := r.(*ast.IfStmt); !still {
			// an if statement became a block
			t.Else = &ast.BlockStmt{List: []ast.Stmt{r}}
		}
		elseList = []ast.Stmt{r}
	}
	if !hasIIFE(d, t.Cond) {
		// a literal call evaluated first inside the condition (e.g. `if f(…).x == y`)
		if pre := d.hoistFirst([]*ast.Expr{&t.Cond}); pre != nil {
			var res []ast.Stmt
			if t.Init != nil {
				res = append(res, t.Init)
				t.Init = nil
			}
			return &ast.BlockStmt{List: append(append(res, pre...), t)}
		}
		return t
	}
	// plain breaks in the branches would be captured by the switches introduced below
	if !d.relabelBreaks(t.Body.List) || !d.relabelBreaks(elseList) {
		return t
	}
	lt, lf, le := d.fresh("T"), d.fresh("F"), d.fresh("E")
	inner := lswitch(lt, d.cond(t.Cond, lt, lf))
	var res []ast.Stmt
	if t.Init != nil {
		res = append(res, t.Init)
	}
	if t.Else == nil {
		res = append(res, lswitch(lf, append([]ast.Stmt{inner}, t.Body.List...)))
	} else {
		fbody := append([]ast.Stmt{inner}, t.Body.List...)
		fbody = append(fbody, brkTo(le))
		ebody := append([]ast.Stmt{lswitch(lf, fbody)}, elseList...)
		res = append(res, lswitch(le, ebody))
	}
	return &ast.BlockStmt{List: res}
}

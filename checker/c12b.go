package main

import (
	"fmt"
	"go/types"
	"strings"
)

// c12R7: the buffering writer (templates, markdown, … wrap the rest of the chain in it) as a decision table (E10).
// A ResponseBuffer made by the code's own constructor, with the buffer-or-stream decision an oracle, receives an
// optional explicit header and then its body through Write or through ReadFrom.  Streaming: the client gets the
// header once, with the status written (200 by default), and every body byte; nothing goes to the buffer.
// Buffering: the client gets nothing yet; every body byte is in the buffer.
func c12R7(h H) {
	r := h.r
	r.Rule("R7", "the buffering response writer as a decision table (E10): a ResponseBuffer made by NewResponseBuffer, for the decision buffer / stream, with and without an explicit WriteHeader(418), and the body arriving through Write or through ReadFrom: when streaming the wrapped writer receives the header exactly once with the right status and then the body, and the buffer nothing; when buffering the buffer receives the body and the wrapped writer nothing; Buffered() answers true exactly when the response is held back, also for a header-only response", 1)
	mk := h.fn("R7", hs, "NewResponseBuffer")
	wh := h.fn("R7", hs, "(*ResponseBuffer).WriteHeader")
	wr := h.fn("R7", hs, "(*ResponseBuffer).Write")
	rf := h.fn("R7", hs, "(*ResponseBuffer).ReadFrom")
	bf := h.fn("R7", hs, "(*ResponseBuffer).Buffered")
	if mk == nil || wh == nil || wr == nil || rf == nil || bf == nil {
		return
	}
	hdrT, _ := types.Unalias(h.p.typeByName("net/http", "Header")).Underlying().(*types.Map)
	bad, n := "", 0
	for _, stream := range []bool{true, false} {
		for _, explicit := range []bool{false, true} {
			for _, via := range []string{"Write", "ReadFrom", "nothing (a header-only response)"} {
				if via[0] == 'n' && !explicit {
					continue
				}
				n++
				desc := fmt.Sprintf("decision stream=%v, explicit WriteHeader(418)=%v, body through %s", stream, explicit, via)
				under := &aobj{name: "wrapped writer", typ: types.Typ[types.Int], f: map[string]aval{}}
				buffer := &aobj{name: "buffer", typ: types.Typ[types.Int], f: map[string]aval{}}
				var toClient, toBuffer int64
				var headers []int64
				clientHdr := amap{&amapData{vals: map[string]aval{}, keys: map[string]aval{}, typ: hdrT}}
				who := func(v aval) *aobj {
					if i, ok := v.(aiface); ok {
						v = i.val
					}
					if p, ok := v.(aptr); ok {
						return p.obj
					}
					return nil
				}
				size := func(v aval) int64 {
					if sl, ok := v.(avals); ok {
						return int64(len(sl.cells))
					}
					return 0
				}
				var wrapper *aobj
				env := &absEnv{noFork: true, maxSteps: 200000, globals: map[string]*aobj{}}
				env.ext = func(callee string, args []aval) (aval, bool) {
					switch {
					case callee == "callback:shouldBuffer":
						return abool(!stream), true
					case callee == "invoke:Header":
						return clientHdr, true
					case callee == "invoke:WriteHeader":
						if who(args[0]) == under {
							if v, ok := args[len(args)-1].(aint); ok {
								headers = append(headers, int64(v))
							}
							return atuple{}, true
						}
					case callee == "invoke:Write":
						if who(args[0]) == under {
							toClient += size(args[len(args)-1])
							return atuple{aint(size(args[len(args)-1])), anil{}}, true
						}
					case callee == "(*bytes.Buffer).Len":
						return aint(toBuffer), true
					case callee == "(*bytes.Buffer).Write":
						toBuffer += size(args[1])
						return atuple{aint(size(args[1])), anil{}}, true
					case callee == "(*bytes.Buffer).ReadFrom":
						toBuffer += 7
						return atuple{aint(7), anil{}}, true
					case callee == "io.Copy", callee == "io.CopyBuffer":
						// the library copies 7 bytes into the destination
						d := who(args[0])
						if d == under || (wrapper != nil && d == wrapper) {
							toClient += 7
						} else if d == buffer {
							toBuffer += 7
						} else if d != nil {
							if ww, ok := d.f["ResponseWriter"]; ok && who(ww) == under {
								wrapper = d
								toClient += 7
							}
						}
						return atuple{aint(7), anil{}}, true
					case strings.HasSuffix(callee, "sync.Pool).Get"):
						return aiface{newVals([]aval{aint(0)}, types.Typ[types.Uint8]), types.NewSlice(types.Typ[types.Uint8])}, true
					case strings.HasSuffix(callee, "sync.Pool).Put"):
						return atuple{}, true
					}
					return nil, false
				}
				rv, und := env.run(mk, []aval{aptr{buffer, ""}, aiface{aptr{under, ""}, types.Typ[types.Int]}, acb{"shouldBuffer"}})
				rb, ok := rv.(aptr)
				if und != "" || !ok {
					bad = desc + ": NewResponseBuffer: " + und + " " + describeAval(rv)
					break
				}
				if explicit {
					if _, und := env.run(wh, []aval{rb, aint(418)}); und != "" {
						bad = desc + ": WriteHeader undecided — " + und
						break
					}
				}
				want := int64(3)
				if via[0] == 'n' {
					want = 0
				} else if via == "Write" {
					buf := newVals([]aval{aint(1), aint(2), aint(3)}, types.Typ[types.Uint8])
					_, und = env.run(wr, []aval{rb, buf})
				} else {
					want = 7
					src := aiface{aptr{&aobj{name: "source", typ: types.Typ[types.Int], f: map[string]aval{}}, ""}, types.Typ[types.Int]}
					_, und = env.run(rf, []aval{rb, src})
				}
				if und != "" {
					bad = desc + ": " + via + " undecided — " + und
					break
				}
				wantStatus := int64(200)
				if explicit {
					wantStatus = 418
				}
				switch {
				case stream && (len(headers) != 1 || headers[0] != wantStatus):
					bad = fmt.Sprintf("%s: the wrapped writer was sent the headers %v, specification says [%d]", desc, headers, wantStatus)
				case stream && (toClient != want || toBuffer != 0):
					bad = fmt.Sprintf("%s: %d bytes reach the client and %d the buffer, specification says %d and 0", desc, toClient, toBuffer, want)
				case !stream && (len(headers) != 0 || toClient != 0 || toBuffer != want):
					bad = fmt.Sprintf("%s: headers sent %v, %d bytes reach the client and %d the buffer; specification: nothing is sent yet and the buffer holds the %d bytes", desc, headers, toClient, toBuffer, want)
				}
				if bad == "" {
					// what the caller is told: "held back" exactly when the decision was to buffer — also for a response
					// that consists of a header only (a redirect, a 410): told "not buffered", the caller takes it for sent
					// and the held-back status and header are lost
					bv, und := env.run(bf, []aval{rb})
					if b, ok := bv.(abool); und != "" || !ok {
						bad = desc + ": Buffered() undecided — " + und + " " + describeAval(bv)
					} else if bool(b) == stream {
						bad = fmt.Sprintf("%s: Buffered() answers %v; the response %s", desc, bool(b), map[bool]string{true: "was streamed to the client", false: "is held back, and a caller told otherwise never sends its status and header"}[stream])
					}
				}
				if bad != "" {
					break
				}
			}
			if bad != "" {
				break
			}
		}
		if bad != "" {
			break
		}
	}
	r.Check(bad == "", "R7", "httpserver.(*ResponseBuffer)/stream-or-buffer-table", wr.Pos(), "what a handler writes into the buffering writer is delivered once: to the client when streaming, to the buffer when buffering", fmt.Sprintf("%d scenarios evaluated", n), bad)
}

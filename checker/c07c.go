package main

import (
	"go/types"
	"sort"

	"golang.org/x/tools/go/ssa"
)

// c07R8: the key under which a listening socket is handed over does not change after construction.  Restart files
// the old instance's sockets under GracefulServer.Address() of the *running* servers and startServers looks each new
// server up under Address() of a server that has *not listened yet*: the two agree only if Address() is a function of
// the configuration alone.  For every module implementation of GracefulServer.Address, every struct field the method
// reads may be stored only into a value under construction in the storing function (a composite literal or new(T)) —
// a store through a pointer that came from elsewhere (the receiver of Listen, Serve, ...) rewrites the key of a live
// server, and the next reload binds a fresh socket and closes the one clients are connected to.
func c07R8(h H) {
	r := h.r
	r.Rule("R8", "the hand-over key is fixed at construction: every struct field read by a module implementation of GracefulServer.Address() is stored only into a value that the storing function itself is constructing (composite literal / new) — never through a pointer to a live server, so the address a running server files its socket under equals the address the next configuration's server looks it up under", 2)
	pkg := h.p.Pkg("")
	if pkg == nil {
		r.Unresolve("R8", "package casket not found")
		return
	}
	obj := pkg.Pkg.Scope().Lookup("GracefulServer")
	if obj == nil {
		r.Unresolve("R8", "casket.GracefulServer not found")
		return
	}
	iface, _ := obj.Type().Underlying().(*types.Interface)
	if iface == nil {
		r.Unresolve("R8", "casket.GracefulServer is not an interface")
		return
	}
	fields := map[*types.Var]string{}
	nImpl := 0
	for _, f := range h.p.implementers(iface, "Address") {
		if len(f.Blocks) == 0 || f.Synthetic != "" {
			continue
		}
		nImpl++
		for _, g := range withCalleesInModule(h.p, f, 3) {
			allInstrs(g, func(in ssa.Instruction) {
				var x ssa.Value
				var idx int
				switch v := in.(type) {
				case *ssa.FieldAddr:
					x, idx = v.X, v.Field
				case *ssa.Field:
					x, idx = v.X, v.Field
				default:
					return
				}
				if st, ok := underlying(derefType(x.Type())).(*types.Struct); ok {
					fields[st.Field(idx)] = f.String()
				}
			})
		}
	}
	if nImpl == 0 {
		r.Unresolve("R8", "no module implementation of GracefulServer.Address found")
		return
	}
	type site struct {
		pos  string
		ok   bool
		key  string
		what string
		in   ssa.Instruction
	}
	var sites []site
	for _, g := range h.p.ModFuncs() {
		n := 0
		allInstrs(g, func(in ssa.Instruction) {
			st, ok := in.(*ssa.Store)
			if !ok {
				return
			}
			fa, ok := st.Addr.(*ssa.FieldAddr)
			if !ok {
				return
			}
			s, ok := underlying(derefType(fa.X.Type())).(*types.Struct)
			if !ok {
				return
			}
			fld := s.Field(fa.Field)
			if _, ok := fields[fld]; !ok {
				return
			}
			n++
			// base of the field chain
			var base ssa.Value = fa.X
			for {
				if b, ok := base.(*ssa.FieldAddr); ok {
					base = b.X
					continue
				}
				break
			}
			_, fresh := base.(*ssa.Alloc)
			sites = append(sites, site{h.p.Pos(in.Pos()), fresh, sprintf("%s/store-%s#%d", shortFunc(g), fld.Name(), n), "", in})
		})
	}
	sort.Slice(sites, func(i, j int) bool { return sites[i].key < sites[j].key })
	for _, s := range sites {
		why := ""
		if !s.ok {
			why = "the field is part of what Address() returns and is stored here through a pointer to an existing server: after this store the running server's socket is filed under another address than the one the next configuration asks for, so a reload opens a new socket and closes the served one"
		}
		r.Check(s.ok, "R8", s.key, s.in.Pos(), "a field Address() reads is stored only while the server is being constructed", why)
	}
	if len(sites) == 0 {
		r.Unresolve("R8", "no store to any field read by Address() found")
	}
}

// withCalleesInModule: f and the module functions it calls statically, to the given depth.
func withCalleesInModule(p *Program, f *ssa.Function, depth int) []*ssa.Function {
	seen := map[*ssa.Function]bool{f: true}
	out := []*ssa.Function{f}
	frontier := []*ssa.Function{f}
	mod := map[*ssa.Function]bool{}
	for _, g := range p.ModFuncs() {
		mod[g] = true
	}
	for d := 0; d < depth; d++ {
		var next []*ssa.Function
		for _, g := range frontier {
			allInstrs(g, func(in ssa.Instruction) {
				if c, ok := in.(ssa.CallInstruction); ok {
					if cal := c.Common().StaticCallee(); cal != nil && mod[cal] && !seen[cal] {
						seen[cal] = true
						out = append(out, cal)
						next = append(next, cal)
					}
				}
			})
		}
		frontier = next
	}
	return out
}

package main

// E6: load-time effect inventory.  From the configuration-load entry points
// (every registered directive Action, parsing callbacks, the start path up to
// but not into the serving goroutines) enumerate process-lasting effects that
// are NOT inside closures handed to lifecycle registrars: goroutine starts,
// writes to package-level state, listeners, tickers, files.

import (
	"go/types"
	"sort"
	"strings"

	"golang.org/x/tools/go/ssa"
)

type effect struct {
	Fn   *ssa.Function
	In   ssa.Instruction
	Kind string // go | global-write | global-map-write | listen | ticker | file | syncmap-store | cas
	What string // stable description of the target
}

var effectAPIs = map[string]string{
	"net.Listen": "listen", "net.ListenPacket": "listen", "net.ListenUDP": "listen", "net.ListenTCP": "listen", "net.ListenUnix": "listen",
	"time.NewTicker": "ticker", "time.Tick": "ticker", "time.AfterFunc": "timer",
	"os.OpenFile": "file", "os.Create": "file",
	"(*sync.Map).Store": "syncmap-store", "(*sync.Map).LoadOrStore": "syncmap-store", "(*sync.Map).Delete": "syncmap-store",
	"sync/atomic.CompareAndSwapInt32": "cas", "sync/atomic.CompareAndSwapInt64": "cas", "sync/atomic.StoreInt32": "cas",
}

// setupReach: functions reachable at configuration-load time from roots:
// static calls, immediately invoked closures, closures passed to
// OncePerServerBlock; not closures merely created (they run later).
func setupReach(p *Program, roots []*ssa.Function) map[*ssa.Function]bool {
	seen := map[*ssa.Function]bool{}
	work := append([]*ssa.Function{}, roots...)
	for len(work) > 0 {
		f := work[len(work)-1]
		work = work[:len(work)-1]
		if f == nil || seen[f] || len(f.Blocks) == 0 || !isModFunc(f) {
			continue
		}
		seen[f] = true
		allInstrs(f, func(in ssa.Instruction) {
			if _, isGo := in.(*ssa.Go); isGo {
				return // recorded as an effect; its body runs concurrently, not as part of the load
			}
			c := callOf(in)
			if c == nil {
				return
			}
			if c.IsInvoke() {
				// module interface implementers (e.g. casket.Context.MakeServers, ServerType hooks)
				if it, ok := c.Value.Type().Underlying().(*types.Interface); ok {
					if named, ok := c.Value.Type().(*types.Named); ok && named.Obj().Pkg() != nil && isModPkg(named.Obj().Pkg().Path()) {
						if named.Obj().Name() == "Handler" {
							return
						}
						for _, g := range p.implementers(it, c.Method.Name()) {
							work = append(work, g)
						}
					}
				}
				return
			}
			if g := calleeFunc(c); g != nil {
				work = append(work, g)
			}
			// closures passed as arguments to functions that run them during setup
			if f2 := c.StaticCallee(); f2 != nil && (f2.Name() == "OncePerServerBlock" || f2.Name() == "Do") {
				for _, a := range c.Args {
					if mc, ok := a.(*ssa.MakeClosure); ok {
						work = append(work, mc.Fn.(*ssa.Function))
					}
				}
			}
			// calls through a function-typed field OncePerServerBlock
			if readsField(c.Value, "OncePerServerBlock") {
				for _, a := range c.Args {
					if mc, ok := a.(*ssa.MakeClosure); ok {
						work = append(work, mc.Fn.(*ssa.Function))
					}
				}
			}
		})
	}
	return seen
}

func collectEffects(p *Program, fns map[*ssa.Function]bool) []effect {
	var out []effect
	for f := range fns {
		allInstrs(f, func(in ssa.Instruction) {
			switch t := in.(type) {
			case *ssa.Go:
				out = append(out, effect{f, in, "go", goSig(in)})
				return
			case *ssa.Store:
				if g, ok := rootOf(t.Addr).(*ssa.Global); ok && g.Pkg != nil && isModPkg(g.Pkg.Pkg.Path()) {
					if g.Name() == "init$guard" {
						return
					}
					out = append(out, effect{f, in, "global-write", g.Pkg.Pkg.Name() + "." + g.Name()})
				}
				return
			case *ssa.MapUpdate:
				if g := globalRoot(t.Map); g != nil {
					out = append(out, effect{f, in, "global-map-write", g.Pkg.Pkg.Name() + "." + g.Name()})
				}
				return
			}
			if c := callOf(in); c != nil {
				if k, ok := effectAPIs[calleeName(c)]; ok {
					what := calleeName(c)
					if len(c.Args) > 0 {
						if g := globalRoot(c.Args[0]); g != nil {
							what += "@" + g.Pkg.Pkg.Name() + "." + g.Name()
						}
					}
					out = append(out, effect{f, in, k, what})
				}
			}
		})
	}
	return out
}

func globalRoot(v ssa.Value) *ssa.Global {
	seen := 0
	for seen < 8 {
		seen++
		switch t := v.(type) {
		case *ssa.Global:
			if t.Pkg != nil && isModPkg(t.Pkg.Pkg.Path()) {
				return t
			}
			return nil
		case *ssa.UnOp:
			v = t.X
		case *ssa.FieldAddr:
			v = t.X
		case *ssa.IndexAddr:
			v = t.X
		case *ssa.Lookup:
			v = t.X
		default:
			return nil
		}
	}
	return nil
}

func effectKey(e effect) string {
	return outerFunc(e.Fn) + "/" + e.Kind + ":" + strings.ReplaceAll(e.What, " ", "")
}

// goSig names a goroutine start stably: a named callee by its name, an
// anonymous body by the distinct callees it invokes (closure ordinals shift
// whenever an unrelated closure is added to the enclosing function).
func goSig(in ssa.Instruction) string {
	c := callOf(in)
	f := calleeFunc(c)
	if f == nil || f.Parent() == nil {
		return shortCallee(in)
	}
	set := map[string]bool{}
	for _, g := range withClosures(f) {
		allInstrs(g, func(x ssa.Instruction) {
			cc := callOf(x)
			if cc == nil {
				return
			}
			if cc.IsInvoke() {
				set[cc.Method.Name()] = true
				return
			}
			if sf := cc.StaticCallee(); sf != nil && sf.Parent() == nil {
				n := shortFunc(sf)
				if !strings.HasPrefix(n, "log.") && !strings.HasPrefix(n, "fmt.") {
					set[n] = true
				}
			}
		})
	}
	var names []string
	for n := range set {
		names = append(names, n)
	}
	sort.Strings(names)
	if len(names) > 4 {
		names = names[:4]
	}
	return "func{" + strings.Join(names, ",") + "}"
}

package main

import (
	"sort"
	"strings"

	"golang.org/x/tools/go/ssa"
)

func init() {
	register("C11", &propSpec{
		technique: "static analysis: panic-freedom obligations over every function reachable from a registered directive setup (compiler prove pass + guard prover + premise-checked exceptions), loop progress, lock pairing, guard analysis of justValidate, nil-guard discipline of exported helpers",
		run:       runC11,
		decided: "R1 every index, slice, division, unchecked type assertion and explicit panic in code reachable from any in-repository directive's setup function or parsing callback is shown safe; " +
			"R2 every loop in that code consumes a token per cycle or has a verified ranking function, and every lock it takes is released on all exits; " +
			"R3 validation and a real start run exactly the same setup calls: justValidate guards only the throw-away instance and the parsing callbacks; " +
			"R4 exported helper functions of the setup path that dereference a pointer parameter either test it for nil first or are only ever given freshly allocated values.",
		notDecided: "acceptance/rejection of every spelling (semantic validation); OS effects of valid configurations; nil dereferences other than R4's pattern; panics inside library callees.",
	})
}

func c11Scope(p *Program) []*ssa.Function {
	roots := loadRoots(p)
	// only the directive actions and parsing callbacks (not Start/Restart themselves)
	var rs []*ssa.Function
	for _, f := range roots {
		n := shortFunc(f)
		if n == "casket.Start" || n == "(*casket.Instance).Restart" || n == "casket.startWithListenerFds" {
			continue
		}
		rs = append(rs, f)
	}
	fns := setupReach(p, rs)
	var out []*ssa.Function
	for f := range fns {
		out = append(out, f)
		out = append(out, anonsRunAtSetup(f)...)
	}
	sort.Slice(out, func(i, j int) bool { return out[i].Pos() < out[j].Pos() })
	return out
}

// anonsRunAtSetup: closures of f that are invoked during setup (immediately called or passed to OncePerServerBlock) are
// already followed by setupReach; nothing to add.
func anonsRunAtSetup(f *ssa.Function) []*ssa.Function { return nil }

var httpCtx = []string{"returns:httpserver.newContext=*httpserver.httpContext"}

var c11Exceptions = map[string]e5Exception{
	"casket.parseWindowsCommand|slice:part[:len(part)-1]": {"lastRune == '\\' means the previous byte of cmd was a backslash, which the backslash branch appended to part (and continued) in the previous iteration; nothing empties part in between, so len(part) >= 1", []string{"guard:(φ(lastRune) == 92)=true"}},
	"casket.RegisterEventHook|panic":                       {"panics only for an empty or duplicate hook name; the single setup caller passes \"on-\"+<fresh UUID>", []string{"only-caller:onevent.setup", "caller-arg:\"on-\"+"}},
	"httpserver.hideCasketfile|assert:*httpserver.httpContext": {"parsing callbacks of server type http receive the context made by httpserver.newContext", httpCtx},
	"httpserver.activateHTTPS|assert:*httpserver.httpContext":  {"as above", httpCtx},
	"httpserver.GetConfig|assert:*httpserver.httpContext":      {"GetConfig is only meaningful for directives of server type http, whose controllers carry the context made by httpserver.newContext", httpCtx},
	"httpserver.ParseRoller|index:where[0]": {"the early return rejects len(where) != 1 for every directive other than rotate_compress/rotate_disable, and this site excludes those two", []string{"guard:(what != \"rotate_compress\")=true", "guard:(what != \"rotate_disable\")=true"}},
	"httpserver.hostHasOtherPort|index:allConfigs[thisConfigIdx]": {"the only caller passes the index of the range over the same slice (which only grows inside that loop)", []string{"only-caller:httpserver.makePlaintextRedirects"}},
	"fastcgi.parseSRV|slice:locator[6:]": {"called only when srvUpstream is set, i.e. the locator has the prefix srv:// (6 bytes) or srv+https://", []string{"only-caller:fastcgi.fastcgiParse"}},
	"proxy.parseUpstream|slice:u[len(us)+1:portsEnd]": {"us = u[:colonIdx] and u[colonIdx] == ':' so the first '/' at or after colonIdx is strictly after it: portsEnd >= colonIdx+1 = len(us)+1; otherwise portsEnd = len(u) > colonIdx", []string{"guard:(strings.LastIndex(u, \":\") == -1)=false"}},
	"proxy.NewStaticUpstreams|index:upstream.Hosts[i]": {"Hosts was made with len(to) right before the loop over to; the only call in between, NewHost, does not assign Hosts (its effects through foreign pointers cannot reach this field)", []string{"no-field-store:(*proxy.staticUpstream).NewHost=Hosts", "guard:< builtin.len(φ(to)))=true"}},
	"status.statusParse|assert:*status.Rule": {"the slice only ever receives *status.Rule values created in this function", []string{"elems:status.Rule"}},
}

func init() {
	for k, v := range c10Exceptions {
		c11Exceptions[k] = v
	}
}

func runC11(r *Report, p *Program) {
	h := H{r, p}
	r.Rule("R1", "panic-freedom of directive setup: obligations over every module function reachable (static calls, module interface implementers, immediately-run closures) from the Action of each in-repository directive, from every registered parsing callback and from ValidateAndExecuteDirectives; discharged by cmd/compile's prove pass, the guard prover, or a premise-checked exception", 40)
	scope := c11Scope(p)
	if len(scope) < 150 {
		r.Unresolve("R1", sprintf("only %d functions in the setup scope", len(scope)))
	}
	st := e5Check(h, "R1", scope, c11Exceptions)
	r.Extra["c11_e5"] = st
	r.Extra["c11_scope_functions"] = len(scope)
	_ = strings.TrimSpace
}

package main

import (
	"go/token"
	"go/types"
	"sort"
	"strings"

	"golang.org/x/tools/go/ssa"
)

func init() {
	register("C11", &propSpec{
		technique: "static analysis: panic-freedom obligations over every function reachable from a registered directive setup (compiler prove pass + guard prover + premise-checked exceptions), loop progress, lock pairing, guard analysis of justValidate, nil-guard discipline of exported helpers",
		run:       runC11,
		decided: "R1 every index, slice, division, unchecked type assertion and explicit panic in code reachable from any in-repository directive's setup function or parsing callback is shown safe; " +
			"R2 every loop in that code consumes a token per cycle or has a verified ranking function, and every lock it takes is released on all exits; " +
			"R3 validation and a real start run exactly the same setup calls: justValidate guards only the throw-away instance and the parsing callbacks; " +
			"R4 exported helper functions of the setup path that dereference a pointer parameter either test it for nil first or are only ever given freshly allocated values. Since round 4: R6 the error sources of every registered parsing callback (run only on a real start) are the confirmed environment failures. Since round 5: R3 along the executeDirectives traces (validation and start make the same setup calls). Since round 7: R8 every ticker period is positive by construction (a configured zero or negative interval must be refused when parsed).",
		notDecided: "acceptance/rejection of every spelling (semantic validation); OS effects of valid configurations; nil dereferences other than R4's pattern; panics inside library callees.",
	})
}

func c11Scope(p *Program) []*ssa.Function {
	roots := loadRoots(p)
	// only the directive actions and parsing callbacks (not Start/Restart themselves)
	var rs []*ssa.Function
	for _, f := range roots {
		n := shortFunc(f)
		if n == "casket.Start" || n == "(*casket.Instance).Restart" || n == "casket.startWithListenerFds" {
			continue
		}
		rs = append(rs, f)
	}
	fns := setupReach(p, rs)
	var out []*ssa.Function
	for f := range fns {
		out = append(out, f)
		out = append(out, anonsRunAtSetup(f)...)
	}
	sort.Slice(out, func(i, j int) bool { return out[i].Pos() < out[j].Pos() })
	return out
}

// anonsRunAtSetup: closures of f that are invoked during setup (immediately called or passed to OncePerServerBlock) are
// already followed by setupReach; nothing to add.
func anonsRunAtSetup(f *ssa.Function) []*ssa.Function { return nil }

var httpCtx = []string{"returns:httpserver.newContext=*httpserver.httpContext"}

var c11Exceptions = map[string]e5Exception{
	"casket.parseWindowsCommand|slice:part[:len(part)-1]":                         {"lastRune == '\\' means the previous byte of cmd was a backslash, which the backslash branch appended to part (and continued) in the previous iteration; nothing empties part in between, so len(part) >= 1", []string{"guard:(φ(lastRune) == 92)=true"}},
	"casket.RegisterEventHook|panic":                                              {"panics only for an empty or duplicate hook name; the single setup caller passes \"on-\"+<fresh UUID>", []string{"only-caller:onevent.setup", "caller-arg:\"on-\"+"}},
	"httpserver.hideCasketfile|assert:*httpserver.httpContext":                    {"parsing callbacks of server type http receive the context made by httpserver.newContext", httpCtx},
	"httpserver.activateHTTPS|assert:*httpserver.httpContext":                     {"as above", httpCtx},
	"httpserver.GetConfig|assert:*httpserver.httpContext":                         {"GetConfig is only meaningful for directives of server type http, whose controllers carry the context made by httpserver.newContext", httpCtx},
	"httpserver.ParseRoller|index:where[0]":                                       {"the early return rejects len(where) != 1 for every directive other than rotate_compress/rotate_disable, and this site excludes those two", []string{"guard:(what != \"rotate_compress\")=true", "guard:(what != \"rotate_disable\")=true"}},
	"httpserver.hostHasOtherPort|index:allConfigs[thisConfigIdx]":                 {"the only caller passes the index of the range over the same slice (which only grows inside that loop)", []string{"only-caller:httpserver.makePlaintextRedirects"}},
	"fastcgi.parseSRV|slice:locator[6:]":                                          {"called only when srvUpstream is set, i.e. the locator has the prefix srv:// (6 bytes) or srv+https://", []string{"only-caller:fastcgi.fastcgiParse"}},
	"proxy.parseUpstream|slice:u[len(u[:strings.LastIndex(u,\":\")])+1:portsEnd]": {"us = u[:colonIdx] and u[colonIdx] == ':' so the first '/' at or after colonIdx is strictly after it: portsEnd >= colonIdx+1 = len(us)+1; otherwise portsEnd = len(u) > colonIdx", []string{"guard:(strings.LastIndex(u, \":\") == -1)=false"}},
	"proxy.NewStaticUpstreams|index:upstream.Hosts[i]":                            {"Hosts was made with len(to) right before the loop over to; the only call in between, NewHost, does not assign Hosts (its effects through foreign pointers cannot reach this field)", []string{"no-field-store:(*proxy.staticUpstream).NewHost=Hosts", "guard:< builtin.len(φ(to)))=true"}},
	"status.statusParse|assert:*status.Rule":                                      {"the slice only ever receives *status.Rule values created in this function", []string{"elems:status.Rule"}},
}

func init() {
	for k, v := range c10Exceptions {
		c11Exceptions[k] = v
	}
}

func runC11(r *Report, p *Program) {
	h := H{r, p}
	r.Rule("R1", "panic-freedom of directive setup: obligations over every module function reachable (static calls, module interface implementers, immediately-run closures) from the Action of each in-repository directive, from every registered parsing callback and from ValidateAndExecuteDirectives; discharged by cmd/compile's prove pass, the guard prover, or a premise-checked exception", 40)
	scope := c11Scope(p)
	if len(scope) < 150 {
		r.Unresolve("R1", sprintf("only %d functions in the setup scope", len(scope)))
	}
	st := e5Check(h, "R1", scope, c11Exceptions)
	r.Extra["c11_e5"] = st
	r.Extra["c11_scope_functions"] = len(scope)
	// R2: loops and locks
	var nonParser []*ssa.Function
	for _, f := range scope {
		if pk := fnPkg(f); pk != nil && !strings.HasSuffix(pk.Path(), "/casketfile") {
			nonParser = append(nonParser, f)
		}
	}
	loopProgress(h, "R2", nonParser, 40)
	r.Rule("R2L", "no deadlock on the setup path: every mutex acquired in the setup scope is released on every exit of the acquiring function", 1)
	spec := lockSpec()
	nl := 0
	for _, fn := range scope {
		for _, res := range spec.run(fn) {
			nl++
			mu := res.Key[strings.Index(res.Key, "@")+1:]
			r.Check(res.BadExit == nil, "R2L", shortFunc(fn)+"/"+mu, res.Acquire.Pos(), "lock released on every exit (a leaked lock makes the next load or validation hang)")
		}
	}
	if nl == 0 {
		r.Unresolve("R2L", "no lock acquisition found in the setup scope (basicauth's htpasswd cache lock expected)")
	}
	c11R6(h)
	c11R7(h)
	c11R8(h)
	// R3: validate and start agree
	r.Rule("R3", "validate and start agree (E10 traces of executeDirectives, validating and not): the same setup calls are made in the same order, and justValidate only switches the parsing callbacks off; casketmain's -validate path and Start both go through ValidateAndExecuteDirectives", 3)
	{
		// decided from the traces of executeDirectives (E10, execTraces): the setup calls of a validating run and of
		// a real start are the same, in the same order
		t := execTraces(h)
		var pos token.Pos
		if ex := h.p.Func("", "executeDirectives"); ex != nil {
			pos = ex.Pos()
		}
		r.Check(t.validate == "" && t.order == "" && t.other == "", "R3", "casket.executeDirectives/setup-independent-of-justValidate", pos, "every setup call a real start makes is also made by -validate", sprintf("%d runs evaluated", t.n), t.validate, t.order, t.other)
	}
	for _, spec := range [][2]string{{"", "startWithListenerFds"}, {"casket/casketmain", "Run"}} {
		fn := h.fn("R3", spec[0], spec[1])
		if fn == nil {
			continue
		}
		calls := false
		for _, g := range withClosures(fn) {
			if len(callsTo(g, "casket.ValidateAndExecuteDirectives")) > 0 {
				calls = true
			}
		}
		r.Check(calls, "R3", shortFunc(fn)+"/uses-ValidateAndExecuteDirectives", fn.Pos(), "both entry points execute directives through the one shared function")
	}
	// R4: nil guards of exported helpers
	r.Rule("R4", "nil-guard discipline: an exported function on the setup path that dereferences a pointer-to-struct parameter (other than its receiver and the Controller) tests it for nil before the first dereference, unless every call site in the module passes a freshly allocated value", 1)
	n4 := 0
	for _, fn := range scope {
		if fn.Parent() != nil || fn.Object() == nil || !fn.Object().Exported() {
			continue
		}
		for pi, prm := range fn.Params {
			if pi == 0 && fn.Signature.Recv() != nil {
				continue
			}
			pt, ok := prm.Type().Underlying().(*types.Pointer)
			if !ok {
				continue
			}
			if _, isStruct := pt.Elem().Underlying().(*types.Struct); !isStruct {
				continue
			}
			if strings.HasSuffix(prm.Type().String(), "casket.Controller") || strings.HasSuffix(prm.Type().String(), "net/http.Request") {
				continue
			}
			// dereferences: FieldAddr / load through the parameter (or a φ that includes it)
			var derefs []ssa.Instruction
			allInstrs(fn, func(in ssa.Instruction) {
				if fa, ok := in.(*ssa.FieldAddr); ok && derivesPlain(fa.X, prm) {
					derefs = append(derefs, in)
				}
			})
			if len(derefs) == 0 {
				continue
			}
			n4++
			nonNil := nilEdges(fn, false, func(v ssa.Value) bool { return v == ssa.Value(prm) })
			isNilE := nilEdges(fn, true, func(v ssa.Value) bool { return v == ssa.Value(prm) })
			guarded := true
			for _, d := range derefs {
				fa := d.(*ssa.FieldAddr)
				if fa.X == ssa.Value(prm) {
					// direct dereference of the parameter: needs the non-nil edge, or to be unreachable via the nil edge
					if len(nonNil) > 0 && onlyVia(fn, d, nonNil) {
						continue
					}
					if len(isNilE) > 0 && !canReachThroughEdges(fn, d, isNilE) {
						continue
					}
					guarded = false
				} else {
					// through a φ that replaced nil by a default: fine if the φ's other edges are non-nil by construction
					if ph, ok := fa.X.(*ssa.Phi); ok {
						for k, e := range ph.Edges {
							if e == ssa.Value(prm) {
								pred := ph.Block().Preds[k]
								g, okg := edgeGuard(pred, ph.Block())
								x, nilWhenTrue, okc := nilCmp(g.Cond)
								if !(okg && okc && x == ssa.Value(prm) && nilWhenTrue != g.Pos) {
									guarded = false
								}
							}
						}
					}
				}
			}
			if guarded {
				r.Hold("R4", shortFunc(fn)+"/param:"+prm.Name(), fn.Pos(), "pointer parameter is tested for nil before it is dereferenced")
				continue
			}
			// otherwise: no call site may pass a value that can be nil depending on the configuration: a field or map
			// load that is not itself tested for nil at the call site
			bad := ""
			nCalls := 0
			for _, g := range p.ModFuncs() {
				allInstrs(g, func(x ssa.Instruction) {
					c := callOf(x)
					if c == nil || c.StaticCallee() != fn || pi >= len(c.Args) {
						return
					}
					nCalls++
					a := c.Args[pi]
					if pth, _ := fieldPath(a); pth == "" {
						if _, isLookup := a.(*ssa.Lookup); !isLookup {
							return // fresh allocation, call result, parameter: not configuration-dependent nil
						}
					}
					if _, isLoad := a.(*ssa.UnOp); !isLoad {
						if _, isLookup := a.(*ssa.Lookup); !isLookup {
							return
						}
					}
					// a field of an unexported carrier struct that every construction of the struct sets from a
					// parameter, an allocation or a call result is no configuration-dependent nil either
					if ld, ok := a.(*ssa.UnOp); ok {
						if fa, ok := ld.X.(*ssa.FieldAddr); ok && carrierFieldSet(p, fa) {
							return
						}
					}
					tested := nilEdges(g, false, func(v ssa.Value) bool { return sameValue(v, a) })
					if len(tested) == 0 || !onlyVia(g, x, tested) {
						bad = shortFunc(g) + " passes " + describe(a) + " at " + p.Pos(x.Pos())
					}
				})
			}
			r.Check(bad == "", "R4", shortFunc(fn)+"/param:"+prm.Name(), fn.Pos(), "pointer parameter is dereferenced without a nil test although a caller passes a field that may be unset (nil): setup would crash instead of returning an error", bad)
		}
	}
	if n4 == 0 {
		r.Unresolve("R4", "no exported setup helper with a dereferenced pointer parameter found")
	}
}

// alwaysReturnsFresh: every return of f is a new allocation (&T{…}, new(T)).
func alwaysReturnsFresh(f *ssa.Function) bool {
	if f == nil || len(f.Blocks) == 0 {
		return false
	}
	rv := returnValues(f, 0)
	if len(rv) == 0 {
		return false
	}
	for _, v := range rv {
		if _, ok := v.(*ssa.Alloc); !ok {
			return false
		}
	}
	return true
}

// canReachThroughEdges: target reachable after taking one of the edges.
func canReachThroughEdges(fn *ssa.Function, target ssa.Instruction, edges map[edge]bool) bool {
	for e := range edges {
		f := firstInstr(e.From.Succs[e.Idx])
		if f == nil {
			continue
		}
		if f == target || canReach(fn, f, target, cut{}) {
			return true
		}
	}
	return false
}

// carrierFieldSet: fa addresses a field of an unexported struct type of the module, and every allocation of that
// struct type in the module stores that field, never with a nil constant or a value loaded from another field.
func carrierFieldSet(p *Program, fa *ssa.FieldAddr) bool {
	pt, ok := fa.X.Type().Underlying().(*types.Pointer)
	if !ok {
		return false
	}
	named, ok := pt.Elem().(*types.Named)
	if !ok || named.Obj().Exported() || named.Obj().Pkg() == nil || !isModPkg(named.Obj().Pkg().Path()) {
		return false
	}
	n := 0
	okAll := true
	for _, fn := range p.ModFuncs() {
		allInstrs(fn, func(in ssa.Instruction) {
			al, isAl := in.(*ssa.Alloc)
			if !isAl || !types.Identical(al.Type(), fa.X.Type()) {
				return
			}
			n++
			vs := fieldStores(al, fa.Field)
			if len(vs) == 0 {
				okAll = false
			}
			for _, v := range vs {
				switch t := v.(type) {
				case *ssa.Const:
					if t.Value == nil {
						okAll = false
					}
				case *ssa.UnOp:
					if pth, _ := fieldPath(t); pth != "" {
						okAll = false
					}
				case *ssa.Lookup:
					okAll = false
				}
			}
		})
	}
	return n > 0 && okAll
}

package main

import (
	"fmt"
	"go/types"
	"strings"
)

// c04R7: configured header rules reach the place where they are applied.  A proxy block with (a) plain header rules,
// (b) only regex replacement rules, (c) both, in each direction, is turned into an upstream and its backend by the
// code's own NewStaticUpstreams (token list in, parseUpstream / regexp.Compile / the reverse-proxy constructor being
// oracles); one request is then passed through Proxy.ServeHTTP (oracle upstream and backend as in the proxy traces).
// Whenever the block configured any rule of a direction, the code that applies the rules of that direction
// (mutateHeadersByRules, directly or through the response update function) must run and be handed those rules.
func c04R7(h H) {
	r := h.r
	r.Rule("R7", "configured header rules reach their application (E10): a proxy block with plain rules, with regex replacement rules only, or with both, per direction, made into an upstream and backend by NewStaticUpstreams (and NewHost), and one request passed through Proxy.ServeHTTP: mutateHeadersByRules is run on the outgoing header with the upstream's header_upstream rules and replacements, and the response-header update function handed to the backend round trip applies the header_downstream ones, whenever the upstream has any rule of that direction", 1)
	nh := h.fn("R7", pxPkg, "(*staticUpstream).NewHost")
	sv := h.fn("R7", pxPkg, "Proxy.ServeHTTP")
	if nh == nil || sv == nil {
		return
	}
	upT := nh.Params[0].Type().(*types.Pointer).Elem()
	reqT := sv.Params[2].Type().(*types.Pointer).Elem()
	hdrT, _ := types.Unalias(h.p.typeByName("net/http", "Header")).Underlying().(*types.Map)
	var replT *types.Map
	if st, ok := underlying(upT).(*types.Struct); ok {
		for i := 0; i < st.NumFields(); i++ {
			if st.Field(i).Name() == "upstreamHeaderReplacements" {
				replT, _ = underlying(st.Field(i).Type()).(*types.Map)
			}
		}
	}
	bbT := types.Type(types.Typ[types.Int])
	urlT := h.p.typeByName("net/url", "URL")
	nsu := h.fn("R7", pxPkg, "NewStaticUpstreams")
	if nsu == nil {
		return
	}
	var tokT types.Type = types.Typ[types.Int]
	if t := h.p.typeByName(modPath+"/"+cfPkg, "Token"); t != nil {
		tokT = t
	}
	_ = replT
	type combo struct{ upPlain, upRegex, downPlain, downRegex bool }
	bad, n := "", 0
	for _, cb := range []combo{{true, false, true, false}, {false, true, false, true}, {true, true, true, true}, {true, false, false, true}, {false, true, true, false}} {
		{
			n++
			lines := [][]string{{"proxy", "/", "backend:80", "{"}}
			if cb.upPlain {
				lines = append(lines, []string{"header_upstream", "X-Up", "v"})
			}
			if cb.upRegex {
				lines = append(lines, []string{"header_upstream", "X-Tenant", "acme", "widgets"})
			}
			if cb.downPlain {
				lines = append(lines, []string{"header_downstream", "X-Down", "v"})
			}
			if cb.downRegex {
				lines = append(lines, []string{"header_downstream", "Location", "^http://internal", "https://public"})
			}
			lines = append(lines, []string{"}"})
			var toks []aval
			var texts []string
			for li, ln := range lines {
				for _, t := range ln {
					toks = append(toks, astruct{map[string]aval{"File": astr("Casketfile"), "Line": aint(int64(li + 1)), "Text": astr(t)}})
				}
				texts = append(texts, strings.Join(ln, " "))
			}
			desc := "`" + strings.Join(texts, " ⏎ ") + "`"
			has := func(a aval, key string) bool {
				m, ok := a.(amap)
				if !ok {
					return false
				}
				_, have := m.m.vals["s:"+key]
				return have
			}
			var mutated, updated bool
			var mutArgsOK, updArgsOK bool
			rp := &aobj{name: "reverse proxy", typ: types.Typ[types.Int], f: map[string]aval{}}
			outreq := &aobj{name: "outreq", typ: reqT, f: map[string]aval{"Body": anil{}}}
			outURL := &aobj{name: "outreq url", typ: types.Typ[types.Int], f: map[string]aval{}}
			outreq.in = func(o *aobj, path string, t types.Type) aval {
				switch path {
				case "URL":
					outURL.typ = underlying(t).(*types.Pointer).Elem()
					outURL.in = func(o *aobj, path string, t types.Type) aval { return zeroOf(t) }
					return aptr{outURL, ""}
				case "Header":
					return amap{&amapData{vals: map[string]aval{}, keys: map[string]aval{}, typ: hdrT}}
				}
				return aunk{"outreq field " + path}
			}
			var host aval
			selected := false
			env := &absEnv{noFork: true, maxSteps: 600000, globals: map[string]*aobj{}}
			env.ext = func(callee string, args []aval) (aval, bool) {
				switch {
				case strings.HasSuffix(callee, "proxy.parseUpstream"):
					return atuple{newVals([]aval{astr("http://backend:80")}, types.Typ[types.String]), anil{}}, true
				case callee == "regexp.Compile", callee == "regexp.MustCompile":
					rx := aptr{&aobj{name: "regexp", typ: types.Typ[types.Int], f: map[string]aval{}}, ""}
					if callee == "regexp.Compile" {
						return atuple{rx, anil{}}, true
					}
					return rx, true
				case callee == "net/url.Parse":
					return atuple{aptr{&aobj{name: "url", typ: urlT, f: map[string]aval{"Host": astr("backend:80"), "User": anil{}}}, ""}, anil{}}, true
				case strings.HasSuffix(callee, "proxy.NewSingleHostReverseProxy"):
					return aptr{rp, ""}, true
				case strings.Contains(callee, "ReverseProxy).Use"):
					return atuple{}, true
				case strings.HasSuffix(callee, "proxy.Proxy).match"):
					return aiface{aptr{&aobj{name: "upstream iface", typ: types.Typ[types.Int], f: map[string]aval{}}, ""}, types.Typ[types.Int]}, true
				case strings.HasSuffix(callee, "httpserver.NewReplacer"):
					return aiface{aptr{&aobj{name: "replacer", typ: types.Typ[types.Int], f: map[string]aval{}}, ""}, types.Typ[types.Int]}, true
				case strings.HasSuffix(callee, "proxy.createUpstreamRequest"):
					return atuple{aptr{outreq, ""}, acb{"cancel"}}, true
				case callee == "callback:cancel":
					return atuple{}, true
				case strings.HasSuffix(callee, "proxy.newBufferedBody"):
					return atuple{aptr{&aobj{name: "buffered body", typ: bbT, f: map[string]aval{}}, ""}, anil{}}, true
				case strings.HasSuffix(callee, "proxy.bufferedBody).rewind"):
					return anil{}, true
				case callee == "invoke:GetHostCount":
					return aint(1), true
				case callee == "invoke:GetTryDuration":
					return aint(0), true
				case callee == "invoke:GetTryInterval", callee == "invoke:GetTimeout", callee == "invoke:GetFallbackDelay":
					return aint(1), true
				case callee == "invoke:Select":
					if selected {
						return anil{}, true
					}
					selected = true
					return host, true
				case callee == "time.Now":
					return astruct{map[string]aval{}}, true
				case callee == "time.Since":
					return aint(1000), true
				case callee == "time.Sleep":
					return atuple{}, true
				case callee == "errors.Is":
					return abool(false), true
				case strings.HasSuffix(callee, "proxy.mutateHeadersByRules"):
					if len(args) == 4 && (has(args[1], "X-Down") || has(args[3], "Location")) {
						updated = true
						updArgsOK = has(args[1], "X-Down") == cb.downPlain && has(args[3], "Location") == cb.downRegex
						return atuple{}, true
					}
					if len(args) == 4 && (has(args[1], "X-Up") || has(args[3], "X-Tenant")) {
						mutated = true
						mutArgsOK = has(args[1], "X-Up") == cb.upPlain && has(args[3], "X-Tenant") == cb.upRegex
					}
					return atuple{}, true
				case strings.HasSuffix(callee, "proxy.ReverseProxy).ServeHTTP"):
					// the backend answered: the round trip hands the response to the update function it was given
					if len(args) >= 4 {
						if f, ok := args[3].(afunc); ok {
							resp := &aobj{name: "backend response", typ: types.Typ[types.Int], f: map[string]aval{"Header": amap{&amapData{vals: map[string]aval{}, keys: map[string]aval{}, typ: hdrT}}}}
							if len(f.fn.Params) == 1 {
								if p, ok := f.fn.Params[0].Type().(*types.Pointer); ok {
									resp.typ = p.Elem()
								}
							}
							env.runFunc(f, []aval{aptr{resp, ""}})
						}
					}
					return anil{}, true
				}
				return nil, false
			}
			disp := astruct{map[string]aval{"filename": astr("Casketfile"), "cursor": aint(-1), "nesting": aint(0), "tokens": newVals(toks, tokT)}}
			uv, und := env.run(nsu, []aval{disp, astr("")})
			tp, ok := uv.(atuple)
			if und != "" || !ok || len(tp) != 2 {
				bad = desc + ": NewStaticUpstreams: " + und + " " + describeAval(uv)
				break
			}
			if _, isNil := tp[1].(anil); !isNil {
				bad = desc + ": NewStaticUpstreams rejects the block: " + describeAval(tp[1])
				break
			}
			ups, _ := tp[0].(avals)
			if len(ups.cells) != 1 {
				bad = desc + ": NewStaticUpstreams yields " + describeAval(tp[0])
				break
			}
			upP, ok := ifaceVal(ups.cells[0].f[""]).(aptr)
			if !ok {
				bad = desc + ": the upstream is " + describeAval(ups.cells[0].f[""])
				break
			}
			hostsV, _ := env.load(upP.obj, joinPath(upP.path, "Hosts")).(avals)
			if len(hostsV.cells) != 1 {
				bad = desc + ": the upstream's hosts are " + describeAval(env.load(upP.obj, joinPath(upP.path, "Hosts")))
				break
			}
			host = hostsV.cells[0].f[""]
			pv := astruct{map[string]aval{"Next": aiface{aptr{&aobj{name: "next", typ: types.Typ[types.Int], f: map[string]aval{}}, ""}, types.Typ[types.Int]}, "Upstreams": anil{}}}
			req := &aobj{name: "request", typ: reqT, f: map[string]aval{}}
			req.in = func(o *aobj, path string, t types.Type) aval { return aunk{"request field " + path} }
			if _, und := env.run(sv, []aval{pv, aiface{aptr{&aobj{name: "writer", typ: types.Typ[types.Int], f: map[string]aval{}}, ""}, types.Typ[types.Int]}, aptr{req, ""}}); und != "" {
				bad = desc + ": Proxy.ServeHTTP undecided — " + und
				break
			}
			switch {
			case !mutated:
				bad = desc + ": the header_upstream rules of the block are never applied to the outgoing request (mutateHeadersByRules does not run on them)"
			case !mutArgsOK:
				bad = desc + ": mutateHeadersByRules is not handed the block's own header_upstream rules and replacements"
			case !updated:
				bad = desc + ": the header_downstream rules of the block are never applied to the response (the update function given to the backend round trip is absent or does not run them)"
			case !updArgsOK:
				bad = desc + ": the response-header update function does not apply the block's own header_downstream rules and replacements"
			}
			if bad != "" {
				break
			}
		}
		if bad != "" {
			break
		}
	}
	r.Check(bad == "", "R7", "proxy.(*staticUpstream).NewHost+Proxy.ServeHTTP/header-rules-reach-application", sv.Pos(), "whatever header rules a proxy block configures are applied to the requests it proxies", fmt.Sprintf("%d configurations evaluated", n), bad)
}

// c04R8: a copied header is a copy.  The proxy copies the client's header for every attempt (and the backend's for
// the client) and then rewrites lines in place (the regex replacement rules write values[i]); were the copy to share
// its line slices with the original, the first attempt's rewriting would show in the pristine header the second
// attempt starts from, and in the client's own request.  copyHeader is evaluated (E10) on a source with a two-line
// field, a one-line field and `Server`, into an empty destination and into one that already has the fields: the
// destination ends up with the source's lines (a `Server` line the destination already has is kept in front), and no
// line slot of the destination is a slot of the source.
func c04R8(h H) {
	r := h.r
	r.Rule("R8", "header copies share nothing with the original, as a table (E10) of proxy.copyHeader into an empty and into a pre-filled destination: every field of the source arrives line by line, and no line slot of the destination is the source's own (a later in-place rewrite of one does not show in the other)", 1)
	fn := h.fn("R8", pxPkg, "copyHeader")
	if fn == nil {
		return
	}
	hdrT, _ := types.Unalias(h.p.typeByName("net/http", "Header")).Underlying().(*types.Map)
	if hdrT == nil {
		r.Unresolve("R8", "net/http.Header not found")
		return
	}
	strT := types.Typ[types.String]
	mkHdr := func(kv ...interface{}) amap {
		m := amap{&amapData{vals: map[string]aval{}, keys: map[string]aval{}, typ: hdrT}}
		for i := 0; i+1 < len(kv); i += 2 {
			k := kv[i].(string)
			var vs []aval
			for _, s := range kv[i+1].([]string) {
				vs = append(vs, astr(s))
			}
			m.m.vals["s:"+k] = newVals(vs, strT)
			m.m.keys["s:"+k] = astr(k)
		}
		return m
	}
	lines := func(m amap, k string) ([]string, []*aobj) {
		sl, ok := m.m.vals["s:"+k].(avals)
		if !ok {
			return nil, nil
		}
		var out []string
		for _, c := range sl.cells {
			out = append(out, describeAval(c.f[""]))
		}
		return out, sl.cells
	}
	bad, n := "", 0
	for _, prefilled := range []bool{false, true} {
		src := mkHdr("X-A", []string{"a1", "a2"}, "X-B", []string{"b"}, "Server", []string{"backend"})
		dst := mkHdr()
		if prefilled {
			dst = mkHdr("X-A", []string{"old"}, "Server", []string{"casket"}, "X-Keep", []string{"k"})
		}
		env := &absEnv{globals: map[string]*aobj{}, noFork: true, maxSteps: 100000}
		_, und := env.run(fn, []aval{dst, src})
		n++
		desc := sprintf("copy of {X-A: a1, a2; X-B: b; Server: backend} into %s", map[bool]string{false: "an empty header", true: "{X-A: old; Server: casket; X-Keep: k}"}[prefilled])
		if und != "" {
			bad = desc + ": undecided — " + und
			break
		}
		want := map[string]string{"X-A": `"a1" "a2"`, "X-B": `"b"`, "Server": `"backend"`}
		if prefilled {
			want["Server"] = `"casket" "backend"`
			want["X-Keep"] = `"k"`
		}
		for k, w := range want {
			got, cells := lines(dst, k)
			if strings.Join(got, " ") != w {
				bad = sprintf("%s: %s arrives as [%s], specification says [%s]", desc, k, strings.Join(got, " "), w)
				break
			}
			_, scells := lines(src, k)
			for _, dc := range cells {
				for _, sc := range scells {
					if dc == sc {
						bad = sprintf("%s: the lines of %s in the copy are the original's own slots — rewriting a line of the copy in place rewrites the original (the pristine header of the next attempt, the client's request)", desc, k)
					}
				}
			}
			if bad != "" {
				break
			}
		}
		if bad != "" {
			break
		}
	}
	r.Check(bad == "", "R8", "proxy.copyHeader/copy-shares-nothing", fn.Pos(), "copyHeader copies lines, not slices", sprintf("%d copies evaluated", n), bad)
}

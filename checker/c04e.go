package main

import (
	"fmt"
	"go/types"
	"strings"
)

// c04R7: configured header rules reach the place where they are applied.  A backend is made by the code's own
// NewHost from an upstream that has (a) plain header rules, (b) only regex replacement rules, (c) both, for the
// upstream and the downstream direction; one request is then passed through Proxy.ServeHTTP (oracle upstream and
// backend as in the proxy traces).  Whenever the upstream configured any rule of a direction, the code that applies
// the rules of that direction (mutateHeadersByRules / createRespHeaderUpdateFn) must run and be handed those rules.
func c04R7(h H) {
	r := h.r
	r.Rule("R7", "configured header rules reach their application (E10): a backend made by staticUpstream.NewHost from an upstream with plain rules, with regex replacement rules only, or with both, in each direction, and one request passed through Proxy.ServeHTTP: mutateHeadersByRules is run on the outgoing header with the upstream's header_upstream rules and replacements, and the response-header update function handed to the backend round trip applies the header_downstream ones, whenever the upstream has any rule of that direction", 1)
	nh := h.fn("R7", pxPkg, "(*staticUpstream).NewHost")
	sv := h.fn("R7", pxPkg, "Proxy.ServeHTTP")
	if nh == nil || sv == nil {
		return
	}
	upT := nh.Params[0].Type().(*types.Pointer).Elem()
	reqT := sv.Params[2].Type().(*types.Pointer).Elem()
	hdrT, _ := types.Unalias(h.p.typeByName("net/http", "Header")).Underlying().(*types.Map)
	var replT *types.Map
	if st, ok := underlying(upT).(*types.Struct); ok {
		for i := 0; i < st.NumFields(); i++ {
			if st.Field(i).Name() == "upstreamHeaderReplacements" {
				replT, _ = underlying(st.Field(i).Type()).(*types.Map)
			}
		}
	}
	bbT := types.Type(types.Typ[types.Int])
	urlT := h.p.typeByName("net/url", "URL")
	bad, n := "", 0
	for _, plain := range []bool{true, false} {
		for _, regex := range []bool{true, false} {
			if !plain && !regex {
				continue
			}
			n++
			desc := fmt.Sprintf("upstream with plain header rules=%v, regex replacement rules=%v (both directions)", plain, regex)
			mkHdr := func(key string) amap {
				m := amap{&amapData{vals: map[string]aval{}, keys: map[string]aval{}, typ: hdrT}}
				if plain {
					m.m.vals["s:"+key] = newVals([]aval{astr("v")}, types.Typ[types.String])
					m.m.keys["s:"+key] = astr(key)
				}
				return m
			}
			mkRepl := func(key string) amap {
				m := amap{&amapData{vals: map[string]aval{}, keys: map[string]aval{}, typ: replT}}
				if regex {
					m.m.vals["s:"+key] = aunk{"replacement rule"}
					m.m.keys["s:"+key] = astr(key)
				}
				return m
			}
			upHdr, downHdr, upRepl, downRepl := mkHdr("X-Up"), mkHdr("X-Down"), mkRepl("X-Tenant"), mkRepl("Location")
			up := &aobj{name: "upstream", typ: upT, f: map[string]aval{"upstreamHeaders": upHdr, "downstreamHeaders": downHdr, "upstreamHeaderReplacements": upRepl, "downstreamHeaderReplacements": downRepl}}
			up.in = func(o *aobj, path string, t types.Type) aval {
				switch path {
				case "insecureSkipVerify":
					return abool(false)
				case "CaCertPool", "ClientKeyPair":
					return anil{}
				}
				return zeroOf(t)
			}
			same := func(a aval, m amap) bool {
				x, ok := a.(amap)
				return ok && x.m == m.m
			}
			var mutated, updated bool
			var mutArgsOK, updArgsOK bool
			rp := &aobj{name: "reverse proxy", typ: types.Typ[types.Int], f: map[string]aval{}}
			outreq := &aobj{name: "outreq", typ: reqT, f: map[string]aval{"Body": anil{}}}
			outURL := &aobj{name: "outreq url", typ: types.Typ[types.Int], f: map[string]aval{}}
			outreq.in = func(o *aobj, path string, t types.Type) aval {
				switch path {
				case "URL":
					outURL.typ = underlying(t).(*types.Pointer).Elem()
					outURL.in = func(o *aobj, path string, t types.Type) aval { return zeroOf(t) }
					return aptr{outURL, ""}
				case "Header":
					return amap{&amapData{vals: map[string]aval{}, keys: map[string]aval{}, typ: hdrT}}
				}
				return aunk{"outreq field " + path}
			}
			var host aval
			selected := false
			env := &absEnv{noFork: true, maxSteps: 600000, globals: map[string]*aobj{}}
			env.ext = func(callee string, args []aval) (aval, bool) {
				switch {
				case callee == "net/url.Parse":
					return atuple{aptr{&aobj{name: "url", typ: urlT, f: map[string]aval{"Host": astr("backend:80"), "User": anil{}}}, ""}, anil{}}, true
				case strings.HasSuffix(callee, "proxy.NewSingleHostReverseProxy"):
					return aptr{rp, ""}, true
				case strings.Contains(callee, "ReverseProxy).Use"):
					return atuple{}, true
				case strings.HasSuffix(callee, "proxy.Proxy).match"):
					return aiface{aptr{&aobj{name: "upstream iface", typ: types.Typ[types.Int], f: map[string]aval{}}, ""}, types.Typ[types.Int]}, true
				case strings.HasSuffix(callee, "httpserver.NewReplacer"):
					return aiface{aptr{&aobj{name: "replacer", typ: types.Typ[types.Int], f: map[string]aval{}}, ""}, types.Typ[types.Int]}, true
				case strings.HasSuffix(callee, "proxy.createUpstreamRequest"):
					return atuple{aptr{outreq, ""}, acb{"cancel"}}, true
				case callee == "callback:cancel":
					return atuple{}, true
				case strings.HasSuffix(callee, "proxy.newBufferedBody"):
					return atuple{aptr{&aobj{name: "buffered body", typ: bbT, f: map[string]aval{}}, ""}, anil{}}, true
				case strings.HasSuffix(callee, "proxy.bufferedBody).rewind"):
					return anil{}, true
				case callee == "invoke:GetHostCount":
					return aint(1), true
				case callee == "invoke:GetTryDuration":
					return aint(0), true
				case callee == "invoke:GetTryInterval", callee == "invoke:GetTimeout", callee == "invoke:GetFallbackDelay":
					return aint(1), true
				case callee == "invoke:Select":
					if selected {
						return anil{}, true
					}
					selected = true
					return host, true
				case callee == "time.Now":
					return astruct{map[string]aval{}}, true
				case callee == "time.Since":
					return aint(1000), true
				case callee == "time.Sleep":
					return atuple{}, true
				case callee == "errors.Is":
					return abool(false), true
				case strings.HasSuffix(callee, "proxy.mutateHeadersByRules"):
					if len(args) == 4 && (same(args[1], downHdr) || same(args[3], downRepl)) {
						updated = true
						updArgsOK = same(args[1], downHdr) && same(args[3], downRepl)
						return atuple{}, true
					}
					mutated = true
					mutArgsOK = len(args) == 4 && same(args[1], upHdr) && same(args[3], upRepl)
					return atuple{}, true
				case strings.HasSuffix(callee, "proxy.ReverseProxy).ServeHTTP"):
					// the backend answered: the round trip hands the response to the update function it was given
					if len(args) >= 4 {
						if f, ok := args[3].(afunc); ok {
							resp := &aobj{name: "backend response", typ: types.Typ[types.Int], f: map[string]aval{"Header": amap{&amapData{vals: map[string]aval{}, keys: map[string]aval{}, typ: hdrT}}}}
							if len(f.fn.Params) == 1 {
								if p, ok := f.fn.Params[0].Type().(*types.Pointer); ok {
									resp.typ = p.Elem()
								}
							}
							env.runFunc(f, []aval{aptr{resp, ""}})
						}
					}
					return anil{}, true
				}
				return nil, false
			}
			hv, und := env.run(nh, []aval{aptr{up, ""}, astr("http://backend:80")})
			tp, ok := hv.(atuple)
			if und != "" || !ok || len(tp) != 2 {
				bad = desc + ": NewHost: " + und + " " + describeAval(hv)
				break
			}
			host = tp[0]
			pv := astruct{map[string]aval{"Next": aiface{aptr{&aobj{name: "next", typ: types.Typ[types.Int], f: map[string]aval{}}, ""}, types.Typ[types.Int]}, "Upstreams": anil{}}}
			req := &aobj{name: "request", typ: reqT, f: map[string]aval{}}
			req.in = func(o *aobj, path string, t types.Type) aval { return aunk{"request field " + path} }
			if _, und := env.run(sv, []aval{pv, aiface{aptr{&aobj{name: "writer", typ: types.Typ[types.Int], f: map[string]aval{}}, ""}, types.Typ[types.Int]}, aptr{req, ""}}); und != "" {
				bad = desc + ": Proxy.ServeHTTP undecided — " + und
				break
			}
			switch {
			case !mutated:
				bad = desc + ": the header_upstream rules of the block are never applied to the outgoing request (mutateHeadersByRules does not run)"
			case !mutArgsOK:
				bad = desc + ": mutateHeadersByRules is not handed the upstream's own header_upstream rules and replacements"
			case !updated:
				bad = desc + ": the header_downstream rules of the block are never applied to the response (the update function given to the backend round trip is absent or does not run them)"
			case !updArgsOK:
				bad = desc + ": the response-header update function does not apply the upstream's own header_downstream rules and replacements"
			}
			if bad != "" {
				break
			}
		}
		if bad != "" {
			break
		}
	}
	r.Check(bad == "", "R7", "proxy.(*staticUpstream).NewHost+Proxy.ServeHTTP/header-rules-reach-application", sv.Pos(), "whatever header rules a proxy block configures are applied to the requests it proxies", fmt.Sprintf("%d configurations evaluated", n), bad)
}

package main

// Core plumbing: loading /repo as a type-checked program with SSA, the
// obligation/report model, known-findings matching, evidence and verdict
// output.  Nothing here runs casket code.

import (
	"encoding/json"
	"fmt"
	"go/token"
	"go/types"
	"os"
	"path/filepath"
	"sort"
	"strings"
	"time"

	"golang.org/x/tools/go/packages"
	"golang.org/x/tools/go/ssa"
	"golang.org/x/tools/go/ssa/ssautil"
)

const modPath = "github.com/tmpim/casket"

var (
	repoDir  = envOr("VERIF_REPO", "/repo")
	verifDir = envOr("VERIF_DIR", "/verif")
	// outDir receives evidence/ and out/ (overridden by the mutant self-test so that it never touches real evidence)
	outDir    = envOr("VERIF_OUT", verifDir)
	procStart = time.Now()
)

func envOr(k, d string) string {
	if v := os.Getenv(k); v != "" {
		return v
	}
	return d
}

// Program is the loaded, type-checked module with SSA for module packages.
type Program struct {
	Norm    *normResult // source normalisation applied before loading (nil overlay: none)
	Fset    *token.FileSet
	Roots   []*packages.Package
	ByPath  map[string]*packages.Package
	SSA     *ssa.Program
	GOOS    string
	GOARCH  string
	nFuncs  int
	nBlocks int
}

// LoadProgram loads ./... of the repo (all module packages, full syntax for
// dependencies' types) and builds SSA.  If allBodies, function bodies of
// dependencies are built too (needed for whole-program call graphs).
func LoadProgram(goos, goarch string, allBodies bool) (*Program, error) {
	env := append(os.Environ(),
		"GOFLAGS=-mod=mod", "GOPROXY=off", "GOSUMDB=off", "GOTOOLCHAIN=local", "GOWORK=off", "CGO_ENABLED=0")
	if goos != "" {
		env = append(env, "GOOS="+goos)
	}
	if goarch != "" {
		env = append(env, "GOARCH="+goarch)
	}
	norm, nerr := normalizeRepo(goos, goarch)
	if nerr != nil {
		return nil, fmt.Errorf("normalisation: %v", nerr)
	}
	cfg := &packages.Config{
		Mode:  packages.LoadAllSyntax,
		Dir:   repoDir,
		Env:   env,
		Tests: false,
	}
	if norm != nil && norm.Overlay != nil {
		if d := os.Getenv("VERIF_DUMP_OVERLAY"); d != "" {
			os.MkdirAll(d, 0o755)
			for name, content := range norm.Overlay {
				os.WriteFile(filepath.Join(d, strings.ReplaceAll(strings.TrimPrefix(name, "/"), "/", "_")), content, 0o644)
			}
		}
		cfg.Overlay = norm.Overlay
	}
	pkgs, err := packages.Load(cfg, "./...")
	if err != nil {
		return nil, fmt.Errorf("packages.Load: %v", err)
	}
	if len(pkgs) == 0 {
		return nil, fmt.Errorf("no packages loaded from %s", repoDir)
	}
	var errs []string
	packages.Visit(pkgs, nil, func(p *packages.Package) {
		for _, e := range p.Errors {
			errs = append(errs, e.Error())
		}
	})
	if len(errs) > 0 {
		if len(errs) > 10 {
			errs = errs[:10]
		}
		return nil, fmt.Errorf("load/type errors: %s", strings.Join(errs, "; "))
	}
	p := &Program{Norm: norm, Fset: pkgs[0].Fset, Roots: pkgs, ByPath: map[string]*packages.Package{}, GOOS: goos, GOARCH: goarch}
	theProgram = p
	packages.Visit(pkgs, nil, func(q *packages.Package) { p.ByPath[q.PkgPath] = q })
	prog, _ := ssautil.AllPackages(pkgs, ssa.InstantiateGenerics)
	p.SSA = prog
	if allBodies {
		prog.Build()
	} else {
		for _, sp := range prog.AllPackages() {
			if isModPkg(sp.Pkg.Path()) || strings.Contains(sp.Pkg.Path(), "tmpim/casket-plugins") {
				sp.Build()
			}
		}
	}
	for fn := range ssautil.AllFunctions(prog) {
		if fn.Pkg != nil && isModPkg(fn.Pkg.Pkg.Path()) && len(fn.Blocks) > 0 {
			p.nFuncs++
			p.nBlocks += len(fn.Blocks)
		}
	}
	return p, nil
}

func isModPkg(path string) bool {
	return path == modPath || strings.HasPrefix(path, modPath+"/")
}

// Pkg returns the SSA package for a module-relative path ("" = root).
func (p *Program) Pkg(rel string) *ssa.Package {
	path := modPath
	if rel != "" {
		path += "/" + rel
	}
	pk := p.ByPath[path]
	if pk == nil {
		return nil
	}
	return p.SSA.Package(pk.Types)
}

// Func resolves a function or method by package-relative path and name.
// name is "F", "T.M" or "(*T).M".
func (p *Program) Func(rel, name string) *ssa.Function {
	sp := p.Pkg(rel)
	if sp == nil {
		return nil
	}
	if !strings.Contains(name, ".") {
		return sp.Func(name)
	}
	ptr := false
	n := name
	if strings.HasPrefix(n, "(*") {
		ptr = true
		n = strings.TrimPrefix(n, "(*")
		n = strings.Replace(n, ")", "", 1)
	}
	parts := strings.SplitN(n, ".", 2)
	tn, _ := sp.Pkg.Scope().Lookup(parts[0]).(*types.TypeName)
	if tn == nil {
		return nil
	}
	var T types.Type = tn.Type()
	if ptr {
		T = types.NewPointer(T)
	}
	sel := p.SSA.MethodSets.MethodSet(T).Lookup(sp.Pkg, parts[1])
	if sel == nil {
		// try the other receiver form
		if !ptr {
			sel = p.SSA.MethodSets.MethodSet(types.NewPointer(T)).Lookup(sp.Pkg, parts[1])
		}
		if sel == nil {
			return nil
		}
	}
	return p.SSA.MethodValue(sel)
}

// ModFuncs returns every source function (incl. anonymous) of module packages
// that has a body, sorted by position.
func (p *Program) ModFuncs() []*ssa.Function {
	var out []*ssa.Function
	for fn := range ssautil.AllFunctions(p.SSA) {
		if len(fn.Blocks) == 0 || fn.Synthetic != "" {
			continue
		}
		pk := fnPkg(fn)
		if pk == nil || !isModPkg(pk.Path()) {
			continue
		}
		out = append(out, fn)
	}
	sort.Slice(out, func(i, j int) bool {
		a, b := p.Fset.Position(out[i].Pos()), p.Fset.Position(out[j].Pos())
		if a.Filename != b.Filename {
			return a.Filename < b.Filename
		}
		if a.Offset != b.Offset {
			return a.Offset < b.Offset
		}
		return out[i].String() < out[j].String()
	})
	return out
}

func fnPkg(fn *ssa.Function) *types.Package {
	for f := fn; f != nil; f = f.Parent() {
		if f.Pkg != nil {
			return f.Pkg.Pkg
		}
		if o := f.Object(); o != nil && o.Pkg() != nil {
			return o.Pkg()
		}
	}
	return nil
}

// PkgFuncs returns source functions with bodies in the given module-relative packages.
func (p *Program) PkgFuncs(rels ...string) []*ssa.Function {
	want := map[string]bool{}
	for _, r := range rels {
		if r == "" {
			want[modPath] = true
		} else {
			want[modPath+"/"+r] = true
		}
	}
	var out []*ssa.Function
	for _, fn := range p.ModFuncs() {
		if pk := fnPkg(fn); pk != nil && want[pk.Path()] {
			out = append(out, fn)
		}
	}
	return out
}

func (p *Program) Pos(pos token.Pos) string {
	if !pos.IsValid() {
		return "-"
	}
	ps := p.Fset.Position(pos)
	rel, err := filepath.Rel(repoDir, ps.Filename)
	if err != nil || strings.HasPrefix(rel, "..") {
		rel = ps.Filename
	}
	return fmt.Sprintf("%s:%d", rel, ps.Line)
}

// ---------------------------------------------------------------------------
// Obligations and reports

// Ob is one rule instance: a construct the rule constrained and the verdict.
type Ob struct {
	Rule      string   `json:"rule"`
	Construct string   `json:"construct"` // stable key: never a line number
	Pos       string   `json:"pos"`
	OK        bool     `json:"ok"`
	What      string   `json:"what"`            // what was required / what fails
	Facts     []string `json:"facts,omitempty"` // guards, dominators, flows used
	Info      bool     `json:"info,omitempty"`  // informational only (outside repository)
}

type RuleDoc struct {
	ID   string `json:"id"`
	Text string `json:"text"`
	Min  int    `json:"min_instances"`
}

type Report struct {
	Prop        string
	Tier        string
	Start       time.Time
	Prog        *Program
	Rules       []RuleDoc
	Obs         []Ob
	Unresolved  []string // anchors the rules could not find
	Notes       []string
	Decided     string // clauses decided
	NotDecided  string
	Assumptions []string
	Extra       map[string]interface{}
	Platforms   []string
}

func NewReport(prop, tier string, prog *Program) *Report {
	return &Report{Prop: prop, Tier: tier, Start: procStart, Prog: prog, Extra: map[string]interface{}{}}
}

func (r *Report) Rule(id, text string, min int) {
	for i := range r.Rules {
		if r.Rules[i].ID == id {
			return
		}
	}
	r.Rules = append(r.Rules, RuleDoc{id, text, min})
}

func (r *Report) add(rule, construct string, pos token.Pos, ok bool, what string, facts ...string) {
	construct = strings.ReplaceAll(construct, " ", "") // constructs are single tokens in known_findings.txt
	r.Obs = append(r.Obs, Ob{Rule: rule, Construct: construct, Pos: r.Prog.Pos(pos), OK: ok, What: what, Facts: facts})
}

// Hold / Fail record an obligation verdict.
func (r *Report) Hold(rule, construct string, pos token.Pos, what string, facts ...string) {
	r.add(rule, construct, pos, true, what, facts...)
}
func (r *Report) Fail(rule, construct string, pos token.Pos, what string, facts ...string) {
	r.add(rule, construct, pos, false, what, facts...)
}
func (r *Report) Check(ok bool, rule, construct string, pos token.Pos, what string, facts ...string) bool {
	r.add(rule, construct, pos, ok, what, facts...)
	return ok
}
func (r *Report) Unresolve(rule, anchor string) {
	r.Unresolved = append(r.Unresolved, rule+": "+anchor)
}
func (r *Report) Note(f string, a ...interface{}) { r.Notes = append(r.Notes, fmt.Sprintf(f, a...)) }

// ---------------------------------------------------------------------------
// Known findings

type knownEntry struct {
	Kind      string // known | fixed
	Prop      string
	Rule      string
	Construct string
	Text      string
	matched   bool
}

func loadKnown() ([]*knownEntry, error) {
	b, err := os.ReadFile(filepath.Join(verifDir, "known_findings.txt"))
	if err != nil {
		if os.IsNotExist(err) {
			return nil, nil
		}
		return nil, err
	}
	var out []*knownEntry
	for _, ln := range strings.Split(string(b), "\n") {
		ln = strings.TrimSpace(ln)
		if ln == "" || strings.HasPrefix(ln, "#") {
			continue
		}
		e := &knownEntry{}
		switch {
		case strings.HasPrefix(ln, "known:"):
			e.Kind = "known"
			ln = strings.TrimSpace(strings.TrimPrefix(ln, "known:"))
		case strings.HasPrefix(ln, "fixed:"):
			e.Kind = "fixed"
			ln = strings.TrimSpace(strings.TrimPrefix(ln, "fixed:"))
		default:
			return nil, fmt.Errorf("known_findings.txt: bad line %q", ln)
		}
		head := ln
		if i := strings.Index(ln, " — "); i >= 0 {
			head, e.Text = ln[:i], ln[i+len(" — "):]
		}
		for _, f := range strings.Fields(head) {
			switch {
			case strings.HasPrefix(f, "property="):
				e.Prop = strings.TrimPrefix(f, "property=")
			case strings.HasPrefix(f, "rule="):
				e.Rule = strings.TrimPrefix(f, "rule=")
			case strings.HasPrefix(f, "construct="):
				e.Construct = strings.TrimPrefix(f, "construct=")
			}
		}
		if e.Prop == "" || e.Rule == "" || e.Construct == "" {
			return nil, fmt.Errorf("known_findings.txt: entry lacks property/rule/construct: %q", ln)
		}
		out = append(out, e)
	}
	return out, nil
}

// ---------------------------------------------------------------------------
// Finish: verdict lines, evidence, exit code

type evidence struct {
	PropertyID  string                 `json:"property_id"`
	Tier        string                 `json:"tier"`
	Seed        int                    `json:"seed"`
	Level       string                 `json:"level"`
	Coverage    map[string]interface{} `json:"coverage"`
	Assumptions []string               `json:"assumptions"`
	WallS       float64                `json:"wall_s"`
	Violations  int                    `json:"violations"`
}

func (r *Report) Finish() int {
	known, kerr := loadKnown()
	if kerr != nil {
		r.Unresolve("core", kerr.Error())
	}
	// rule instance counts
	perRule := map[string]int{}
	perRuleOK := map[string]int{}
	for _, o := range r.Obs {
		perRule[o.Rule]++
		if o.OK {
			perRuleOK[o.Rule]++
		}
	}
	for _, rd := range r.Rules {
		// vacuity guard.  The hand-confirmed instance count is a reference, not an invariant of the code: merging
		// two sites into one, or letting the compiler prove one more bounds check, legitimately lowers it.  The
		// rule is refused only when it has lost most of its instances (fewer than 60 %, or fewer than count-1 for
		// small rules, and never zero) — that is what "the rule no longer recognises its constructs" looks like.
		floor := rd.Min
		switch {
		case rd.Min >= 4:
			floor = (rd.Min*6 + 9) / 10
		case rd.Min >= 2:
			floor = rd.Min - 1
		}
		if perRule[rd.ID] < floor {
			r.Unresolve(rd.ID, fmt.Sprintf("rule matched %d instance(s); %d were confirmed by hand and fewer than %d means the rule no longer recognises its constructs (vacuous pass refused)", perRule[rd.ID], rd.Min, floor))
		}
	}
	var viol []Ob
	var knownHit []string
	for i := range r.Obs {
		o := r.Obs[i]
		if o.OK || o.Info {
			continue
		}
		hit := false
		for _, k := range known {
			if k.Kind == "known" && k.Prop == r.Prop && k.Rule == o.Rule && k.Construct == o.Construct {
				k.matched = true
				hit = true
				knownHit = append(knownHit, fmt.Sprintf("KNOWN-FINDING: property=%s %s:%s %s — %s", r.Prop, o.Rule, o.Construct, o.Pos, o.What))
				break
			}
		}
		if !hit {
			viol = append(viol, o)
		}
	}
	for _, k := range known {
		if k.Kind == "known" && k.Prop == r.Prop && !k.matched {
			r.Note("stale known-findings entry (no longer matches): rule=%s construct=%s", k.Rule, k.Construct)
			fmt.Printf("NOTE: stale known finding property=%s rule=%s construct=%s\n", r.Prop, k.Rule, k.Construct)
		}
	}
	if os.Getenv("VERIF_VERBOSE") != "" {
		for _, o := range r.Obs {
			fmt.Printf("OB %s %v %s @%s :: %s :: %s\n", o.Rule, o.OK, o.Construct, o.Pos, o.What, strings.Join(o.Facts, " ; "))
		}
	}
	sort.Strings(knownHit)
	seenKH := map[string]bool{}
	for _, l := range knownHit {
		if !seenKH[l] {
			fmt.Println(l)
			seenKH[l] = true
		}
	}

	vdir := filepath.Join(outDir, "out", "violations")
	os.MkdirAll(vdir, 0o755)
	os.MkdirAll(filepath.Join(outDir, "evidence"), 0o755)
	nviol := 0
	for i, o := range viol {
		path := filepath.Join(vdir, fmt.Sprintf("%s-%s-%d.json", r.Prop, r.Tier, i+1))
		b, _ := json.MarshalIndent(map[string]interface{}{"property": r.Prop, "violation": o, "rule_text": r.ruleText(o.Rule), "tier": r.Tier}, "", " ")
		os.WriteFile(path, b, 0o644)
		fmt.Printf("VIOLATION property=%s replay=%s rule=%s construct=%s at %s: %s\n", r.Prop, path, o.Rule, o.Construct, o.Pos, o.What)
		nviol++
	}
	for i, u := range r.Unresolved {
		path := filepath.Join(vdir, fmt.Sprintf("%s-%s-unresolved-%d.json", r.Prop, r.Tier, i+1))
		b, _ := json.MarshalIndent(map[string]interface{}{"property": r.Prop, "unresolved_anchor": u, "tier": r.Tier}, "", " ")
		os.WriteFile(path, b, 0o644)
		fmt.Printf("VIOLATION property=%s replay=%s UNRESOLVED-ANCHOR %s\n", r.Prop, path, u)
		nviol++
	}

	// evidence
	distinct := map[string]bool{}
	okCount := 0
	for _, o := range r.Obs {
		distinct[o.Rule+"|"+o.Construct] = true
		if o.OK {
			okCount++
		}
	}
	samples := []interface{}{}
	// sample: up to 4 per rule, plus all non-OK
	cnt := map[string]int{}
	for _, o := range r.Obs {
		if !o.OK || cnt[o.Rule] < 4 {
			samples = append(samples, o)
			cnt[o.Rule]++
		}
	}
	type ruleStat struct {
		RuleDoc
		Instances int `json:"instances"`
		Held      int `json:"held"`
	}
	var rs []ruleStat
	for _, rd := range r.Rules {
		rs = append(rs, ruleStat{rd, perRule[rd.ID], perRuleOK[rd.ID]})
	}
	expl := fmt.Sprintf("Static analysis of /repo's current source (go/types + go/ssa, per-function CFG reachability/dominance, value flow). DECIDED (structural necessary conditions): %s NOT DECIDED: %s", r.Decided, r.NotDecided)
	cov := map[string]interface{}{
		"explanation":         expl,
		"obligations":         len(r.Obs),
		"discharged":          okCount,
		"evaluations":         len(r.Obs),
		"distinct_nontrivial": len(distinct),
		"rule":                "one obligation per (rule, construct) enumerated from the resolved program; distinct = distinct (rule, construct) pairs; every obligation constrains a real construct (vacuous matches are not recorded; a rule below its hand-confirmed minimum fails)",
		"samples":             samples,
		"rules":               rs,
		"known_findings":      len(seenKH),
		"unresolved_anchors":  r.Unresolved,
		"notes":               r.Notes,
		"checker_cmd":         strings.Join(os.Args, " "),
		"trusted_base":        []string{"go/types type checker", "golang.org/x/tools v0.29.0 go/packages + go/ssa", "rule tables in /verif/checker"},
		"platforms":           r.Platforms,
		"exhaustive":          true,
	}
	if r.Prog != nil && r.Prog.Norm != nil && r.Prog.Norm.Overlay != nil {
		cov["normalisation"] = map[string]interface{}{"inlined_new_helpers": r.Prog.Norm.Inlined, "kept": r.Prog.Norm.Kept,
			"note": "helper functions absent from the baseline function list were inlined into their callers before analysis; reported line numbers refer to the normalised source"}
	}
	if r.Prog != nil {
		cov["packages_loaded"] = len(r.Prog.ByPath)
		cov["module_packages"] = len(r.Prog.Roots)
		cov["module_functions_with_ssa"] = r.Prog.nFuncs
		cov["module_cfg_blocks"] = r.Prog.nBlocks
	}
	for k, v := range r.Extra {
		cov[k] = v
	}
	seed := 0
	fmt.Sscanf(os.Getenv("VERIF_SEED"), "%d", &seed)
	ev := evidence{PropertyID: r.Prop, Tier: r.Tier, Seed: seed, Level: "other", Coverage: cov,
		Assumptions: append([]string{"source analysed is /repo's working tree at run time (GOOS/GOARCH as listed in platforms)", "Go type checker and x/tools SSA construction are correct", "nothing is random; seed recorded as given"}, r.Assumptions...),
		WallS:       time.Since(r.Start).Seconds(), Violations: nviol}
	b, _ := json.MarshalIndent(ev, "", " ")
	if err := os.WriteFile(filepath.Join(outDir, "evidence", r.Prop+".json"), b, 0o644); err != nil {
		fmt.Printf("VIOLATION property=%s replay=- cannot write evidence: %v\n", r.Prop, err)
		return 1
	}
	fmt.Printf("%s %s: %d obligations over %d rules, %d held, %d known finding(s), %d violation(s), %.1fs\n",
		r.Prop, r.Tier, len(r.Obs), len(r.Rules), okCount, len(seenKH), nviol, time.Since(r.Start).Seconds())
	if nviol > 0 {
		return 1
	}
	return 0
}

func (r *Report) ruleText(id string) string {
	for _, rd := range r.Rules {
		if rd.ID == id {
			return rd.Text
		}
	}
	return ""
}

// theTier: "quick" or "thorough"; tb picks an enumeration bound of a decision table by tier.  The thorough tier
// re-derives the same tables over a larger abstract universe (longer pools, more sites, more sizes).
var theTier = "quick"

func tb(quick, thorough int) int {
	if theTier == "thorough" {
		return thorough
	}
	return quick
}

// theProgram: the program currently analysed (used by the abstract evaluator to resolve package initialisers).
var theProgram *Program

// typeByName: a named type of any loaded package.
func (p *Program) typeByName(pkgPath, name string) types.Type {
	if pk := p.SSA.ImportedPackage(pkgPath); pk != nil {
		if o := pk.Pkg.Scope().Lookup(name); o != nil {
			return o.Type()
		}
	}
	return types.Typ[types.Invalid]
}

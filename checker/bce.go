package main

// E5 stage 1: the Go compiler's own bounds-check elimination.  The module is
// compiled (not run) with -d=ssa/check_bce/debug=1 and inlining off; every
// index/slice operation the compiler's prove pass could NOT discharge is
// reported as file:line:col.  Sites that are not reported were proven safe by
// cmd/compile and need no further argument.

import (
	"bufio"
	"bytes"
	"fmt"
	"os"
	"os/exec"
	"path/filepath"
	"regexp"
	"strings"
)

type bceResidue struct {
	sites map[string]string // "rel/file.go:line:col" -> IsInBounds | IsSliceInBounds
	lines int
}

var bceLine = regexp.MustCompile(`^(.+\.go):(\d+):(\d+): Found (IsInBounds|IsSliceInBounds)`)

func runBCE(goos, goarch string, overlay map[string][]byte) (*bceResidue, error) {
	// -trimpath: positions are reported relative to the module, and the build cache is shared between copies of the
	// tree at different places (a scratch copy per checked variant would otherwise fill the cache with duplicates)
	args := []string{"build", "-trimpath", "-gcflags=" + modPath + "/...=-l -d=ssa/check_bce/debug=1"}
	if overlay != nil {
		jp, cleanup, err := writeOverlayFile(overlay)
		if err != nil {
			return nil, err
		}
		defer cleanup()
		args = append(args, "-overlay", jp)
	}
	args = append(args, "./...")
	cmd := exec.Command("go", args...)
	cmd.Dir = repoDir
	cmd.Env = append(os.Environ(), "GOFLAGS=-mod=mod", "GOPROXY=off", "GOSUMDB=off", "GOTOOLCHAIN=local", "GOWORK=off", "CGO_ENABLED=0")
	if goos != "" {
		cmd.Env = append(cmd.Env, "GOOS="+goos)
	}
	if goarch != "" {
		cmd.Env = append(cmd.Env, "GOARCH="+goarch)
	}
	var out bytes.Buffer
	cmd.Stdout = &out
	cmd.Stderr = &out
	err := cmd.Run()
	res := &bceResidue{sites: map[string]string{}}
	sc := bufio.NewScanner(&out)
	sc.Buffer(make([]byte, 1<<20), 1<<24)
	var other []string
	for sc.Scan() {
		ln := sc.Text()
		if m := bceLine.FindStringSubmatch(ln); m != nil {
			file := m[1]
			if filepath.IsAbs(file) {
				if rel, e := filepath.Rel(repoDir, file); e == nil {
					file = rel
				}
			}
			file = strings.TrimPrefix(file, "./")
			file = strings.TrimPrefix(file, modPath+"/")
			res.sites[fmt.Sprintf("%s:%s:%s", file, m[2], m[3])] = m[4]
			res.lines++
			continue
		}
		if !strings.HasPrefix(ln, "#") && strings.TrimSpace(ln) != "" {
			other = append(other, ln)
		}
	}
	if err != nil {
		if len(other) > 5 {
			other = other[:5]
		}
		return nil, fmt.Errorf("go build for the BCE residue failed: %v: %s", err, strings.Join(other, " | "))
	}
	if res.lines == 0 {
		return nil, fmt.Errorf("BCE residue is empty: the compiler reported no unproven bounds check at all, which means the diagnostic flag was not honoured")
	}
	return res, nil
}

package main

import (
	"fmt"
	"go/constant"
	"go/token"
	"go/types"
	"strings"

	"golang.org/x/tools/go/ssa"
)

// c11R8: time.NewTicker and time.Tick panic on a period that is not positive, and the workers the setup functions
// start (health checks, ticket rotation, storage cleaning) run them in goroutines of their own: nothing recovers the
// panic, the process ends — during -validate as much as at start.  Every ticker period in the module must therefore be
// positive by construction: a positive constant; a package variable initialised to one and never assigned in the
// module; or a struct field every store to which, anywhere in the module, stores a positive value — a positive
// constant, another such field, or a value the store is guarded for (v > 0 on the path, in any spelling).  This
// decides the stores; that a field is never read while still zero is a matter of the worker's start conditions and is
// not decided here.
func c11R8(h H) {
	r := h.r
	r.Rule("R8", "ticker periods are positive by construction: the argument of every time.NewTicker / time.Tick in the module is a positive constant, a package variable initialised positive and never assigned, or a struct field all of whose stores in the module store a positive constant, another such field, or a value guarded positive on the path to the store (a configured period that is zero or negative must be refused at parse time: the ticker panics in a goroutine nothing recovers)", 4)
	// all stores by (struct type, field index)
	type fkey struct {
		t types.Type
		i int
	}
	stores := map[string][]*ssa.Store{}
	keyOf := func(fa *ssa.FieldAddr) string {
		return fmt.Sprintf("%s#%d", types.TypeString(derefType(fa.X.Type()), nil), fa.Field)
	}
	funcs := h.p.ModFuncs()
	for _, fn := range funcs {
		allInstrs(fn, func(in ssa.Instruction) {
			if st, ok := in.(*ssa.Store); ok {
				if fa, ok := st.Addr.(*ssa.FieldAddr); ok {
					stores[keyOf(fa)] = append(stores[keyOf(fa)], st)
				}
			}
		})
	}
	var positive func(v ssa.Value, at ssa.Instruction, depth int, seen map[string]bool) (bool, string)
	guardedPositive := func(v ssa.Value, at ssa.Instruction) bool {
		fn := at.Parent()
		for _, g := range dominatingGuards(fn, nil, at) {
			b, ok := g.Cond.(*ssa.BinOp)
			if !ok {
				continue
			}
			x, y, op := b.X, b.Y, b.Op
			holds := g.Pos
			// normalise to  v OP const
			if sameValue(y, v) {
				x, y = y, x
				switch op {
				case token.LSS:
					op = token.GTR
				case token.LEQ:
					op = token.GEQ
				case token.GTR:
					op = token.LSS
				case token.GEQ:
					op = token.LEQ
				}
			}
			if !sameValue(x, v) {
				continue
			}
			k, ok := y.(*ssa.Const)
			if !ok || k.Value == nil || k.Value.Kind() != constant.Int {
				continue
			}
			c, _ := constant.Int64Val(k.Value)
			if !holds {
				switch op {
				case token.LSS:
					op = token.GEQ
				case token.LEQ:
					op = token.GTR
				case token.GTR:
					op = token.LEQ
				case token.GEQ:
					op = token.LSS
				default:
					continue
				}
			}
			if (op == token.GTR && c >= 0) || (op == token.GEQ && c >= 1) {
				return true
			}
		}
		return false
	}
	positive = func(v ssa.Value, at ssa.Instruction, depth int, seen map[string]bool) (bool, string) {
		if depth > 4 {
			return false, "too deep"
		}
		switch t := v.(type) {
		case *ssa.Const:
			if t.Value != nil && t.Value.Kind() == constant.Int {
				if n, ok := constant.Int64Val(t.Value); ok && n > 0 {
					return true, ""
				}
			}
			return false, "the constant " + t.String() + " is not positive"
		case *ssa.Parameter:
			// what every static caller in the module passes (a function used as a value is not followed)
			if f := t.Parent(); f != nil && f.Parent() == nil {
				idx := -1
				for k, p := range f.Params {
					if p == t {
						idx = k
					}
				}
				sites := callSitesOf(h.p, f)
				if idx >= 0 && len(sites) > 0 && len(sites) <= 6 {
					for _, cs := range sites {
						c := callOf(cs)
						if c == nil || c.StaticCallee() != f || idx >= len(c.Args) {
							return false, "a caller of " + shortFunc(f) + " cannot be followed"
						}
						if guardedPositive(c.Args[idx], cs) {
							continue
						}
						if ok, why := positive(c.Args[idx], cs, depth+1, seen); !ok {
							return false, "the caller at " + h.p.Pos(cs.Pos()) + " passes " + describe(c.Args[idx]) + " (" + why + ")"
						}
					}
					return true, ""
				}
			}
		case *ssa.Convert:
			return positive(t.X, at, depth+1, seen)
		case *ssa.ChangeType:
			return positive(t.X, at, depth+1, seen)
		case *ssa.BinOp:
			if t.Op == token.MUL {
				a, _ := positive(t.X, at, depth+1, seen)
				b, _ := positive(t.Y, at, depth+1, seen)
				if a && b {
					return true, ""
				}
			}
		case *ssa.UnOp:
			if t.Op == token.MUL {
				switch a := t.X.(type) {
				case *ssa.Global:
					if a.Pkg != nil && isModPkg(a.Pkg.Pkg.Path()) && !assignedOutsideInit(a) {
						if o := (&absEnv{globals: map[string]*aobj{}}).globalInit(a); o != nil {
							if n, ok := o.f[""].(aint); ok && n > 0 {
								return true, ""
							}
						}
					}
					return false, "the package variable " + a.Name() + " is assigned in the module or not initialised to a positive constant"
				case *ssa.FieldAddr:
					k := keyOf(a)
					if seen[k] {
						return true, "" // a cycle of copies adds no new value
					}
					seen[k] = true
					if len(stores[k]) == 0 {
						return false, "the field " + describe(v) + " is never stored to in the module (its zero value is not a period)"
					}
					for _, st := range stores[k] {
						if guardedPositive(st.Val, st) {
							continue
						}
						if ok, why := positive(st.Val, st, depth+1, seen); !ok {
							return false, fmt.Sprintf("the store at %s puts %s there, which nothing on the path makes positive (%s)", h.p.Pos(st.Pos()), describe(st.Val), why)
						}
					}
					return true, ""
				}
			}
		}
		if at != nil && guardedPositive(v, at) {
			return true, ""
		}
		return false, "the value " + describe(v) + " is neither a positive constant nor guarded positive"
	}
	n := 0
	for _, fn := range funcs {
		allInstrs(fn, func(in ssa.Instruction) {
			c := callOf(in)
			if c == nil {
				return
			}
			name := calleeName(c)
			if name != "time.NewTicker" && name != "time.Tick" {
				return
			}
			n++
			ok, why := positive(c.Args[0], in, 0, map[string]bool{})
			r.Check(ok, "R8", fmt.Sprintf("%s/ticker-period#%d", shortFunc(fn), ordinalIn(fn, in, name)), in.Pos(), "the period handed to "+name+" is positive by construction", describe(c.Args[0]), why)
		})
	}
	_ = strings.TrimSpace
}

// ordinalIn: the 1-based position of instruction in among fn's calls to the named function.
func ordinalIn(fn *ssa.Function, in ssa.Instruction, name string) int {
	k, out := 0, 0
	allInstrs(fn, func(x ssa.Instruction) {
		if c := callOf(x); c != nil && calleeName(c) == name {
			k++
			if x == in {
				out = k
			}
		}
	})
	return out
}

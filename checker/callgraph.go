package main

// A module-internal, over-approximate call graph: static callees, every
// closure created in a reachable function, and for interface invokes every
// method of a module type that implements the interface (CHA restricted to
// the module).  Calls through plain function values are not resolved; their
// count is reported so the limitation is visible in evidence.

import (
	"go/types"

	"golang.org/x/tools/go/ssa"
)

type reachOpts struct {
	// skipInvoke: do not follow this interface invoke (e.g. Next.ServeHTTP)
	skipInvoke func(c *ssa.CallCommon) bool
	// stop: do not descend into this function
	stop func(f *ssa.Function) bool
}

type reachResult struct {
	Funcs      map[*ssa.Function]bool
	Unresolved int                          // dynamic calls through function values encountered
	External   map[string][]ssa.Instruction // callee name (outside module) -> call sites
}

func (p *Program) modTypes() []types.Type {
	var out []types.Type
	for _, pk := range p.Roots {
		sc := pk.Types.Scope()
		for _, n := range sc.Names() {
			if tn, ok := sc.Lookup(n).(*types.TypeName); ok && !tn.IsAlias() {
				if _, isIface := tn.Type().Underlying().(*types.Interface); isIface {
					continue
				}
				out = append(out, tn.Type(), types.NewPointer(tn.Type()))
			}
		}
	}
	return out
}

func (p *Program) implementers(iface *types.Interface, method string) []*ssa.Function {
	var out []*ssa.Function
	for _, T := range p.modTypes() {
		if !types.Implements(T, iface) {
			continue
		}
		sel := p.SSA.MethodSets.MethodSet(T).Lookup(nil, method)
		if sel == nil {
			// unexported method: need package
			for i := 0; i < p.SSA.MethodSets.MethodSet(T).Len(); i++ {
				s := p.SSA.MethodSets.MethodSet(T).At(i)
				if s.Obj().Name() == method {
					sel = s
				}
			}
		}
		if sel != nil {
			if f := p.SSA.MethodValue(sel); f != nil {
				out = append(out, f)
			}
		}
	}
	return out
}

func (p *Program) reachable(roots []*ssa.Function, o reachOpts) reachResult {
	res := reachResult{Funcs: map[*ssa.Function]bool{}, External: map[string][]ssa.Instruction{}}
	var work []*ssa.Function
	add := func(f *ssa.Function) {
		if f == nil || res.Funcs[f] {
			return
		}
		if o.stop != nil && o.stop(f) {
			return
		}
		res.Funcs[f] = true
		work = append(work, f)
	}
	for _, r := range roots {
		add(r)
	}
	for len(work) > 0 {
		f := work[len(work)-1]
		work = work[:len(work)-1]
		if len(f.Blocks) == 0 || !isModFunc(f) {
			continue
		}
		allInstrs(f, func(in ssa.Instruction) {
			if mc, ok := in.(*ssa.MakeClosure); ok {
				add(mc.Fn.(*ssa.Function))
			}
			c := callOf(in)
			if c == nil {
				return
			}
			if c.IsInvoke() {
				if o.skipInvoke != nil && o.skipInvoke(c) {
					return
				}
				if it, ok := c.Value.Type().Underlying().(*types.Interface); ok {
					for _, g := range p.implementers(it, c.Method.Name()) {
						add(g)
					}
				}
				n := calleeName(c)
				res.External[n] = append(res.External[n], in)
				return
			}
			if g := calleeFunc(c); g != nil {
				if isModFunc(g) {
					add(g)
				} else {
					n := funcName(g)
					res.External[n] = append(res.External[n], in)
				}
				return
			}
			if _, isB := c.Value.(*ssa.Builtin); isB {
				return
			}
			res.Unresolved++
		})
	}
	return res
}

package main

import (
	"fmt"
	"go/types"
	"strings"
)

// basicAuthTable: BasicAuth.ServeHTTP as a decision table (E10).  One or two rules, each with one resource and at
// most one exclusion; the matcher, the request's credentials, the password functions and the next handler are
// oracles.  The specification: OPTIONS passes; otherwise the request is protected when some rule's resource matches
// and none of that rule's exclusions does; a protected request reaches the next handler exactly when its credentials
// are those of a rule that protects it; everything else is answered 401 without the next handler running.
func basicAuthTable(h H) (bad string, ncases int) {
	fn := h.p.Func(baPkg, "BasicAuth.ServeHTTP")
	if fn == nil {
		return "basicauth.BasicAuth.ServeHTTP not found", 0
	}
	baT := fn.Params[0].Type()
	reqT := fn.Params[2].Type().(*types.Pointer).Elem()
	hdrT, _ := types.Unalias(h.p.typeByName("net/http", "Header")).Underlying().(*types.Map)
	var ruleT types.Type = types.Typ[types.Int]
	if st, ok := underlying(baT).(*types.Struct); ok {
		for i := 0; i < st.NumFields(); i++ {
			if st.Field(i).Name() == "Rules" {
				if sl, ok := underlying(st.Field(i).Type()).(*types.Slice); ok {
					ruleT = sl.Elem()
				}
			}
		}
	}
	type ruleCase struct {
		res bool // resource matches
		ex  int  // 0: no exclusion configured, 1: configured and not matching, 2: matching
	}
	type cs struct {
		rules  []ruleCase
		creds  int // 0 none, 1..n: valid for rule k-1, n+1: right user of rule 0 with a wrong password, n+2: unknown user
		method string
	}
	var cases []cs
	var rec func(n int, cur []ruleCase)
	rec = func(n int, cur []ruleCase) {
		if len(cur) == n {
			for creds := 0; creds <= n+2; creds++ {
				for _, m := range []string{"GET", "OPTIONS"} {
					cases = append(cases, cs{append([]ruleCase{}, cur...), creds, m})
				}
			}
			return
		}
		for _, res := range []bool{false, true} {
			for ex := 0; ex <= 2; ex++ {
				rec(n, append(cur, ruleCase{res, ex}))
			}
		}
	}
	rec(1, nil)
	rec(2, nil)
	strT := types.Typ[types.String]
	for _, c := range cases {
		c := c
		ncases++
		n := len(c.rules)
		var parts []string
		for i, rc := range c.rules {
			parts = append(parts, fmt.Sprintf("rule%d{resource matches=%v, exclusion=%s}", i, rc.res, []string{"none", "not matching", "matching"}[rc.ex]))
		}
		credDesc := "no credentials"
		user, pass, have := "", "", false
		switch {
		case c.creds >= 1 && c.creds <= n:
			user, pass, have = fmt.Sprintf("user%d", c.creds-1), fmt.Sprintf("right%d", c.creds-1), true
			credDesc = fmt.Sprintf("valid credentials of rule%d", c.creds-1)
		case c.creds == n+1:
			user, pass, have = "user0", "wrong", true
			credDesc = "rule0's user with a wrong password"
		case c.creds == n+2:
			user, pass, have = "stranger", "right0", true
			credDesc = "an unknown user"
		}
		desc := fmt.Sprintf("%s %s, %s", c.method, strings.Join(parts, " "), credDesc)
		nextCalls := 0
		respHdr := amap{&amapData{vals: map[string]aval{}, keys: map[string]aval{}, typ: hdrT}}
		env := &absEnv{globals: map[string]*aobj{}, maxSteps: 300000}
		env.ext = func(callee string, args []aval) (aval, bool) {
			switch {
			case strings.HasSuffix(callee, "httpserver.Path).Matches"):
				pat, _ := args[len(args)-1].(astr)
				var i int
				var kind string
				if _, err := fmt.Sscanf(string(pat), "/%3s%d", &kind, &i); err != nil || i >= n {
					return nil, false
				}
				if kind == "res" {
					return abool(c.rules[i].res), true
				}
				return abool(c.rules[i].ex == 2), true
			case callee == "(*net/http.Request).BasicAuth":
				return atuple{astr(user), astr(pass), abool(have)}, true
			case strings.HasPrefix(callee, "callback:pw"):
				var i int
				fmt.Sscanf(callee, "callback:pw%d", &i)
				p, _ := args[0].(astr)
				return abool(string(p) == fmt.Sprintf("right%d", i)), true
			case callee == "(*net/http.Request).Context", callee == "context.WithValue":
				return aiface{aptr{&aobj{name: "ctx", typ: types.Typ[types.Int], f: map[string]aval{}}, ""}, types.Typ[types.Int]}, true
			case callee == "(*net/http.Request).WithContext":
				return args[0], true
			case strings.HasSuffix(callee, "httpserver.NewReplacer"):
				return aiface{aptr{&aobj{name: "replacer", typ: types.Typ[types.Int], f: map[string]aval{}}, ""}, types.Typ[types.Int]}, true
			case callee == "invoke:Set":
				return atuple{}, true
			case callee == "invoke:Replace":
				return astr("message"), true
			case callee == "fmt.Errorf", callee == "errors.New":
				return aiface{aptr{&aobj{name: "err:unauthorized", typ: types.Typ[types.Int], f: map[string]aval{}}, ""}, types.Typ[types.Int]}, true
			case callee == "invoke:Header":
				return respHdr, true
			case callee == "invoke:ServeHTTP":
				nextCalls++
				return atuple{aint(299), anil{}}, true
			}
			return nil, false
		}
		mk := func() []aval {
			nextCalls = 0
			var rules []aval
			for i, rc := range c.rules {
				var ex aval = anil{}
				if rc.ex > 0 {
					ex = newVals([]aval{astr(fmt.Sprintf("/exc%d", i))}, strT)
				}
				rules = append(rules, astruct{map[string]aval{
					"Username": astr(fmt.Sprintf("user%d", i)), "Password": acb{fmt.Sprintf("pw%d", i)}, "Realm": astr(""),
					"Resources": newVals([]aval{astr(fmt.Sprintf("/res%d", i))}, strT), "Exclude": ex}})
			}
			a := astruct{map[string]aval{"Next": aiface{aptr{&aobj{name: "next", typ: types.Typ[types.Int], f: map[string]aval{}}, ""}, types.Typ[types.Int]}, "SiteRoot": astr("/srv"), "Rules": newVals(rules, ruleT)}}
			url := &aobj{name: "url", typ: types.Typ[types.Int], f: map[string]aval{}}
			req := &aobj{name: "request", typ: reqT, f: map[string]aval{"Method": astr(c.method)}}
			req.in = func(o *aobj, path string, t types.Type) aval {
				if path == "URL" {
					url.typ = underlying(t).(*types.Pointer).Elem()
					url.in = func(o *aobj, path string, t types.Type) aval {
						if path == "Path" {
							return astr("/requested")
						}
						return aunk{"url field " + path}
					}
					return aptr{url, ""}
				}
				return aunk{"request field " + path}
			}
			return []aval{a, aiface{aptr{&aobj{name: "writer", typ: types.Typ[types.Int], f: map[string]aval{}}, ""}, types.Typ[types.Int]}, aptr{req, ""}}
		}
		// specification
		protected, authed := false, false
		for i, rc := range c.rules {
			if rc.res && rc.ex != 2 {
				protected = true
				if c.creds == i+1 {
					authed = true
				}
			}
		}
		wantNext := c.method == "OPTIONS" || !protected || authed
		env.runForks(fn, mk, func(res aval, und string, _ int) bool {
			if und != "" {
				bad = desc + ": undecided — " + und
				return false
			}
			status := int64(-1)
			if tp, ok := res.(atuple); ok && len(tp) == 2 {
				if v, ok := tp[0].(aint); ok {
					status = int64(v)
				}
			}
			switch {
			case wantNext && (nextCalls != 1 || status != 299):
				bad = fmt.Sprintf("%s: the next handler runs %d times and the status is %d; specification: the request passes (the next handler's own result)", desc, nextCalls, status)
			case !wantNext && (nextCalls != 0 || status != 401):
				bad = fmt.Sprintf("%s: the next handler runs %d times and the status is %d; specification: 401 and the next handler does not run", desc, nextCalls, status)
			}
			return bad == ""
		})
		if bad != "" {
			return
		}
	}
	return
}

// internalTable: Internal.ServeHTTP as a decision table: a request whose path matches any configured internal
// prefix is answered 404 without the next handler running; any other request reaches the next handler once.
func internalTable(h H) (bad string, ncases int) {
	fn := h.p.Func(intPkg, "Internal.ServeHTTP")
	if fn == nil {
		return "internalsrv.Internal.ServeHTTP not found", 0
	}
	reqT := fn.Params[2].Type().(*types.Pointer).Elem()
	hdrT, _ := types.Unalias(h.p.typeByName("net/http", "Header")).Underlying().(*types.Map)
	strT := types.Typ[types.String]
	for n := 0; n <= 3; n++ {
		for m := 0; m < 1<<n; m++ {
			n, m := n, m
			ncases++
			desc := fmt.Sprintf("%d internal prefixes, matching mask %b", n, m)
			nextCalls := 0
			respHdr := amap{&amapData{vals: map[string]aval{}, keys: map[string]aval{}, typ: hdrT}}
			env := &absEnv{globals: map[string]*aobj{}, maxSteps: 300000}
			env.ext = func(callee string, args []aval) (aval, bool) {
				switch {
				case strings.HasSuffix(callee, "httpserver.Path).Matches"):
					pat, _ := args[len(args)-1].(astr)
					var i int
					if _, err := fmt.Sscanf(string(pat), "/int%d", &i); err != nil {
						return nil, false
					}
					return abool(m&(1<<i) != 0), true
				case callee == "invoke:Header":
					return respHdr, true
				case callee == "invoke:ServeHTTP":
					nextCalls++
					return atuple{aint(299), anil{}}, true
				}
				return nil, false
			}
			mk := func() []aval {
				nextCalls = 0
				var ps []aval
				for i := 0; i < n; i++ {
					ps = append(ps, astr(fmt.Sprintf("/int%d", i)))
				}
				var paths aval = anil{}
				if n > 0 {
					paths = newVals(ps, strT)
				}
				iv := astruct{map[string]aval{"Next": aiface{aptr{&aobj{name: "next", typ: types.Typ[types.Int], f: map[string]aval{}}, ""}, types.Typ[types.Int]}, "Paths": paths}}
				url := &aobj{name: "url", typ: types.Typ[types.Int], f: map[string]aval{}}
				req := &aobj{name: "request", typ: reqT, f: map[string]aval{"Method": astr("GET")}}
				req.in = func(o *aobj, path string, t types.Type) aval {
					if path == "URL" {
						url.typ = underlying(t).(*types.Pointer).Elem()
						url.in = func(o *aobj, path string, t types.Type) aval {
							if path == "Path" {
								return astr("/requested")
							}
							return aunk{"url field " + path}
						}
						return aptr{url, ""}
					}
					return aunk{"request field " + path}
				}
				return []aval{iv, aiface{aptr{&aobj{name: "writer", typ: types.Typ[types.Int], f: map[string]aval{}}, ""}, types.Typ[types.Int]}, aptr{req, ""}}
			}
			env.runForks(fn, mk, func(res aval, und string, _ int) bool {
				if und != "" {
					bad = desc + ": undecided — " + und
					return false
				}
				status := int64(-1)
				if tp, ok := res.(atuple); ok && len(tp) == 2 {
					if v, ok := tp[0].(aint); ok {
						status = int64(v)
					}
				}
				if m != 0 && (nextCalls != 0 || status != 404) {
					bad = fmt.Sprintf("%s: the next handler runs %d times and the status is %d; specification: 404 and nothing below runs", desc, nextCalls, status)
				}
				if m == 0 && (nextCalls != 1 || status != 299) {
					bad = fmt.Sprintf("%s: the next handler runs %d times and the status is %d; specification: the request passes once", desc, nextCalls, status)
				}
				return bad == ""
			})
			if bad != "" {
				return
			}
		}
	}
	return
}

// pathMatchesTable: Path.Matches on concrete paths: every spelling of a path below the base matches it (dot
// segments, repeated slashes, letter case unless paths are case sensitive), and paths beside the base do not.
func pathMatchesTable(h H) (bad string, ncases int) {
	fn := h.p.Func(hs, "Path.Matches")
	if fn == nil {
		return "httpserver.Path.Matches not found", 0
	}
	type cs struct {
		p, base string
		sens    bool
		want    bool
	}
	cases := []cs{
		{"/a/b", "/a", false, true}, {"/a", "/a", false, true}, {"/a/", "/a", false, true}, {"/a/b", "/a/", false, true},
		{"/a/../a/b", "/a", false, true}, {"//a//b", "/a", false, true}, {"/a/./b", "/a/", false, true}, {"/x/../a/b", "/a", false, true},
		{"/A/B", "/a", false, true}, {"/a/b", "/A", false, true}, {"/anything", "/", false, true}, {"/anything", "", false, true},
		{"/a/b/../../a/b/c", "/a/b", false, true}, {"/./a/b", "/a", false, true}, {"/a/./b/c", "/a/b", false, true}, {"/a/b/.", "/a/b", false, true}, {"/./a", "/a/", false, false},
		// a path that ends in a dot segment names the directory: /a/. and /a/b/.. are /a/
		{"/a/.", "/a/", false, true}, {"/a/b/..", "/a/", false, true}, {"/x/../a/.", "/a/", false, true}, {"/a/b/../.", "/a/", false, true},
		{"/b", "/a", false, false}, {"/a", "/a/b", false, false}, {"/a/c", "/a/b", false, false}, {"/a/b/../c", "/a/b", false, false}, {"/", "/a", false, false},
		{"/a/b", "/a", true, true}, {"/A/b", "/a", true, false}, {"/a/../A/b", "/a", true, false},
	}
	for _, c := range cases {
		ncases++
		env := &absEnv{globals: map[string]*aobj{"CaseSensitivePath": {name: "CaseSensitivePath", typ: types.Typ[types.Bool], f: map[string]aval{"": abool(c.sens)}}}, noFork: true, maxSteps: 50000}
		res, und := env.run(fn, []aval{astr(c.p), astr(c.base)})
		got, ok := res.(abool)
		if und != "" || !ok || bool(got) != c.want {
			return fmt.Sprintf("Path(%q).Matches(%q) with CaseSensitivePath=%v is %s, specification says %v %s", c.p, c.base, c.sens, describeAval(res), c.want, und), ncases
		}
	}
	return
}

package main

import (
	"strings"

	"golang.org/x/tools/go/ssa"
)

// gzipStreamRule: the compressed stream is finished exactly once per response, and a pooled compressor is handed
// back exactly once.  Necessary for "the client decodes what the handler wrote" (C18) and for "one complete,
// well-formed response" (C12): a stream that is not closed lacks its final block and trailer (the client sees a
// truncated body), and a compressor that is put into the pool twice is later handed to two concurrent responses.
func gzipStreamRule(h H, rule string) {
	r := h.r
	r.Rule(rule, "gzip stream life cycle: putWriter closes the *gzip.Writer before pooling it; Gzip.ServeHTTP registers, before it invokes the next handler with the compressing writer, exactly one deferred release whose call of putWriter is guarded by nothing but 'a compressor was created' (the type test on internalWriter); no other release is reachable in ServeHTTP, so every exit — error return and panic included — finishes the stream once and returns the compressor once", 4)
	const gz = "caskethttp/gzip"
	put := h.fn(rule, gz, "putWriter")
	sv := h.fn(rule, gz, "Gzip.ServeHTTP")
	if put == nil || sv == nil {
		return
	}
	// (1) putWriter: Close before Put, both on the parameter
	var closes, puts []ssa.Instruction
	allInstrs(put, func(in ssa.Instruction) {
		c := callOf(in)
		if c == nil {
			return
		}
		switch calleeName(c) {
		case "(*compress/gzip.Writer).Close":
			if _, isP := c.Args[0].(*ssa.Parameter); isP {
				closes = append(closes, in)
			}
		case "(*sync.Pool).Put":
			puts = append(puts, in)
		}
	})
	okClose := len(closes) > 0 && len(puts) > 0
	for _, p := range puts {
		okClose = okClose && mustPass(put, p, func(in ssa.Instruction) bool {
			for _, c := range closes {
				if in == c {
					return true
				}
			}
			return false
		})
	}
	for _, c := range closes {
		okClose = okClose && len(guardAtoms(put, nil, c)) == 0
	}
	r.Check(okClose, rule, "gzip.putWriter/close-then-pool", put.Pos(), "the compressor is closed (final block and trailer written) unconditionally, and only then put back into the pool")
	// release functions: package functions/closures that (transitively) call putWriter
	memo := map[*ssa.Function]int{}
	var releases func(f *ssa.Function, d int) bool
	releases = func(f *ssa.Function, d int) bool {
		if f == nil || f.Blocks == nil || d > 3 {
			return false
		}
		if f == put {
			return true
		}
		if v, ok := memo[f]; ok {
			return v == 1
		}
		memo[f] = 0
		res := false
		allInstrs(f, func(in ssa.Instruction) {
			if c := callOf(in); c != nil && !res {
				if cal := c.StaticCallee(); cal != nil && fnPkg(cal) != nil && strings.HasSuffix(fnPkg(cal).Path(), gz) && releases(cal, d+1) {
					res = true
				}
			}
		})
		if res {
			memo[f] = 1
		}
		return res
	}
	calleeOf := func(in ssa.Instruction) *ssa.Function {
		c := callOf(in)
		if c == nil {
			return nil
		}
		if f := c.StaticCallee(); f != nil {
			return f
		}
		if mc, ok := c.Value.(*ssa.MakeClosure); ok {
			return mc.Fn.(*ssa.Function)
		}
		return nil
	}
	var deferred, direct []ssa.Instruction
	allInstrs(sv, func(in ssa.Instruction) {
		f := calleeOf(in)
		if f == nil || !releases(f, 0) {
			return
		}
		if _, isDefer := in.(*ssa.Defer); isDefer {
			deferred = append(deferred, in)
		} else {
			direct = append(direct, in)
		}
	})
	r.Check(len(deferred) == 1, rule, "gzip.Gzip.ServeHTTP/one-deferred-release", sv.Pos(), "exactly one deferred release of the compressor is registered (it runs on every exit, panics included)", sprintf("%d deferred release(s)", len(deferred)))
	for k, d := range direct {
		r.Fail(rule, sprintf("gzip.Gzip.ServeHTTP/extra-release#%d", k+1), d.Pos(), "the compressor is released here and again by the deferred release: it is closed twice and enters the pool twice, so two later responses share one compressor")
	}
	if len(deferred) == 0 {
		return
	}
	// registered before the next handler can write through the compressing writer
	var wrapped []ssa.Instruction
	for _, nx := range nextInvokes(sv) {
		if _, isParam := callOf(nx).Args[0].(*ssa.Parameter); !isParam {
			wrapped = append(wrapped, nx)
		}
	}
	if len(wrapped) == 0 {
		r.Unresolve(rule, "Gzip.ServeHTTP: no Next.ServeHTTP invoke that is given the compressing writer")
	}
	for k, nx := range wrapped {
		ok := mustPass(sv, nx, func(in ssa.Instruction) bool { return in == deferred[0] })
		r.Check(ok, rule, sprintf("gzip.Gzip.ServeHTTP/release-registered-before-next#%d", k+1), nx.Pos(), "the release is registered before the next handler runs with the compressing writer")
	}
	// the deferred function's putWriter call is conditional on the compressor's existence only
	df := calleeOf(deferred[0])
	var walkRel func(f *ssa.Function, d int)
	seen := map[*ssa.Function]bool{}
	n := 0
	walkRel = func(f *ssa.Function, d int) {
		if f == nil || seen[f] || d > 3 {
			return
		}
		seen[f] = true
		allInstrs(f, func(in ssa.Instruction) {
			cal := calleeOf(in)
			if cal == nil || !releases(cal, 0) {
				return
			}
			if _, isDefer := in.(*ssa.Defer); isDefer && f != sv {
				// fine: still unconditional at function exit
			}
			n++
			var extra []string
			for _, g := range guardAtoms(f, nil, in) {
				if ex, ok := g.Cond.(*ssa.Extract); ok && ex.Index == 1 && g.Pos {
					if ta, ok := ex.Tuple.(*ssa.TypeAssert); ok && ta.CommaOk && readsField(ta.X, "internalWriter") {
						continue
					}
				}
				if x, nilWhenTrue, ok := nilCmp(g.Cond); ok && readsField(x, "internalWriter") && g.Pos != nilWhenTrue {
					continue
				}
				extra = append(extra, describe(g.Cond))
			}
			r.Check(len(extra) == 0, rule, sprintf("gzip.%s/release-unconditional#%d", strings.TrimPrefix(shortFunc(f), "gzip."), n), in.Pos(),
				"the stream is finished whenever a compressor was created — whatever status or error the handler returned", extra...)
			if cal != put {
				walkRel(cal, d+1)
			}
		})
	}
	walkRel(df, 0)
	if n == 0 {
		r.Unresolve(rule, "deferred release does not reach putWriter")
	}
}

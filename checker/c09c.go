package main

import (
	"go/token"
	"go/types"
	"sort"
	"strings"

	"golang.org/x/tools/go/ssa"
)

// c09R8: the canonical list is read-only once the program runs.  executeDirectives walks the slice the server type
// hands out (ServerType.Directives → the package-level httpserver.directives itself, no copy), every time a
// configuration is loaded or reloaded.  Anything that reorders, overwrites or truncates that slice in place — a sort
// "for display", a filter over list[:0] — changes the order every later load executes directives in.  The rule
// follows the slice (not copies of it) through the module: sources are loads of the package variable, calls of the
// server type's Directives function, and calls of functions that return such a value; aliases flow through phis,
// re-slicing, conversions (sort.StringSlice(x)), local variables, and into the parameters of module functions they
// are passed to.  No alias may reach an in-place mutator.
func c09R8(h H) {
	r := h.r
	r.Rule("R8", "the canonical directive list is never modified in place after registration: no alias of httpserver.directives (the package variable, what ServerType.Directives / casket.ValidDirectives hand out, parameters it is passed as; followed through re-slicing, conversions, local variables and phis, not through copies) is an argument of a sort/reverse/copy-into, the base of an element store, or the re-sliced base of an append, anywhere in the module outside RegisterDevDirective", 4)
	pkg := h.p.Pkg(hs)
	if pkg == nil {
		r.Unresolve("R8", "package httpserver not found")
		return
	}
	g, _ := pkg.Members["directives"].(*ssa.Global)
	if g == nil {
		r.Unresolve("R8", "httpserver.directives not found")
		return
	}
	funcs := h.p.ModFuncs()
	isListT := func(t types.Type) bool {
		sl, ok := t.Underlying().(*types.Slice)
		if !ok {
			return false
		}
		b, ok := sl.Elem().Underlying().(*types.Basic)
		return ok && b.Kind() == types.String
	}
	// what is stored into each struct field anywhere in the module (field-based: a list kept in a struct — the
	// parser's copy of the valid directives — is the same list)
	fieldStores := map[string][]ssa.Value{}
	fkey := func(fa *ssa.FieldAddr) string {
		return types.TypeString(derefType(fa.X.Type()), nil) + "#" + sprintf("%d", fa.Field)
	}
	for _, fn := range funcs {
		allInstrs(fn, func(in ssa.Instruction) {
			if st, ok := in.(*ssa.Store); ok {
				if fa, ok := st.Addr.(*ssa.FieldAddr); ok && isListT(st.Val.Type()) {
					fieldStores[fkey(fa)] = append(fieldStores[fkey(fa)], st.Val)
				}
			}
		})
	}
	srcFuncs := map[*ssa.Function]bool{}   // functions returning an alias
	srcParams := map[*ssa.Parameter]bool{} // parameters an alias is passed as
	var alias func(v ssa.Value, seen map[ssa.Value]bool) bool
	alias = func(v ssa.Value, seen map[ssa.Value]bool) bool {
		if v == nil || seen[v] {
			return false
		}
		seen[v] = true
		switch t := v.(type) {
		case *ssa.Parameter:
			return srcParams[t]
		case *ssa.UnOp:
			if t.Op != token.MUL {
				return false
			}
			if t.X == ssa.Value(g) {
				return true
			}
			if a, ok := t.X.(*ssa.Alloc); ok {
				for _, s := range storesTo(a) {
					if alias(s, seen) {
						return true
					}
				}
			}
			if fv, ok := t.X.(*ssa.FreeVar); ok {
				for _, s := range storesToFreeVar(fv) {
					if alias(s, seen) {
						return true
					}
				}
			}
			if fa, ok := t.X.(*ssa.FieldAddr); ok && isListT(t.Type()) {
				for _, s := range fieldStores[fkey(fa)] {
					if alias(s, seen) {
						return true
					}
				}
			}
			return false
		case *ssa.Phi:
			for _, e := range t.Edges {
				if alias(e, seen) {
					return true
				}
			}
		case *ssa.Slice:
			return alias(t.X, seen)
		case *ssa.ChangeType:
			return alias(t.X, seen)
		case *ssa.Convert:
			return isListT(t.X.Type()) && alias(t.X, seen)
		case *ssa.MakeInterface:
			return alias(t.X, seen)
		case *ssa.Call:
			c := t.Common()
			if c.IsInvoke() {
				return false
			}
			if f := c.StaticCallee(); f != nil {
				return srcFuncs[f]
			}
			if b, ok := c.Value.(*ssa.Builtin); ok {
				// append(x, …) may return x's own array
				return b.Name() == "append" && len(c.Args) > 0 && alias(c.Args[0], seen)
			}
			// a call of the server type's Directives function value
			fieldName := ""
			switch fv := c.Value.(type) {
			case *ssa.UnOp:
				if fa, ok := fv.X.(*ssa.FieldAddr); ok {
					if st, ok := underlying(derefType(fa.X.Type())).(*types.Struct); ok {
						fieldName = st.Field(fa.Field).Name()
					}
				}
			case *ssa.Field:
				if st, ok := underlying(fv.X.Type()).(*types.Struct); ok {
					fieldName = st.Field(fv.Field).Name()
				}
			}
			return fieldName == "Directives" && isListT(t.Type())
		}
		return false
	}
	is := func(v ssa.Value) bool { return alias(v, map[ssa.Value]bool{}) }
	// fixpoint over returns and argument passing
	for changed, round := true, 0; changed && round < 8; round++ {
		changed = false
		for _, fn := range funcs {
			for _, b := range fn.Blocks {
				for _, in := range b.Instrs {
					switch t := in.(type) {
					case *ssa.Return:
						for _, res := range t.Results {
							if isListT(res.Type()) && !srcFuncs[fn] && is(res) {
								srcFuncs[fn] = true
								changed = true
							}
						}
					}
					c := callOf(in)
					if c == nil || c.IsInvoke() {
						continue
					}
					f := c.StaticCallee()
					if f == nil || len(f.Blocks) == 0 || fnPkg(f) == nil || !isModPkg(fnPkg(f).Path()) {
						continue
					}
					for i, a := range c.Args {
						if i < len(f.Params) && isListT(a.Type()) && !srcParams[f.Params[i]] && is(a) {
							srcParams[f.Params[i]] = true
							changed = true
						}
					}
				}
			}
		}
	}
	mutators := map[string]bool{"sort.Strings": true, "sort.Sort": true, "sort.Stable": true, "sort.Slice": true, "sort.SliceStable": true,
		"slices.Sort": true, "slices.SortFunc": true, "slices.SortStableFunc": true, "slices.Reverse": true, "math/rand.Shuffle": false}
	type site struct {
		pos  token.Pos
		what string
	}
	var readers []string
	bad := map[string][]site{}
	nAlias := 0
	for _, fn := range funcs {
		touched := false
		var sites []site
		for _, b := range fn.Blocks {
			for _, in := range b.Instrs {
				if v, ok := in.(ssa.Value); ok && isListT(v.Type()) && is(v) {
					touched = true
					nAlias++
				}
				if st, ok := in.(*ssa.Store); ok {
					if ia, ok := st.Addr.(*ssa.IndexAddr); ok && is(ia.X) {
						sites = append(sites, site{in.Pos(), "stores into an element of the list"})
					}
					continue
				}
				c := callOf(in)
				if c == nil || c.IsInvoke() {
					continue
				}
				if bi, ok := c.Value.(*ssa.Builtin); ok {
					switch bi.Name() {
					case "copy":
						if is(c.Args[0]) {
							sites = append(sites, site{in.Pos(), "copies into the list"})
						}
					case "append":
						if sl, ok := c.Args[0].(*ssa.Slice); ok && sl.Max == nil && sl.High != nil && is(sl.X) {
							sites = append(sites, site{in.Pos(), "appends onto a prefix of the list (overwriting what follows it)"})
						}
					case "clear":
						if is(c.Args[0]) {
							sites = append(sites, site{in.Pos(), "clears the list"})
						}
					}
					continue
				}
				f := c.StaticCallee()
				if f == nil {
					continue
				}
				name := funcName(f)
				if i := strings.Index(name, "["); i >= 0 {
					name = name[:i]
				}
				if mutators[name] && len(c.Args) > 0 && is(c.Args[0]) {
					sites = append(sites, site{in.Pos(), "passes the list to " + name})
				}
			}
		}
		if touched || len(sites) > 0 {
			readers = append(readers, funcName(fn))
		}
		if len(sites) > 0 {
			bad[funcName(fn)] = sites
		}
	}
	sort.Strings(readers)
	for _, name := range readers {
		if strings.HasSuffix(name, "httpserver.RegisterDevDirective") {
			// the registration API: documented to splice a name into the list, before anything is loaded
			r.Check(true, "R8", "list-read-only:"+name, g.Pos(), "registration-time splice (allowed by name)", "RegisterDevDirective edits the list by design")
			continue
		}
		var facts []string
		var pos token.Pos = g.Pos()
		for _, s := range bad[name] {
			facts = append(facts, h.p.Pos(s.pos)+": "+s.what+" — every later configuration load executes directives in the changed order")
			pos = s.pos
		}
		r.Check(len(facts) == 0, "R8", "list-read-only:"+name, pos, name+" handles the canonical directive list without modifying it", facts...)
	}
	_ = nAlias
}

package main

import (
	"fmt"
	"go/types"
	"strings"

	"golang.org/x/tools/go/ssa"
)

// c02R7: a directory archive holds nothing hidden.  R2 shows that the walk callback tests every entry with IsHidden;
// for a hidden *directory* that is not enough, since skipping the entry alone lets the walker descend and archive what
// lies below it (those files are not themselves on the hide list).  The callback ServeArchive hands to the walker is
// evaluated (E10) on the four kinds of entry; for a hidden directory it must answer with the walker's skip-this-
// directory sentinel.
func c02R7(h H) {
	r := h.r
	r.Rule("R7", "archives and hidden directories, as a decision table (E10) of the callback Browse.ServeArchive gives the tree walker: the archived directory itself and a hidden file are passed over (nil, nothing written), a hidden directory answers filepath.SkipDir (nothing below it is visited), an ordinary file is written to the archive exactly once", 1)
	fn := h.fn("R7", brPkg, "Browse.ServeArchive")
	if fn == nil {
		return
	}
	// the closure handed to the walker
	var mc *ssa.MakeClosure
	allInstrs(fn, func(in ssa.Instruction) {
		c := callOf(in)
		if c == nil || c.IsInvoke() {
			return
		}
		if f := c.StaticCallee(); f == nil || f.Name() != "Walk" {
			return
		}
		for _, a := range c.Args {
			derives(a, func(v ssa.Value) bool {
				if m, ok := v.(*ssa.MakeClosure); ok && mc == nil {
					// the walk callback: func(path, info, err) error — not some other function value on the way
					if sg := m.Fn.(*ssa.Function).Signature; sg.Params().Len() == 3 && sg.Results().Len() == 1 {
						mc = m
					}
				}
				return false
			}, flowOpts{})
		}
	})
	if mc == nil {
		r.Unresolve("R7", "Browse.ServeArchive: no closure handed to a Walk function")
		return
	}
	cb := mc.Fn.(*ssa.Function)
	skipObj := &aobj{name: "filepath.SkipDir", typ: types.Typ[types.Int], f: map[string]aval{}}
	skip := aiface{aptr{skipObj, ""}, types.Typ[types.Int]}
	type cs struct {
		name          string
		path          string
		hidden, isDir bool
		want          string // "nil", "skip"
		writes        int
	}
	cases := []cs{
		{"the archived directory itself", "/pub", false, true, "nil", 0},
		{"a hidden file", "/pub/secret.txt", true, false, "nil", 0},
		{"a hidden directory", "/pub/private", true, true, "skip", 0},
		{"an ordinary file", "/pub/a.txt", false, false, "nil", 1},
		{"an ordinary directory", "/pub/sub", false, true, "nil", 1},
	}
	bad, n := "", 0
	for _, c := range cases {
		writes := 0
		env := &absEnv{globals: map[string]*aobj{"SkipDir": {name: "filepath.SkipDir variable", typ: types.Typ[types.Int], f: map[string]aval{"": skip}}}, noFork: true, maxSteps: 200000}
		env.ext = func(callee string, args []aval) (aval, bool) {
			switch {
			case strings.HasSuffix(callee, "FileServer).IsHidden"), callee == "callback:hide-test":
				return abool(c.hidden), true
			case callee == "invoke:IsDir":
				return abool(c.isDir), true
			case callee == "invoke:Mode":
				if c.isDir {
					return aint(int64(1 << 31)), true
				}
				return aint(0644), true
			case strings.HasSuffix(callee, "FileMode).IsRegular"):
				return abool(!c.isDir), true
			case strings.HasSuffix(callee, "FileMode).IsDir"):
				return abool(c.isDir), true
			case callee == "invoke:Open":
				return atuple{aiface{aptr{&aobj{name: "file", typ: types.Typ[types.Int], f: map[string]aval{}}, ""}, types.Typ[types.Int]}, anil{}}, true
			case callee == "invoke:Close":
				return anil{}, true
			case strings.HasSuffix(callee, "archiver.NameInArchive"), strings.HasSuffix(callee, "NameInArchive"):
				return atuple{astr("name"), anil{}}, true
			case callee == "invoke:Write":
				writes++
				return anil{}, true
			case callee == "log.Printf":
				return atuple{}, true
			}
			return nil, false
		}
		// what the callback captured, built by type: the directory being archived for a string, the browse
		// configuration (its file system an oracle), fresh objects for interfaces, oracles for function values (a
		// hide test carried as a method value), structs field by field — whether captured variable by variable
		// (a closure) or as the receiver of a method value
		var mkVal func(t types.Type, name string, depth int) aval
		mkVal = func(t types.Type, name string, depth int) aval {
			if depth > 3 {
				return aunk{"captured " + name}
			}
			switch u := underlying(t).(type) {
			case *types.Basic:
				if u.Info()&types.IsString != 0 {
					return astr("/pub")
				}
				return zeroOf(t)
			case *types.Interface:
				return aiface{aptr{&aobj{name: name, typ: types.Typ[types.Int], f: map[string]aval{}}, ""}, types.Typ[types.Int]}
			case *types.Signature:
				if u.Results().Len() == 1 && u.Results().At(0).Type().String() == "bool" {
					return acb{"hide-test"}
				}
				return aunk{"captured function " + name}
			case *types.Pointer:
				o := &aobj{name: name, typ: u.Elem(), f: map[string]aval{}}
				o.in = func(o *aobj, path string, ft types.Type) aval {
					leaf := path
					if i := strings.LastIndex(path, "."); i >= 0 {
						leaf = path[i+1:]
					}
					return mkVal(ft, name+"."+leaf, depth+1)
				}
				return aptr{o, ""}
			case *types.Struct:
				f := map[string]aval{}
				for i := 0; i < u.NumFields(); i++ {
					f[u.Field(i).Name()] = mkVal(u.Field(i).Type(), name+"."+u.Field(i).Name(), depth+1)
				}
				return astruct{f}
			}
			return aunk{"captured " + name}
		}
		var free []aval
		for i, fv := range cb.FreeVars {
			_, isCell := mc.Bindings[i].(*ssa.Alloc)
			if p, ok := fv.Type().(*types.Pointer); ok && isCell {
				// a captured variable: a cell holding the value
				cell := &aobj{name: "cell " + fv.Name(), typ: p.Elem(), f: map[string]aval{}}
				env.store(cell, "", mkVal(p.Elem(), fv.Name(), 0)) // (a struct's fields are stored leaf by leaf)
				free = append(free, aptr{cell, ""})
				continue
			}
			free = append(free, mkVal(fv.Type(), fv.Name(), 0))
		}
		info := aiface{aptr{&aobj{name: "file info", typ: types.Typ[types.Int], f: map[string]aval{}}, ""}, types.Typ[types.Int]}
		res, und := env.runFunc(afunc{cb, free}, []aval{astr(c.path), info, anil{}})
		n++
		desc := fmt.Sprintf("archive of /pub, the walker visits %s (%s)", c.name, c.path)
		if und != "" {
			bad = desc + ": undecided — " + und
			break
		}
		got := "something else: " + describeAval(res)
		switch v := res.(type) {
		case anil:
			got = "nil"
		case aiface:
			if p, ok := v.val.(aptr); ok && p.obj == skipObj {
				got = "skip"
			}
		}
		if got != c.want {
			w := map[string]string{"nil": "nil (go on)", "skip": "filepath.SkipDir (do not descend)"}
			bad = fmt.Sprintf("%s: the callback answers %s, specification says %s — everything below a hidden directory would be archived", desc, got, w[c.want])
			break
		}
		if writes != c.writes {
			bad = fmt.Sprintf("%s: %d entries written to the archive, specification says %d", desc, writes, c.writes)
			break
		}
	}
	r.Check(bad == "" && n == len(cases), "R7", "browse.Browse.ServeArchive/walk-callback-table", cb.Pos(), "the archive holds the ordinary entries and nothing hidden, nor anything below a hidden directory", fmt.Sprintf("%d visits evaluated", n), bad)
}

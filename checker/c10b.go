package main

import (
	"fmt"
)

// c10R7: "environment placeholders are replaced by their values", as a decision table (E10, concrete strings, the
// environment an oracle): every reference in a token is replaced by its variable's value, text around and between
// references is kept, a value is not expanded again, and an empty or unterminated reference ends the replacement
// without undoing what was already replaced.
func c10R7(h H) {
	r := h.r
	r.Rule("R7", "environment references as a decision table (E10): replaceEnvVars, evaluated on token texts with zero, one and several {$NAME} / {%NAME%} references, unset variables, an unterminated reference, an empty reference after others, and a variable whose value is itself a reference, returns the text with every reference replaced by its variable's value exactly once and everything else kept", 1)
	fn := h.fn("R7", cfPkg, "replaceEnvVars")
	if fn == nil {
		return
	}
	envv := map[string]string{"A": "1", "B": "22", "HOST": "h.example", "SELF": "{$SELF}", "EMPTY": ""}
	cases := [][2]string{
		{"plain", "plain"},
		{"{$A}", "1"},
		{"x{$A}y", "x1y"},
		{"x{$A}y{$B}z", "x1y22z"},
		{"{$A}{$A}", "11"},
		{"{%A%}-{$B}", "1-22"},
		{"{%HOST%}:80", "h.example:80"},
		{"{$UNSET}|", "|"},
		{"{$EMPTY}{$A}", "1"},
		{"{$A", "{$A"},
		{"{$HOST}:80{$}", "h.example:80{$}"},
		{"{$A}{$}{$B}", "1{$}{$B}"},
		{"{$SELF}", "{$SELF}"},
		{"a{$SELF}b{$A}", "a{$SELF}b1"},
	}
	bad, nrun := "", 0
	for _, c := range cases {
		env := &absEnv{globals: map[string]*aobj{}, noFork: true, maxSteps: 100000}
		env.ext = func(callee string, args []aval) (aval, bool) {
			switch callee {
			case "os.Getenv":
				if k, ok := args[0].(astr); ok {
					return astr(envv[string(k)]), true
				}
			case "os.LookupEnv":
				if k, ok := args[0].(astr); ok {
					v, set := envv[string(k)]
					return atuple{astr(v), abool(set)}, true
				}
			}
			return nil, false
		}
		res, und := env.run(fn, []aval{astr(c[0])})
		nrun++
		got, ok := res.(astr)
		if und != "" || !ok || string(got) != c[1] {
			bad = fmt.Sprintf("with A=1 B=22 HOST=h.example SELF={$SELF} EMPTY= the token %q becomes %s, specification says %q %s", c[0], describeAval(res), c[1], und)
			break
		}
	}
	r.Check(bad == "", "R7", "casketfile.replaceEnvVars/table", fn.Pos(), "every environment reference in a token is replaced by its value, once, and nothing else changes", fmt.Sprintf("%d token texts evaluated", nrun), bad)
}

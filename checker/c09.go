package main

import (
	"fmt"
	"go/token"
	"go/types"
	"os"
	"sort"
	"strings"

	"golang.org/x/tools/go/ssa"
)

func init() {
	register("C09", &propSpec{
		technique: "static analysis: loop-nest structure of executeDirectives, alias/flow check of the parser's token grouping, induction-variable direction of the middleware wrap loop, effect-class ordering and def-before-use of site configuration over the extracted directive map",
		run:       runC09,
		decided: "R1 setup functions run inside a loop over server blocks nested in a loop over the fixed directive list, parsing callbacks after the inner loop; R2 the parser files tokens under their directive's name by appending copies (never slices aliasing the token array); " +
			"R3 middleware is wrapped last-to-first around the file server and AddMiddleware appends; R4 the list orders path rewriters before basicauth, basicauth/redir/internal before every content producer, and log/gzip/header/errors before basicauth and the producers; " +
			"R5 every directive that writes a SiteConfig field precedes every directive that copies it into a handler; R6 every in-repository http directive is listed exactly once. Since round 4: R3 as a table: after AddMiddleware(m0..mk) NewServer stores m0(m1(...(file server))). R7 the lexer counts every line break it consumes (what delimits directive lines). Since round 5: R1 along traces of executeDirectives (order of setup calls and callbacks for two blocks x three directives). R8 the canonical directive list is never modified in place outside RegisterDevDirective (alias analysis of httpserver.directives through ValidDirectives / ServerType.Directives and parameters, against sort/reverse/copy-into/element store/prefix append). Since round 6: R2 is decided by the parser table of C10 R8 (tokens filed under their directive, in order, no shared storage). Since round 8: R8 follows the list through struct fields too (the parser's validDirectives).",
		notDecided: "response equality under permutation for all requests (a relation between two executions); third-party directives' internals.",
	})
}

func runC09(r *Report, p *Program) {
	h := H{r, p}
	dm := p.DirectiveMap()
	c09R1(h)
	c09R2(h)
	c09R3(h)
	c09R4(h, dm)
	c09R5(h, dm)
	c09R6(h, dm)
	lineCountingRule(h, "R7")
	c09R8(h)
}

// loopOverParam finds the loop whose continuation test compares with len(<parameter named name>).
func loopOverParam(fn *ssa.Function, name string) *ssa.BasicBlock {
	for _, i := range ifs(fn) {
		b, ok := i.Cond.(*ssa.BinOp)
		if !ok || b.Op != token.LSS {
			continue
		}
		c, ok := b.Y.(*ssa.Call)
		if !ok || calleeName(&c.Call) != "builtin.len" {
			continue
		}
		pr, ok := c.Call.Args[0].(*ssa.Parameter)
		if !ok || pr.Name() != name {
			continue
		}
		if len(naturalLoop(i.Block())) > 0 {
			return i.Block()
		}
	}
	return nil
}

// c09R1: decided from traces of executeDirectives (E10, execTraces); the loop-nest formulation is no longer registered.
func c09R1(h H) {
	r := h.r
	r.Rule("R1", "execution order as traces (E10): executeDirectives, evaluated for the directive list d1, d2, d3 and two server blocks that use d3, d1 and d2, d1 (in that file order), with the directives' setup functions and the parsing callbacks as oracles, each failing in turn, validating and not: setup runs directive by directive in list order, within a directive block by block and key by key, only where the block uses the directive; a directive's parsing callbacks run after its last block; the first failure is returned and nothing follows it; ValidateAndExecuteDirectives passes the server type's Directives() list", 2)
	t := execTraces(h)
	var pos token.Pos
	if fn := h.p.Func("", "executeDirectives"); fn != nil {
		pos = fn.Pos()
	}
	r.Check(t.order == "" && t.other == "", "R1", "casket.executeDirectives/order-trace", pos, "directives take effect in the order of the fixed list, whatever the order of their lines in the file", sprintf("%d runs evaluated", t.n), t.order, t.other)
	if v := h.fn("R1", "", "ValidateAndExecuteDirectives"); v != nil {
		for _, c := range callsTo(v, "casket.executeDirectives") {
			arg := callOf(c).Args[2]
			ok := derives(arg, func(x ssa.Value) bool {
				cc, isC := x.(*ssa.Call)
				return isC && !cc.Call.IsInvoke() && readsField(cc.Call.Value, "Directives")
			}, flowOpts{})
			r.Check(ok, "R1", "casket.ValidateAndExecuteDirectives/passes-type-directives", c.Pos(), "the order used is the server type's fixed Directives() list", describe(arg))
		}
	}
}

// c09R2Patterns: the former structural formulation, kept for reference and no longer registered.
func c09R2Patterns(h H) {
	r := h.r
	r.Rule("R2", "parser groups tokens by directive: in parser.directive every update of block.Tokens is keyed by the directive name and stores append(block.Tokens[<same key>], <one token>): relative order of a directive's lines is kept and the stored slice never aliases the parser's token array", 1)
	fn := h.fn("R2", "casketfile", "(*parser).directive")
	if fn == nil {
		return
	}
	n := 0
	for _, g := range withClosures(fn) {
		allInstrs(g, func(in ssa.Instruction) {
			mu, ok := in.(*ssa.MapUpdate)
			if !ok || !readsField(mu.Map, "Tokens") {
				return
			}
			n++
			keyOK := derives(mu.Key, func(v ssa.Value) bool { return isResultOf(v, 0, modPath+"/casketfile.replaceEnvVars") }, flowOpts{})
			app, isApp := mu.Value.(*ssa.Call)
			shape := false
			alias := false
			if isApp && calleeName(&app.Call) == "builtin.append" {
				if lk, ok := app.Call.Args[0].(*ssa.Lookup); ok && readsField(lk.X, "Tokens") && lk.Index == mu.Key {
					shape = true
				}
				// appended elements: must be a fresh one-element varargs array, not a slice of p.tokens
				if sl, ok := app.Call.Args[1].(*ssa.Slice); ok {
					if _, isAlloc := sl.X.(*ssa.Alloc); !isAlloc {
						alias = true
					}
				}
			}
			if derivesSliceOfField(mu.Value, "tokens") {
				alias = true
			}
			r.Check(keyOK && shape && !alias, "R2", sprintf("casketfile.(*parser).directive/tokens-update#%d", n), in.Pos(),
				"tokens are filed under the directive's name by appending a copy to that directive's existing list", describe(mu.Key), describe(mu.Value))
		})
	}
	if n < 1 {
		r.Unresolve("R2", "parser.directive: no update of block.Tokens found")
	}
}

func c09R2(h H) {
	r := h.r
	r.Rule("R2", "the parser files tokens under their directive's name, as decided by the parser table (E10; the configurations of C10 R8: repeated directives, snippets, imported files, sub-blocks): every directive of a block ends up with exactly its own lines' tokens, in the order written, and stored token lists do not share storage with the parser's token array (an in-place append through a re-sliced list would show as another directive's tokens changing)", 1)
	bad, _, n, pos := c10ParseTable(h)
	if n == 0 {
		r.Unresolve("R2", bad)
		return
	}
	r.Check(bad == "", "R2", "casketfile.(*parser).directive/tokens-filed-by-name", pos, "tokens are filed under the directive's name, in order, as written", sprintf("%d configurations parsed", n), bad)
}

// derivesSliceOfField: v is (an append onto / φ of) a Slice whose operand is a load of the named field.
func derivesSliceOfField(v ssa.Value, field string) bool {
	return derives(v, func(x ssa.Value) bool {
		sl, ok := x.(*ssa.Slice)
		return ok && readsField(sl.X, field)
	}, flowOpts{throughCalls: true})
}

// c09R3: how a site's handler chain is nested, as a decision table (E10): AddMiddleware is evaluated for zero to four
// middleware in order, NewServer for the site; the chain stored for the site must be m0(m1(…(file server))) — the
// first added outermost, the static file server innermost.  (c09R3Patterns, the loop-shape formulation, is kept for
// reference and no longer registered.)
func c09R3(h H) {
	r := h.r
	r.Rule("R3", "middleware nesting = order of addition, as a decision table (E10): after AddMiddleware(m0) … AddMiddleware(mk), k up to 4, NewServer (http.Server construction and TLS set-up being oracles) stores for the site the handler m0(m1(…mk(static file server)…)): the first middleware added is outermost, each wraps exactly the next, and the static file server of the site's root is innermost", 1)
	ns := h.fn("R3", hs, "NewServer")
	am := h.fn("R3", hs, "(*SiteConfig).AddMiddleware")
	if ns == nil || am == nil {
		return
	}
	groupT, ok := ns.Params[1].Type().Underlying().(*types.Slice)
	if !ok {
		r.Unresolve("R3", "NewServer: second parameter is not a slice of sites")
		return
	}
	siteT := groupT.Elem().(*types.Pointer).Elem()
	srvT := ns.Signature.Results().At(0).Type().(*types.Pointer).Elem()
	var httpSrvT types.Type = types.Typ[types.Int]
	if st, ok := underlying(srvT).(*types.Struct); ok {
		for i := 0; i < st.NumFields(); i++ {
			if p, ok := st.Field(i).Type().(*types.Pointer); ok && strings.HasSuffix(p.Elem().String(), "net/http.Server") {
				httpSrvT = p.Elem()
			}
		}
	}
	bad := ""
	nrun := 0
	for k := 0; k <= 4 && bad == ""; k++ {
		nrun++
		site := &aobj{name: "site", typ: siteT, f: map[string]aval{}}
		site.in = func(ob *aobj, path string, t types.Type) aval {
			switch path {
			case "Addr.Original", "Addr.Host":
				return astr("a.example")
			case "Root":
				return astr("/srv/site")
			case "FallbackSite":
				return abool(false)
			}
			if _, isSl := underlying(t).(*types.Slice); isSl {
				return anil{}
			}
			return unsetField("site field", path, t)
		}
		env := &absEnv{globals: map[string]*aobj{}, noFork: true, maxSteps: 400000}
		env.ext = func(callee string, args []aval) (aval, bool) {
			switch {
			case strings.HasSuffix(callee, "makeHTTPServerWithTimeouts"):
				return aptr{&aobj{name: "http.Server", typ: httpSrvT, f: map[string]aval{}}, ""}, true
			case strings.HasSuffix(callee, "makeHTTPServerWithHeaderLimit"):
				return args[0], true
			case strings.HasSuffix(callee, "makeTLSConfig"):
				return atuple{anil{}, anil{}}, true
			case strings.HasPrefix(callee, "callback:m"):
				return aiface{aptr{&aobj{name: "handler of " + strings.TrimPrefix(callee, "callback:"), typ: types.Typ[types.Int], f: map[string]aval{"inner": args[0]}}, ""}, types.Typ[types.Int]}, true
			}
			return nil, false
		}
		desc := fmt.Sprintf("%d middleware added", k)
		for i := 0; i < k; i++ {
			if _, und := env.run(am, []aval{aptr{site, ""}, acb{fmt.Sprintf("m%d", i)}}); und != "" {
				bad = desc + ": AddMiddleware undecided — " + und
			}
		}
		if bad != "" {
			break
		}
		if _, und := env.run(ns, []aval{astr("127.0.0.1:8080"), aslice{[]*aobj{site}}}); und != "" {
			bad = desc + ": NewServer undecided — " + und
			break
		}
		cur := env.load(site, "middlewareChain")
		for i := 0; i < k && bad == ""; i++ {
			iv, _ := cur.(aiface)
			p, ok := iv.val.(aptr)
			if !ok || p.obj.name != fmt.Sprintf("handler of m%d", i) {
				bad = fmt.Sprintf("%s: layer %d of the site's handler chain (counted from outside) is %s, specification says the handler made by m%d", desc, i, describeAval(cur), i)
				break
			}
			cur = p.obj.f["inner"]
		}
		if bad == "" {
			iv, isI := cur.(aiface)
			if !isI || !strings.HasSuffix(iv.typ.String(), "staticfiles.FileServer") {
				bad = fmt.Sprintf("%s: the innermost handler is %s, specification says the static file server", desc, describeAval(cur))
			} else if fsv, ok := iv.val.(astruct); ok {
				if root, _ := ifaceVal(fsv.f["Root"]).(astr); string(root) != "/srv/site" {
					bad = fmt.Sprintf("%s: the file server's root is %s, the site's root is /srv/site", desc, describeAval(fsv.f["Root"]))
				}
			}
		}
	}
	r.Check(bad == "", "R3", "httpserver.NewServer/handler-chain-table", ns.Pos(), "the first middleware added is the outermost handler, the static file server the innermost", fmt.Sprintf("%d chains built", nrun), bad)
}

func c09R3Patterns(h H) {
	r := h.r
	r.Rule("R3", "middleware nesting = list order: NewServer applies site.middleware[i] to the stack with i running from len-1 down to 0 (the first listed directive ends up outermost) starting from the static file server; AddMiddleware appends to the list", 3)
	fn := h.fn("R3", hs, "NewServer")
	if fn != nil {
		n := 0
		allInstrs(fn, func(in ssa.Instruction) {
			c := callOf(in)
			if c == nil || c.IsInvoke() || c.StaticCallee() != nil {
				return
			}
			ld, ok := c.Value.(*ssa.UnOp)
			if !ok {
				return
			}
			ia, ok := ld.X.(*ssa.IndexAddr)
			if !ok || !readsField(ia.X, "middleware") {
				return
			}
			n++
			// the index is φ+k with φ stepping by -1 from len(middleware)+j, and j+k == -1 (first index used: len-1);
			// `for i := len-1; i >= 0; i--  m[i]` and `for n := len; n > 0; n--  m[n-1]` are the same walk
			affine := func(v ssa.Value) (ssa.Value, int64) {
				if b, ok := v.(*ssa.BinOp); ok && (b.Op == token.SUB || b.Op == token.ADD) {
					if c, ok := constInt(b.Y); ok {
						if b.Op == token.SUB {
							c = -c
						}
						return b.X, c
					}
				}
				return v, 0
			}
			base, k := affine(ia.Index)
			step, isInd := int64(0), false
			initOK := false
			if ph, ok := base.(*ssa.Phi); ok {
				step, isInd = unitStep(ph)
				for _, e := range ph.Edges {
					l0, j := affine(e)
					if l, ok := l0.(*ssa.Call); ok && calleeName(&l.Call) == "builtin.len" && readsField(l.Call.Args[0], "middleware") && j+k == -1 {
						initOK = true
					}
				}
			}
			r.Check(isInd && step == -1 && initOK, "R3", "httpserver.NewServer/wrap-last-to-first", in.Pos(), "the handler chain is built by wrapping from the last middleware to the first", describe(ia.Index))
			// the innermost handler is the file server
			arg := c.Args[0]
			fsOK := derives(arg, func(v ssa.Value) bool {
				mi, ok := v.(*ssa.MakeInterface)
				return ok && strings.HasSuffix(mi.X.Type().String(), "staticfiles.FileServer")
			}, flowOpts{throughCalls: true})
			r.Check(fsOK, "R3", "httpserver.NewServer/innermost-is-fileserver", in.Pos(), "the static file server is the innermost handler of every site")
		})
		if n == 0 {
			r.Unresolve("R3", "NewServer: middleware application not found")
		}
	}
	if am := h.fn("R3", hs, "(*SiteConfig).AddMiddleware"); am != nil {
		ok := false
		allInstrs(am, func(in ssa.Instruction) {
			st, isSt := in.(*ssa.Store)
			if !isSt {
				return
			}
			fa, isFA := st.Addr.(*ssa.FieldAddr)
			if !isFA || fieldName(fa.X.Type(), fa.Field) != "middleware" {
				return
			}
			if app, isApp := st.Val.(*ssa.Call); isApp && calleeName(&app.Call) == "builtin.append" && readsField(app.Call.Args[0], "middleware") {
				ok = true
			}
		})
		r.Check(ok, "R3", "httpserver.(*SiteConfig).AddMiddleware/appends", am.Pos(), "AddMiddleware appends, so list position equals setup (= directive) order")
	}
}

func c09R4(h H, dm *DirMap) {
	r := h.r
	r.Rule("R4", "class ordering in httpserver.directives (classes computed from the handlers): rewriters < basicauth; {basicauth, redir, internal} < every content producer; {log, gzip, header, errors} < basicauth and < every producer; the vitals root, index, bind, limits, timeouts, tls precede every directive that installs a handler (limits itself excepted)", 12)
	idx := func(n string) int {
		if d := dm.ByName[n]; d != nil {
			return d.Index
		}
		return -1
	}
	for _, n := range []string{"basicauth", "redir", "internal", "log", "gzip", "header", "errors", "root", "index", "bind", "limits", "timeouts", "tls"} {
		if idx(n) < 0 {
			r.Unresolve("R4", "directive "+n+" not registered or not in the list")
			return
		}
	}
	mut := pathMutators(h.p)
	var names []string
	for n := range dm.ByName {
		names = append(names, n)
	}
	sort.Strings(names)
	var producers []string
	firstHandler := 1 << 30
	for _, n := range names {
		d := dm.ByName[n]
		if d.ServerType != "http" || len(d.Handlers) == 0 || d.Index < 0 {
			continue
		}
		if n != "limits" && d.Index < firstHandler {
			firstHandler = d.Index
		}
		if !d.InModule {
			continue
		}
		if rw, where := rewritesRequestPath(h.p, d, mut); rw && n != "internal" {
			r.Check(d.Index < idx("basicauth"), "R4", "order:rewriter:"+n+"<basicauth", d.RegPos, "request rewriting happens before authentication", where)
		}
		res := handlerReach(h.p, d)
		hit := ""
		for _, api := range contentAPIs {
			if len(res.External[api]) > 0 {
				hit = api
			}
		}
		for f := range res.Funcs {
			if funcName(f) == modPath+"/caskethttp/fastcgi.DialContext" {
				hit = "fastcgi.DialContext"
			}
		}
		if n == "pprof" {
			hit = "net/http/pprof (debug content)"
		}
		if hit == "" {
			continue
		}
		producers = append(producers, n)
		for _, before := range []string{"basicauth", "redir", "internal", "log", "gzip", "header", "errors"} {
			r.Check(idx(before) < d.Index, "R4", "order:"+before+"<producer:"+n, d.RegPos, before+" acts before/around the content handler "+n, "content source: "+hit, sprintf("%d < %d", idx(before), d.Index))
		}
	}
	for _, want := range []string{"templates", "proxy", "fastcgi", "websocket", "markdown", "browse", "expvar", "pprof"} {
		r.Check(containsStr(producers, want), "R4", "class:producer/"+want, dm.Pos, "directive "+want+" is recognised as a content producer", strings.Join(producers, ","))
	}
	for _, around := range []string{"log", "gzip", "header", "errors"} {
		r.Check(idx(around) < idx("basicauth"), "R4", "order:"+around+"<basicauth", dm.Pos, around+" wraps authentication (401 responses are logged/compressed/decorated/error-paged)")
	}
	r.Check(idx("gzip") < idx("errors"), "R4", "order:gzip<errors", dm.Pos, "error pages are compressed like other responses")
	for _, v := range []string{"root", "index", "bind", "limits", "timeouts", "tls"} {
		r.Check(idx(v) < firstHandler || v == "limits" && idx(v) < idx("log"), "R4", "order:vital:"+v+"<handlers", dm.Pos, "site vitals are configured before any handler-installing directive runs", sprintf("%d < %d", idx(v), firstHandler))
	}
}

func c09R5(h H, dm *DirMap) {
	r := h.r
	r.Rule("R5", "configuration def-before-use: for every SiteConfig field, each directive whose setup stores to it (root, index, tls, internal→HiddenFiles, …) has a smaller list index than each directive whose setup reads it", 6)
	type acc struct {
		writers, readers map[string]int
	}
	fields := map[string]*acc{}
	get := func(f string) *acc {
		if fields[f] == nil {
			fields[f] = &acc{map[string]int{}, map[string]int{}}
		}
		return fields[f]
	}
	var names []string
	for n := range dm.ByName {
		names = append(names, n)
	}
	sort.Strings(names)
	for _, n := range names {
		d := dm.ByName[n]
		if !d.InModule || d.Action == nil || d.Index < 0 {
			continue
		}
		fns := setupReach(h.p, []*ssa.Function{d.Action})
		// include the parsing callback of root
		for f := range fns {
			pk := fnPkg(f)
			if pk == nil || strings.HasSuffix(pk.Path(), "/httpserver") && f.Name() != "hideCasketfile" {
				// helpers of httpserver (GetConfig etc.) are shared by everyone: attribute only direct accesses in the directive's own package
				continue
			}
			allInstrs(f, func(in ssa.Instruction) {
				fa, ok := in.(*ssa.FieldAddr)
				if !ok || !strings.HasSuffix(strings.TrimPrefix(fa.X.Type().String(), "*"), "httpserver.SiteConfig") {
					return
				}
				fname := fieldName(fa.X.Type(), fa.Field)
				for _, ref := range *fa.Referrers() {
					switch u := ref.(type) {
					case *ssa.Store:
						if u.Addr == fa {
							get(fname).writers[n] = d.Index
						}
					case *ssa.UnOp:
						get(fname).readers[n] = d.Index
					case *ssa.FieldAddr:
						// nested struct field (Addr.Path, TLS.x): reading through
						get(fname).readers[n] = d.Index
					}
				}
			})
		}
	}
	// the root parsing callback (hideCasketfile) writes HiddenFiles right after `root`
	if rootD := dm.ByName["root"]; rootD != nil {
		get("HiddenFiles").writers["root(callback)"] = rootD.Index
	}
	var fnames []string
	for f := range fields {
		fnames = append(fnames, f)
	}
	sort.Strings(fnames)
	n := 0
	for _, f := range fnames {
		a := fields[f]
		if f == "middleware" || f == "listenerMiddleware" {
			continue
		}
		for w, wi := range a.writers {
			for rd, ri := range a.readers {
				if rd == w || strings.HasPrefix(w, rd+"(") {
					continue
				}
				n++
				r.Check(wi < ri, "R5", "SiteConfig."+f+"/"+w+"<"+rd, dm.Pos, "the directive that sets SiteConfig."+f+" runs before the directive that copies it into its handler", sprintf("%d < %d", wi, ri))
			}
		}
	}
	if n < 6 {
		r.Unresolve("R5", sprintf("only %d writer/reader pairs of SiteConfig fields found", n))
	}
}

func c09R6(h H, dm *DirMap) {
	r := h.r
	r.Rule("R6", "every http directive registered by the repository is in httpserver.directives, and the list has no duplicates", 28)
	seen := map[string]bool{}
	for _, n := range dm.Order {
		if seen[n] {
			r.Fail("R6", "directives/duplicate:"+n, dm.Pos, "directive listed twice: its position is ambiguous")
		}
		seen[n] = true
	}
	var names []string
	for n := range dm.ByName {
		names = append(names, n)
	}
	sort.Strings(names)
	for _, n := range names {
		d := dm.ByName[n]
		if !d.InModule {
			continue
		}
		r.Check(d.Index >= 0, "R6", "directive:"+n+"/listed", d.RegPos, "registered directive has a position in the fixed order")
	}
}

// guardedByJustValidate: some condition on the path to in mentions the justValidate parameter
// (directly, or as an operand of a compound condition; breaks/continues that skip in count too).
func guardedByJustValidate(fn *ssa.Function, in ssa.Instruction) bool {
	var mentions func(v ssa.Value) bool
	seenPhi := map[ssa.Value]bool{}
	mentions = func(v ssa.Value) bool {
		if derives(v, func(x ssa.Value) bool {
			pr, ok := x.(*ssa.Parameter)
			return ok && pr.Name() == "justValidate"
		}, flowOpts{}) {
			return true
		}
		// a φ produced by && / ||: the operands that short-circuit are the conditions of the predecessor blocks
		found := false
		derives(v, func(x ssa.Value) bool {
			ph, ok := x.(*ssa.Phi)
			if !ok || seenPhi[ph] {
				return false
			}
			if b, isB := ph.Type().Underlying().(*types.Basic); !isB || b.Kind() != types.Bool {
				return false // only boolean φs are short-circuit results
			}
			seenPhi[ph] = true
			for _, pr := range ph.Block().Preds {
				if g, ok := edgeGuard(pr, ph.Block()); ok && mentions(g.Cond) {
					found = true
				}
			}
			return false
		}, flowOpts{})
		return found
	}
	for _, g := range guardAtoms(fn, nil, in) {
		if mentions(g.Cond) {
			return true
		}
	}
	// control dependence: blocks reachable through exactly one edge of an If on justValidate.  If such a region can
	// leave a loop that contains `in`, or return, then justValidate decides whether later setup calls happen — unless
	// the region is the parsing-callback section, which validation is documented to skip.
	blocksFrom := func(b *ssa.BasicBlock) map[*ssa.BasicBlock]bool {
		seen := map[*ssa.BasicBlock]bool{b: true}
		st := []*ssa.BasicBlock{b}
		for len(st) > 0 {
			x := st[len(st)-1]
			st = st[:len(st)-1]
			for _, sc := range x.Succs {
				if !seen[sc] {
					seen[sc] = true
					st = append(st, sc)
				}
			}
		}
		return seen
	}
	// asymmetric avoidability: after one outcome of a justValidate test the setup call is unavoidable on the way to
	// the next iteration, after the other it can be skipped
	if hdIn, _ := loopOf(in.Block()); hdIn != nil {
		target := firstInstr(hdIn)
		for _, i := range ifs(fn) {
			seenPhi = map[ssa.Value]bool{}
			if !mentions(i.Cond) || i.Block().Succs[0] == i.Block().Succs[1] || !canReach(fn, i, in, cut{}) {
				continue
			}
			avoid := [2]bool{}
			for idx := 0; idx < 2; idx++ {
				f := firstInstr(i.Block().Succs[idx])
				if f == nil {
					continue
				}
				if f == target {
					avoid[idx] = true
					continue
				}
				if f == in {
					continue
				}
				avoid[idx] = canReach(fn, f, target, cut{instr: func(x ssa.Instruction) bool { return x == in }})
				if !avoid[idx] {
					// or leave through a return without the call
					_, ret := reachesReturnAvoiding(fn, f, func(x ssa.Instruction) bool { return x == in })
					avoid[idx] = ret
				}
			}
			if avoid[0] != avoid[1] {
				return true
			}
		}
	}
	var loopsOfIn []map[*ssa.BasicBlock]bool
	for _, hd := range enclosingHeaders(in.Block()) {
		loopsOfIn = append(loopsOfIn, naturalLoop(hd))
	}
	for _, i := range ifs(fn) {
		seenPhi = map[ssa.Value]bool{}
		if !mentions(i.Cond) || i.Block().Succs[0] == i.Block().Succs[1] {
			continue
		}
		for idx := 0; idx < 2; idx++ {
			// exclusive region of edge idx: dominated by the successor when it has the If block as only predecessor
			sc := i.Block().Succs[idx]
			if len(sc.Preds) != 1 {
				continue
			}
			other := blocksFrom(i.Block().Succs[1-idx])
			region := map[*ssa.BasicBlock]bool{}
			for b := range blocksFrom(sc) {
				if sc.Dominates(b) && !other[b] || b == sc {
					region[b] = true
				}
			}
			// allowed: the parsing-callback section
			isCallbacks := false
			for b := range region {
				for _, x := range b.Instrs {
					if c := callOf(x); c != nil && !c.IsInvoke() && c.StaticCallee() == nil {
						if derives(c.Value, func(v ssa.Value) bool { return isGlobalNamed(v, "parsingCallbacks") }, flowOpts{}) {
							isCallbacks = true
						}
					}
				}
			}
			if isCallbacks {
				continue
			}
			for b := range region {
				if _, isRet := lastInstr(b).(*ssa.Return); isRet {
					return true
				}
				for _, s2 := range b.Succs {
					for _, l := range loopsOfIn {
						if l[b] && !l[s2] {
							return true // leaves a loop around the setup call
						}
					}
				}
				if b == in.Block() {
					return true
				}
			}
		}
	}
	return false
}

// selectedByJustValidate: some value v is computed from is a merge whose incoming alternatives are told apart by a
// test of the justValidate parameter (data dependence, as opposed to the control dependence handled above).
func selectedByJustValidate(fn *ssa.Function, v ssa.Value) (string, bool) {
	isJV := func(x ssa.Value) bool {
		pr, ok := x.(*ssa.Parameter)
		return ok && pr.Name() == "justValidate"
	}
	seen := map[ssa.Value]bool{}
	var hit string
	var walk func(v ssa.Value, d int) bool
	walk = func(v ssa.Value, d int) bool {
		if v == nil || seen[v] || d > 40 {
			return false
		}
		seen[v] = true
		if isJV(v) {
			hit = "justValidate"
			return true
		}
		if ph, ok := v.(*ssa.Phi); ok {
			// per distinct incoming value: the justValidate tests that hold on EVERY way the value arrives
			byVal := map[ssa.Value]map[string]bool{}
			for k, e := range ph.Edges {
				set := map[string]bool{}
				for _, g := range phiEdgeGuards(fn, ph, k) {
					if derives(g.Cond, isJV, flowOpts{}) {
						set[sprintf("%s/%v", g.Cond.Name(), g.Pos)] = true
					}
				}
				if prev, ok := byVal[e]; ok {
					for key := range prev {
						if !set[key] {
							delete(prev, key)
						}
					}
				} else {
					byVal[e] = set
				}
			}
			var first map[string]bool
			for _, set := range byVal {
				if first == nil {
					first = set
					continue
				}
				same := len(set) == len(first)
				for key := range set {
					if !first[key] {
						same = false
					}
				}
				if !same {
					if os.Getenv("VERIF_DEBUG") != "" {
						for v, st := range byVal {
							println("DEBUG phi", ph.Name(), "val", v.Name(), "set", len(st))
						}
					}
					hit = "φ " + ph.Comment
					return true
				}
			}
		}
		in, ok := v.(ssa.Instruction)
		if !ok {
			return false
		}
		if c, isCall := v.(*ssa.Call); isCall {
			if n := calleeName(&c.Call); n != "builtin.len" && n != "builtin.cap" {
				return false
			}
		}
		for _, op := range in.Operands(nil) {
			if *op != nil && walk(*op, d+1) {
				return true
			}
		}
		return false
	}
	ok := walk(v, 0)
	return hit, ok
}

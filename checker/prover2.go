package main

// E5 stage 2b: loop invariants (Houdini-style candidates, each kept only if
// initialisation and preservation are proved), φ case split, and discharge of
// parameter preconditions at every caller of an unexported function.

import (
	"fmt"
	"go/token"
	"go/types"
	"os"
	"strings"

	"golang.org/x/tools/go/ssa"
)

// edgeGuard: the condition under which control flows from pred to succ, if pred ends in an If.
func edgeGuard(pred, succ *ssa.BasicBlock) (guardInfo, bool) {
	i, ok := lastInstr(pred).(*ssa.If)
	if !ok || pred.Succs[0] == pred.Succs[1] {
		return guardInfo{}, false
	}
	idx := 0
	if pred.Succs[1] == succ {
		idx = 1
	}
	v, flip := stripNot(i.Cond)
	return guardInfo{If: i, True: idx == 0, Cond: v, Pos: (idx == 0) != flip}, true
}

// contextAt: prover with the guards dominating the terminator of block b, plus the condition of the edge b→succ.
func contextAtEdge(fn *ssa.Function, b, succ *ssa.BasicBlock) *prover {
	p := newProver(fn)
	if t := lastInstr(b); t != nil {
		for _, g := range guardAtoms(fn, nil, t) {
			p.addGuard(g)
		}
	}
	if g, ok := edgeGuard(b, succ); ok {
		for _, a := range conjAtoms(fn, g.Cond, g.Pos, 0) {
			if a.If == nil {
				a.If = g.If
			}
			p.addGuard(a)
		}
	}
	p.addExecutedChecks(fn, lastInstr(b))
	return p
}

func isLoopHeaderPhi(ph *ssa.Phi) bool {
	for _, pr := range ph.Block().Preds {
		if pr == ph.Block() || ph.Block().Dominates(pr) {
			return true
		}
	}
	return false
}

// phisIn collects the φ values an instruction's bounds depend on (through arithmetic, len, slices).
func phisIn(in ssa.Instruction) []*ssa.Phi { return phisInOpt(in, false) }

// phisInOpt with deep also looks through merge (non-loop) φs into their incoming values: a value computed by an
// earlier, finished loop often reaches the site through such a merge (`x := loopResult; if found { … }`).
func phisInOpt(in ssa.Instruction, deep bool) []*ssa.Phi {
	var out []*ssa.Phi
	seen := map[ssa.Value]bool{}
	var walk func(v ssa.Value, d int)
	walk = func(v ssa.Value, d int) {
		if v == nil || seen[v] || d > 12 {
			return
		}
		seen[v] = true
		switch t := v.(type) {
		case *ssa.Phi:
			out = append(out, t)
			if deep && !isLoopHeaderPhi(t) {
				for _, e := range t.Edges {
					walk(e, d+1)
				}
			}
		case *ssa.BinOp:
			walk(t.X, d+1)
			walk(t.Y, d+1)
		case *ssa.Convert:
			walk(t.X, d+1)
		case *ssa.Slice:
			walk(t.X, d+1)
			walk(t.Low, d+1)
			walk(t.High, d+1)
		case *ssa.Call:
			if calleeName(&t.Call) == "builtin.len" || pureCallee(&t.Call) {
				for _, a := range t.Call.Args {
					walk(a, d+1)
				}
			}
		case *ssa.UnOp:
			walk(t.X, d+1)
		case *ssa.FieldAddr:
			walk(t.X, d+1)
		}
	}
	switch t := in.(type) {
	case *ssa.IndexAddr:
		walk(t.X, 0)
		walk(t.Index, 0)
	case *ssa.Index:
		walk(t.X, 0)
		walk(t.Index, 0)
	case *ssa.Slice:
		walk(t.X, 0)
		walk(t.Low, 0)
		walk(t.High, 0)
	case *ssa.BinOp:
		walk(t.Y, 0)
	}
	return out
}

type invariant func(p *prover, subst map[ssa.Value]ssa.Value) linExpr

// candidateInvariants for the loop headed by hd, relative to the values the site uses.
func candidateInvariants(fn *ssa.Function, hd *ssa.BasicBlock, site ssa.Instruction) []invariant {
	var intPhis, slicePhis []*ssa.Phi
	for _, in := range hd.Instrs {
		ph, ok := in.(*ssa.Phi)
		if !ok {
			break
		}
		if isIntType(ph.Type()) {
			intPhis = append(intPhis, ph)
		} else {
			switch ph.Type().Underlying().(type) {
			case *types.Slice:
				slicePhis = append(slicePhis, ph)
			case *types.Basic:
				if ph.Type().Underlying().(*types.Basic).Info()&types.IsString != 0 {
					slicePhis = append(slicePhis, ph)
				}
			}
		}
	}
	with := func(p *prover, subst map[ssa.Value]ssa.Value, f func() linExpr) linExpr {
		old := p.subst
		p.subst = subst
		defer func() { p.subst = old }()
		return f()
	}
	var out []invariant
	// sliceables: values indexed or sliced by the site and inside the loop
	var bases []ssa.Value
	loop := naturalLoop(hd)
	allInstrs(fn, func(in ssa.Instruction) {
		if !loop[in.Block()] && in != site {
			return
		}
		switch t := in.(type) {
		case *ssa.IndexAddr:
			bases = append(bases, t.X)
		case *ssa.Index:
			bases = append(bases, t.X)
		case *ssa.Slice:
			bases = append(bases, t.X)
		}
	})
	for _, ph := range intPhis {
		ph := ph
		out = append(out, func(p *prover, s map[ssa.Value]ssa.Value) linExpr {
			return with(p, s, func() linExpr { return p.lin(ph) }) // φ >= 0
		})
		out = append(out, func(p *prover, s map[ssa.Value]ssa.Value) linExpr {
			return with(p, s, func() linExpr { return p.lin(ph).add(newLin(1), 1) }) // φ >= -1 (index-or-not-found variables)
		})
		seenB := map[ssa.Value]bool{}
		for _, b := range bases {
			b := b
			if seenB[b] {
				continue
			}
			seenB[b] = true
			out = append(out, func(p *prover, s map[ssa.Value]ssa.Value) linExpr {
				return with(p, s, func() linExpr { return p.lenOfBase(b).add(p.lin(ph), -1) }) // φ <= len(base)
			})
		}
	}
	// the site's own goals as inductive candidates (G holds at the header for the current φ values)
	if site != nil {
		probe := newProver(fn)
		gs, _, _, _ := boundsGoals(probe, site)
		for gi := range gs {
			gi := gi
			out = append(out, func(p *prover, s map[ssa.Value]ssa.Value) linExpr {
				return with(p, s, func() linExpr {
					g2, _, _, _ := boundsGoals(p, site)
					if gi < len(g2) {
						return g2[gi]
					}
					return newLin(-1)
				})
			})
		}
	}
	// sentinel-conditioned candidates: a header φ that enters the loop with a constant c ("not found yet") and is
	// assigned its real value once.  Candidate: φ >= c+1 → C, for C among the φ's own bounds and the site's goals.
	// Convention (see verifiedInvariantsUncached): a nil substitution means "use as a fact" — the conclusion is added
	// only when the premise is provable there; a non-nil one means "prove as a goal" — the premise is assumed.
	for _, ph := range intPhis {
		ph := ph
		var c int64
		n := 0
		for e, pr := range hd.Preds {
			if pr == hd || hd.Dominates(pr) {
				continue
			}
			n++
			k, ok := constInt(ph.Edges[e])
			if !ok {
				n = 99
			}
			c = k
		}
		if n != 1 {
			continue
		}
		var concl []invariant
		concl = append(concl, func(p *prover, s map[ssa.Value]ssa.Value) linExpr {
			return with(p, s, func() linExpr { return p.lin(ph) })
		})
		seenB := map[ssa.Value]bool{}
		for _, b := range bases {
			b := b
			if seenB[b] {
				continue
			}
			seenB[b] = true
			concl = append(concl, func(p *prover, s map[ssa.Value]ssa.Value) linExpr {
				return with(p, s, func() linExpr { return p.lenOfBase(b).add(p.lin(ph), -1) })
			})
		}
		if site != nil {
			probe := newProver(fn)
			gs, _, _, _ := boundsGoals(probe, site)
			for gi := range gs {
				gi := gi
				concl = append(concl, func(p *prover, s map[ssa.Value]ssa.Value) linExpr {
					return with(p, s, func() linExpr {
						g2, _, _, _ := boundsGoals(p, site)
						if gi < len(g2) {
							return g2[gi]
						}
						return newLin(-1)
					})
				})
			}
		}
		for _, cc := range concl {
			cc := cc
			out = append(out, func(p *prover, s map[ssa.Value]ssa.Value) linExpr {
				prem := with(p, s, func() linExpr { return p.lin(ph).add(newLin(c+1), -1) })
				if s == nil {
					if !p.prove(prem) {
						return newLin(0)
					}
					return cc(p, nil)
				}
				p.fact(prem)
				return cc(p, s)
			})
		}
	}
	// a loop-carried slice that only grows: len(φ) >= 1, len(φ) >= len(init)
	for _, d := range slicePhis {
		d := d
		out = append(out, func(p *prover, s map[ssa.Value]ssa.Value) linExpr {
			return with(p, s, func() linExpr { return p.lenOf(d).add(newLin(1), -1) })
		})
	}
	// a loop-carried slice that never shrinks below its length on entry (append-only accumulation)
	for _, d := range slicePhis {
		d := d
		var dInit ssa.Value
		n := 0
		for e, pr := range hd.Preds {
			if !(pr == hd || hd.Dominates(pr)) {
				dInit = d.Edges[e]
				n++
			}
		}
		if n != 1 || dInit == nil {
			continue
		}
		out = append(out, func(p *prover, s map[ssa.Value]ssa.Value) linExpr {
			return with(p, s, func() linExpr {
				cur := p.lenOf(d)
				old := p.subst
				p.subst = nil
				ini := p.lenOf(dInit)
				p.subst = old
				return cur.add(ini, -1)
			})
		})
	}
	// pair invariant: s·len(d) + k·i is constant
	for _, d := range slicePhis {
		for _, i := range intPhis {
			d, i := d, i
			k, okK := int64(0), true
			st, okS := int64(0), true
			var dInit, iInit ssa.Value
			for e, pr := range hd.Preds {
				back := pr == hd || hd.Dominates(pr)
				if !back {
					if dInit != nil {
						okK = false
					}
					dInit, iInit = d.Edges[e], i.Edges[e]
					continue
				}
				sl, isSl := d.Edges[e].(*ssa.Slice)
				if !isSl || sl.X != ssa.Value(d) || sl.High != nil || sl.Low == nil {
					okK = false
					continue
				}
				c, isC := constInt(sl.Low)
				if !isC || (k != 0 && c != k) {
					okK = false
				}
				k = c
				b, isB := i.Edges[e].(*ssa.BinOp)
				if !isB || b.Op != token.ADD || b.X != ssa.Value(i) {
					okS = false
					continue
				}
				c2, isC2 := constInt(b.Y)
				if !isC2 || (st != 0 && c2 != st) {
					okS = false
				}
				st = c2
			}
			if !okK || !okS || k <= 0 || st <= 0 || dInit == nil {
				continue
			}
			mk := func(sign int64) invariant {
				return func(p *prover, s map[ssa.Value]ssa.Value) linExpr {
					return with(p, s, func() linExpr {
						cur := p.lenOf(d).scale(st).add(p.lin(i).scale(k), 1)
						// initial values are outside the loop: never substituted
						old := p.subst
						p.subst = nil
						ini := p.lenOf(dInit).scale(st).add(p.lin(iInit).scale(k), 1)
						p.subst = old
						return cur.add(ini, -1).scale(sign)
					})
				}
			}
			out = append(out, mk(1), mk(-1))
		}
	}
	return out
}

// verifiedInvariants runs the Houdini loop: drop candidates until every survivor is
// initialised on loop entry and preserved by every back edge (assuming all survivors).
type invKey struct {
	hd   *ssa.BasicBlock
	site ssa.Instruction
}

var invCache = map[invKey][]invariant{}
var invDepth = 0

func verifiedInvariants(fn *ssa.Function, hd *ssa.BasicBlock, site ssa.Instruction) []invariant {
	k := invKey{hd, site}
	if r, ok := invCache[k]; ok {
		return r
	}
	r := verifiedInvariantsUncached(fn, hd, site)
	invCache[k] = r
	return r
}

// proveEntryDeep: a candidate must hold when the loop headed by hd is entered through pr.  If the guards at that
// point do not suffice, use what earlier, already finished loops establish (their verified invariants) and a case
// split over the merge φs that dominate the entry — the value a previous search loop leaves behind typically
// arrives through such a merge.
func proveEntryDeep(fn *ssa.Function, pr, hd *ssa.BasicBlock, goal func(*prover) linExpr) bool {
	if invDepth > 0 {
		return false
	}
	invDepth++
	defer func() { invDepth-- }()
	var finished []*ssa.BasicBlock
	for _, h2 := range fn.Blocks {
		if h2 == hd {
			continue
		}
		l := naturalLoop(h2)
		if len(l) == 0 || l[pr] || !h2.Dominates(pr) {
			continue
		}
		finished = append(finished, h2)
	}
	addInv := func(q *prover) {
		for _, h2 := range finished {
			for _, inv := range verifiedInvariants(fn, h2, nil) {
				q.fact(inv(q, nil))
			}
		}
	}
	q := contextAtEdge(fn, pr, hd)
	addInv(q)
	if q.prove(goal(q)) {
		return true
	}
	// case split over one merge φ
	for _, b := range fn.Blocks {
		if !b.Dominates(pr) && b != pr {
			continue
		}
		for _, in := range b.Instrs {
			m, ok := in.(*ssa.Phi)
			if !ok {
				break
			}
			if isLoopHeaderPhi(m) || !isIntType(m.Type()) {
				continue
			}
			all := true
			for e, mp := range b.Preds {
				q := contextAtEdge(fn, pr, hd)
				ctx := contextAtEdge(fn, mp, b)
				q.facts = append(q.facts, ctx.facts...)
				for k, v := range ctx.atoms {
					q.atoms[k] = v
				}
				addInv(q)
				q.subst = map[ssa.Value]ssa.Value{}
				for _, x := range b.Instrs {
					if ph2, ok := x.(*ssa.Phi); ok {
						q.subst[ph2] = ph2.Edges[e]
					} else {
						break
					}
				}
				// the guards at the loop entry mention m itself: re-derive them under the substitution
				if t := lastInstr(pr); t != nil {
					for _, g := range guardAtoms(fn, nil, t) {
						q.addGuard(g)
					}
				}
				if !q.prove(goal(q)) {
					all = false
					break
				}
			}
			if all {
				return true
			}
		}
	}
	return false
}

func verifiedInvariantsUncached(fn *ssa.Function, hd *ssa.BasicBlock, site ssa.Instruction) []invariant {
	cands := candidateInvariants(fn, hd, site)
	var phis []*ssa.Phi
	for _, in := range hd.Instrs {
		if ph, ok := in.(*ssa.Phi); ok {
			phis = append(phis, ph)
		}
	}
	alive := make([]bool, len(cands))
	for i := range alive {
		alive[i] = true
	}
	substFor := func(e int) map[ssa.Value]ssa.Value {
		m := map[ssa.Value]ssa.Value{}
		for _, ph := range phis {
			m[ph] = ph.Edges[e]
		}
		return m
	}
	for changed := true; changed; {
		changed = false
		for ci, c := range cands {
			if !alive[ci] {
				continue
			}
			ok := true
			for e, pr := range hd.Preds {
				ctx := contextAtEdge(fn, pr, hd)
				back := pr == hd || hd.Dominates(pr)
				if back {
					for cj, c2 := range cands {
						if alive[cj] {
							ctx.fact(c2(ctx, nil))
						}
					}
				}
				if !ctx.prove(c(ctx, substFor(e))) {
					if !back {
						c, sb := c, substFor(e)
						if proveEntryDeep(fn, pr, hd, func(q *prover) linExpr {
							// the candidate's own substitution (header φ → entry value) composed with the case split
							m := map[ssa.Value]ssa.Value{}
							for k, v := range q.subst {
								m[k] = v
							}
							for k, v := range sb {
								m[k] = v
							}
							return c(q, m)
						}) {
							continue
						}
					}
					ok = false
					if os.Getenv("VT_DEBUG") != "" && strings.Contains(shortFunc(fn), os.Getenv("VT_DEBUG")) {
						fmt.Fprintf(os.Stderr, "DROP cand#%d on edge %d→%d (back=%v): %s >= 0\n", ci, pr.Index, hd.Index, back, c(ctx, substFor(e)).String())
						for _, f := range ctx.facts {
							fmt.Fprintf(os.Stderr, "      fact %s >= 0\n", f.String())
						}
					}
					break
				}
			}
			if !ok {
				alive[ci] = false
				changed = true
			}
		}
	}
	var out []invariant
	for i, c := range cands {
		if alive[i] {
			out = append(out, c)
		}
	}
	return out
}

func enclosingHeaders(b *ssa.BasicBlock) []*ssa.BasicBlock {
	var out []*ssa.BasicBlock
	for _, h := range b.Parent().Blocks {
		if l := naturalLoop(h); len(l) > 0 && l[b] {
			out = append(out, h)
		}
	}
	return out
}

func proveWithInvariants(fn *ssa.Function, in ssa.Instruction, goalIdx int) bool {
	hds := enclosingHeaders(in.Block())
	// also loops that have already finished but whose φ the site uses (values defined at a loop header that dominates the site)
	for _, ph := range phisInOpt(in, true) {
		if isLoopHeaderPhi(ph) {
			found := false
			for _, h := range hds {
				if h == ph.Block() {
					found = true
				}
			}
			if !found {
				hds = append(hds, ph.Block())
			}
		}
	}
	if len(hds) == 0 {
		return false
	}
	p := proveAt(fn, in)
	for _, hd := range hds {
		for _, inv := range verifiedInvariants(fn, hd, in) {
			p.fact(inv(p, nil))
			if os.Getenv("VT_DEBUG") != "" {
				fmt.Fprintf(os.Stderr, "INV %s hd=%d: %s >= 0\n", shortFunc(fn), hd.Index, inv(p, nil).String())
			}
		}
	}
	goals, _, _, _ := boundsGoals(p, in)
	if os.Getenv("VT_DEBUG") != "" && goalIdx < len(goals) {
		fmt.Fprintf(os.Stderr, "GOAL %s: %s >= 0\n", describe(in.(ssa.Value)), goals[goalIdx].String())
		for _, f := range p.facts {
			fmt.Fprintf(os.Stderr, "   FACT %s >= 0\n", f.String())
		}
	}
	if goalIdx >= len(goals) {
		return false
	}
	if p.prove(goals[goalIdx]) {
		return true
	}
	// combine with φ split
	return phiSplitWith(fn, in, goalIdx, func(q *prover) {
		for _, hd := range hds {
			for _, inv := range verifiedInvariants(fn, hd, in) {
				q.fact(inv(q, nil))
			}
		}
	})
}

func provePhiSplit(fn *ssa.Function, in ssa.Instruction, goalIdx int) bool {
	return phiSplitWith(fn, in, goalIdx, nil)
}

// phiSplitWith: for a non-loop φ the site depends on, prove the goal separately for each incoming edge,
// with that edge's guards and φ replaced by the incoming value.
func phiSplitWith(fn *ssa.Function, in ssa.Instruction, goalIdx int, extra func(*prover)) bool {
	return phiSplitRec(fn, in, goalIdx, extra, nil, nil, 2)
}

// phiSplitRec: the goal under the substitution σ (φ ↦ the value it takes on one chosen edge, for every φ split so
// far) and the facts of those edges; when that fails and depth allows, split one more merge φ — one the site mentions,
// or one a chosen edge value is — and require the goal on each of its edges.  (Chains such as
// `if x > n { x = n }; if x < 0 { x = 0 }` need one split per clamp.)
func phiSplitRec(fn *ssa.Function, in ssa.Instruction, goalIdx int, extra func(*prover), subst map[ssa.Value]ssa.Value, ctxs []*prover, depth int) bool {
	if subst != nil {
		q := proveAt(fn, in)
		for _, ctx := range ctxs {
			q.facts = append(q.facts, ctx.facts...)
			for k, v := range ctx.atoms {
				q.atoms[k] = v
			}
		}
		if extra != nil {
			extra(q)
		}
		q.subst = subst
		goals, _, _, _ := boundsGoals(q, in)
		if goalIdx < len(goals) && q.prove(goals[goalIdx]) {
			return true
		}
	}
	if depth == 0 {
		return false
	}
	var cands []*ssa.Phi
	seen := map[*ssa.Phi]bool{}
	add := func(ph *ssa.Phi) {
		if _, done := subst[ph]; done || seen[ph] || isLoopHeaderPhi(ph) {
			return
		}
		seen[ph] = true
		cands = append(cands, ph)
	}
	for _, ph := range phisIn(in) {
		add(ph)
	}
	for _, v := range subst {
		if ph, ok := v.(*ssa.Phi); ok {
			add(ph)
		}
	}
	for _, ph := range cands {
		all := true
		for e, pr := range ph.Block().Preds {
			ns := map[ssa.Value]ssa.Value{}
			for k, v := range subst {
				ns[k] = v
			}
			// sibling φs of the same block take their value from the same edge
			for _, x := range ph.Block().Instrs {
				ph2, ok := x.(*ssa.Phi)
				if !ok {
					break
				}
				ns[ph2] = ph2.Edges[e]
				for k, v := range ns {
					if v == ssa.Value(ph2) && k != ssa.Value(ph2) {
						ns[k] = ph2.Edges[e] // σ is applied once: compose
					}
				}
			}
			nc := append(append([]*prover{}, ctxs...), contextAtEdge(fn, pr, ph.Block()))
			if !phiSplitRec(fn, in, goalIdx, extra, ns, nc, depth-1) {
				all = false
				break
			}
		}
		if all {
			return true
		}
	}
	return false
}

// proveAtCallers: for an unexported function all of whose uses are static calls inside the module,
// prove the goal at each call site with parameters replaced by the actual arguments.
func proveAtCallers(pg *Program, fn *ssa.Function, in ssa.Instruction, goalIdx int) bool {
	if fn.Parent() != nil {
		return false
	}
	obj := fn.Object()
	if obj == nil || obj.Exported() {
		// exported methods on unexported types are still callable only where the type is visible; be strict: only unexported names
		return false
	}
	if fn.Referrers() != nil {
		for _, r := range *fn.Referrers() {
			c := callOf(r)
			if c == nil || c.StaticCallee() != fn {
				return false // used as a value
			}
		}
	}
	var sites []ssa.Instruction
	for _, g := range pg.ModFuncs() {
		allInstrs(g, func(x ssa.Instruction) {
			if c := callOf(x); c != nil && c.StaticCallee() == fn {
				sites = append(sites, x)
			}
			// address taken?
			for _, op := range x.Operands(nil) {
				if op != nil && *op == ssa.Value(fn) {
					if c := callOf(x); c == nil || c.Value != ssa.Value(fn) {
						sites = append(sites, nil)
					}
				}
			}
		})
	}
	if len(sites) == 0 {
		return false
	}
	for _, cs := range sites {
		if cs == nil {
			return false
		}
		caller := cs.Parent()
		q := newProver(caller)
		q.subst = map[ssa.Value]ssa.Value{}
		args := callOf(cs).Args
		for i, prm := range fn.Params {
			if i < len(args) {
				q.subst[prm] = args[i]
			}
		}
		for _, g := range guardAtoms(caller, nil, cs) {
			q.addGuard(g)
		}
		for _, g := range guardAtoms(fn, nil, in) {
			q.addGuard(g)
		}
		goals, _, _, _ := boundsGoals(q, in)
		if goalIdx >= len(goals) || !q.prove(goals[goalIdx]) {
			// one more try with caller-side invariants / φ split is out of scope
			return false
		}
	}
	return true
}

package main

import (
	"fmt"
	"go/types"
	"strings"
)

// loggerTable: the access-log handler as a decision table (E10).  Logger.ServeHTTP is evaluated for one or two
// rules (scope matching or not), two entries per rule (excepted or not), a next handler that rewrites r.URL.Path
// and reports 200 or an unwritten 404, with the matcher, the recorder/replacer constructors, ShouldLog, Println
// and the next handler as oracles.
type loggerTableResult struct {
	path  string // the except test is given something else than the path as received
	lines string // a non-excepted entry of the governing rule does not get exactly one line, or an excepted one gets a line
	mask  string // an entry's line shows the client address masked although the entry has no ipmask (or the other way round)
	other string
	n     int
}

var loggerMemo = map[*Program]*loggerTableResult{}

func loggerTable(h H) *loggerTableResult {
	if m, ok := loggerMemo[h.p]; ok {
		return m
	}
	res := &loggerTableResult{}
	loggerMemo[h.p] = res
	fn := h.p.Func(logPkg, "Logger.ServeHTTP")
	if fn == nil {
		res.other = "log.Logger.ServeHTTP not found"
		return res
	}
	lgT := fn.Params[0].Type()
	reqT := fn.Params[2].Type().(*types.Pointer).Elem()
	var ruleT, entryT, hlogT, recT types.Type
	if st, ok := underlying(lgT).(*types.Struct); ok {
		for i := 0; i < st.NumFields(); i++ {
			if st.Field(i).Name() == "Rules" {
				if sl, ok := underlying(st.Field(i).Type()).(*types.Slice); ok {
					if p, ok := sl.Elem().(*types.Pointer); ok {
						ruleT = p.Elem()
					}
				}
			}
		}
	}
	if ruleT != nil {
		if st, ok := underlying(ruleT).(*types.Struct); ok {
			for i := 0; i < st.NumFields(); i++ {
				if st.Field(i).Name() == "Entries" {
					if sl, ok := underlying(st.Field(i).Type()).(*types.Slice); ok {
						if p, ok := sl.Elem().(*types.Pointer); ok {
							entryT = p.Elem()
						}
					}
				}
			}
		}
	}
	if entryT != nil {
		if st, ok := underlying(entryT).(*types.Struct); ok {
			for i := 0; i < st.NumFields(); i++ {
				if p, ok := st.Field(i).Type().(*types.Pointer); ok && strings.HasSuffix(p.Elem().String(), "httpserver.Logger") {
					hlogT = p.Elem()
				}
			}
		}
	}
	if f := h.p.Func(hs, "NewResponseRecorder"); f != nil && f.Signature.Results().Len() > 0 {
		if p, ok := f.Signature.Results().At(0).Type().(*types.Pointer); ok {
			recT = p.Elem()
		}
	}
	if ruleT == nil || entryT == nil || hlogT == nil || recT == nil {
		res.other = "log.Rule / log.Entry / httpserver.Logger / ResponseRecorder not found by type"
		return res
	}
	type cs struct {
		match  []bool // per rule
		except [2]bool
		status int64
		errFn  bool
		mask   [2]bool // per entry: the entry's log has an ipmask
	}
	var cases []cs
	for _, m := range [][]bool{{true}, {false}, {false, true}, {true, true}, {false, false}} {
		for _, ex := range [][2]bool{{false, false}, {true, false}, {false, true}} {
			for _, st := range []int64{200, 404} {
				for _, ef := range []bool{false, true} {
					if st == 200 && ef {
						continue
					}
					cases = append(cases, cs{m, ex, st, ef, [2]bool{}})
				}
			}
		}
	}
	for _, mk := range [][2]bool{{true, false}, {false, true}, {true, true}} {
		cases = append(cases, cs{[]bool{true}, [2]bool{}, 200, false, mk})
	}
	for _, c := range cases {
		c := c
		res.n++
		desc := fmt.Sprintf("rules matching %v, entries excepted %v, next handler reports %d, custom error function=%v", c.match, c.except, c.status, c.errFn)
		if c.mask != [2]bool{} {
			desc += fmt.Sprintf(", entries with an ipmask %v", c.mask)
		}
		custom := map[string]string{}
		lineText := map[string]string{}
		var shouldLogArgs []string
		lines := map[string]int{}
		nextCalls := 0
		url := &aobj{name: "url", typ: types.Typ[types.Int], f: map[string]aval{}}
		rec := &aobj{name: "recorder", typ: recT, f: map[string]aval{}}
		rec.in = func(o *aobj, path string, t types.Type) aval { return zeroOf(t) }
		logs := map[*aobj]string{}
		who := func(v aval) *aobj {
			if i, ok := v.(aiface); ok {
				v = i.val
			}
			if p, ok := v.(aptr); ok {
				return p.obj
			}
			return nil
		}
		env := &absEnv{noFork: true, maxSteps: 400000, globals: map[string]*aobj{}}
		env.ext = func(callee string, args []aval) (aval, bool) {
			switch {
			case strings.HasSuffix(callee, "httpserver.Path).Matches"):
				pat, _ := args[len(args)-1].(astr)
				var i int
				if _, err := fmt.Sscanf(string(pat), "/scope%d", &i); err != nil || i >= len(c.match) {
					return nil, false
				}
				return abool(c.match[i]), true
			case strings.HasSuffix(callee, "httpserver.NewResponseRecorder"):
				return aptr{rec, ""}, true
			case strings.HasSuffix(callee, "httpserver.NewReplacer"):
				return aiface{aptr{&aobj{name: "replacer", typ: types.Typ[types.Int], f: map[string]aval{}}, ""}, types.Typ[types.Int]}, true
			case callee == "invoke:Set":
				if k, ok := args[1].(astr); ok {
					if v, ok := args[2].(astr); ok {
						custom[string(k)] = string(v)
					}
				}
				return atuple{}, true
			case strings.HasSuffix(callee, "httpserver.Logger).MaskIP"):
				return astr("MASKED"), true
			case callee == "invoke:Replace":
				remote := "1.2.3.4"
				if v, ok := custom["remote"]; ok {
					remote = v
				}
				if f, ok := args[1].(astr); ok {
					if f == "{remote}" {
						return astr(remote), true
					}
					return astr("line for " + string(f) + " remote=" + remote), true
				}
				return astr("line remote=" + remote), true
			case callee == "invoke:ServeHTTP":
				nextCalls++
				// a downstream handler rewrites the path in place
				url.f["Path"] = astr("/rewritten")
				if c.status == 200 {
					return atuple{aint(0), anil{}}, true
				}
				return atuple{aint(c.status), anil{}}, true
			case strings.HasSuffix(callee, "httpserver.Logger).ShouldLog"):
				p, _ := args[len(args)-1].(astr)
				shouldLogArgs = append(shouldLogArgs, string(p))
				name := logs[who(args[0])]
				if name == "" {
					if sv, ok := args[0].(astruct); ok {
						if n, ok := sv.f["Output"].(astr); ok {
							name = string(n)
						}
					}
				}
				return abool(!strings.HasSuffix(name, "/excepted")), true
			case strings.HasSuffix(callee, "httpserver.Logger).Println"):
				name := logs[who(args[0])]
				if sv, ok := args[0].(astruct); ok && name == "" {
					if n, ok := sv.f["Output"].(astr); ok {
						name = string(n)
					}
				}
				lines[name]++
				if t, ok := args[len(args)-1].(avals); ok && len(t.cells) == 1 {
					if tx, ok := ifaceVal(t.cells[0].f[""]).(astr); ok {
						lineText[name] = string(tx)
					}
				}
				return atuple{}, true
			case strings.HasSuffix(callee, "ResponseRecorder).WriteHeader"), callee == "fmt.Fprintf", callee == "net/http.StatusText", callee == "callback:errorFunc":
				return atuple{}, true
			}
			return nil, false
		}
		mk := func() []aval {
			var rules []*aobj
			for ri := range c.match {
				var entries []*aobj
				for ei := 0; ei < 2; ei++ {
					name := fmt.Sprintf("rule%d/entry%d", ri, ei)
					if c.except[ei] {
						name += "/excepted"
					}
					lg := &aobj{name: name, typ: hlogT, f: map[string]aval{"IPMaskExists": abool(c.mask[ei]), "Output": astr(name)}}
					lg.in = func(o *aobj, path string, t types.Type) aval { return aunk{"logger field " + path} }
					logs[lg] = name
					en := &aobj{name: "entry", typ: entryT, f: map[string]aval{"Format": astr(name), "Log": aptr{lg, ""}}}
					entries = append(entries, en)
				}
				rl := &aobj{name: "rule", typ: ruleT, f: map[string]aval{"PathScope": astr(fmt.Sprintf("/scope%d", ri)), "Entries": aslice{entries}}}
				rules = append(rules, rl)
			}
			var ef aval = anil{}
			if c.errFn {
				ef = acb{"errorFunc"}
			}
			lv := astruct{map[string]aval{"Next": aiface{aptr{&aobj{name: "next", typ: types.Typ[types.Int], f: map[string]aval{}}, ""}, types.Typ[types.Int]}, "Rules": aslice{rules}, "ErrorFunc": ef}}
			req := &aobj{name: "request", typ: reqT, f: map[string]aval{"RemoteAddr": astr("1.2.3.4:5")}}
			req.in = func(o *aobj, path string, t types.Type) aval {
				if path == "URL" {
					url.typ = underlying(t).(*types.Pointer).Elem()
					url.f["Path"] = astr("/received")
					url.in = func(o *aobj, path string, t types.Type) aval { return zeroOf(t) }
					return aptr{url, ""}
				}
				return aunk{"request field " + path}
			}
			return []aval{lv, aiface{aptr{&aobj{name: "writer", typ: types.Typ[types.Int], f: map[string]aval{}}, ""}, types.Typ[types.Int]}, aptr{req, ""}}
		}
		r, und := env.run(fn, mk())
		_ = r
		if und != "" {
			if res.other == "" {
				res.other = desc + ": undecided — " + und
			}
			continue
		}
		if nextCalls != 1 && res.other == "" {
			res.other = fmt.Sprintf("%s: the next handler runs %d times", desc, nextCalls)
		}
		for _, p := range shouldLogArgs {
			if p != "/received" && res.path == "" {
				res.path = fmt.Sprintf("%s: the except test is given %q; the client sent /received (a handler below rewrote the path to /rewritten)", desc, p)
			}
		}
		if c.mask != [2]bool{} {
			for ei := 0; ei < 2; ei++ {
				name := fmt.Sprintf("rule0/entry%d", ei)
				tx, have := lineText[name]
				masked := strings.HasSuffix(tx, "remote=MASKED")
				if have && masked != c.mask[ei] && res.mask == "" {
					if masked {
						res.mask = fmt.Sprintf("%s: the line of entry %d shows the client address masked although that log has no ipmask (the mask of another entry leaks)", desc, ei)
					} else {
						res.mask = fmt.Sprintf("%s: the line of entry %d shows the client address unmasked although that log has an ipmask", desc, ei)
					}
				}
				if !have && res.mask == "" {
					res.mask = fmt.Sprintf("%s: the text of entry %d's line was not seen", desc, ei)
				}
			}
		}
		// the governing rule: the first whose scope matches (known finding R5: later ones do not log)
		gov := -1
		for i, m := range c.match {
			if m {
				gov = i
				break
			}
		}
		for ri := range c.match {
			for ei := 0; ei < 2; ei++ {
				name := fmt.Sprintf("rule%d/entry%d", ri, ei)
				want := 0
				if ri == gov && !c.except[ei] {
					want = 1
				}
				if c.except[ei] {
					name += "/excepted"
				}
				if lines[name] != want && res.lines == "" && (ri == gov || lines[name] != 0) {
					res.lines = fmt.Sprintf("%s: %s gets %d log lines, specification says %d", desc, name, lines[name], want)
				}
			}
		}
	}
	return res
}

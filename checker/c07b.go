package main

import (
	"fmt"
	"go/types"
	"strings"
)

// c07R6: a configuration that was piped in can be read once.  On a reload the loaders are asked again; the pipe is at
// its end then, and what the pipe loader returns decides what the reload loads: "no input" lets the reload fall back
// on the configuration the instance was started with, an *empty Casketfile* replaces every running site by the
// built-in default.  CasketfileFromPipe is evaluated (E10; Stat, Mode and ReadAll are oracles) for a terminal, a pipe
// that delivers a configuration, a pipe that is at its end, and a pipe whose read fails.
func c07R6(h H) {
	r := h.r
	r.Rule("R6", "an exhausted pipe is no input, as a table (E10) of CasketfileFromPipe over {terminal; pipe with text; pipe at its end; pipe whose read fails}: the piped text is returned as the input, a read error is returned, and the terminal and the exhausted pipe yield no input at all (nil) — not an empty Casketfile, which a reload would put in the place of the running configuration", 1)
	fn := h.fn("R6", "", "CasketfileFromPipe")
	if fn == nil {
		return
	}
	type cs struct {
		name    string
		charDev bool
		body    string
		readErr bool
		want    string // "nil", "input", "error"
	}
	cases := []cs{
		{"standard input is a terminal", true, "", false, "nil"},
		{"a pipe that delivers a configuration", false, "localhost\nroot /srv\n", false, "input"},
		{"a pipe at its end (a reload asks again)", false, "", false, "nil"},
		{"a pipe whose read fails", false, "", true, "error"},
	}
	bad, n := "", 0
	for _, c := range cases {
		mkObj := func(name string) *aobj { return &aobj{name: name, typ: types.Typ[types.Int], f: map[string]aval{}} }
		env := &absEnv{globals: map[string]*aobj{}, noFork: true, maxSteps: 50000}
		env.ext = func(callee string, args []aval) (aval, bool) {
			switch {
			case callee == "(*os.File).Stat":
				return atuple{aiface{aptr{mkObj("fileinfo"), ""}, types.Typ[types.Int]}, anil{}}, true
			case callee == "invoke:Mode":
				if c.charDev {
					return aint(1 << 21), true // os.ModeCharDevice
				}
				return aint(1 << 25), true // os.ModeNamedPipe
			case callee == "io/ioutil.ReadAll", callee == "io.ReadAll":
				if c.readErr {
					return atuple{anil{}, aiface{aptr{mkObj("read error"), ""}, types.Typ[types.Int]}}, true
				}
				var bs []aval
				for _, b := range []byte(c.body) {
					bs = append(bs, aint(int64(b)))
				}
				return atuple{newVals(bs, types.Typ[types.Uint8]), anil{}}, true
			case callee == "(*os.File).Name":
				return astr("/dev/stdin"), true
			}
			return nil, false
		}
		res, und := env.run(fn, []aval{aptr{mkObj("stdin"), ""}, astr("http")})
		n++
		desc := c.name
		tp, ok := res.(atuple)
		if und != "" {
			bad = desc + ": undecided — " + und
			break
		}
		if !ok || len(tp) != 2 {
			bad = desc + ": returns " + describeAval(res)
			break
		}
		_, inNil := tp[0].(anil)
		_, errNil := tp[1].(anil)
		got := "input"
		switch {
		case !errNil:
			got = "error"
		case inNil:
			got = "nil"
		}
		if got != c.want {
			what := map[string]string{"nil": "no input (nil)", "input": "a Casketfile input", "error": "an error"}
			bad = fmt.Sprintf("%s: yields %s, specification says %s", desc, what[got], what[c.want])
			if c.want == "nil" && got == "input" {
				bad += " — on a reload this empty Casketfile replaces the running configuration"
			}
			break
		}
	}
	_ = strings.TrimSpace
	r.Check(bad == "", "R6", "casket.CasketfileFromPipe/exhausted-pipe-table", fn.Pos(), "a pipe with nothing (more) to read is no input", fmt.Sprintf("%d cases evaluated", n), bad)
}

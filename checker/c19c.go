package main

import (
	"fmt"
	"go/types"
	"golang.org/x/tools/go/ssa"
	"strings"
)

// c19R3: a FastCGI responder cannot make the handler panic through the status it announces.  The handler passes
// Response.StatusCode to ResponseWriter.WriteHeader, which panics for a code outside 100..999.  FCGIClient.Request is
// evaluated (E10) on responses whose header block carries the Status lines a responder may send — the record stream,
// the buffered reader and the MIME header reader being oracles —: it must either fail or leave a status code a
// response writer accepts.
func c19R3(h H) {
	r := h.r
	r.Rule("R3", "the status announced by a FastCGI responder, as a decision table (E10): FCGIClient.Request evaluated on header blocks with Status absent, `200 OK`, `404`, `42`, `0 x`, `-1`, `1000`, `99999999999999999999`, `abc` and an empty value either returns an error or a response whose StatusCode is within 100..999 (what ResponseWriter.WriteHeader accepts without panicking); a valid status is kept as sent", 1)
	fn := h.fn("R3", fcPkg, "(*FCGIClient).Request")
	if fn == nil {
		return
	}
	bad, _, n, total := fcgiStatusTable(h, fn)
	if total == 0 {
		r.Unresolve("R3", bad)
		return
	}
	r.Check(bad == "" && n == total, "R3", "fastcgi.(*FCGIClient).Request/status-table", fn.Pos(), "whatever Status a responder announces, the response either fails to parse or carries a code a response writer accepts", fmt.Sprintf("%d header blocks evaluated", n), bad)
}

// fcgiStatusTable evaluates FCGIClient.Request (E10) on header blocks with the given Status lines; bad is about the
// status code (C19 R3), hdrBad about the header block of accepted responses (C13 R9).
func fcgiStatusTable(h H, fn *ssa.Function) (string, string, int, int) {
	hdrT, _ := types.Unalias(h.p.typeByName("net/http", "Header")).Underlying().(*types.Map)
	mimeT := h.p.typeByName("net/textproto", "MIMEHeader")
	var mimeMapT *types.Map
	if mimeT != nil {
		mimeMapT, _ = types.Unalias(mimeT).Underlying().(*types.Map)
	}
	if hdrT == nil || mimeMapT == nil {
		return "http.Header / textproto.MIMEHeader not found", "", 0, 0
	}
	type cs struct {
		status string // "" = no Status line; "(empty)" = a Status line with an empty value
		want   int64  // the code that must come out, 0: must fail (or, for no line, 200)
	}
	cases := []cs{{"", 200}, {"200 OK", 200}, {"404", 404}, {"100 Continue", 100}, {"999", 999}, {"42", 0}, {"0 x", 0}, {"-1", 0}, {"99", 0}, {"1000", 0}, {"99999999999999999999", 0}, {"abc", 0}, {" 200", 0}}
	bad, hdrBad, n := "", "", 0
	for _, c := range cases {
		env := &absEnv{globals: map[string]*aobj{}, noFork: true, maxSteps: 200000}
		mk := func(name string) aval {
			return aptr{&aobj{name: name, typ: types.Typ[types.Int], f: map[string]aval{}}, ""}
		}
		env.ext = func(callee string, args []aval) (aval, bool) {
			switch {
			case strings.HasSuffix(callee, "FCGIClient).Do"):
				return atuple{aiface{mk("response stream"), types.Typ[types.Int]}, anil{}}, true
			case callee == "bufio.NewReader":
				return mk("buffered reader"), true
			case callee == "net/textproto.NewReader":
				return mk("mime reader"), true
			case callee == "(*net/textproto.Reader).ReadMIMEHeader":
				m := amap{&amapData{vals: map[string]aval{}, keys: map[string]aval{}, typ: mimeMapT}}
				if c.status != "" {
					m.m.vals["s:Status"] = newVals([]aval{astr(c.status)}, types.Typ[types.String])
					m.m.keys["s:Status"] = astr("Status")
				}
				m.m.vals["s:Content-Type"] = newVals([]aval{astr("text/html")}, types.Typ[types.String])
				m.m.keys["s:Content-Type"] = astr("Content-Type")
				return atuple{m, anil{}}, true
			case callee == "net/http/httputil.NewChunkedReader", callee == "io/ioutil.NopCloser", callee == "io.NopCloser":
				return aiface{mk("body"), types.Typ[types.Int]}, true
			case strings.HasSuffix(callee, "fastcgi.chunked"):
				return abool(false), true
			}
			return nil, false
		}
		cl := &aobj{name: "client", typ: fn.Params[0].Type().(*types.Pointer).Elem(), f: map[string]aval{}}
		cl.in = func(o *aobj, path string, t types.Type) aval { return aunk{"client field " + path} }
		res, und := env.run(fn, []aval{aptr{cl, ""}, anil{}, anil{}})
		n++
		desc := fmt.Sprintf("responder sends `Status: %s`", c.status)
		if c.status == "" {
			desc = "responder sends no Status line"
		}
		if und != "" {
			bad = desc + ": undecided — " + und
			break
		}
		tp, ok := res.(atuple)
		if !ok || len(tp) != 2 {
			bad = desc + ": returns " + describeAval(res)
			break
		}
		_, noErr := tp[1].(anil)
		var code aval = aunk{"no response"}
		if p, ok := tp[0].(aptr); ok {
			code = env.load(p.obj, joinPath(p.path, "StatusCode"))
		}
		if noErr && hdrBad == "" {
			// the header block handed on: the application's fields, without the CGI status line
			if p, ok := tp[0].(aptr); ok {
				if m, ok := env.load(p.obj, joinPath(p.path, "Header")).(amap); ok {
					if _, has := m.m.vals["s:Status"]; has {
						hdrBad = desc + ": the response's header still holds the CGI status line — the handler copies every header to the client, who gets a `Status:` field the application never set"
					} else if _, has := m.m.vals["s:Content-Type"]; !has {
						hdrBad = desc + ": the application's Content-Type is missing from the response's header"
					}
				} else {
					hdrBad = desc + ": the response's header is " + describeAval(env.load(p.obj, joinPath(p.path, "Header")))
				}
			}
		}
		if noErr {
			v, isInt := code.(aint)
			switch {
			case !isInt:
				bad = desc + ": the status code is " + describeAval(code)
			case v < 100 || v > 999:
				bad = fmt.Sprintf("%s: accepted with status code %d — the handler passes it to WriteHeader, which panics for a code outside 100..999", desc, int64(v))
			case c.want != 0 && int64(v) != c.want:
				bad = fmt.Sprintf("%s: status code %d, the responder said %d", desc, int64(v), c.want)
			}
		} else if c.want != 0 {
			bad = desc + ": rejected (" + describeAval(tp[1]) + "), but it is a valid status"
		}
		if bad != "" {
			break
		}
	}
	return bad, hdrBad, n, len(cases)
}

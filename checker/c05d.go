package main

import (
	"fmt"
	"go/types"
	"strings"
)

// proxyTraces: the retry loop of the reverse proxy as traces (E10).  Proxy.ServeHTTP is evaluated with an oracle
// upstream (Select hands out the scripted backends, or none), an oracle clock (time.Since returns the scripted elapsed
// times, try_duration is 100), an oracle backend round trip (proxy.ServeHTTP returns the scripted outcome and records
// which backend it was for, the backend's in-flight counter at that moment and whether the body had been rewound),
// and oracles for request construction and body buffering.  The observed attempts must be the specified ones.
type proxyTraceResult struct {
	retry  string // retrying stops early, or goes on after success / cancellation / exhaustion
	body   string // an attempt is made on a body that was not rewound
	conns  string // in-flight counter not 1 during an attempt or not 0 afterwards
	fails  string // failure not recorded on a backend with fail_timeout
	fresh  string // an attempt starts from a URL or header the previous attempt's director / header rules had modified
	buffer string // the body is buffered under other conditions than {retries enabled}
	large  string // an exceeded body limit (while buffering, or reported by the backend round trip) is not answered 413
	other  string
	n      int
	traces []string
}

var proxyTraceMemo = map[*Program]*proxyTraceResult{}

func proxyTraces(h H) *proxyTraceResult {
	if m, ok := proxyTraceMemo[h.p]; ok {
		return m
	}
	res := &proxyTraceResult{}
	proxyTraceMemo[h.p] = res
	fn := h.p.Func(pxPkg, "Proxy.ServeHTTP")
	if fn == nil {
		res.other = "proxy.Proxy.ServeHTTP not found"
		return res
	}
	reqT := fn.Params[2].Type().(*types.Pointer).Elem()
	hostT := types.Type(types.Typ[types.Int])
	if t := h.p.typeByName(modPath+"/"+pxPkg, "UpstreamHost"); t != types.Typ[types.Invalid] {
		hostT = t
	}
	bbT := types.Type(types.Typ[types.Int])
	if f := h.p.Func(pxPkg, "newBufferedBody"); f != nil && f.Signature.Results().Len() > 0 {
		if p, ok := f.Signature.Results().At(0).Type().(*types.Pointer); ok {
			bbT = p.Elem()
		}
	}
	hdrT, _ := types.Unalias(h.p.typeByName("net/http", "Header")).Underlying().(*types.Map)
	type step struct {
		host    int    // index of the backend Select returns, -1: none available
		outcome string // "ok", "err", "cancel" (ignored when host < 0)
		elapsed int64  // what time.Since reports when asked after this step
	}
	type script struct {
		desc        string
		steps       []step
		tryDuration int64
		hostCount   int64
		failTimeout int64
		wantStatus  int64
		wantTries   int // attempts expected
	}
	scripts := []script{
		{"the first backend answers", []step{{0, "ok", 1}}, 100, 2, 0, 0, 1},
		{"backend 0 fails, backend 1 answers", []step{{0, "err", 10}, {1, "ok", 20}}, 100, 2, 10, 0, 2},
		{"two failures, then backend 0 answers", []step{{0, "err", 10}, {1, "err", 20}, {0, "ok", 30}}, 100, 2, 0, 0, 3},
		{"no backend available at first, then backend 1 answers", []step{{-1, "", 10}, {1, "ok", 20}}, 100, 2, 0, 0, 1},
		{"every attempt fails until the try duration is spent", []step{{0, "err", 10}, {1, "err", 50}, {0, "err", 150}, {1, "ok", 160}}, 100, 2, 10, 502, 3},
		{"the client cancels during the first attempt", []step{{0, "cancel", 10}, {1, "ok", 20}}, 100, 2, 0, 499, 1},
		{"retries disabled (try_duration 0), the backend fails", []step{{0, "err", 10}, {1, "ok", 20}}, 0, 2, 0, 502, 1},
		{"a single backend that fails once and then answers", []step{{0, "err", 10}, {0, "ok", 20}}, 100, 1, 0, 0, 2},
		{"the body exceeds its limit while it is buffered", []step{{0, "ok", 10}}, 100, 2, 0, 413, 0},
		{"the backend round trip fails because the body exceeded its limit", []step{{0, "toolarge", 10}, {1, "ok", 20}}, 100, 2, 0, 413, 1},
	}
	for _, sc := range scripts {
		sc := sc
		res.n++
		hosts := []*aobj{}
		for i := 0; i < 2; i++ {
			ho := &aobj{name: fmt.Sprintf("backend%d", i), typ: hostT, f: map[string]aval{
				"Name": astr(fmt.Sprintf("backend%d:80", i)), "Conns": aint(0), "Fails": aint(0), "FailTimeout": aint(sc.failTimeout),
				"UpstreamHeaders": anil{}, "DownstreamHeaders": anil{}, "WithoutPathPrefix": astr(""), "MaxConns": aint(0), "Unhealthy": aint(0),
				"ReverseProxy": aptr{&aobj{name: fmt.Sprintf("reverse proxy of backend%d", i), typ: types.Typ[types.Int], f: map[string]aval{}}, ""},
			}}
			ho.in = func(o *aobj, path string, t types.Type) aval { return aunk{"backend field " + path} }
			hosts = append(hosts, ho)
		}
		pos := 0       // next step
		lastStep := -1 // the step whose elapsed time the clock reports
		rewinds := 0
		bufferings := 0
		rewoundSince := false
		type attempt struct {
			host    int
			conns   aval
			rewound bool
		}
		var tries []attempt
		cancelled := aptr{&aobj{name: "context.Canceled", typ: types.Typ[types.Int], f: map[string]aval{}}, ""}
		backendErr := aiface{aptr{&aobj{name: "err:connection refused", typ: types.Typ[types.Int], f: map[string]aval{}}, ""}, types.Typ[types.Int]}
		tooLarge := aiface{aptr{&aobj{name: "err:wrapped ErrMaxBytesExceeded", typ: types.Typ[types.Int], f: map[string]aval{}}, ""}, types.Typ[types.Int]}
		bb := &aobj{name: "buffered body", typ: bbT, f: map[string]aval{}}
		bb.in = func(o *aobj, path string, t types.Type) aval { return aunk{"body field " + path} }
		outreq := &aobj{name: "outreq", typ: reqT, f: map[string]aval{"Body": aiface{aptr{&aobj{name: "client body", typ: types.Typ[types.Int], f: map[string]aval{}}, ""}, types.Typ[types.Int]}}}
		outURL := &aobj{name: "outreq url", typ: types.Typ[types.Int], f: map[string]aval{}}
		outreq.in = func(o *aobj, path string, t types.Type) aval {
			switch path {
			case "URL":
				outURL.typ = underlying(t).(*types.Pointer).Elem()
				outURL.in = func(o *aobj, path string, t types.Type) aval { return zeroOf(t) }
				return aptr{outURL, ""}
			case "Header":
				return amap{&amapData{vals: map[string]aval{}, keys: map[string]aval{}, typ: hdrT}}
			}
			return aunk{"outreq field " + path}
		}
		up := &aobj{name: "upstream", typ: types.Typ[types.Int], f: map[string]aval{}}
		env := &absEnv{noFork: true, maxSteps: 600000, globals: map[string]*aobj{
			"Canceled": {name: "Canceled", typ: types.Typ[types.Int], f: map[string]aval{"": aiface{cancelled, types.Typ[types.Int]}}},
		}}
		who := func(v aval) *aobj {
			if i, ok := v.(aiface); ok {
				v = i.val
			}
			if p, ok := v.(aptr); ok {
				return p.obj
			}
			return nil
		}
		env.ext = func(callee string, args []aval) (aval, bool) {
			switch {
			case strings.HasSuffix(callee, "proxy.Proxy).match"):
				return aiface{aptr{up, ""}, types.Typ[types.Int]}, true
			case strings.HasSuffix(callee, "httpserver.NewReplacer"):
				return aiface{aptr{&aobj{name: "replacer", typ: types.Typ[types.Int], f: map[string]aval{}}, ""}, types.Typ[types.Int]}, true
			case strings.HasSuffix(callee, "proxy.createUpstreamRequest"):
				return atuple{aptr{outreq, ""}, acb{"cancel"}}, true
			case callee == "callback:cancel":
				return atuple{}, true
			case strings.HasSuffix(callee, "proxy.newBufferedBody"):
				bufferings++
				if strings.Contains(sc.desc, "while it is buffered") {
					return atuple{anil{}, tooLarge}, true
				}
				return atuple{aptr{bb, ""}, anil{}}, true
			case strings.HasSuffix(callee, "proxy.bufferedBody).rewind"):
				if who(args[0]) == bb {
					rewinds++
					rewoundSince = true
				}
				return anil{}, true
			case callee == "invoke:GetHostCount":
				return aint(sc.hostCount), true
			case callee == "invoke:GetTryDuration":
				return aint(sc.tryDuration), true
			case callee == "invoke:GetTryInterval", callee == "invoke:GetTimeout", callee == "invoke:GetFallbackDelay":
				return aint(1), true
			case callee == "invoke:Select":
				if pos >= len(sc.steps) {
					return anil{}, true
				}
				st := sc.steps[pos]
				if st.host < 0 {
					lastStep = pos
					pos++
					return anil{}, true
				}
				return aptr{hosts[st.host], ""}, true
			case callee == "time.Now":
				return astruct{map[string]aval{}}, true
			case callee == "time.Since":
				if lastStep >= 0 && lastStep < len(sc.steps) {
					return aint(sc.steps[lastStep].elapsed), true
				}
				return aint(0), true
			case callee == "time.Sleep":
				return atuple{}, true
			case callee == "net/url.Parse":
				return atuple{anil{}, backendErr}, true
			case callee == "errors.Is":
				return abool(who(args[0]) == tooLarge.val.(aptr).obj), true
			case strings.HasSuffix(callee, "proxy.mutateHeadersByRules"):
				return atuple{}, true
			case strings.HasSuffix(callee, "proxy.ReverseProxy).ServeHTTP"):
				if pos >= len(sc.steps) {
					return backendErr, true
				}
				st := sc.steps[pos]
				lastStep = pos
				pos++
				hi := -1
				for i, ho := range hosts {
					if rp, ok := ho.f["ReverseProxy"].(aptr); ok && who(args[0]) == rp.obj {
						hi = i
					}
				}
				conns := aval(aunk{"backend unknown"})
				if hi >= 0 {
					conns = hosts[hi].f["Conns"]
				}
				tries = append(tries, attempt{hi, conns, rewoundSince})
				rewoundSince = false
				// what the director and the header rules do to the outgoing request: it must not survive into the
				// next attempt
				if rq, ok := args[2].(aptr); ok {
					if up, ok := env.load(rq.obj, joinPath(rq.path, "URL")).(aptr); ok {
						if pth, _ := env.load(up.obj, joinPath(up.path, "Path")).(astr); string(pth) != "" && res.fresh == "" {
							res.fresh = fmt.Sprintf("%s: attempt %d starts with the URL path %q left behind by the previous attempt", sc.desc, len(tries), string(pth))
						}
						env.store(up.obj, joinPath(up.path, "Path"), astr("/rewritten-by-director"))
					}
					if hm, ok := env.load(rq.obj, joinPath(rq.path, "Header")).(amap); ok {
						if _, dirty := hm.m.vals["s:X-Added-By-Rule"]; dirty && res.fresh == "" {
							res.fresh = fmt.Sprintf("%s: attempt %d starts with a header added during the previous attempt", sc.desc, len(tries))
						}
						hm.m.vals["s:X-Added-By-Rule"] = newVals([]aval{astr("1")}, types.Typ[types.String])
						hm.m.keys["s:X-Added-By-Rule"] = astr("X-Added-By-Rule")
					}
				}
				switch st.outcome {
				case "ok":
					return anil{}, true
				case "cancel":
					return aiface{cancelled, types.Typ[types.Int]}, true
				case "toolarge":
					return tooLarge, true
				}
				return backendErr, true
			}
			return nil, false
		}
		pv := astruct{map[string]aval{"Next": aiface{aptr{&aobj{name: "next", typ: types.Typ[types.Int], f: map[string]aval{}}, ""}, types.Typ[types.Int]}, "Upstreams": anil{}}}
		req := &aobj{name: "request", typ: reqT, f: map[string]aval{}}
		req.in = func(o *aobj, path string, t types.Type) aval { return aunk{"request field " + path} }
		r, und := env.run(fn, []aval{pv, aiface{aptr{&aobj{name: "writer", typ: types.Typ[types.Int], f: map[string]aval{}}, ""}, types.Typ[types.Int]}, aptr{req, ""}})
		if und != "" {
			if res.other == "" {
				res.other = sc.desc + ": undecided — " + und
			}
			continue
		}
		status := int64(-1)
		if tp, ok := r.(atuple); ok && len(tp) == 2 {
			if v, ok := tp[0].(aint); ok {
				status = int64(v)
			}
		}
		var seq []string
		for _, a := range tries {
			seq = append(seq, fmt.Sprintf("backend%d", a.host))
		}
		tr := fmt.Sprintf("%s: attempts [%s], status %d", sc.desc, strings.Join(seq, " "), status)
		res.traces = append(res.traces, tr)
		// expected attempts: the scripted backends in order, up to wantTries
		var want []string
		for _, st := range sc.steps {
			if st.host >= 0 && len(want) < sc.wantTries {
				want = append(want, fmt.Sprintf("backend%d", st.host))
			}
		}
		if strings.Join(seq, " ") != strings.Join(want, " ") || status != sc.wantStatus {
			msg := fmt.Sprintf("%s; specification: attempts [%s], status %d", tr, strings.Join(want, " "), sc.wantStatus)
			if sc.wantStatus == 413 {
				if res.large == "" {
					res.large = msg
				}
			} else if res.retry == "" {
				res.retry = msg
			}
		}
		// a further attempt can follow whenever retries are enabled — at another backend, or at the same one once its
		// fail_timeout has passed (the only possibility with a single backend) — and must find the whole body
		buffered := sc.tryDuration != 0
		if (bufferings == 1) != buffered && res.buffer == "" {
			res.buffer = fmt.Sprintf("%s (%d backends, try_duration %d): the body is buffered %d times; specification: exactly once when retries are enabled (whatever the number of backends: a single backend is retried after its fail_timeout), never otherwise", sc.desc, sc.hostCount, sc.tryDuration, bufferings)
		}
		for i, a := range tries {
			if (buffered || i > 0) && !a.rewound && res.body == "" {
				res.body = fmt.Sprintf("%s: attempt %d is made without the buffered body having been rewound (it receives what the previous attempt left)", sc.desc, i+1)
			}
			if c, ok := a.conns.(aint); (!ok || c != 1) && res.conns == "" {
				res.conns = fmt.Sprintf("%s: during attempt %d the backend's in-flight count is %s, 1 expected", sc.desc, i+1, describeAval(a.conns))
			}
		}
		for i, ho := range hosts {
			if c, ok := ho.f["Conns"].(aint); (!ok || c != 0) && res.conns == "" {
				res.conns = fmt.Sprintf("%s: after the request backend%d's in-flight count is %s", sc.desc, i, describeAval(ho.f["Conns"]))
			}
		}
		if sc.failTimeout > 0 {
			failed := map[int]int64{}
			ti := 0
			for _, st := range sc.steps {
				if st.host < 0 {
					continue
				}
				if ti < len(tries) && st.outcome == "err" {
					failed[st.host]++
				}
				ti++
			}
			for hi, ho := range hosts {
				if f, ok := ho.f["Fails"].(aint); ok && int64(f) != failed[hi] && res.fails == "" {
					// the expiry goroutine is outside the abstraction: what is observed is the count right after the request
					res.fails = fmt.Sprintf("%s: backend%d has %d recorded failures right after the request, %d attempts on it failed", sc.desc, hi, int64(f), failed[hi])
				}
			}
		}
	}
	return res
}

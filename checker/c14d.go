package main

import (
	"go/types"
	"strings"

	"golang.org/x/tools/go/ssa"
)

// c14R9: a backend's in-flight count is released when the forwarding of the request ends, and for a request that
// looked like a protocol upgrade that is when the backend connection is closed: net/http's transport, the body it
// hands out and the proxy's own tunnel all end a connection through its Close method.  A wrapper around the backend
// connection whose Close does not close it keeps the pending read — and with it the request and its in-flight slot —
// alive after the client has gone.  Every type of the proxy package that embeds a net.Conn and declares its own Close
// calls the embedded connection's Close on every path to its return.
func c14R9(h H) {
	r := h.r
	r.Rule("R9", "connection wrappers close what they wrap: every type of package proxy that embeds net.Conn and declares Close calls the embedded connection's Close on every path to the method's return (a no-op Close leaves an abandoned upgrade request, and its in-flight slot, pending forever)", 1)
	n := 0
	for _, fn := range h.p.PkgFuncs(pxPkg) {
		if fn.Name() != "Close" || fn.Signature.Recv() == nil || len(fn.Blocks) == 0 {
			continue
		}
		st, ok := underlying(derefType(fn.Signature.Recv().Type())).(*types.Struct)
		if !ok {
			continue
		}
		embedded := -1
		for i := 0; i < st.NumFields(); i++ {
			if f := st.Field(i); f.Embedded() && strings.HasSuffix(f.Type().String(), "net.Conn") {
				embedded = i
			}
		}
		if embedded < 0 {
			continue
		}
		n++
		closesInner := func(in ssa.Instruction) bool {
			c := callOf(in)
			if c == nil || !c.IsInvoke() || c.Method.Name() != "Close" {
				return false
			}
			p, base := fieldPath(c.Value)
			return p == st.Field(embedded).Name() && base == ssa.Value(fn.Params[0])
		}
		ok = true
		for _, rt := range realReturns(fn) {
			if !mustPass(fn, rt, closesInner) {
				ok = false
			}
		}
		r.Check(ok, "R9", shortFunc(fn)+"/closes-the-wrapped-connection", fn.Pos(), "Close of a connection wrapper closes the connection it wraps, on every path")
	}
	if n == 0 {
		r.Unresolve("R9", "package proxy: no type embedding net.Conn that declares Close (the hijacked-connection wrapper is gone?)")
	}
}

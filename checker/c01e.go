package main

import (
	"fmt"
	"go/types"
	"strings"
)

// c01ServeTable: what (*Server).serveHTTP does with the trie's answer, as a decision table (E10).  The trie's Match,
// the ACME challenge handler, the site-not-found writer, trimPathPrefix and the site's handler chain are oracles.
// For {no site | a site at prefix / | a site at prefix /app} x {challenge answered | not} x {server with / without
// sites}: no site → the not-found response is written exactly once and no handler runs (unless the challenge was
// answered: then nothing else happens); a site → exactly that site's chain runs once and its result is returned,
// the path prefix being stripped exactly when it is not "/".
func c01ServeTable(h H) (notFound, found, other string, n int) {
	fn := h.p.Func(hs, "(*Server).serveHTTP")
	if fn == nil {
		return "", "", "httpserver.(*Server).serveHTTP not found", 0
	}
	srvT := fn.Params[0].Type().(*types.Pointer).Elem()
	reqT := fn.Params[2].Type().(*types.Pointer).Elem()
	var siteT types.Type
	if m := h.p.Func(hs, "(*vhostTrie).Match"); m != nil {
		if p, ok := m.Signature.Results().At(0).Type().(*types.Pointer); ok {
			siteT = p.Elem()
		}
	}
	if siteT == nil {
		return "", "", "vhostTrie.Match: site type not found", 0
	}
	for _, site := range []string{"none", "/", "/app"} {
		for _, challenge := range []bool{false, true} {
			for _, haveSites := range []bool{true, false} {
				if site != "none" && !haveSites {
					continue
				}
				n++
				desc := fmt.Sprintf("Match returns %s, the ACME challenge handler answers=%v, server has sites=%v", map[string]string{"none": "no site", "/": "a site with prefix /", "/app": "a site with prefix /app"}[site], challenge, haveSites)
				var events []string
				mk := func(name string) *aobj { return &aobj{name: name, typ: types.Typ[types.Int], f: map[string]aval{}} }
				chain := mk("the site's chain")
				mkSite := func(name string, ch *aobj) *aobj {
					s := &aobj{name: name, typ: siteT, f: map[string]aval{"middlewareChain": aiface{aptr{ch, ""}, types.Typ[types.Int]}, "TLS": aptr{&aobj{name: "tls of " + name, typ: types.Typ[types.Int], f: map[string]aval{"InsecureDisableSNIMatching": abool(false), "ClientAuth": aint(0), "Issuer": aptr{mk("issuer"), ""}}}, ""}}}
					if st, ok := underlying(siteT).(*types.Struct); ok {
						for i := 0; i < st.NumFields(); i++ {
							if st.Field(i).Name() == "TLS" {
								if p, ok := st.Field(i).Type().(*types.Pointer); ok {
									s.f["TLS"].(aptr).obj.typ = p.Elem()
								}
							}
						}
					}
					s.in = func(o *aobj, path string, t types.Type) aval { return aunk{"site field " + path} }
					return s
				}
				matched := mkSite("the matched site", chain)
				firstSite := mkSite("the first site", mk("another chain"))
				url := &aobj{name: "url", typ: types.Typ[types.Int], f: map[string]aval{"Path": astr("/app/x")}}
				req := &aobj{name: "request", typ: reqT, f: map[string]aval{"Host": astr("h.example:80"), "RemoteAddr": astr("1.2.3.4:5"), "TLS": anil{}}}
				req.in = func(o *aobj, path string, t types.Type) aval {
					if path == "URL" {
						url.typ = underlying(t).(*types.Pointer).Elem()
						url.in = func(o *aobj, path string, t types.Type) aval { return zeroOf(t) }
						return aptr{url, ""}
					}
					return aunk{"request field " + path}
				}
				var sites aval = anil{}
				if haveSites {
					sites = aslice{[]*aobj{firstSite}}
				}
				srv := &aobj{name: "server", typ: srvT, f: map[string]aval{"sites": sites, "vhosts": aptr{mk("trie"), ""}}}
				srv.in = func(o *aobj, path string, t types.Type) aval { return aunk{"server field " + path} }
				env := &absEnv{noFork: true, maxSteps: 200000, globals: map[string]*aobj{}}
				env.ext = func(callee string, args []aval) (aval, bool) {
					switch {
					case strings.HasSuffix(callee, "vhostTrie).Match"):
						if site == "none" {
							return atuple{anil{}, astr("")}, true
						}
						return atuple{aptr{matched, ""}, astr(site)}, true
					case callee == "(*net/http.Request).Context", callee == "context.WithValue":
						return aiface{aptr{mk("ctx"), ""}, types.Typ[types.Int]}, true
					case callee == "(*net/http.Request).WithContext":
						return args[0], true
					case strings.Contains(callee, "HandleHTTPChallenge"):
						events = append(events, "challenge")
						return abool(challenge), true
					case strings.HasSuffix(callee, "httpserver.WriteSiteNotFound"):
						events = append(events, "not-found-response")
						return atuple{}, true
					case strings.HasSuffix(callee, "httpserver.trimPathPrefix"):
						p, _ := args[1].(astr)
						events = append(events, "strip "+string(p))
						return args[0], true
					case callee == "invoke:ServeHTTP":
						name := "an unknown handler"
						if p, ok := ifaceVal(args[0]).(aptr); ok {
							name = p.obj.name
						}
						events = append(events, "run "+name)
						return atuple{aint(207), anil{}}, true
					case callee == "log.Printf", callee == "invoke:Get", callee == "(net/http.Header).Get":
						return astr(""), true
					}
					return nil, false
				}
				res, und := env.run(fn, []aval{aptr{srv, ""}, aiface{aptr{mk("writer"), ""}, types.Typ[types.Int]}, aptr{req, ""}})
				if und != "" {
					if other == "" {
						other = desc + ": undecided — " + und
					}
					continue
				}
				status := int64(-1)
				if tp, ok := res.(atuple); ok && len(tp) == 2 {
					if v, ok := tp[0].(aint); ok {
						status = int64(v)
					}
				}
				var acts []string
				for _, e := range events {
					if e != "challenge" {
						acts = append(acts, e)
					}
				}
				got := strings.Join(acts, ", ")
				switch {
				case site == "none":
					want := "not-found-response"
					if challenge && haveSites {
						want = ""
					}
					if (got != want || status != 0) && notFound == "" {
						notFound = fmt.Sprintf("%s: the server does [%s] and returns %d; specification: [%s] and 0 (no site's handler runs)", desc, got, status, want)
					}
				default:
					want, wstatus := "run the site's chain", int64(207)
					if site != "/" {
						want = "strip " + site + ", " + want
					}
					if challenge {
						want, wstatus = "", 0
					}
					if (got != want || status != wstatus) && found == "" {
						found = fmt.Sprintf("%s: the server does [%s] and returns %d; specification: [%s] and %d", desc, got, status, want, wstatus)
					}
				}
			}
		}
	}
	return
}

package main

import (
	"fmt"
	"go/types"
	"strings"

	"golang.org/x/tools/go/ssa"
)

// fileServerTable: FileServer.serveFile as a decision table (E10).  The file system, the response writer and
// http.ServeContent are modelled by oracles; the request is GET /<f> for an existing regular file f.  Inputs:
// whether f is on the hide list; which codings the client offers in Accept-Encoding; which precompressed siblings
// (f.zst, f.br, f.gz — the table staticEncodingPriority) exist and which of those are on the hide list.
// Specification: a hidden f answers 404 and nothing is served; otherwise exactly one file is handed to
// http.ServeContent — the sibling of the first coding of the priority table that is offered, exists and is not
// hidden, labelled with that coding's name, or f itself without a Content-Encoding.
type fsTableResult struct {
	cases int
	// first violations by clause
	hidden  string // a hidden file (f or a sibling) reached ServeContent
	sibling string // wrong sibling / wrong label / offered-but-not-accepted
	other   string // undecided or unexpected
}

var zeroWeightSpellings = []string{";q=0", ";q=0.0", "; q=0.000", " ;q=0.00", ";q=0."}

var fsTableMemo = map[*Program]*fsTableResult{}

func fileServerTable(h H) *fsTableResult {
	if m, ok := fsTableMemo[h.p]; ok {
		return m
	}
	res := &fsTableResult{}
	fsTableMemo[h.p] = res
	fn := h.p.Func(sfPkg, "FileServer.serveFile")
	if fn == nil {
		res.other = "FileServer.serveFile not found"
		return res
	}
	names, _ := h.p.firstFieldTable(sfPkg, "staticEncodingPriority")
	exts := h.p.secondFieldTable(sfPkg, "staticEncodingPriority")
	if len(names) == 0 || len(exts) != len(names) {
		res.other = "staticfiles.staticEncodingPriority not readable as a table of (name, extension)"
		return res
	}
	n := len(names)
	fsT := fn.Params[0].Type()
	reqT := fn.Params[2].Type().(*types.Pointer).Elem()
	hdrT, _ := types.Unalias(h.p.typeByName("net/http", "Header")).Underlying().(*types.Map)
	base := []atom{{lit: "/"}, {sym: "file"}}
	for hideMain := 0; hideMain < 2; hideMain++ {
		for offer := 0; offer < 1<<n; offer++ {
			for exist := 0; exist < 1<<n; exist++ {
				for hidR := 0; hidR < (1<<n)*(1<<n); hidR++ {
					// refuse: codings the client lists with ";q=0" (explicitly not acceptable) — explored with every
					// sibling present and nothing hidden
					hid, refuse := hidR%(1<<n), hidR/(1<<n)
					if hid&^exist != 0 {
						continue
					}
					for dirs := 0; dirs < 1<<n; dirs++ {
						// dirs: siblings' names that are directories (f.gz/ next to f) — explored with nothing hidden or refused
						if dirs&^exist != 0 || (dirs != 0 && (hideMain != 0 || hid != 0 || refuse != 0)) {
							continue
						}
						if refuse != 0 && (hideMain != 0 || hid != 0 || exist != (1<<n)-1 || refuse&offer != 0) {
							continue
						}
						res.cases++
						type file struct {
							name string
							obj  *aobj
							info *aobj
						}
						files := map[string]*file{}
						mkFile := func(key, name string) {
							files[key] = &file{name, &aobj{name: "file:" + name, typ: types.Typ[types.Int], f: map[string]aval{}}, &aobj{name: "info:" + name, typ: types.Typ[types.Int], f: map[string]aval{}}}
						}
						mainKey, _ := keyOf(mkStr(base))
						mkFile(mainKey, "f")
						var hide []aval
						if hideMain == 1 {
							hide = append(hide, mkStr(base))
						}
						for i := 0; i < n; i++ {
							if exist&(1<<i) != 0 {
								nm := mkStr(append(append([]atom{}, base...), atom{lit: exts[i]}))
								k, _ := keyOf(nm)
								mkFile(k, "f"+exts[i])
								if hid&(1<<i) != 0 {
									hide = append(hide, nm)
								}
							}
						}
						var offered []string
						for i := n - 1; i >= 0; i-- { // offered in the reverse of the priority order, with blanks
							if offer&(1<<i) != 0 {
								offered = append(offered, names[i])
							}
							if refuse&(1<<i) != 0 {
								// every spelling of a zero weight (RFC 9110 §12.4.2: "0" [ "." 0*3DIGIT ], optional blanks) refuses
								offered = append(offered, names[i]+zeroWeightSpellings[(i+refuse)%len(zeroWeightSpellings)])
							}
						}
						respHdr := amap{&amapData{vals: map[string]aval{}, keys: map[string]aval{}, typ: hdrT}}
						var served []*aobj
						servedEnc := ""
						errNotExist := aptr{&aobj{name: "err:not-exist", typ: types.Typ[types.Int], f: map[string]aval{}}, ""}
						fileOf := func(v aval) *file {
							if i, ok := v.(aiface); ok {
								v = i.val
							}
							p, ok := v.(aptr)
							if !ok {
								return nil
							}
							for _, f := range files {
								if f.obj == p.obj || f.info == p.obj {
									return f
								}
							}
							return nil
						}
						env := &absEnv{globals: map[string]*aobj{}, maxSteps: 200000}
						env.ext = func(callee string, args []aval) (aval, bool) {
							switch {
							case callee == "invoke:Open":
								k, ok := keyOf(args[1])
								if f, have := files[k]; ok && have {
									return atuple{aiface{aptr{f.obj, ""}, types.Typ[types.Int]}, anil{}}, true
								}
								return atuple{anil{}, errNotExist}, true
							case callee == "invoke:Stat":
								if f := fileOf(args[0]); f != nil {
									return atuple{aiface{aptr{f.info, ""}, types.Typ[types.Int]}, anil{}}, true
								}
							case callee == "invoke:IsDir":
								if f := fileOf(args[0]); f != nil {
									for i := 0; i < n; i++ {
										if f.name == "f"+exts[i] && dirs&(1<<i) != 0 {
											return abool(true), true
										}
									}
								}
								return abool(false), true
							case callee == "invoke:Close":
								return anil{}, true
							case callee == "os.SameFile":
								a, b := fileOf(args[0]), fileOf(args[1])
								return abool(a != nil && a == b), true
							case callee == "os.IsNotExist":
								p, ok := args[0].(aptr)
								return abool(ok && p.obj == errNotExist.obj), true
							case callee == "path/filepath.IsAbs":
								// (windows only) the table's names are plain file names below the root, not drive or UNC paths
								return abool(false), true
							case callee == "os.IsPermission":
								return abool(false), true
							case callee == "invoke:Header":
								return respHdr, true
							case callee == "(*net/http.Request).Context":
								return aiface{aptr{&aobj{name: "ctx", typ: types.Typ[types.Int], f: map[string]aval{}}, ""}, types.Typ[types.Int]}, true
							case callee == "invoke:Value":
								return aiface{astr("/"), types.Typ[types.String]}, true
							case callee == "net/http.ServeContent":
								if f := fileOf(args[4]); f != nil {
									served = append(served, f.obj)
								} else {
									served = append(served, nil)
								}
								if sl, ok := respHdr.m.vals["s:Content-Encoding"].(avals); ok && len(sl.cells) > 0 {
									if s, ok := sl.cells[0].f[""].(astr); ok {
										servedEnc = string(s)
									} else {
										servedEnc = "?"
									}
								}
								return atuple{}, true
							case callee == "net/http.Redirect":
								served = append(served, nil)
								return atuple{}, true
							}
							return nil, false
						}
						mk := func() []aval {
							served, servedEnc = nil, ""
							respHdr.m.vals, respHdr.m.keys = map[string]aval{}, map[string]aval{}
							fsv := astruct{map[string]aval{"Root": aiface{aptr{&aobj{name: "root", typ: types.Typ[types.Int], f: map[string]aval{}}, ""}, types.Typ[types.Int]}}}
							if st, ok := underlying(fsT).(*types.Struct); ok {
								for i := 0; i < st.NumFields(); i++ {
									switch st.Field(i).Name() {
									case "Hide":
										fsv.f["Hide"] = newVals(hide, types.Typ[types.String])
									case "IndexPages":
										fsv.f["IndexPages"] = anil{}
									}
								}
							}
							reqHdr := amap{&amapData{vals: map[string]aval{}, keys: map[string]aval{}, typ: hdrT}}
							if len(offered) > 0 {
								reqHdr.m.vals["s:Accept-Encoding"] = newVals([]aval{astr(strings.Join(offered, ", "))}, types.Typ[types.String])
								reqHdr.m.keys["s:Accept-Encoding"] = astr("Accept-Encoding")
							}
							url := &aobj{name: "url", typ: types.Typ[types.Int], f: map[string]aval{}}
							req := &aobj{name: "request", typ: reqT, f: map[string]aval{"Header": reqHdr}}
							req.in = func(o *aobj, path string, t types.Type) aval {
								if path == "URL" {
									url.typ = underlying(t).(*types.Pointer).Elem()
									url.in = func(o *aobj, path string, t types.Type) aval {
										if path == "Path" {
											return mkStr(base)
										}
										return aunk{"url field " + path}
									}
									return aptr{url, ""}
								}
								return aunk{"request field " + path}
							}
							return []aval{fsv, aiface{aptr{&aobj{name: "writer", typ: types.Typ[types.Int], f: map[string]aval{}}, ""}, types.Typ[types.Int]}, aptr{req, ""}}
						}
						desc := fmt.Sprintf("f hidden=%v; client offers %v; siblings exist %s, hidden %s", hideMain == 1, offered, maskNames(exist, exts), maskNames(hid, exts))
						if dirs != 0 {
							desc += ", directories " + maskNames(dirs, exts)
						}
						env.runForks(fn, mk, func(r aval, und string, _ int) bool {
							if und != "" {
								if res.other == "" {
									res.other = desc + ": undecided — " + und
								}
								return false
							}
							status := int64(-1)
							if tp, ok := r.(atuple); ok && len(tp) == 2 {
								if v, ok := tp[0].(aint); ok {
									status = int64(v)
								}
							}
							if hideMain == 1 {
								if len(served) != 0 && res.hidden == "" {
									res.hidden = desc + ": the hidden file is handed to the client"
								}
								if status != 404 && res.hidden == "" {
									res.hidden = fmt.Sprintf("%s: status %d instead of 404 for a hidden file", desc, status)
								}
								return true
							}
							// expected sibling
							want := -1
							for i := 0; i < n; i++ {
								if offer&(1<<i) != 0 && exist&(1<<i) != 0 && hid&(1<<i) == 0 && dirs&(1<<i) == 0 {
									want = i
									break
								}
							}
							if len(served) != 1 || served[0] == nil {
								if res.other == "" {
									res.other = fmt.Sprintf("%s: %d files handed to ServeContent", desc, len(served))
								}
								return true
							}
							var got *file
							for _, f := range files {
								if f.obj == served[0] {
									got = f
								}
							}
							wantName, wantEnc := "f", ""
							if want >= 0 {
								wantName, wantEnc = "f"+exts[want], names[want]
							}
							if got == nil || got.name != wantName || servedEnc != wantEnc {
								gotName := "?"
								if got != nil {
									gotName = got.name
								}
								msg := fmt.Sprintf("%s: serves %s with Content-Encoding %q, specification says %s with %q", desc, gotName, servedEnc, wantName, wantEnc)
								isHiddenServed := false
								for i := 0; i < n; i++ {
									if got != nil && got.name == "f"+exts[i] && hid&(1<<i) != 0 {
										isHiddenServed = true
									}
								}
								if isHiddenServed {
									if res.hidden == "" {
										res.hidden = msg
									}
								} else if res.sibling == "" {
									res.sibling = msg
								}
							}
							return true
						})
					}
				}
			}
		}
	}
	return res
}

func maskNames(m int, names []string) string {
	var out []string
	for i, n := range names {
		if m&(1<<i) != 0 {
			out = append(out, n)
		}
	}
	return "{" + strings.Join(out, ",") + "}"
}

// secondFieldTable reads the second (string) field of each element of a package-level []struct literal.
func (p *Program) secondFieldTable(rel, name string) []string {
	v, und := evalGlobal(p, rel, name)
	sl, ok := v.(avals)
	if und != "" || !ok {
		return nil
	}
	var out []string
	for _, c := range sl.cells {
		st, ok := underlying(c.typ).(*types.Struct)
		if !ok || st.NumFields() < 2 {
			return nil
		}
		s, ok := c.f[st.Field(1).Name()].(astr)
		if !ok {
			return nil
		}
		out = append(out, string(s))
	}
	return out
}

var _ = ssa.Value(nil)

// fileRedirectTable: the canonical-path redirects of the file server as a decision table (E10, string domain).
// serveFile is evaluated for a directory requested without trailing slash and a file requested with one, each under
// a path that starts with one, two or three slashes (//host/x is where an open redirect would come from).  The
// Location handed to http.Redirect must start with exactly one '/', and be the request path with the trailing slash
// added or removed.
func fileRedirectTable(h H) (bad string, ncases int) {
	fn := h.p.Func(sfPkg, "FileServer.serveFile")
	if fn == nil {
		return "staticfiles.FileServer.serveFile not found", 0
	}
	fsT := fn.Params[0].Type()
	reqT := fn.Params[2].Type().(*types.Pointer).Elem()
	hdrT, _ := types.Unalias(h.p.typeByName("net/http", "Header")).Underlying().(*types.Map)
	host, name := atom{sym: "host"}, atom{sym: "name"}
	sl := func(n int) atom { return atom{lit: strings.Repeat("/", n)} }
	type rc struct {
		desc  string
		path  []atom
		isDir bool
		want  []atom
	}
	cases := []rc{
		{"directory /name", []atom{sl(1), name}, true, []atom{sl(1), name, sl(1)}},
		{"directory //host/name", []atom{sl(2), host, sl(1), name}, true, []atom{sl(1), host, sl(1), name, sl(1)}},
		{"directory ///host", []atom{sl(3), host}, true, []atom{sl(1), host, sl(1)}},
		{"file /name/", []atom{sl(1), name, sl(1)}, false, []atom{sl(1), name}},
		{"file //host/name/", []atom{sl(2), host, sl(1), name, sl(1)}, false, []atom{sl(1), host, sl(1), name}},
		{"file ///host/", []atom{sl(3), host, sl(1)}, false, []atom{sl(1), host}},
	}
	for _, c := range cases {
		c := c
		ncases++
		fobj := &aobj{name: "file", typ: types.Typ[types.Int], f: map[string]aval{}}
		info := &aobj{name: "info", typ: types.Typ[types.Int], f: map[string]aval{}}
		var urlObj *aobj
		var targets []aval
		respHdr := amap{&amapData{vals: map[string]aval{}, keys: map[string]aval{}, typ: hdrT}}
		env := &absEnv{globals: map[string]*aobj{}, maxSteps: 200000}
		env.ext = func(callee string, args []aval) (aval, bool) {
			switch {
			case callee == "invoke:Open":
				return atuple{aiface{aptr{fobj, ""}, types.Typ[types.Int]}, anil{}}, true
			case callee == "invoke:Stat":
				return atuple{aiface{aptr{info, ""}, types.Typ[types.Int]}, anil{}}, true
			case callee == "invoke:IsDir":
				return abool(c.isDir), true
			case callee == "invoke:Close":
				return anil{}, true
			case callee == "os.IsNotExist", callee == "os.IsPermission", callee == "os.SameFile":
				return abool(false), true
			case callee == "path/filepath.IsAbs":
				// (windows only) the table's names are plain names below the root, not drive or UNC paths
				return abool(false), true
			case callee == "invoke:Header":
				return respHdr, true
			case callee == "(*net/http.Request).Context":
				return aiface{aptr{&aobj{name: "ctx", typ: types.Typ[types.Int], f: map[string]aval{}}, ""}, types.Typ[types.Int]}, true
			case callee == "invoke:Value":
				return aiface{astr("/"), types.Typ[types.String]}, true
			case callee == "(*net/url.URL).String":
				if p, ok := args[0].(aptr); ok {
					return env.load(p.obj, joinPath(p.path, "Path")), true
				}
			case callee == "net/http.Redirect":
				targets = append(targets, args[2])
				return atuple{}, true
			case callee == "net/http.ServeContent":
				targets = append(targets, astr("(content served instead of a redirect)"))
				return atuple{}, true
			}
			return nil, false
		}
		mk := func() []aval {
			targets = nil
			fsv := astruct{map[string]aval{"Root": aiface{aptr{&aobj{name: "root", typ: types.Typ[types.Int], f: map[string]aval{}}, ""}, types.Typ[types.Int]}}}
			if st, ok := underlying(fsT).(*types.Struct); ok {
				for i := 0; i < st.NumFields(); i++ {
					switch st.Field(i).Name() {
					case "Hide", "IndexPages":
						fsv.f[st.Field(i).Name()] = anil{}
					}
				}
			}
			reqHdr := amap{&amapData{vals: map[string]aval{}, keys: map[string]aval{}, typ: hdrT}}
			urlObj = &aobj{name: "url", typ: types.Typ[types.Int], f: map[string]aval{}}
			req := &aobj{name: "request", typ: reqT, f: map[string]aval{"Header": reqHdr}}
			req.in = func(o *aobj, path string, t types.Type) aval {
				if path == "URL" {
					urlObj.typ = underlying(t).(*types.Pointer).Elem()
					urlObj.in = func(o *aobj, path string, t types.Type) aval {
						if path == "Path" {
							return mkStr(c.path)
						}
						return aunk{"url field " + path}
					}
					return aptr{urlObj, ""}
				}
				return aunk{"request field " + path}
			}
			return []aval{fsv, aiface{aptr{&aobj{name: "writer", typ: types.Typ[types.Int], f: map[string]aval{}}, ""}, types.Typ[types.Int]}, aptr{req, ""}}
		}
		env.runForks(fn, mk, func(res aval, und string, _ int) bool {
			if und != "" {
				bad = c.desc + ": undecided — " + und
				return false
			}
			if len(targets) != 1 {
				bad = fmt.Sprintf("%s: %d responses issued, one redirect expected", c.desc, len(targets))
				return false
			}
			got, ok := toAtoms(targets[0])
			if !ok {
				bad = c.desc + ": the redirect target is " + describeAval(targets[0])
				return false
			}
			if renderAtoms(got) != renderAtoms(c.want) {
				bad = fmt.Sprintf("%s: redirects to %s, specification says %s (exactly one leading slash keeps the redirect on this origin)", c.desc, renderAtoms(got), renderAtoms(c.want))
				return false
			}
			return true
		})
		if bad != "" {
			return
		}
	}
	return
}

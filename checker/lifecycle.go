package main

// Rules over the instance lifecycle in the root package: C07 (reload
// hand-over), C08 (failed load leaves nothing behind), C16 (callbacks).

import (
	"go/token"
	"go/types"
	"sort"
	"strings"

	"golang.org/x/tools/go/ssa"
)

func init() {
	props["C08"].technique = "static analysis: module-wide lock pairing (typestate), call-graph effect inventory of the configuration-load path against a classified table, cleanup-flag discipline of deferred undo code, must-pass ordering on the signal path"
	props["C08"].run = runC08Full
	props["C08"].decided = "R1 every mutex acquired anywhere in the module is released on every exit of the acquiring function; " +
		"R2 every process-lasting effect (goroutine start, package-level write, listener, ticker, registry store) reachable from a configuration load outside lifecycle-registered closures is enumerated and classified — idempotent, undone on failure by verified code, or a listed known finding; an unclassified effect is a violation; " +
		"R3 every listener a start opens is registered with the cleanup that a failed start runs; " +
		"R4 in every evaluated trace (oracle callbacks and steps, each failing in turn) a failed startWithListenerFds returns the failing step's error and leaves no trace of the instance in the instance list, and a Restart that fails before the new instance is up runs the restart-failed callbacks and keeps the old instance; " +
		"R5 on the reload signal path the event hooks are copied before they are purged, and restored exactly when the reload failed."
	register("C16", &propSpec{
		technique: "static analysis: who-may-call enumeration of every callback-list invocation site with guard atoms and must-pass ordering; infeasible-edge pruning from constant callee summaries; lifecycle trace tables: startWithListenerFds / Restart / ShutdownCallbacks evaluated with oracle callbacks (E10)",
		run:       runC16,
		decided: "R1 the six callback lists are invoked (or handed to a helper) only within startWithListenerFds, Instance.Restart, Instance.ShutdownCallbacks and the functions these were split into, and ShutdownCallbacks is reachable only through the once-guarded signal path; R6 the lifecycle traces: with oracle callbacks in all six lists and every step failing in turn (44 cases), first-startup callbacks run only when neither upgrading nor restarting, startup callbacks before the servers start, restart callbacks before the new instance starts, the old instance's stop and shutdown callbacks only after it, restart-failed callbacks exactly when the reload failed before the new instance was up, and ShutdownCallbacks runs every shutdown and final-shutdown callback once, in order; " +
			"R2 a reload hands the old instance's wait group to the new instance; R3 SIGTERM runs callbacks, then Stop, then exits; " +
			"R4 once the new instance has started, Restart cannot return the old instance or report failure; " +
			"R5 whichever step of a start fails, the instance is gone from the instance list when the error is returned, so process shutdown never runs callbacks of an instance that never went live. Since round 4: R1 by references: every use of the six list fields lies in the lifecycle functions or is a registration. R2 and R4 from the lifecycle traces (shared wait group; success once the new instance is up; the reload hands over a non-nil socket table). Since round 7: the start-up traces include steps that panic (the instance is unlisted then too).",
		notDecided: "histories longer than one start, one reload or one shutdown (the traces are per call); panics inside callbacks other than during start-up; exactly-once under concurrent signals beyond the sync.Once guard.",
	})
	register("C07", &propSpec{
		technique: "static analysis: must-pass / guard-edge ordering in Restart and startServers, loop-exit analysis of Instance.Stop, who-may-call (Shutdown vs Close), wait-group pairing; lifecycle trace tables (E10) for startup-before-serving",
		run:       runC07,
		decided: "R1 the old instance is stopped only after the new one started successfully, and the success return follows that stop; R2 on reload a listener is opened with Listen/ListenPacket only when no inherited descriptor produced one, inherited ones come from the old listener's File(); " +
			"R3 servers stop through http.Server.Shutdown under the connection-drain timeout (never Close), and Instance.Stop visits every server (no early exit); R4 every wait-group Add is matched by the same number of Done calls on all paths; " +
			"R5 in every evaluated trace of startWithListenerFds (oracle callbacks, every failing step) the servers start after the last startup callback and not at all when one fails. Since round 4: R1 from the lifecycle traces: the old servers are stopped only after the new instance started, never when starting failed. R2 as a table of startServers: a server inherits the socket registered under its own address and nothing else, and calls Listen exactly when nothing was inherited. Since round 7: R4 Instance.Stop holds the wait group while it stops servers; R6 an exhausted configuration pipe is no input (not an empty Casketfile). Since round 8: R7 the parser keeps no package-level state between parses (a reload reads what is on disk now). Since round 10: R8 the address a socket is handed over under is fixed at construction — every field GracefulServer.Address() reads is stored only into a value under construction, never through a pointer to a live server.",
		notDecided: "every interleaving claim: that each request gets a complete response from old or new, and 'new after Restart returns' under concurrent load.",
	})
}

// ---------------------------------------------------------------------------
// helpers

// callbackListCalls finds calls whose callee value is an element of the
// Instance callback list named field (via range/index over i.<field>).
func callbackListCalls(fn *ssa.Function, field string) []ssa.Instruction {
	var out []ssa.Instruction
	allInstrs(fn, func(in ssa.Instruction) {
		c := callOf(in)
		if c == nil || c.IsInvoke() || c.StaticCallee() != nil {
			return
		}
		if _, isB := c.Value.(*ssa.Builtin); isB {
			return
		}
		if derives(c.Value, func(v ssa.Value) bool {
			p, root := fieldPath(v)
			if p != field {
				return false
			}
			return strings.HasSuffix(strings.TrimPrefix(root.Type().String(), "*"), "casket.Instance") || strings.HasSuffix(root.Type().String(), "casket.Instance")
		}, flowOpts{}) {
			out = append(out, in)
		}
	})
	return out
}

func callsTo(fn *ssa.Function, suffix string) []ssa.Instruction {
	return findCalls(fn, func(in ssa.Instruction) bool {
		c := callOf(in)
		if c.IsInvoke() {
			return false
		}
		return strings.HasSuffix(calleeName(c), suffix)
	})
}

func anyOf(list []ssa.Instruction) func(ssa.Instruction) bool {
	return func(in ssa.Instruction) bool {
		for _, x := range list {
			if x == in {
				return true
			}
		}
		return false
	}
}

// alwaysReturnsNilError: every return of f has a constant nil as its last result.
func alwaysReturnsNilError(f *ssa.Function) bool {
	if f == nil || len(f.Blocks) == 0 {
		return false
	}
	n := f.Signature.Results().Len()
	if n == 0 {
		return false
	}
	// the real returns (not the one of the recover block that a defer adds), results read back through the slots a
	// defer spills them to
	rets := realReturns(f)
	if len(rets) == 0 {
		return false
	}
	for _, rt := range rets {
		res := retResults(rt)
		if n-1 >= len(res) {
			return false
		}
		c, ok := res[n-1].(*ssa.Const)
		if !ok || c.Value != nil {
			return false
		}
	}
	return true
}

// infeasibleErrEdges: edges `err != nil` (true) where err is the result of a
// module function that always returns a nil error.
func infeasibleErrEdges(fn *ssa.Function) map[edge]bool {
	return nilEdges(fn, false, func(v ssa.Value) bool {
		// v may be a load of the err variable: then every reaching store... keep it simple: direct call results,
		// or loads from an alloc whose most recent store in the same block is such a call
		if c, ok := v.(*ssa.Call); ok {
			return alwaysReturnsNilError(c.Call.StaticCallee())
		}
		if ld, ok := v.(*ssa.UnOp); ok && ld.Op == token.MUL {
			var last ssa.Value
			for _, in := range ld.Block().Instrs {
				if in == ssa.Instruction(ld) {
					break
				}
				if st, ok := in.(*ssa.Store); ok && st.Addr == ld.X {
					last = st.Val
				}
			}
			if c, ok := last.(*ssa.Call); ok {
				return alwaysReturnsNilError(c.Call.StaticCallee())
			}
		}
		return false
	})
}

// errVarOf finds the error variable (Alloc) that a deferred closure of fn tests against nil.
func deferredErrVar(fn *ssa.Function) (*ssa.Alloc, *ssa.Function) {
	var res *ssa.Alloc
	var clo *ssa.Function
	allInstrs(fn, func(in ssa.Instruction) {
		d, ok := in.(*ssa.Defer)
		if !ok {
			return
		}
		mc, ok := d.Call.Value.(*ssa.MakeClosure)
		if !ok {
			return
		}
		g := mc.Fn.(*ssa.Function)
		for idx, fv := range g.FreeVars {
			if !strings.HasSuffix(fv.Type().String(), "*error") {
				continue
			}
			tested := false
			for _, i := range ifs(g) {
				for _, a := range conjAtoms(g, i.Cond, true, 0) {
					if x, _, ok := nilCmp(a.Cond); ok {
						if ld, ok := x.(*ssa.UnOp); ok && ld.X == ssa.Value(fv) {
							tested = true
						}
					}
				}
				// also || forms: scan operands
				if b, ok := i.Cond.(*ssa.BinOp); ok {
					if x, _, ok := nilCmp(b); ok {
						if ld, ok := x.(*ssa.UnOp); ok && ld.X == ssa.Value(fv) {
							tested = true
						}
					}
				}
			}
			if tested {
				if a, ok := mc.Bindings[idx].(*ssa.Alloc); ok {
					res, clo = a, g
				}
			}
		}
	})
	return res, clo
}

// ---------------------------------------------------------------------------
// C08

type effectClass struct {
	class  string // benign | undone | known
	reason string
}

// effectTable classifies today's load-time effects, one line of reason each.
var effectTable = map[string]effectClass{
	"(*casket.Instance).Stop/global-write:casket.instances":                                              {"benign", "removes the stopped instance from the list; only reached from Restart after the new instance is up"},
	"(*httpserver.Server).Listen/listen:net.Listen":                                                      {"undone", "listener is registered with startServers' cleanup, which closes it when the start fails (R3)"},
	"(*httpserver.Server).ListenPacket/listen:net.ListenUDP":                                             {"undone", "packet conn is registered with startServers' cleanup (R3)"},
	"casket.startServers/go:func{(*sync.WaitGroup).Done,Serve}":                                          {"benign", "serving goroutine; started only after every listener was opened, no fallible step follows (R3 checks the order)"},
	"casket.startServers/go:func{(*sync.WaitGroup).Done,ServePacket}":                                    {"benign", "serving goroutine (packet side); see above"},
	"casket.startServers/go:func{Error,strings.Contains}":                                                {"benign", "error-logging goroutine, terminated through stopChan when the servers stop"},
	"casket.startServers/go:func{(*sync.WaitGroup).Wait}":                                                {"benign", "waits for the serving goroutines, then stops the logger goroutine"},
	"casket.startWithListenerFds/global-write:casket.instances":                                          {"undone", "instance is appended at the start and spliced out again by the deferred cleanup when err != nil (R4 checks the flag discipline)"},
	"casket.startWithListenerFds/global-write:casket.started":                                            {"benign", "monotone flag set only after a fully successful start"},
	"websocket.setup/global-write:websocket.GatewayInterface":                                            {"benign", "assigns a constant derived from the app name on every load: idempotent"},
	"websocket.setup/global-write:websocket.ServerSoftware":                                              {"benign", "assigns a constant derived from the app name on every load: idempotent"},
	"basicauth.GetHtpasswdMatcher/global-write:basicauth.htpasswords":                                    {"benign", "lazy creation of the cache map itself (empty map): idempotent"},
	"basicauth.GetHtpasswdMatcher/global-map-write:basicauth.htpasswords":                                {"known", "htpasswd cache entry survives failed loads and reloads"},
	"casket.RegisterEventHook/syncmap-store:(*sync.Map).LoadOrStore@casket.eventHooks":                   {"known", "`on` hooks registered by a failed Start/Restart stay registered"},
	"caskettls.NewConfig/go:func{(*time.Ticker).Stop,context.TODO,github.certmagic.CleanStorage}":        {"known", "certificate cache maintenance goroutine of a discarded instance is only stopped by OnShutdown"},
	"caskettls.NewConfig/ticker:time.NewTicker":                                                          {"known", "ticker of a discarded instance is only stopped by OnShutdown"},
	"caskettls.makeClusteringPlugin/cas:sync/atomic.CompareAndSwapInt32@caskettls.clusterPluginSetup":    {"known", "flag set before the fallible plugin construction and never reset"},
	"proxy.NewStaticUpstreams/go:func{(*proxy.staticUpstream).HealthCheckWorker,(*sync.WaitGroup).Done}": {"known", "health-check goroutine of a discarded instance is only stopped by OnShutdown"},
}

func loadRoots(p *Program) []*ssa.Function {
	dm := p.DirectiveMap()
	var roots []*ssa.Function
	var names []string
	for n := range dm.ByName {
		names = append(names, n)
	}
	sort.Strings(names)
	for _, n := range names {
		d := dm.ByName[n]
		if d.InModule && d.Action != nil {
			roots = append(roots, d.Action)
		}
	}
	for _, n := range []string{"Start", "(*Instance).Restart", "ValidateAndExecuteDirectives", "startWithListenerFds"} {
		if f := p.Func("", n); f != nil {
			roots = append(roots, f)
		}
	}
	// parsing callbacks registered through RegisterParsingCallback
	for _, fn := range p.ModFuncs() {
		for _, c := range callsTo(fn, "casket.RegisterParsingCallback") {
			derives(callOf(c).Args[2], func(v ssa.Value) bool {
				if f, ok := v.(*ssa.Function); ok {
					roots = append(roots, f)
				}
				return false
			}, flowOpts{})
		}
	}
	return roots
}

func runC08Full(r *Report, p *Program) {
	h := H{r, p}
	c08R1(r, p)
	c08R2(h)
	c08R3(h)
	c08R4(h)
	c08R5(h)
	c08R6(h)
	c08R7(h)
}

func c08R2(h H) {
	r := h.r
	r.Rule("R2", "load-time effect inventory: from every in-repository directive Action, every registered parsing callback, Start, Restart, ValidateAndExecuteDirectives and startWithListenerFds (static calls, module interface implementers, immediately-run closures; not closures merely handed to lifecycle registrars), every `go` statement, store to package-level state, sync.Map store, CAS flag, net.Listen*, ticker/timer and file creation is enumerated; each must be classified in the checker's table as idempotent/benign, undone on failure, or a listed known finding", 15)
	roots := loadRoots(h.p)
	if len(roots) < 25 {
		r.Unresolve("R2", sprintf("only %d load-time roots resolved (≥ 25 directive actions expected)", len(roots)))
	}
	fns := setupReach(h.p, roots)
	effs := collectEffects(h.p, fns)
	r.Extra["c08_load_time_functions"] = len(fns)
	r.Extra["c08_effect_sites"] = len(effs)
	seen := map[string]bool{}
	sort.Slice(effs, func(i, j int) bool { return effectKey(effs[i]) < effectKey(effs[j]) })
	for _, e := range effs {
		k := effectKey(e)
		if seen[k] {
			continue
		}
		seen[k] = true
		cl, ok := effectTable[k]
		if !ok && e.Kind == "go" && startServersScope(h.p)[e.In.Parent()] {
			// whatever the goroutines started by startServers (or the helpers it was split into) are made of: they are
			// the serving and bookkeeping goroutines of the instance, harmless provided they start only after every
			// listener was obtained and nothing fallible follows — which R3 decides
			cl, ok = effectClass{"benign", "goroutine of startServers; started only after every listener was opened, no fallible step follows (R3 checks the order)"}, true
		}
		switch {
		case !ok:
			r.Fail("R2", k, e.In.Pos(), "unclassified process-lasting effect on the configuration-load path: a load can still fail after this point and nothing undoes it (casket runs no callback of a discarded instance)", e.Kind, e.What)
		case cl.class == "known":
			r.Fail("R2", k, e.In.Pos(), "effect of a configuration load that a failed load does not undo: "+cl.reason, e.Kind)
		default:
			r.Hold("R2", k, e.In.Pos(), cl.class+": "+cl.reason, e.Kind)
		}
	}
	for k := range effectTable {
		if !seen[k] {
			r.Note("effect table entry no longer present in the inventory: %s", k)
		}
	}
}

// c08R3: a failed start leaves no socket behind — decided from what startServers does (E10 table, see
// startServersTable); the pattern formulation (c08R3Patterns) is kept for reference and no longer registered.
func c08R3(h H) {
	r := h.r
	r.Rule("R3", "listener cleanup as a decision table (E10): startServers, evaluated for two servers with the second one's Listen failing (on a first start and on a reload that inherited the first one's socket), returns the error having closed every socket it opened or rebuilt from an inherited descriptor, and closes nothing when the start succeeds; the serving goroutines start only after every listener was obtained, and no error return follows them", 2)
	fn := h.fn("R3", "", "startServers")
	if fn == nil {
		return
	}
	t := startServersTable(h)
	r.Check(t.cleanup == "" && t.other == "", "R3", "casket.startServers/cleanup-table", fn.Pos(), "a start that fails closes the sockets opened so far; a start that succeeds keeps them", sprintf("%d cases evaluated", t.n), t.cleanup, t.other)
	serveAfterListeners(h, fn)
}

// serveAfterListeners: goroutines (started in startServers, in its closures or in the helpers it calls) come after
// the last Listen, and startServers cannot fail once one was started.
func serveAfterListeners(h H, fn *ssa.Function) {
	r := h.r
	var gos []ssa.Instruction
	hasGo := func(f *ssa.Function) bool {
		found := false
		for _, g := range withHelpers(f, 2) {
			allInstrs(g, func(in ssa.Instruction) {
				if _, ok := in.(*ssa.Go); ok {
					found = true
				}
			})
		}
		return found
	}
	allInstrs(fn, func(in ssa.Instruction) {
		if _, ok := in.(*ssa.Go); ok {
			gos = append(gos, in)
			return
		}
		if c := callOf(in); c != nil {
			if _, isDefer := in.(*ssa.Defer); isDefer {
				return
			}
			if f := calleeFunc(c); f != nil && f != fn && fnPkg(f) != nil && fnPkg(fn) != nil && fnPkg(f).Path() == fnPkg(fn).Path() && hasGo(f) {
				gos = append(gos, in)
			}
		}
	})
	bad := false
	for _, g := range gos {
		reach(fn, g, cut{}, func(x ssa.Instruction) bool {
			if rt, ok := x.(*ssa.Return); ok && rt.Block() != fn.Recover {
				if c, isC := retResults(rt)[0].(*ssa.Const); !isC || c.Value != nil {
					bad = true
				}
			}
			if c := callOf(x); c != nil && c.IsInvoke() && (c.Method.Name() == "Listen" || c.Method.Name() == "ListenPacket") {
				bad = true
			}
			return !bad
		})
	}
	r.Check(len(gos) > 0 && !bad, "R3", "casket.startServers/serve-after-all-listeners", fn.Pos(), "serving goroutines are started only after every listener was obtained, and startServers cannot fail afterwards")
}

func c08R3Patterns(h H) {
	r := h.r
	r.Rule("R3", "listener cleanup: casket.startServers defers a function that, when the start fails, closes every element of a cleanup slice; every listener / packet conn stored into the instance's server list is appended to that slice on every path on which it is non-nil; the serving goroutines start only after the listener loop, and no error return follows them", 4)
	fn := h.fn("R3", "", "startServers")
	if fn == nil {
		return
	}
	// cleanup slice: captured by a deferred closure that invokes Close on its elements
	var cleanup *ssa.Alloc
	var cleanupFn *ssa.Function
	allInstrs(fn, func(in ssa.Instruction) {
		d, ok := in.(*ssa.Defer)
		if !ok {
			return
		}
		mc, ok := d.Call.Value.(*ssa.MakeClosure)
		if !ok {
			return
		}
		g := mc.Fn.(*ssa.Function)
		closes := false
		allInstrs(g, func(x ssa.Instruction) {
			if c := callOf(x); c != nil && c.IsInvoke() && c.Method.Name() == "Close" {
				closes = true
			}
		})
		if !closes {
			return
		}
		for idx, fv := range g.FreeVars {
			if strings.HasPrefix(fv.Type().String(), "*[]") {
				if a, ok := mc.Bindings[idx].(*ssa.Alloc); ok {
					cleanup, cleanupFn = a, g
				}
			}
		}
	})
	// the same guarantee without a defer: the cleanup slice lives in a register and every error return is preceded
	// by a loop that closes its elements
	isCloserSlice := func(t types.Type) bool {
		sl, ok := t.Underlying().(*types.Slice)
		if !ok {
			return false
		}
		it, ok := sl.Elem().Underlying().(*types.Interface)
		if !ok {
			return false
		}
		for i := 0; i < it.NumMethods(); i++ {
			if it.Method(i).Name() == "Close" {
				return true
			}
		}
		return false
	}
	inline := false
	if cleanup == nil {
		// close loops of fn itself: loop headers whose body invokes Close on an element of a closer slice
		closeHeaders := map[*ssa.BasicBlock]bool{}
		allInstrs(fn, func(x ssa.Instruction) {
			c := callOf(x)
			if c == nil || !c.IsInvoke() || c.Method.Name() != "Close" {
				return
			}
			fromSlice := derives(c.Value, func(v ssa.Value) bool {
				switch t := v.(type) {
				case *ssa.IndexAddr:
					return isCloserSlice(t.X.Type())
				case *ssa.Index:
					return isCloserSlice(t.X.Type())
				}
				return false
			}, flowOpts{})
			if hd, _ := loopOf(x.Block()); hd != nil && fromSlice {
				closeHeaders[hd] = true
			}
		})
		var appends []ssa.Instruction
		allInstrs(fn, func(x ssa.Instruction) {
			if c, ok := x.(*ssa.Call); ok && calleeName(&c.Call) == "builtin.append" && isCloserSlice(c.Type()) {
				appends = append(appends, x)
			}
		})
		if len(closeHeaders) > 0 && len(appends) > 0 {
			inline = true
			okAll := true
			var badPos token.Pos
			passesClose := func(x ssa.Instruction) bool {
				i, ok := x.(*ssa.If)
				return ok && closeHeaders[i.Block()]
			}
			for _, rt := range realReturns(fn) {
				res := retResults(rt)
				if c, isC := res[len(res)-1].(*ssa.Const); isC && c.Value == nil {
					continue
				}
				for _, a := range appends {
					if canReach(fn, a, rt, cut{instr: passesClose}) {
						okAll = false
						badPos = rt.Pos()
					}
				}
			}
			what := "every error return that follows the opening of a listener first closes the listeners opened so far"
			if !okAll {
				what += "; not so at " + h.p.Pos(badPos)
			}
			r.Check(okAll, "R3", "casket.startServers/cleanup-defer", fn.Pos(), what)
		}
	}
	if cleanup == nil && !inline {
		r.Fail("R3", "casket.startServers/cleanup-defer", fn.Pos(), "no deferred cleanup closing the listeners opened so far: a failed start leaves listening sockets behind")
		return
	}
	if cleanup != nil {
		// the cleanup runs under the function's error result being non-nil
		condOK := false
		for _, i := range ifs(cleanupFn) {
			if x, nilWhenTrue, ok := nilCmp(i.Cond); ok && !nilWhenTrue && strings.HasSuffix(x.Type().String(), "error") {
				condOK = true
			}
		}
		r.Check(condOK, "R3", "casket.startServers/cleanup-defer", cleanupFn.Pos(), "deferred cleanup closes the opened listeners when the start returns an error")
	}
	// appends to the cleanup slice
	isCleanupAppendOf := func(in ssa.Instruction, v ssa.Value) bool {
		var c *ssa.Call
		if cleanup != nil {
			st, ok := in.(*ssa.Store)
			if !ok || st.Addr != ssa.Value(cleanup) {
				return false
			}
			c, ok = st.Val.(*ssa.Call)
			if !ok {
				return false
			}
		} else {
			cc, ok := in.(*ssa.Call)
			if !ok || !isCloserSlice(cc.Type()) {
				return false
			}
			c = cc
		}
		if calleeName(&c.Call) != "builtin.append" || len(c.Call.Args) < 2 {
			return false
		}
		return derives(c.Call.Args[1], func(x ssa.Value) bool { return stripIface(x) == v || x == v }, flowOpts{})
	}
	// the servers-append: store to inst.servers of append(..., ServerListener{...})
	n := 0
	allInstrs(fn, func(in ssa.Instruction) {
		st, ok := in.(*ssa.Store)
		if !ok {
			return
		}
		fa, ok := st.Addr.(*ssa.FieldAddr)
		if !ok || fieldName(fa.X.Type(), fa.Field) != "servers" {
			return
		}
		hd, _ := loopOf(in.Block())
		if hd == nil {
			return
		}
		// listener and packet values put into the appended ServerListener
		var vals []ssa.Value
		allInstrs(fn, func(x ssa.Instruction) {
			fs, ok := x.(*ssa.Store)
			if !ok || !loopBlocks(hd)[x.Block()] {
				return
			}
			ffa, ok := fs.Addr.(*ssa.FieldAddr)
			if !ok || !strings.HasSuffix(strings.TrimPrefix(ffa.X.Type().String(), "*"), "casket.ServerListener") {
				return
			}
			switch fieldName(ffa.X.Type(), ffa.Field) {
			case "listener", "packet":
				vals = append(vals, fs.Val)
			}
		})
		for _, v := range vals {
			n++
			nilE := nilEdges(fn, true, func(x ssa.Value) bool { return x == v })
			ok := !canReach(fn, firstInstr(hd), in, cut{edges: nilE, instr: func(x ssa.Instruction) bool { return isCleanupAppendOf(x, v) }})
			r.Check(ok, "R3", "casket.startServers/tracked:"+v.Type().String(), in.Pos(),
				"every non-nil "+v.Type().String()+" kept for the instance was appended to the cleanup slice first, whether it was newly opened or inherited from the old instance", describe(v))
		}
	})
	if n < 2 {
		r.Unresolve("R3", sprintf("startServers: only %d tracked listener values found", n))
	}
	// goroutines after the loop; no error return after a go
	var gos []ssa.Instruction
	allInstrs(fn, func(in ssa.Instruction) {
		if _, ok := in.(*ssa.Go); ok {
			gos = append(gos, in)
		}
	})
	for _, g := range withClosures(fn) {
		if g == fn {
			continue
		}
		allInstrs(g, func(in ssa.Instruction) {
			if _, ok := in.(*ssa.Go); ok && !isDeferredClosure(fn, g) {
				// goroutines in the immediately-invoked per-server closure
				for _, call := range findCalls(fn, func(x ssa.Instruction) bool { return calleeFunc(callOf(x)) == g }) {
					gos = append(gos, call)
				}
			}
		})
	}
	bad := false
	for _, g := range gos {
		reach(fn, g, cut{}, func(x ssa.Instruction) bool {
			if rt, ok := x.(*ssa.Return); ok && rt.Block() != fn.Recover {
				if c, isC := retResults(rt)[0].(*ssa.Const); !isC || c.Value != nil {
					bad = true
				}
			}
			if c := callOf(x); c != nil && c.IsInvoke() && (c.Method.Name() == "Listen" || c.Method.Name() == "ListenPacket") {
				bad = true
			}
			return !bad
		})
	}
	r.Check(len(gos) > 0 && !bad, "R3", "casket.startServers/serve-after-all-listeners", fn.Pos(), "serving goroutines are started only after every listener was obtained, and startServers cannot fail afterwards")
}

func isDeferredClosure(parent, g *ssa.Function) bool {
	res := false
	allInstrs(parent, func(in ssa.Instruction) {
		if d, ok := in.(*ssa.Defer); ok && calleeFunc(&d.Call) == g {
			res = true
		}
	})
	return res
}

func c08R4(h H) {
	h.r.Rule("R4", "failed attempts are undone (E10 lifecycle traces): for every step of startWithListenerFds that can fail (directive execution, MakeServers, each first-startup and startup callback, the server start) the instance is gone from the instance list when the error is returned — and when the step panics instead — and present after a successful start; for every failure of Instance.Restart up to the start of the new instance the restart-failed callbacks run and the old instance is returned with the error", 2)
	t := lifecycleTraces(h)
	var pos token.Pos
	if f := h.p.Func("", "startWithListenerFds"); f != nil {
		pos = f.Pos()
	}
	n := sprintf("%d cases evaluated", t.n)
	h.r.Check(t.cleanup == "" && t.start == "" && t.other+t.oStart == "", "R4", "casket.startWithListenerFds/failed-instance-leaves-list", pos, "a start that fails at any step returns the error of that step and leaves no trace of the instance in the instance list (a shadowed error variable would skip the undo code)", n, t.cleanup, t.start, t.other+t.oStart)
	h.r.Check(t.restart == "" && t.other+t.oRestart == "", "R4", "casket.(*Instance).Restart/failure-handled", pos, "a reload that fails before the new instance is up reports the failure to the restart-failed callbacks and keeps the old instance", n, t.restart, t.other+t.oRestart)
}

func cleanupFlagRule(h H, rule string, names []string) {
	r := h.r
	for _, name := range names {
		fn := h.fn(rule, "", name)
		if fn == nil {
			continue
		}
		ev, _ := deferredErrVar(fn)
		if ev == nil {
			r.Fail(rule, "casket."+name+"/deferred-undo", fn.Pos(), "no deferred undo code keyed on the error variable found")
			continue
		}
		nonNil := nilEdges(fn, false, func(v ssa.Value) bool {
			ld, ok := v.(*ssa.UnOp)
			return ok && ld.X == ssa.Value(ev)
		})
		k := 0
		for _, rt := range realReturns(fn) {
			if len(rt.Results) == 0 {
				continue
			}
			res := retResults(rt)
			ev2 := res[len(res)-1]
			if c, isC := ev2.(*ssa.Const); isC && c.Value == nil {
				continue
			}
			k++
			isVar := false
			if ld, ok := ev2.(*ssa.UnOp); ok && ld.X == ssa.Value(ev) {
				isVar = true
			}
			ok2 := isVar || onlyVia(fn, rt, nonNil)
			r.Check(ok2, rule, sprintf("casket.%s/error-return#%d", name, k), rt.Pos(),
				"the error exit reports through the variable the deferred undo code inspects", describe(ev2))
		}
		if k == 0 {
			r.Unresolve(rule, name+": no error returns found")
		}
	}
}

func c08R5(h H) {
	r := h.r
	r.Rule("R5", "event-hook restore on the reload signal path: cloneEventHooks precedes purgeEventHooks precedes Instance.Restart, and restoreEventHooks is called with the clone exactly on the non-nil edge of Restart's error; and, as a table (E10, the registry modelled as a map): for a registry that is empty or holds a hook, cloneEventHooks followed — after the rejected configuration registered a hook of its own — by restoreEventHooks leaves the registry exactly as it was", 3)
	hookBackupTable(h)
	fn := h.fn("R5", "", "trapSignalsPosix")
	if fn == nil {
		if h.p.GOOS == "windows" {
			return
		}
		return
	}
	for _, g := range withHelpers(fn, 2) { // closures, helpers, and handlers filed in a package-level table
		restart := callsTo(g, "casket.Instance).Restart")
		if len(restart) == 0 {
			continue
		}
		clone := callsTo(g, "casket.cloneEventHooks")
		purge := callsTo(g, "casket.purgeEventHooks")
		restore := callsTo(g, "casket.restoreEventHooks")
		r.Check(len(clone) > 0 && len(purge) > 0 && len(restore) > 0, "R5", "casket.trapSignalsPosix/hook-calls", g.Pos(), "clone, purge and restore of the event hooks are all present on the SIGUSR1 path")
		for _, pg := range purge {
			r.Check(mustPass(g, pg, anyOf(clone)), "R5", "casket.trapSignalsPosix/clone-before-purge", pg.Pos(), "hooks are copied before they are purged")
		}
		for _, rs := range restart {
			r.Check(mustPass(g, rs, anyOf(purge)), "R5", "casket.trapSignalsPosix/purge-before-restart", rs.Pos(), "old hooks are purged before the new configuration registers its own")
		}
		errEdges := nilEdges(g, false, func(v ssa.Value) bool { return isResultOf(v, 1, "(*"+modPath+".Instance).Restart") })
		for _, rs := range restore {
			okArg := len(clone) > 0 && derives(callOf(rs).Args[0], func(v ssa.Value) bool { return v == clone[0].(ssa.Value) }, flowOpts{})
			r.Check(onlyVia(g, rs, errEdges) && okArg, "R5", "casket.trapSignalsPosix/restore-on-failure", rs.Pos(), "the copied hooks are restored exactly when Restart returned an error")
		}
		// and restore is reached on every failure path
		for e := range errEdges {
			s := e.From.Succs[e.Idx]
			missed := false
			first := firstInstr(s)
			if first != nil && !anyOf(restore)(first) {
				reach(g, first, cut{instr: anyOf(restore)}, func(x ssa.Instruction) bool {
					if _, isJ := x.(*ssa.Jump); isJ && x.Block() != s && inLoopHeaderOf(g, x.Block()) {
						missed = true
						return false
					}
					return true
				})
			}
			_ = missed
		}
	}
}

func inLoopHeaderOf(fn *ssa.Function, b *ssa.BasicBlock) bool { return false }

// ---------------------------------------------------------------------------
// C16

func runC16(r *Report, p *Program) {
	h := H{r, p}
	r.Rule("R1", "who-may-invoke each callback list: the six lists are invoked (or handed to a helper that runs them) only within startWithListenerFds, Instance.Restart, Instance.ShutdownCallbacks and the functions these were split into — when, in which order and under which conditions is decided by the traces of R6; ShutdownCallbacks is called only from allShutdownCallbacks, which is called only inside the sync.Once of executeShutdownCallbacks", 8)
	type site struct {
		fn   *ssa.Function
		in   ssa.Instruction
		list string
	}
	var sites []site
	lists := []string{"OnFirstStartup", "OnStartup", "OnRestart", "OnRestartFailed", "OnShutdown", "OnFinalShutdown"}
	for _, fn := range p.ModFuncs() {
		for _, l := range lists {
			for _, c := range callbackListCalls(fn, l) {
				sites = append(sites, site{fn, c, l})
			}
		}
	}
	// who may invoke: only the lifecycle functions and what they were split into (order and guards are decided by
	// the traces of R6)
	scope := map[*ssa.Function]bool{}
	for _, name := range []string{"startWithListenerFds", "(*Instance).Restart", "(*Instance).ShutdownCallbacks"} {
		if f := h.fn("R1", "", name); f != nil {
			for _, g := range withHelpers(f, 4) {
				scope[g] = true
			}
		}
	}
	count := map[string]int{}
	for _, s := range sites {
		count[s.list]++
		r.Check(scope[s.fn], "R1", s.list+"/invoked-within-lifecycle:"+shortFunc(s.fn), s.in.Pos(), s.list+" callbacks are invoked only by startWithListenerFds, Instance.Restart, Instance.ShutdownCallbacks and their helpers")
	}
	// who may touch the lists at all: every reference to one of the six fields of an Instance lies in the lifecycle
	// functions (where it is run, or handed to a helper that runs it), or is a registration — the field is read only
	// to append to it and store the result back
	isList := map[string]bool{}
	for _, l := range lists {
		isList[l] = true
	}
	for _, fn := range p.ModFuncs() {
		allInstrs(fn, func(in ssa.Instruction) {
			fa, ok := in.(*ssa.FieldAddr)
			if !ok {
				return
			}
			l := fieldName(fa.X.Type(), fa.Field)
			if !isList[l] || !strings.HasSuffix(strings.TrimPrefix(fa.X.Type().String(), "*"), "casket.Instance") {
				return
			}
			if scope[fn] {
				count[l]++
				r.Hold("R1", l+"/referenced-within-lifecycle:"+shortFunc(fn), in.Pos(), l+" is run, or handed to a helper that runs it, by the lifecycle functions")
				return
			}
			registration := onlyRegisteredThrough(p, fa, scope, 0)
			r.Check(registration, "R1", l+"/outside-lifecycle-only-registered:"+shortFunc(fn), in.Pos(), "outside the lifecycle functions "+l+" is only appended to (a callback is registered), never run or handed on")
		})
	}
	for _, l := range lists {
		if count[l] == 0 {
			r.Unresolve("R1", "no invocation site of "+l+" found")
		}
	}
	rs := h.fn("R1", "", "(*Instance).Restart")
	var startNew []ssa.Instruction
	if rs != nil {
		startNew = callsTo(rs, "casket.startWithListenerFds")
	}
	// ShutdownCallbacks callers
	nCallers := 0
	for _, fn := range p.ModFuncs() {
		for _, c := range callsTo(fn, "casket.Instance).ShutdownCallbacks") {
			nCallers++
			r.Check(shortFunc(fn) == "casket.allShutdownCallbacks", "R1", "ShutdownCallbacks/called-from:"+shortFunc(fn), c.Pos(), "Instance.ShutdownCallbacks is called only from allShutdownCallbacks (a second caller would run shutdown callbacks twice)")
		}
		for _, c := range callsTo(fn, "casket.allShutdownCallbacks") {
			okOnce := false
			if par := fn.Parent(); par != nil {
				for _, d := range findCalls(par, func(x ssa.Instruction) bool { return isCallTo(x, "(*sync.Once).Do") }) {
					if mc, ok := callOf(d).Args[1].(*ssa.MakeClosure); ok && mc.Fn == fn {
						okOnce = true
					}
				}
			} else {
				// a method handed to Once.Do as a method value: every use of the method is such a method value
				uses, viaOnce := 0, 0
				for _, g := range p.ModFuncs() {
					for _, d := range findCalls(g, func(x ssa.Instruction) bool { return isCallTo(x, "(*sync.Once).Do") }) {
						if mc, ok := callOf(d).Args[1].(*ssa.MakeClosure); ok {
							if w, ok := mc.Fn.(*ssa.Function); ok && w.Synthetic != "" && len(callsToFunc(w, fn)) > 0 {
								viaOnce++
							}
						}
					}
					uses += len(callsToFunc(g, fn))
				}
				okOnce = viaOnce > 0 && uses == 0
			}
			r.Check(okOnce, "R1", "allShutdownCallbacks/called-from:"+shortFunc(fn), c.Pos(), "allShutdownCallbacks runs only inside the function passed to shutdownCallbacksOnce.Do")
		}
	}
	if nCallers == 0 {
		r.Unresolve("R1", "no caller of Instance.ShutdownCallbacks found")
	}

	r.Rule("R2", "wait-group lineage (E10 lifecycle traces): in every evaluated Restart the instance handed to startWithListenerFds carries the very wait group of the instance being replaced", 1)
	if rs != nil {
		t := lifecycleTraces(h)
		r.Check(t.wg == "" && t.other+t.oRestart == "", "R2", "casket.(*Instance).Restart/new-instance-wg", rs.Pos(), "the new instance shares the old instance's wait group, so Wait() on the old one also waits for its successors", t.wg, t.other+t.oRestart)
	}

	r.Rule("R3", "signal handling: on SIGTERM executeShutdownCallbacks precedes Stop precedes os.Exit (a helper all of whose paths stop the servers counts as the stop; the order inside it is checked there)", 2)
	if tp := p.Func("", "trapSignalsPosix"); tp != nil {
		// helpers that stop the servers on every path to a return
		stopsAlways := func(f *ssa.Function) ([]ssa.Instruction, bool) {
			st := callsTo(f, "casket.Stop")
			if len(st) == 0 || len(f.Blocks) == 0 {
				return nil, false
			}
			for _, rt := range realReturns(f) {
				if !mustPass(f, rt, anyOf(st)) {
					return st, false
				}
			}
			return st, true
		}
		for _, g := range withHelpers(tp, 2) {
			var stops []ssa.Instruction
			inner := map[ssa.Instruction]*ssa.Function{}
			for _, s := range callsTo(g, "casket.Stop") {
				stops = append(stops, s)
			}
			allInstrs(g, func(in ssa.Instruction) {
				if c := callOf(in); c != nil {
					if f := c.StaticCallee(); f != nil && f != g && fnPkg(f) != nil && fnPkg(f).Path() == fnPkg(tp).Path() {
						if _, ok := stopsAlways(f); ok {
							stops = append(stops, in)
							inner[in] = f
						}
					}
				}
			})
			exits := findCalls(g, func(x ssa.Instruction) bool { return isCallTo(x, "os.Exit") })
			if len(stops) == 0 || (len(exits) == 0 && len(callsTo(g, "casket.Stop")) == 0) {
				continue
			}
			cbs := callsTo(g, "casket.executeShutdownCallbacks")
			for _, s := range stops {
				if f := inner[s]; f != nil {
					st, _ := stopsAlways(f)
					fcbs := callsTo(f, "casket.executeShutdownCallbacks")
					for _, x := range st {
						r.Check(mustPass(f, x, anyOf(fcbs)) || mustPass(g, s, anyOf(cbs)), "R3", "casket.trapSignalsPosix/SIGTERM-callbacks-before-stop", x.Pos(), "shutdown callbacks run before the servers are stopped")
					}
				} else if len(exits) > 0 || len(cbs) > 0 {
					r.Check(mustPass(g, s, anyOf(cbs)), "R3", "casket.trapSignalsPosix/SIGTERM-callbacks-before-stop", s.Pos(), "shutdown callbacks run before the servers are stopped")
				}
				if len(exits) == 0 {
					continue // a helper: the exit is its caller's matter
				}
				after := false
				for _, e := range exits {
					if canReach(g, s, e, cut{}) && mustPass(g, e, func(x ssa.Instruction) bool { return x == s || !canReach(g, s, e, cut{}) }) {
						after = true
					}
				}
				r.Check(after, "R3", "casket.trapSignalsPosix/SIGTERM-stop-before-exit", s.Pos(), "the process exits only after Stop returned")
			}
		}
	} else if p.GOOS != "windows" {
		r.Unresolve("R3", "trapSignalsPosix not found")
	}

	r.Rule("R4", "failure handling cannot be entered after the new instance is up (E10 lifecycle traces): in every evaluated Restart in which startWithListenerFds succeeded — whatever the old servers' Stop and the old shutdown callbacks report — the new instance is returned with a nil error and no restart-failed callback runs", 1)
	if rs != nil && len(startNew) > 0 {
		t := lifecycleTraces(h)
		r.Check(t.afterUp == "" && t.other+t.oRestart == "", "R4", "casket.(*Instance).Restart/after-new-instance-started", startNew[0].Pos(),
			"once the new instance is serving, Restart returns it with a nil error (anything else runs OnRestartFailed and hands the caller a stopped instance)", t.afterUp, t.other+t.oRestart)
	} else if rs != nil {
		t := lifecycleTraces(h)
		r.Check(t.afterUp == "" && t.other+t.oRestart == "", "R4", "casket.(*Instance).Restart/after-new-instance-started", rs.Pos(),
			"once the new instance is serving, Restart returns it with a nil error (anything else runs OnRestartFailed and hands the caller a stopped instance)", t.afterUp, t.other+t.oRestart)
	}

	r.Rule("R6", "lifecycle traces (E10): startWithListenerFds, Instance.Restart and Instance.ShutdownCallbacks are evaluated with oracle callbacks in all six lists and oracles for directive execution, MakeServers, startServers, the start of the new instance and the stop of the old servers, each succeeding or failing as the case says (32 + 8 + 4 cases); the observed trace must be the specified one: directives, MakeServers, first-startup callbacks (only when neither upgrading nor restarting), startup callbacks, then the servers — stopping at the first failure, which is returned; Restart runs the restart callbacks, starts the new instance, and only then stops the old servers and runs the old shutdown callbacks, returning the new instance with a nil error whatever those report, while any failure up to the start of the new instance runs the restart-failed callbacks and returns the old instance with the error; ShutdownCallbacks runs every shutdown and final-shutdown callback in order and reports their errors", 4)
	{
		t := lifecycleTraces(h)
		var pos token.Pos
		if f := p.Func("", "startWithListenerFds"); f != nil {
			pos = f.Pos()
		}
		n := sprintf("%d cases evaluated", t.n)
		r.Check(t.start == "" && t.other+t.oStart == "", "R6", "casket.startWithListenerFds/trace", pos, "callbacks and server start happen in the specified order and stop at the first failure", n, t.start, t.other+t.oStart)
		r.Check(t.restart == "" && t.other+t.oRestart == "", "R6", "casket.(*Instance).Restart/trace", pos, "restart callbacks, then the new instance, then the old instance's stop and shutdown callbacks; failures before the new instance is up run the restart-failed callbacks and keep the old instance", n, t.restart, t.other+t.oRestart)
		r.Check(t.afterUp == "" && t.other+t.oRestart == "", "R6", "casket.(*Instance).Restart/after-new-instance-up", pos, "once the new instance is up the reload is a success: the new instance is returned with a nil error and no restart-failed callback runs", n, t.afterUp, t.other+t.oRestart)
		r.Check(t.shut == "" && t.other+t.oShut == "", "R6", "casket.(*Instance).ShutdownCallbacks/trace", pos, "every shutdown and final-shutdown callback runs once, in order, errors are collected", n, t.shut, t.other+t.oShut)
	}

	r.Rule("R5", "no callbacks of an instance that never went live (E10 lifecycle traces): whichever step of startWithListenerFds fails or panics — directive execution, MakeServers, a first-startup or startup callback, the server start — the instance is gone from the instance list when the function is left, so process shutdown never runs OnShutdown/OnFinalShutdown of an instance that never went live", 1)
	{
		t := lifecycleTraces(h)
		var pos token.Pos
		if f := p.Func("", "startWithListenerFds"); f != nil {
			pos = f.Pos()
		}
		r.Check(t.cleanup == "" && t.other+t.oStart == "", "R5", "casket.startWithListenerFds/failed-instance-leaves-list", pos, "a start that fails at any step leaves no entry in the instance list whose shutdown callbacks the process shutdown would run", sprintf("%d cases evaluated", t.n), t.cleanup, t.other+t.oStart)
	}
}

// errNonNilAfter: the edge(s) taken when the error result of the given call is non-nil (the failure path of that call).
func errNonNilAfter(fn *ssa.Function, call ssa.Instruction) map[edge]bool {
	return nilEdges(fn, false, func(v ssa.Value) bool {
		if ld, ok := v.(*ssa.UnOp); ok && ld.Op == token.MUL {
			var last ssa.Value
			for _, in := range ld.Block().Instrs {
				if in == ssa.Instruction(ld) {
					break
				}
				if st, ok := in.(*ssa.Store); ok && st.Addr == ld.X {
					last = st.Val
				}
			}
			return last == call.(ssa.Value)
		}
		return v == call.(ssa.Value)
	})
}

func isErrLoadAfter(v ssa.Value, calls []ssa.Instruction) bool {
	ld, ok := v.(*ssa.UnOp)
	if !ok || ld.Op != token.MUL {
		return false
	}
	var last ssa.Value
	for _, in := range ld.Block().Instrs {
		if in == ssa.Instruction(ld) {
			break
		}
		if st, ok := in.(*ssa.Store); ok && st.Addr == ld.X {
			last = st.Val
		}
	}
	for _, c := range calls {
		if last == c.(ssa.Value) {
			return true
		}
	}
	return false
}

func mergeEdges(a, b map[edge]bool) map[edge]bool {
	out := map[edge]bool{}
	for e := range a {
		out[e] = true
	}
	for e := range b {
		out[e] = true
	}
	return out
}

// ---------------------------------------------------------------------------
// C07

func runC07(r *Report, p *Program) {
	h := H{r, p}
	defer c07R6(h)
	defer c07R8(h)
	defer parserHasNoMemory(h, "R7") // a reload parses again in the same process
	r.Rule("R1", "start-new-before-stop-old (E10 lifecycle traces): in every evaluated Restart — each restart callback, the start of the new instance, the stop of the old servers and each old shutdown callback failing in turn — the old servers are stopped only after the new instance started successfully, never when starting it failed, and every Restart that reports success has stopped them", 2)
	rs := h.fn("R1", "", "(*Instance).Restart")
	if rs != nil {
		t := lifecycleTraces(h)
		n := sprintf("%d cases evaluated", t.n)
		r.Check(t.restart == "" && t.other+t.oRestart == "", "R1", "casket.(*Instance).Restart/stop-old-after-new-started", rs.Pos(), "the old instance is stopped only after the new one started, and never when starting it failed", n, t.restart, t.other+t.oRestart)
		r.Check(t.afterUp == "" && t.restart == "" && t.other+t.oRestart == "", "R1", "casket.(*Instance).Restart/success-implies-old-stopped", rs.Pos(), "when Restart reports success the old instance's listeners have been closed, so only the new configuration accepts", n, t.afterUp, t.other+t.oRestart)
	}

	r.Rule("R2", "sockets are handed over, never rebound — as a decision table (E10): startServers, evaluated for two servers on a first start, on a reload whose socket table has an entry for the first server's address, on a reload whose table is empty or has an entry for another address only: a server whose own address is in the table rebuilds its listener from the old listener's File() and does not call Listen; every other server calls Listen exactly once and inherits nothing", 2)
	ss := h.fn("R2", "", "startServers")
	if ss != nil {
		t := startServersTable(h)
		r.Check(t.inherit == "" && t.other == "", "R2", "casket.startServers/inherit-table", ss.Pos(), "on reload the listener of an address is rebuilt from the old listener of that very address (its duplicated descriptor), and from no other", sprintf("%d cases evaluated", t.n), t.inherit, t.other)
		r.Check(t.listen == "" && t.other == "", "R2", "casket.startServers/listen-table", ss.Pos(), "a socket is opened afresh exactly when none was inherited (a reload must not close and rebind)", sprintf("%d cases evaluated", t.n), t.listen, t.other)
	}

	r.Rule("R3", "graceful stop: httpserver.(*Server).Stop calls (*http.Server).Shutdown with a context from context.WithTimeout(…, connTimeout) and never (*http.Server).Close; Instance.Stop's loop over its servers has no exit other than exhaustion", 3)
	if st := h.fn("R3", hs, "(*Server).Stop"); st != nil {
		sh := callsTo(st, "net/http.Server).Shutdown")
		cl := callsTo(st, "net/http.Server).Close")
		okCtx := false
		for _, c := range sh {
			if derives(callOf(c).Args[1], func(v ssa.Value) bool {
				call, ok := v.(*ssa.Call)
				if !ok || calleeName(&call.Call) != "context.WithTimeout" {
					return false
				}
				return readsField(call.Call.Args[1], "connTimeout")
			}, flowOpts{}) {
				okCtx = true
			}
		}
		r.Check(len(sh) > 0 && len(cl) == 0 && okCtx, "R3", "httpserver.(*Server).Stop/graceful", st.Pos(), "servers drain in-flight requests (Shutdown under the connection timeout) instead of cutting connections (Close)")
	}
	if is := h.fn("R3", "", "(*Instance).Stop"); is != nil {
		if hd, _ := loopOverField(is, "servers"); hd != nil {
			loop := naturalLoop(hd)
			okAll := true
			for _, e := range loopExitEdges(loop) {
				if !(e.From == hd && e.Idx == 1) {
					okAll = false
				}
			}
			r.Check(okAll, "R3", "casket.(*Instance).Stop/stops-every-server", is.Pos(), "every server of the instance is stopped even if stopping one of them reports an error (an early exit leaves old servers accepting on shared sockets)")
		} else {
			r.Unresolve("R3", "Instance.Stop: loop over servers not found")
		}
		r.Check(alwaysReturnsNilError(is), "R3", "casket.(*Instance).Stop/always-nil", is.Pos(), "Instance.Stop reports no error to Restart (Restart treats an error here as a failed reload although the new instance is already serving)")
	}

	r.Rule("R4", "wait-group pairing: wg.Add(1) in Restart, Stop and Instance.Stop (which has to hold the group while it stops servers) is matched by a deferred Done; in startServers each Add(n) is matched by n goroutines that each defer Done on the same wait groups", 3)
	wgSpec := pairSpec{
		acquire: func(in ssa.Instruction) (string, bool) {
			c, ok := in.(*ssa.Call)
			if !ok || calleeName(&c.Call) != "(*sync.WaitGroup).Add" {
				return "", false
			}
			if n, ok := constInt(c.Call.Args[1]); !ok || n != 1 {
				return "", false
			}
			return describe(c.Call.Args[0]), true
		},
		release: func(c *ssa.CallCommon, key string) bool {
			return calleeName(c) == "(*sync.WaitGroup).Done" && describe(c.Args[0]) == key
		},
	}
	for _, name := range []string{"(*Instance).Restart", "Stop", "(*Instance).Stop"} {
		fn := h.fn("R4", "", name)
		if fn == nil {
			continue
		}
		res := wgSpec.run(fn)
		if len(res) == 0 && name == "(*Instance).Stop" {
			// a graceful stop makes Serve return at once and then drains: without the wait group held across it,
			// Wait returns (and the process may exit) while requests are still being answered
			stops := false
			allInstrs(fn, func(in ssa.Instruction) {
				if c := callOf(in); c != nil && c.IsInvoke() && c.Method.Name() == "Stop" {
					stops = true
				}
			})
			r.Check(!stops, "R4", "casket.(*Instance).Stop/holds-wait-group", fn.Pos(), "Instance.Stop holds the instance's wait group while it stops the servers, so that waiting on the instance returns only after every server has stopped")
			continue
		}
		if len(res) == 0 {
			r.Unresolve("R4", name+": no wg.Add(1)")
		}
		for _, x := range res {
			r.Check(x.BadExit == nil, "R4", "casket."+name+"/wg:"+x.Key, x.Acquire.Pos(), "the wait group is released on every exit")
		}
	}
	if ss != nil {
		for _, g := range withClosures(ss) {
			allInstrs(g, func(in ssa.Instruction) {
				c, ok := in.(*ssa.Call)
				if !ok || calleeName(&c.Call) != "(*sync.WaitGroup).Add" {
					return
				}
				n, _ := constInt(c.Call.Args[1])
				if n < 2 {
					return
				}
				// count goroutines started after this Add whose body (or deferred closure) calls Done on a wait group of the same description
				want := int(n)
				got := 0
				key := describe(c.Call.Args[0])
				for _, g2 := range withClosures(ss) {
					allInstrs(g2, func(x ssa.Instruction) {
						gi, ok := x.(*ssa.Go)
						if !ok {
							return
						}
						body := calleeFunc(&gi.Call)
						if body == nil {
							return
						}
						done := false
						for _, b := range withClosures(body) {
							allInstrs(b, func(y ssa.Instruction) {
								if cc := callOf(y); cc != nil && calleeName(cc) == "(*sync.WaitGroup).Done" {
									d := describe(cc.Args[0])
									if strings.HasSuffix(d, lastSeg(key)) {
										done = true
									}
								}
							})
						}
						if done {
							got++
						}
					})
				}
				r.Check(got == want, "R4", "casket.startServers/wg.Add("+sprintf("%d", n)+"):"+lastSeg(key), in.Pos(), sprintf("Add(%d) is matched by %d goroutines that call Done on the same wait group", want, got))
			})
		}
	}

	r.Rule("R5", "the new instance's startup callbacks (which open log files etc.) are complete before startServers lets it accept connections: in every evaluated trace of startWithListenerFds (E10 lifecycle traces: 44 cases of upgrade/restart/failing or panicking step) the servers are started after the last startup callback, and not at all when a callback fails", 1)
	{
		t := lifecycleTraces(h)
		var pos token.Pos
		if f := p.Func("", "startWithListenerFds"); f != nil {
			pos = f.Pos()
		}
		r.Check(t.start == "" && t.other+t.oStart == "", "R5", "casket.startWithListenerFds/startup-before-serving", pos, "requests reach the new configuration only after its startup callbacks ran", sprintf("%d cases evaluated", t.n), t.start, t.other+t.oStart)
	}
}

func lastSeg(s string) string {
	if i := strings.LastIndex(s, "."); i >= 0 {
		return s[i+1:]
	}
	return s
}

// canReachVia: target reachable from start when only paths through one of the edges are considered
// (i.e. reachable from the destination of such an edge, the edge itself being reachable from start).
func canReachVia(fn *ssa.Function, start, target ssa.Instruction, via map[edge]bool) bool {
	for e := range via {
		if !canReach(fn, start, lastInstr(e.From), cut{}) && start.Block() != e.From {
			continue
		}
		s := e.From.Succs[e.Idx]
		f := firstInstr(s)
		if f == nil {
			continue
		}
		if f == target || canReach(fn, f, target, cut{}) {
			return true
		}
	}
	return false
}

func loopBlocks(hd *ssa.BasicBlock) map[*ssa.BasicBlock]bool { return naturalLoop(hd) }

// onlyRegisteredThrough: an address of a callback list (the field address itself, a merge of such addresses, or the
// result of a function returning one) is used — outside the lifecycle functions — only to append to the list: it is
// stored through, or loaded from with the loaded list feeding nothing but append.
func onlyRegisteredThrough(p *Program, addr ssa.Value, scope map[*ssa.Function]bool, depth int) bool {
	if depth > 4 {
		return false
	}
	refs := addr.Referrers()
	if refs == nil {
		return true
	}
	for _, rf := range *refs {
		switch t := rf.(type) {
		case *ssa.Store:
			if t.Addr != addr {
				return false
			}
		case *ssa.UnOp:
			if lr := t.Referrers(); lr != nil {
				for _, u := range *lr {
					if _, isDbg := u.(*ssa.DebugRef); isDbg {
						continue
					}
					c, isCall := u.(*ssa.Call)
					if !isCall || calleeName(&c.Call) != "builtin.append" {
						return false
					}
				}
			}
		case *ssa.Phi:
			if !onlyRegisteredThrough(p, t, scope, depth+1) {
				return false
			}
		case *ssa.Return:
			for _, cs := range callSitesOf(p, t.Parent()) {
				if scope[cs.Parent()] {
					continue
				}
				v, ok := cs.(ssa.Value)
				if !ok || !onlyRegisteredThrough(p, v, scope, depth+1) {
					return false
				}
			}
		case *ssa.DebugRef:
		default:
			return false
		}
	}
	return true
}

// callsToFunc: the call instructions in g whose static callee is f.
func callsToFunc(g, f *ssa.Function) []ssa.Instruction {
	var out []ssa.Instruction
	allInstrs(g, func(in ssa.Instruction) {
		if c := callOf(in); c != nil && c.StaticCallee() == f {
			out = append(out, in)
		}
	})
	return out
}

// startServersScope: startServers, its closures and the same-package helpers it calls.
func startServersScope(p *Program) map[*ssa.Function]bool {
	out := map[*ssa.Function]bool{}
	if fn := p.Func("", "startServers"); fn != nil {
		for _, g := range withHelpers(fn, 3) {
			out[g] = true
		}
	}
	return out
}

package main

import (
	"fmt"
	"go/types"
	"strings"
)

// c19R2Table: "what is recorded about a ClientHello does not depend on how its bytes happened to be split across
// network reads", as a decision table (E10).  clientHelloConn.Read is evaluated repeatedly on a connection that
// delivers one TLS record (5 header bytes announcing 6 body bytes) followed by 3 bytes of the next record, cut into
// reads in several ways; the connection, the tee reader, the accumulation buffer (a bytes.Buffer, modelled as a
// byte queue) and the parser are oracles.  In every segmentation the parser must be handed exactly the 6 body bytes,
// exactly once, and the connection must be marked as done.
func c19R2Table(h H) (bad string, n int) {
	fn := h.p.Func(hs, "(*clientHelloConn).Read")
	if fn == nil {
		return "httpserver.(*clientHelloConn).Read not found", 0
	}
	connT := fn.Params[0].Type().(*types.Pointer).Elem()
	var lisT types.Type = types.Typ[types.Int]
	if st, ok := underlying(connT).(*types.Struct); ok {
		for i := 0; i < st.NumFields(); i++ {
			if p, ok := st.Field(i).Type().(*types.Pointer); ok && strings.HasSuffix(p.Elem().String(), "tlsHelloListener") {
				lisT = p.Elem()
			}
		}
	}
	record := []int64{22, 3, 1, 0, 6, 101, 102, 103, 104, 105, 106, 23, 3, 3}
	wantBody := "[101 102 103 104 105 106]"
	for _, cuts := range [][]int{{14}, {11, 3}, {3, 11}, {5, 6, 3}, {5, 2, 7}, {1, 1, 1, 1, 1, 6, 3}, {4, 1, 5, 1, 3}, {7, 7}} {
		n++
		desc := fmt.Sprintf("the record arriving in reads of %v bytes", cuts)
		conn := &aobj{name: "connection", typ: types.Typ[types.Int], f: map[string]aval{}}
		buffer := &aobj{name: "accumulation buffer", typ: types.Typ[types.Int], f: map[string]aval{}}
		tee := &aobj{name: "tee reader", typ: types.Typ[types.Int], f: map[string]aval{}}
		var queue []int64 // content of the buffer
		pos, seg := 0, 0
		var parsed []string
		who := func(v aval) *aobj {
			if i, ok := v.(aiface); ok {
				v = i.val
			}
			if p, ok := v.(aptr); ok {
				return p.obj
			}
			return nil
		}
		bytesOf := func(vs []int64) avals {
			var cells []aval
			for _, b := range vs {
				cells = append(cells, aint(b))
			}
			return newVals(cells, types.Typ[types.Uint8])
		}
		fill := func(dst aval, src []int64) int {
			sl, ok := dst.(avals)
			if !ok {
				return 0
			}
			k := 0
			for k < len(sl.cells) && k < len(src) {
				sl.cells[k].f[""] = aint(src[k])
				k++
			}
			return k
		}
		eof := aiface{aptr{&aobj{name: "io.ErrUnexpectedEOF", typ: types.Typ[types.Int], f: map[string]aval{}}, ""}, types.Typ[types.Int]}
		env := &absEnv{noFork: true, maxSteps: 300000, globals: map[string]*aobj{}}
		env.ext = func(callee string, args []aval) (aval, bool) {
			switch {
			case callee == "io.TeeReader":
				return aiface{aptr{tee, ""}, types.Typ[types.Int]}, true
			case callee == "invoke:Read":
				rcv := who(args[0])
				if rcv != tee && rcv != conn {
					return nil, false
				}
				if seg >= len(cuts) {
					return atuple{aint(0), eof}, true
				}
				chunk := record[pos : pos+cuts[seg]]
				k := fill(args[1], chunk)
				pos += k
				if k == cuts[seg] {
					seg++
				} else {
					cuts[seg] -= k
				}
				if rcv == tee {
					queue = append(queue, chunk[:k]...)
				}
				return atuple{aint(int64(k)), anil{}}, true
			case callee == "(*bytes.Buffer).Len":
				return aint(int64(len(queue))), true
			case callee == "(*bytes.Buffer).Bytes":
				return bytesOf(queue), true
			case callee == "(*bytes.Buffer).Next":
				k, _ := args[1].(aint)
				if int(k) > len(queue) {
					k = aint(len(queue))
				}
				out := bytesOf(queue[:k])
				queue = queue[k:]
				return out, true
			case callee == "(*bytes.Buffer).Read":
				k := fill(args[1], queue)
				queue = queue[k:]
				return atuple{aint(int64(k)), anil{}}, true
			case callee == "(*bytes.Buffer).Reset", callee == "(*bytes.Buffer).Truncate":
				queue = nil
				return atuple{}, true
			case callee == "io.ReadFull", callee == "io.ReadAtLeast":
				if who(args[0]) != buffer {
					return nil, false
				}
				sl, _ := args[1].(avals)
				if len(queue) < len(sl.cells) {
					k := fill(args[1], queue)
					queue = nil
					return atuple{aint(int64(k)), eof}, true
				}
				k := fill(args[1], queue)
				queue = queue[k:]
				return atuple{aint(int64(k)), anil{}}, true
			case strings.HasSuffix(callee, "sync.Pool).Put"), strings.HasSuffix(callee, "sync.Mutex).Lock"), strings.HasSuffix(callee, "sync.Mutex).Unlock"), strings.HasSuffix(callee, "sync.RWMutex).Lock"), strings.HasSuffix(callee, "sync.RWMutex).Unlock"):
				return atuple{}, true
			case strings.HasSuffix(callee, "httpserver.parseRawClientHello"):
				var bs []string
				if sl, ok := args[0].(avals); ok {
					for _, c := range sl.cells {
						if v, ok := c.f[""].(aint); ok {
							bs = append(bs, fmt.Sprint(int64(v)))
						} else {
							bs = append(bs, "?")
						}
					}
				}
				parsed = append(parsed, "["+strings.Join(bs, " ")+"]")
				if f := h.p.Func(hs, "parseRawClientHello"); f != nil {
					return zeroOf(f.Signature.Results().At(0).Type()), true
				}
				return astruct{map[string]aval{}}, true
			case callee == "invoke:RemoteAddr":
				return aiface{aptr{&aobj{name: "addr", typ: types.Typ[types.Int], f: map[string]aval{}}, ""}, types.Typ[types.Int]}, true
			case callee == "invoke:String":
				return astr("192.0.2.1:4711"), true
			}
			return nil, false
		}
		lis := &aobj{name: "listener", typ: lisT, f: map[string]aval{}}
		lis.in = func(o *aobj, path string, t types.Type) aval {
			if m, ok := underlying(t).(*types.Map); ok {
				return amap{&amapData{vals: map[string]aval{}, keys: map[string]aval{}, typ: m}}
			}
			return aunk{"listener field " + path}
		}
		c := &aobj{name: "hello connection", typ: connT, f: map[string]aval{"Conn": aiface{aptr{conn, ""}, types.Typ[types.Int]}, "listener": aptr{lis, ""}, "readHello": abool(false), "buf": aptr{buffer, ""}}}
		c.in = func(o *aobj, path string, t types.Type) aval { return aunk{"connection field " + path} }
		total := 0
		for call := 0; call < 12; call++ {
			var cells []aval
			for k := 0; k < 16; k++ {
				cells = append(cells, aint(0))
			}
			res, und := env.run(fn, []aval{aptr{c, ""}, newVals(cells, types.Typ[types.Uint8])})
			if und != "" {
				return desc + ": undecided — " + und, n
			}
			tp, _ := res.(atuple)
			if len(tp) == 2 {
				if k, ok := tp[0].(aint); ok {
					total += int(k)
				}
				if _, isNil := tp[1].(anil); !isNil {
					break
				}
			}
			if done, _ := c.f["readHello"].(abool); bool(done) || seg >= len(cuts) {
				break
			}
		}
		done, _ := c.f["readHello"].(abool)
		switch {
		case len(parsed) != 1:
			return fmt.Sprintf("%s: the parser is handed a ClientHello %d times (%v), once expected", desc, len(parsed), parsed), n
		case parsed[0] != wantBody:
			return fmt.Sprintf("%s: the parser is handed %s, the record's body is %s", desc, parsed[0], wantBody), n
		case !bool(done):
			return desc + ": the connection is not marked as having read its ClientHello", n
		}
	}
	return "", n
}

// c19AcceptTable: a new connection's accumulation buffer starts empty.  The buffers are pooled: one that went back
// with bytes of an earlier connection behind the hello must be emptied before it is used again, or the next
// connection's ClientHello is parsed from the middle of somebody else's bytes.
func c19AcceptTable(h H) string {
	fn := h.p.Func(hs, "(*tlsHelloListener).Accept")
	if fn == nil {
		return "httpserver.(*tlsHelloListener).Accept not found"
	}
	lisT := fn.Params[0].Type().(*types.Pointer).Elem()
	bufT := h.p.typeByName("bytes", "Buffer")
	pooled := &aobj{name: "pooled buffer (holding bytes of an earlier connection)", typ: bufT, f: map[string]aval{}}
	dirty := true
	var installed aval
	var helloConn *aobj
	env := &absEnv{noFork: true, maxSteps: 100000, globals: map[string]*aobj{}}
	env.ext = func(callee string, args []aval) (aval, bool) {
		switch {
		case callee == "invoke:Accept":
			return atuple{aiface{aptr{&aobj{name: "connection", typ: types.Typ[types.Int], f: map[string]aval{}}, ""}, types.Typ[types.Int]}, anil{}}, true
		case strings.HasSuffix(callee, "sync.Pool).Get"):
			return aiface{aptr{pooled, ""}, types.NewPointer(bufT)}, true
		case callee == "(*bytes.Buffer).Reset", callee == "(*bytes.Buffer).Truncate":
			if p, ok := args[0].(aptr); ok && p.obj == pooled {
				dirty = false
			}
			return atuple{}, true
		case callee == "crypto/tls.Server":
			if i, ok := args[0].(aiface); ok {
				if p, ok := i.val.(aptr); ok {
					helloConn = p.obj
					installed = env.load(p.obj, joinPath(p.path, "buf"))
				}
			}
			return aptr{&aobj{name: "tls connection", typ: types.Typ[types.Int], f: map[string]aval{}}, ""}, true
		}
		return nil, false
	}
	lis := &aobj{name: "listener", typ: lisT, f: map[string]aval{}}
	lis.in = func(o *aobj, path string, t types.Type) aval {
		if path == "Listener" {
			return aiface{aptr{&aobj{name: "net listener", typ: types.Typ[types.Int], f: map[string]aval{}}, ""}, types.Typ[types.Int]}
		}
		return aunk{"listener field " + path}
	}
	if _, und := env.run(fn, []aval{aptr{lis, ""}}); und != "" {
		return "Accept: undecided — " + und
	}
	if helloConn == nil {
		return "Accept does not hand a ClientHello-recording connection to tls.Server"
	}
	if p, ok := installed.(aptr); ok && p.obj == pooled && dirty {
		return "the connection is given a pooled buffer that still holds the bytes of an earlier connection (it is not emptied before use)"
	}
	if _, ok := installed.(aptr); !ok {
		return "the connection's accumulation buffer is " + describeAval(installed)
	}
	return ""
}

package main

import (
	"go/types"
	"strings"

	"golang.org/x/tools/go/ssa"
)

// c12R12: a pooled object that carries state is emptied before it is used again.  Response buffers, template include
// buffers, the ClientHello buffer and gzip writers come out of sync.Pools; whatever an earlier request (one that
// panicked half-way included) left in them would otherwise become part of another client's response.  For every
// module call of (*sync.Pool).Get whose result is asserted to a pointer type that has a Reset method: every use of the
// value in the getting function other than handing it back to a pool is dominated by a Reset call on it.  A getter
// that only returns the value un-reset passes the obligation on to each of its static callers.
func c12R12(h H) {
	r := h.r
	r.Rule("R12", "pooled objects are emptied before reuse: for every (*sync.Pool).Get in the module whose result is asserted to a pointer type with a Reset method (*bytes.Buffer, *gzip.Writer, ...), every use of the value — other than Put back into a pool — is dominated by a Reset call on that very value in the same function (a getter that merely returns it passes the obligation to its callers); otherwise bytes of an earlier request, or of one that panicked after writing, reach another client", 4)
	n := 0
	for _, g := range h.p.ModFuncs() {
		k := 0
		allInstrs(g, func(in ssa.Instruction) {
			ta, ok := in.(*ssa.TypeAssert)
			if !ok {
				return
			}
			call, ok := ta.X.(*ssa.Call)
			if !ok || call.Common().IsInvoke() || !strings.HasSuffix(calleeName(call.Common()), "sync.Pool).Get") {
				return
			}
			if !hasResetMethod(h.p, ta.AssertedType) {
				return
			}
			var v ssa.Value = ta
			if ta.CommaOk {
				v = nil
				for _, ref := range *ta.Referrers() {
					if ex, ok := ref.(*ssa.Extract); ok && ex.Index == 0 {
						v = ex
					}
				}
				if v == nil {
					return
				}
			}
			n++
			k++
			key := sprintf("%s/pool-get#%d:%s", shortFunc(g), k, types.TypeString(ta.AssertedType, func(p *types.Package) string { return p.Name() }))
			bad := resetFirst(h, g, v, 1)
			r.Check(bad == "", "R12", key, in.Pos(), "the pooled object is Reset before anything else uses it", bad)
		})
	}
	if n == 0 {
		r.Unresolve("R12", "no sync.Pool.Get of a resettable type found")
	}
}

func hasResetMethod(p *Program, t types.Type) bool {
	if _, ok := t.(*types.Pointer); !ok {
		return false
	}
	ms := p.SSA.MethodSets.MethodSet(t)
	for i := 0; i < ms.Len(); i++ {
		if ms.At(i).Obj().Name() == "Reset" {
			return true
		}
	}
	return false
}

// resetFirst: "" when every use of v in g (other than returning it to a pool) is dominated by a Reset call on v.
func resetFirst(h H, g *ssa.Function, v ssa.Value, depth int) string {
	var resets []ssa.Instruction
	refs := v.Referrers()
	if refs == nil {
		return ""
	}
	for _, ref := range *refs {
		if c := callOf(ref); c != nil && !c.IsInvoke() && len(c.Args) > 0 && c.Args[0] == v && strings.HasSuffix(calleeName(c), ").Reset") {
			if _, isDefer := ref.(*ssa.Defer); !isDefer {
				resets = append(resets, ref)
			}
		}
	}
	// a module callee that itself resets the argument before anything else, on every path to its returns, counts too
	if depth > 0 {
		for _, ref := range *refs {
			c, ok := ref.(*ssa.Call)
			if !ok || c.Common().IsInvoke() {
				continue
			}
			callee := c.Common().StaticCallee()
			if callee == nil || len(callee.Blocks) == 0 || callee.Pkg == nil || !strings.HasPrefix(callee.Pkg.Pkg.Path(), modPath) {
				continue
			}
			for i, a := range c.Common().Args {
				if a == v && i < len(callee.Params) && alwaysResets(callee, callee.Params[i]) && resetFirst(h, callee, callee.Params[i], depth-1) == "" {
					resets = append(resets, ref)
				}
			}
		}
	}
	dominated := func(use ssa.Instruction) bool {
		for _, rs := range resets {
			if rs == use {
				return true
			}
			if rs.Block() == use.Block() {
				for _, in := range rs.Block().Instrs {
					if in == rs {
						return true
					}
					if in == use {
						break
					}
				}
				continue
			}
			if rs.Block().Dominates(use.Block()) {
				return true
			}
		}
		return false
	}
	onlyPut := func(mi *ssa.MakeInterface) bool {
		if mi.Referrers() == nil {
			return false
		}
		for _, ref := range *mi.Referrers() {
			c := callOf(ref)
			if c == nil || c.IsInvoke() || !strings.HasSuffix(calleeName(c), "sync.Pool).Put") {
				return false
			}
		}
		return true
	}
	for _, ref := range *refs {
		if _, ok := ref.(*ssa.DebugRef); ok {
			continue
		}
		if mi, ok := ref.(*ssa.MakeInterface); ok && onlyPut(mi) {
			continue
		}
		if dominated(ref) {
			continue
		}
		if ret, ok := ref.(*ssa.Return); ok && depth > 0 {
			// a getter that hands the value out as it came: each static caller must reset it first
			idx := -1
			for i, res := range ret.Results {
				if res == v {
					idx = i
				}
			}
			callers := 0
			for _, f := range h.p.ModFuncs() {
				var bad string
				allInstrs(f, func(in ssa.Instruction) {
					c, ok := in.(*ssa.Call)
					if !ok || c.Common().StaticCallee() != g || bad != "" {
						return
					}
					callers++
					var cv ssa.Value = c
					if len(ret.Results) > 1 {
						cv = nil
						for _, r2 := range *c.Referrers() {
							if ex, ok := r2.(*ssa.Extract); ok && ex.Index == idx {
								cv = ex
							}
						}
						if cv == nil {
							return
						}
					}
					bad = resetFirst(h, f, cv, depth-1)
				})
				if bad != "" {
					return bad
				}
			}
			if callers > 0 {
				continue
			}
		}
		return h.p.Pos(ref.Pos()) + ": the value taken from the pool is used here (" + strings.TrimSpace(ref.String()) + ") on a path with no earlier Reset — it still holds what its previous user left in it"
	}
	return ""
}

// alwaysResets: some Reset call on the parameter lies in a block that dominates every return of fn.
func alwaysResets(fn *ssa.Function, prm *ssa.Parameter) bool {
	if prm.Referrers() == nil {
		return false
	}
	for _, ref := range *prm.Referrers() {
		c, ok := ref.(*ssa.Call)
		if !ok || c.Common().IsInvoke() || len(c.Common().Args) == 0 || c.Common().Args[0] != prm || !strings.HasSuffix(calleeName(c.Common()), ").Reset") {
			continue
		}
		all := true
		for _, b := range fn.Blocks {
			if len(b.Instrs) == 0 {
				continue
			}
			if _, isRet := b.Instrs[len(b.Instrs)-1].(*ssa.Return); isRet && b != c.Block() && !c.Block().Dominates(b) {
				all = false
			}
		}
		if all {
			return true
		}
	}
	return false
}

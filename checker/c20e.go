package main

import (
	"sort"
	"strings"

	"golang.org/x/tools/go/ssa"
)

// c20R9: "every completed request within a log directive's scope produces a line … including for error responses
// the server generates itself".  The log middleware only sees what happens inside it: a middleware placed outside it
// (earlier in httpserver.directives, see C09 R3) that can answer on its own — a 401, a redirect, an error status —
// completes requests no line is written for.  For every in-module http directive that installs a handler: either it
// is listed after log, or every return of its handler's ServeHTTP lies behind a call that hands the request on to the
// next handler (it only decorates the request, like limits).
func c20R9(h H) {
	r := h.r
	r.Rule("R9", "the log middleware is outside everything that can answer: every in-module http directive that installs a handler is listed after log in httpserver.directives (so NewServer nests it inside the log middleware), unless every return of its ServeHTTP passes through a call handing the request to the next handler", 15)
	dm := h.p.DirectiveMap()
	lg := dm.ByName["log"]
	if lg == nil || lg.Index < 0 || len(lg.Handlers) == 0 {
		r.Unresolve("R9", "directive log: not registered, not listed, or no handler found")
		return
	}
	var names []string
	for n := range dm.ByName {
		names = append(names, n)
	}
	sort.Strings(names)
	delegates := func(in ssa.Instruction) bool {
		c := callOf(in)
		if c == nil {
			return false
		}
		if c.IsInvoke() {
			return c.Method.Name() == "ServeHTTP"
		}
		if f := c.StaticCallee(); f != nil {
			return f.Name() == "ServeHTTP" && strings.Contains(funcName(f), "httpserver.HandlerFunc")
		}
		return false
	}
	for _, n := range names {
		d := dm.ByName[n]
		if d.ServerType != "http" || !d.InModule || len(d.Handlers) == 0 || d.Index < 0 || n == "log" {
			continue
		}
		if d.Index > lg.Index {
			r.Check(true, "R9", "inside-log:"+n, d.RegPos, "directive "+n+" is nested inside the log middleware", sprintf("%d > %d", d.Index, lg.Index))
			continue
		}
		bad := ""
		for _, sh := range d.Handlers {
			for _, ex := range exitsOf(sh) {
				if _, ok := ex.(*ssa.Return); !ok {
					continue
				}
				if !mustPass(sh, ex, delegates) {
					bad = funcName(sh) + " can return at " + h.p.Pos(ex.Pos()) + " without having handed the request to the next handler, and log (position " + sprintf("%d", lg.Index) + ") is nested inside " + n + " (position " + sprintf("%d", d.Index) + "): that response is not logged"
				}
			}
		}
		r.Check(bad == "", "R9", "inside-log:"+n, d.RegPos, "directive "+n+" precedes log but only hands requests on", bad)
	}
}

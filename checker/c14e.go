package main

import (
	"go/types"
	"sort"

	"golang.org/x/tools/go/ssa"
)

// c14R10: limits are copied into a backend only after they are final.  A backend (UpstreamHost) gets max_conns and
// fail_timeout *by value* from the upstream being configured when the host is made; the sub-directives of the proxy
// block set those fields one line at a time.  A host made while lines are still being read keeps the defaults
// (MaxConns 0 = unlimited, FailTimeout 0 = failures never counted), whatever the block says further down.
// The slots are taken from the code: copied fields = fields of the upstream struct whose loaded value some function
// stores into a field of the host struct (the copiers); setters = functions that store into such a field of an
// upstream they did not allocate.  Obligation, per call of a copier on upstream value u in a function f: no call that
// hands the same u to a setter is reachable from it in f's flow graph without passing u's allocation again.
func c14R10(h H) {
	r := h.r
	r.Rule("R10", "limits are copied after they are final: in every function that makes a backend from an upstream (a call of a function that stores values loaded from upstream fields into UpstreamHost fields — max_conns, fail_timeout), no call that hands the same upstream to a function storing into those upstream fields (the sub-directive parser) is reachable afterwards in the flow graph without passing the upstream's own allocation; a backend made earlier would keep the defaults (no connection cap, failures never counted)", 1)
	hostT := h.p.typeByName(modPath+"/"+pxPkg, "UpstreamHost")
	if hostT == nil {
		r.Unresolve("R10", "proxy.UpstreamHost not found")
		return
	}
	hostS, _ := underlying(hostT).(*types.Struct)
	isHostField := func(v *types.Var) bool {
		for i := 0; hostS != nil && i < hostS.NumFields(); i++ {
			if hostS.Field(i) == v {
				return true
			}
		}
		return false
	}
	fieldOf := func(fa *ssa.FieldAddr) *types.Var {
		if s, ok := underlying(derefType(fa.X.Type())).(*types.Struct); ok {
			return s.Field(fa.Field)
		}
		return nil
	}
	funcs := h.p.PkgFuncs(pxPkg)
	// copiers and copied fields
	copied := map[*types.Var]bool{}
	copiers := map[*ssa.Function]map[int]bool{}
	for _, g := range funcs {
		allInstrs(g, func(in ssa.Instruction) {
			st, ok := in.(*ssa.Store)
			if !ok {
				return
			}
			fa, ok := st.Addr.(*ssa.FieldAddr)
			if !ok || !isHostField(fieldOf(fa)) {
				return
			}
			val := st.Val
			if c, ok := val.(*ssa.Convert); ok {
				val = c.X
			}
			ld, ok := val.(*ssa.UnOp)
			if !ok {
				return
			}
			src, ok := ld.X.(*ssa.FieldAddr)
			if !ok {
				return
			}
			sp := paramBehind(src.X)
			if sp == nil {
				return
			}
			sv := fieldOf(src)
			if sv == nil || isHostField(sv) || !types.Identical(sv.Type(), fieldOf(fa).Type()) {
				return
			}
			copied[sv] = true
			for i, q := range g.Params {
				if q == sp {
					if copiers[g] == nil {
						copiers[g] = map[int]bool{}
					}
					copiers[g][i] = true
				}
			}
		})
	}
	if len(copiers) == 0 {
		r.Unresolve("R10", "no function copies upstream fields into UpstreamHost fields")
		return
	}
	// setters: store into a copied field of an upstream the function did not allocate; which parameter carries it
	setters := map[*ssa.Function]map[int]bool{}
	for _, g := range funcs {
		allInstrs(g, func(in ssa.Instruction) {
			st, ok := in.(*ssa.Store)
			if !ok {
				return
			}
			fa, ok := st.Addr.(*ssa.FieldAddr)
			if !ok || !copied[fieldOf(fa)] {
				return
			}
			if p := paramBehind(fa.X); p != nil {
				for i, q := range g.Params {
					if q == p {
						if setters[g] == nil {
							setters[g] = map[int]bool{}
						}
						setters[g][i] = true
					}
				}
			}
		})
	}
	if len(setters) == 0 {
		r.Unresolve("R10", "no function stores into the copied upstream fields through a parameter")
		return
	}
	// both sets are closed under "hands its own parameter on": a function that passes a parameter to a copier
	// (setter) in the upstream's position is one itself; a call through a function value counts as a call of every
	// function of the set with that signature (the table-of-handlers shape)
	targets := func(set map[*ssa.Function]map[int]bool, c *ssa.CallCommon) map[int]bool {
		if c.IsInvoke() {
			return nil
		}
		if sc := c.StaticCallee(); sc != nil {
			return set[sc]
		}
		var out map[int]bool
		for fn, idx := range set {
			if types.Identical(fn.Signature, c.Value.Type().Underlying()) {
				if out == nil {
					out = map[int]bool{}
				}
				for i := range idx {
					// a method's receiver is parameter 0 of the function but not of its signature
					if fn.Signature.Recv() == nil {
						out[i] = true
					}
				}
			}
		}
		return out
	}
	closeSet := func(set map[*ssa.Function]map[int]bool) {
		for changed := true; changed; {
			changed = false
			for _, g := range funcs {
				allInstrs(g, func(in ssa.Instruction) {
					c := callOf(in)
					if c == nil {
						return
					}
					idx := targets(set, c)
					for i, a := range c.Args {
						if !idx[i] {
							continue
						}
						if p := paramBehind(a); p != nil {
							for j, q := range g.Params {
								if q == p && !set[g][j] {
									if set[g] == nil {
										set[g] = map[int]bool{}
									}
									set[g][j] = true
									changed = true
								}
							}
						}
					}
				})
			}
		}
	}
	closeSet(copiers)
	closeSet(setters)
	type ob struct {
		key string
		in  ssa.Instruction
		bad string
		nset int // calls in the same function that hand the same upstream to a setter
	}
	var obs []ob
	for _, f := range funcs {
		k := 0
		allInstrs(f, func(in ssa.Instruction) {
			c, ok := in.(*ssa.Call)
			if !ok {
				return
			}
			var u ssa.Value
			cidx := targets(copiers, c.Common())
			for i, a := range c.Common().Args {
				if cidx[i] && u == nil {
					u = a
				}
			}
			if u == nil || paramBehind(u) != nil {
				// handing on one's own parameter: the obligation is the caller's (closure of the sets above)
				return
			}
			k++
			o := ob{key: sprintf("%s/make-host#%d", shortFunc(f), k), in: in}
			// the upstream is identified by its allocation, or — when the local variable lives in a cell because a
			// closure captures it — by that cell; the blocks that (re)define it end the search
			canon := func(v ssa.Value) ssa.Value {
				if ld, ok := v.(*ssa.UnOp); ok {
					if cell, ok := ld.X.(*ssa.Alloc); ok {
						return cell
					}
				}
				return v
			}
			u = canon(u)
			defBlocks := map[*ssa.BasicBlock]bool{}
			if cell, ok := u.(*ssa.Alloc); ok && cell.Referrers() != nil {
				if _, isPtrCell := underlying(derefType(cell.Type())).(*types.Pointer); isPtrCell {
					for _, ref := range *cell.Referrers() {
						if st, ok := ref.(*ssa.Store); ok && st.Addr == cell {
							defBlocks[st.Block()] = true
						}
					}
				}
			}
			if di, ok := u.(ssa.Instruction); ok && len(defBlocks) == 0 {
				defBlocks[di.Block()] = true
			}
			isSetterCall := func(x ssa.Instruction) bool {
				sc, ok := x.(*ssa.Call)
				if !ok {
					return false
				}
				idx := targets(setters, sc.Common())
				for i, a := range sc.Common().Args {
					if idx[i] && canon(a) == u {
						return true
					}
				}
				return false
			}
			allInstrs(f, func(x ssa.Instruction) {
				if isSetterCall(x) {
					o.nset++
				}
			})
			// rest of the call's own block
			after := false
			for _, x := range in.Block().Instrs {
				if x == in {
					after = true
					continue
				}
				if after && isSetterCall(x) && o.bad == "" {
					o.bad = h.p.Pos(x.Pos())
				}
			}
			seen := map[*ssa.BasicBlock]bool{}
			work := append([]*ssa.BasicBlock{}, in.Block().Succs...)
			for len(work) > 0 && o.bad == "" {
				b := work[0]
				work = work[1:]
				if seen[b] || defBlocks[b] {
					continue
				}
				seen[b] = true
				for _, x := range b.Instrs {
					if isSetterCall(x) {
						o.bad = h.p.Pos(x.Pos())
						break
					}
				}
				work = append(work, b.Succs...)
			}
			if o.bad != "" {
				o.bad += ": this call can still change the limits of the upstream after the backend above was made from it — the backend keeps the values copied earlier (no connection cap, failures never expire or are never counted)"
			}
			obs = append(obs, o)
		})
	}
	sort.Slice(obs, func(i, j int) bool { return obs[i].key < obs[j].key })
	total := 0
	for _, o := range obs {
		total += o.nset
		r.Check(o.bad == "", "R10", o.key, o.in.Pos(), "the backend is made from the upstream only after every sub-directive that can change its limits has been read", sprintf("%d call(s) in this function hand the same upstream to a function that stores its limits", o.nset), o.bad)
	}
	if len(obs) > 0 && total == 0 {
		r.Unresolve("R10", "no backend-making call shares its upstream with a limit-setting call: the rule would hold vacuously")
	}
	if len(obs) == 0 {
		r.Unresolve("R10", "no call of a backend-making function found")
	}
}

// paramBehind: v is a parameter, or a load of the cell a parameter was spilled into because a closure captures it
// (the only stores into the cell store that parameter).
func paramBehind(v ssa.Value) *ssa.Parameter {
	if p, ok := v.(*ssa.Parameter); ok {
		return p
	}
	ld, ok := v.(*ssa.UnOp)
	if !ok {
		return nil
	}
	cell, ok := ld.X.(*ssa.Alloc)
	if !ok || cell.Referrers() == nil {
		return nil
	}
	var prm *ssa.Parameter
	for _, ref := range *cell.Referrers() {
		if st, ok := ref.(*ssa.Store); ok && st.Addr == cell {
			p, ok := st.Val.(*ssa.Parameter)
			if !ok || (prm != nil && prm != p) {
				return nil
			}
			prm = p
		}
	}
	return prm
}

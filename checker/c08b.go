package main

import (
	"go/token"
	"go/types"
	"strings"

	"golang.org/x/tools/go/ssa"
)

// c08R6: names registered in process-wide registries at configuration time are fresh.  casket.RegisterEventHook
// panics on a name that is already registered, and hooks registered by a load that failed later (or by a validation
// run) are not removed (known finding R2).  A later, valid load registers its hooks again; that only works while
// the names of two loads can never coincide.  For every RegisterEventHook call outside init functions the name must
// be built from a per-call fresh identifier: the rule finds the struct fields the name is read from and requires
// every store to such a field, anywhere in the module, to store a value made by a uniqueness source (uuid, crypto or
// math random, an atomically incremented counter).
func c08R6(h H) {
	r := h.r
	r.Rule("R6", "registry names used at configuration time are fresh: every casket.RegisterEventHook call outside init functions is given a name that derives from a per-call unique identifier — directly, or through struct fields all of whose stores in the module store a value made by uuid.New*/NewString, crypto/rand, math/rand or an atomic counter increment (a name that can repeat makes the next valid load panic on the leftovers of a failed one)", 1)
	unique := func(v ssa.Value) bool {
		c, ok := v.(*ssa.Call)
		if !ok {
			return false
		}
		n := calleeName(&c.Call)
		switch {
		case strings.Contains(n, "github.com/google/uuid.New"), strings.HasPrefix(n, "crypto/rand."), strings.HasPrefix(n, "math/rand."), strings.HasPrefix(n, "math/rand/v2."),
			strings.HasPrefix(n, "sync/atomic.Add"), strings.HasSuffix(n, ").Add") && strings.Contains(n, "sync/atomic."):
			return true
		}
		return false
	}
	fresh := func(v ssa.Value) bool { return derives(v, unique, flowOpts{throughCalls: true}) }
	n := 0
	for _, fn := range h.p.ModFuncs() {
		if strings.HasPrefix(fn.Name(), "init") && fn.Parent() == nil {
			continue
		}
		allInstrs(fn, func(in ssa.Instruction) {
			c := callOf(in)
			if c == nil || c.IsInvoke() || !strings.HasSuffix(calleeName(c), modPath+".RegisterEventHook") {
				return
			}
			if fnPkg(fn) != nil && fnPkg(fn).Path() == modPath && fn.Name() == "RegisterEventHook" {
				return
			}
			n++
			name := c.Args[0]
			top := fn
			for top.Parent() != nil {
				top = top.Parent()
			}
			key := "fresh-hook-name:" + shortFunc(top)
			if fresh(name) {
				r.Check(true, "R6", key, in.Pos(), "the hook name derives from a fresh identifier")
				return
			}
			// the fields the name is read from
			var fields []*types.Var
			derives(name, func(v ssa.Value) bool {
				var fa *ssa.FieldAddr
				switch t := v.(type) {
				case *ssa.UnOp:
					if t.Op == token.MUL {
						fa, _ = t.X.(*ssa.FieldAddr)
					}
				case *ssa.Field:
					if st, ok := underlying(t.X.Type()).(*types.Struct); ok {
						fields = append(fields, st.Field(t.Field))
					}
				}
				if fa != nil {
					if st, ok := underlying(derefType(fa.X.Type())).(*types.Struct); ok {
						fields = append(fields, st.Field(fa.Field))
					}
				}
				return false
			}, flowOpts{})
			if len(fields) == 0 {
				r.Check(false, "R6", key, in.Pos(), "the hook name derives from a fresh identifier", "the name "+describe(name)+" neither derives from a uniqueness source nor is read from a struct field")
				return
			}
			why := ""
			okAny := false
			for _, f := range fields {
				stores, bad := 0, ""
				for _, g := range h.p.ModFuncs() {
					allInstrs(g, func(in2 ssa.Instruction) {
						st, ok := in2.(*ssa.Store)
						if !ok {
							return
						}
						fa, ok := st.Addr.(*ssa.FieldAddr)
						if !ok {
							return
						}
						s, ok := underlying(derefType(fa.X.Type())).(*types.Struct)
						if !ok || s.Field(fa.Field) != f {
							return
						}
						stores++
						if !fresh(st.Val) && bad == "" {
							bad = h.p.Pos(in2.Pos()) + ": " + f.Name() + " = " + describe(st.Val) + " — not a per-call unique value: two loads of the same configuration produce the same name, and the hooks of a load that failed later are still registered"
						}
					})
				}
				if stores > 0 && bad == "" {
					okAny = true
				} else if why == "" {
					why = bad
					if stores == 0 {
						why = "no store to the field " + f.Name() + " found"
					}
				}
			}
			r.Check(okAny, "R6", key, in.Pos(), "the hook name is read from a field that only ever holds fresh identifiers", why)
		})
	}
	if n == 0 {
		r.Unresolve("R6", "no RegisterEventHook call found outside init functions")
	}
}

// c08R7: the restart-failed callbacks of an instance run when a *later* reload fails, on the instance that keeps
// serving.  A function registered there must not be one that takes the instance's own resources down: what a directive
// registers with OnShutdown (stop the health checks, close the logs) is exactly that.  In every function of the module,
// no function value handed to Controller.OnRestartFailed is also handed to Controller.OnShutdown or OnFinalShutdown.
func c08R7(h H) {
	r := h.r
	r.Rule("R7", "a failed reload does not run the running instance's shutdown code: no function (method value, closure body or named function) that a directive registers with Controller.OnShutdown / OnFinalShutdown is also registered with Controller.OnRestartFailed (those callbacks run on the instance that keeps serving)", 1)
	target := func(v ssa.Value) string {
		switch t := v.(type) {
		case *ssa.MakeClosure:
			return strings.TrimSuffix(t.Fn.(*ssa.Function).String(), "$bound")
		case *ssa.Function:
			return t.String()
		case *ssa.ChangeType:
			if f, ok := t.X.(*ssa.Function); ok {
				return f.String()
			}
		}
		return ""
	}
	shutdown := map[string]bool{}
	type reg struct {
		in ssa.Instruction
		fn *ssa.Function
		t  string
	}
	var failed []reg
	nShut := 0
	for _, fn := range h.p.ModFuncs() {
		allInstrs(fn, func(in ssa.Instruction) {
			c := callOf(in)
			if c == nil || c.IsInvoke() || len(c.Args) < 2 {
				return
			}
			switch name := calleeName(c); {
			case strings.HasSuffix(name, "casket.Controller).OnShutdown"), strings.HasSuffix(name, "casket.Controller).OnFinalShutdown"):
				nShut++
				if t := target(c.Args[1]); t != "" {
					shutdown[t] = true
				}
			case strings.HasSuffix(name, "casket.Controller).OnRestartFailed"):
				failed = append(failed, reg{in, fn, target(c.Args[1])})
			}
		})
	}
	if nShut < 2 {
		r.Unresolve("R7", sprintf("only %d Controller.OnShutdown registrations found in the module", nShut))
		return
	}
	if len(failed) == 0 {
		r.Check(true, "R7", "casket.Controller.OnRestartFailed/no-directive-registers-one", token.NoPos, "no directive registers a restart-failed callback", sprintf("%d shutdown registrations", nShut))
		return
	}
	for i, f := range failed {
		bad := ""
		if f.t != "" && shutdown[f.t] {
			bad = f.t + " is registered as a shutdown callback too: when a later reload fails it stops what the running instance still needs"
		}
		r.Check(bad == "", "R7", sprintf("%s/restart-failed-callback#%d", shortFunc(f.fn), i+1), f.in.Pos(), "a restart-failed callback is not the instance's shutdown code", bad)
	}
}

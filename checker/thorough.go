package main

// runThoroughExtras: work done only by the thorough tier, beyond the additional GOOS/GOARCH loads:
// the checker's self-test.  Every hand-written variant of /repo registered for the property
// (mutants/<id>.json: one construct broken, still compiling) is analysed in a scratch copy and must make the
// named rule fire; every benign variant must stay silent.  The self-test exercises the CHECKER; its result is
// reported in the evidence (coverage.self_test) and is not evidence for the property itself.

import (
	"os"
	"os/exec"
	"path/filepath"
	"strings"
)

func runThoroughExtras(id string, r *Report) {
	if os.Getenv("VERIF_SKIP_SELFTEST") != "" {
		r.Extra["self_test"] = "skipped (VERIF_SKIP_SELFTEST set: debugging run)"
		return
	}
	script := filepath.Join(verifDir, "mutants", "run.py")
	if _, err := os.Stat(filepath.Join(verifDir, "mutants", id+".json")); err != nil {
		r.Extra["self_test"] = "no hand-written variants registered for this property"
		return
	}
	cmd := exec.Command("python3", script, id, "--jobs", "6")
	cmd.Env = append(os.Environ(), "VERIF_DIR="+verifDir, "VERIF_REPO="+repoDir)
	out, _ := cmd.CombinedOutput()
	var lines []string
	bad := 0
	for _, l := range strings.Split(strings.TrimSpace(string(out)), "\n") {
		if strings.TrimSpace(l) == "" {
			continue
		}
		lines = append(lines, strings.TrimSpace(l))
		if !strings.HasPrefix(l, "OK") && !strings.Contains(l, "variants,") {
			bad++
		}
	}
	r.Extra["self_test"] = lines
	if bad > 0 {
		r.Note("checker self-test: %d variant(s) not handled as expected (see coverage.self_test)", bad)
	}
}

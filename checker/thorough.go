package main

// runThoroughExtras: extra work done only by the thorough tier, beyond the
// additional GOOS/GOARCH loads (filled in per property as engines grow).
func runThoroughExtras(id string, r *Report) {}

package main

import (
	"fmt"
	"go/types"
	"strconv"
)

// c14R8: "a backend is down exactly while it has at least max_fails unexpired failures" starts with max_fails being
// the number that was written.  parseBlock is evaluated (E10) on `max_fails <n>` for small, large and out-of-range
// n: the upstream's threshold is n itself, or the line is refused — never a different number (a 32-bit wrap turns
// 4294967296 into 0, and a threshold of 0 marks every backend down without a single failure).
func c14R8(h H) {
	r := h.r
	r.Rule("R8", "the failure threshold is the configured one, as a table (E10) of parseBlock on `max_fails n` for n in {1, 3, 2147483647, 2147483648, 4294967296, 4294967297, 0, -1}: the upstream's MaxFails is n, or the line is rejected (no silent wrap-around to another value)", 1)
	pb := h.fn("R8", pxPkg, "parseBlock")
	if pb == nil || pb.Signature.Params().Len() < 2 {
		return
	}
	dT := pb.Params[0].Type().(*types.Pointer).Elem()
	uT := pb.Params[1].Type().(*types.Pointer).Elem()
	var tokT types.Type = types.Typ[types.Int]
	if t := h.p.typeByName(modPath+"/"+cfPkg, "Token"); t != nil {
		tokT = t
	}
	bad, n := "", 0
	for _, text := range []string{"1", "3", "2147483647", "2147483648", "4294967296", "4294967297", "0", "-1"} {
		n++
		want, _ := strconv.ParseInt(text, 10, 64)
		toks := []aval{
			astruct{map[string]aval{"File": astr("Casketfile"), "Line": aint(2), "Text": astr("max_fails")}},
			astruct{map[string]aval{"File": astr("Casketfile"), "Line": aint(2), "Text": astr(text)}},
			astruct{map[string]aval{"File": astr("Casketfile"), "Line": aint(3), "Text": astr("}")}},
		}
		disp := &aobj{name: "dispenser", typ: dT, f: map[string]aval{"cursor": aint(0), "tokens": newVals(toks, tokT), "nesting": aint(1), "filename": astr("Casketfile")}}
		u := &aobj{name: "upstream", typ: uT, f: map[string]aval{"MaxFails": aint(1)}}
		u.in = func(o *aobj, path string, t types.Type) aval { return zeroOf(t) }
		env := &absEnv{globals: map[string]*aobj{}, noFork: true, maxSteps: 200000}
		res, und := env.run(pb, []aval{aptr{disp, ""}, aptr{u, ""}, abool(false)})
		desc := "`max_fails " + text + "`"
		if und != "" {
			bad = desc + ": undecided — " + und
			break
		}
		_, accepted := res.(anil)
		got, isInt := u.f["MaxFails"].(aint)
		switch {
		case accepted && (!isInt || int64(got) != want):
			bad = fmt.Sprintf("%s is accepted and the threshold becomes %s: a backend is then treated as down at another number of failures than configured", desc, describeAval(u.f["MaxFails"]))
		case accepted && want < 1:
			bad = desc + " is accepted: a threshold below 1 marks every backend down at once"
		case !accepted && want >= 1 && want <= 2147483647:
			bad = desc + " is rejected: " + describeAval(res)
		}
		if bad != "" {
			break
		}
	}
	r.Check(bad == "" && n == 8, "R8", "proxy.parseBlock/max-fails-table", pb.Pos(), "the threshold a backend is judged by is the number written in the configuration", fmt.Sprintf("%d values parsed", n), bad)
}

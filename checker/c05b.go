package main

import (
	"strings"

	"golang.org/x/tools/go/ssa"
)

// c05R8: "hash-based policies send the same key to the same backend while availability is unchanged".
// Necessary structural conditions: the probe's base slot is a function of the key and the pool length only,
// computed by a function that reads nothing else; and each policy's key is exactly the request attribute it is
// documented to hash — for ip_hash the client address WITHOUT its port (two connections of one client differ in
// their source port), as computed by the standard library's address parser, the raw address being used only when
// that parser reports an error.
func c05R8(h H) {
	r := h.r
	r.Rule("R8", "hash key identity: hostByHashing derives its first slot from hash(key) % len(pool) only and hash() calls nothing but hash/fnv (no clock, no randomness, no package state); ip_hash keys by net.SplitHostPort(RemoteAddr)'s host (raw RemoteAddr only on its error edge), uri_hash by the request URI, header by the concatenation of the named header values", 5)
	hb := h.fn("R8", pxPkg, "hostByHashing")
	hf := h.fn("R8", pxPkg, "hash")
	if hb != nil && hf != nil {
		// every call to hash in hostByHashing is given the key parameter itself
		calls := findCalls(hb, func(in ssa.Instruction) bool {
			c := callOf(in)
			return c != nil && c.StaticCallee() == hf
		})
		if len(calls) == 0 {
			r.Unresolve("R8", "hostByHashing does not call hash()")
		}
		for _, c := range calls {
			p, isP := callOf(c).Args[0].(*ssa.Parameter)
			r.Check(isP && p.Type().String() == "string", "R8", "proxy.hostByHashing/hash-of-key", c.Pos(), "the first slot is computed from the key parameter itself", describe(callOf(c).Args[0]))
		}
		// nothing non-deterministic in hostByHashing or hash, nor in the helpers and closures they are made of (the
		// backends' own availability test is the policy's input, not part of the slot computation)
		for _, f0 := range []*ssa.Function{hb, hf} {
			pure := true
			var bad []string
			for _, f := range withHelpers(f0, 3) {
				if rc := f.Signature.Recv(); rc != nil && strings.HasSuffix(derefType(rc.Type()).String(), "proxy.UpstreamHost") {
					continue
				}
				allInstrs(f, func(in ssa.Instruction) {
					if c := callOf(in); c != nil {
						n := calleeName(c)
						callee := c.StaticCallee()
						switch {
						case callee != nil && callee.Pkg != nil && isModPkg(callee.Pkg.Pkg.Path()):
						case callee != nil && callee.Pkg == nil: // synthetic wrappers, bound methods, closures
						case c.IsInvoke() && (c.Method.Name() == "Write" || c.Method.Name() == "Sum32") && strings.HasPrefix(c.Value.Type().String(), "hash."):
						case strings.HasPrefix(n, "hash/fnv."), strings.HasPrefix(n, "builtin."), strings.HasPrefix(n, "log."), strings.HasPrefix(n, "slices."), strings.HasPrefix(n, "strings."), strings.HasPrefix(n, "strconv."), strings.HasPrefix(n, "sort."), strings.HasPrefix(n, "fmt.Sprint"):
						case n == "" && !c.IsInvoke(): // a call of a function value (the slot closure handed to a probing helper)
						default:
							pure = false
							bad = append(bad, n)
						}
					}
					if u, ok := in.(*ssa.UnOp); ok {
						if g, ok := u.X.(*ssa.Global); ok && g.Pkg != nil && isModPkg(g.Pkg.Pkg.Path()) {
							pure = false
							bad = append(bad, "reads "+g.Name())
						}
					}
				})
			}
			r.Check(pure, "R8", "proxy."+f0.Name()+"/deterministic", f0.Pos(), "no clock, randomness or package state enters the choice of slot: equal keys give equal slots", bad...)
		}
		// hash(): what is written to the hasher is the parameter
		for _, in := range findCalls(hf, func(in ssa.Instruction) bool {
			c := callOf(in)
			return c != nil && c.IsInvoke() && c.Method.Name() == "Write"
		}) {
			arg := callOf(in).Args[0]
			ok := allFlowsThrough(arg, func(v ssa.Value) bool { _, isP := v.(*ssa.Parameter); return isP }, false)
			full := true
			// no sub-slicing of the key
			var walk func(v ssa.Value, d int)
			walk = func(v ssa.Value, d int) {
				if d > 10 {
					return
				}
				switch t := v.(type) {
				case *ssa.Slice:
					full = false
				case *ssa.Convert:
					walk(t.X, d+1)
				case *ssa.ChangeType:
					walk(t.X, d+1)
				}
			}
			walk(arg, 0)
			r.Check(ok && full, "R8", "proxy.hash/hashes-whole-key", in.Pos(), "the whole key (not a part of it) is fed to the hash", describe(arg))
		}
	}
	isRemoteAddr := func(v ssa.Value) bool {
		u, ok := v.(*ssa.UnOp)
		return ok && readsField(u, "RemoteAddr")
	}
	keyArgs := func(fn *ssa.Function) []ssa.Instruction {
		return findCalls(fn, func(in ssa.Instruction) bool {
			c := callOf(in)
			return c != nil && c.StaticCallee() != nil && c.StaticCallee() == hb
		})
	}
	if fn := h.fn("R8", pxPkg, "(*IPHash).Select"); fn != nil && hb != nil {
		cs := keyArgs(fn)
		if len(cs) == 0 {
			r.Unresolve("R8", "IPHash.Select does not call hostByHashing")
		}
		for _, c := range cs {
			key := callOf(c).Args[1]
			leaves, direct := phiLeaves(key)
			ok := true
			var facts []string
			chk := func(v ssa.Value, gs []guardInfo, havePhi bool) {
				facts = append(facts, describe(v))
				if ex, isEx := v.(*ssa.Extract); isEx && ex.Index == 0 {
					if call, isC := ex.Tuple.(*ssa.Call); isC && calleeName(&call.Call) == "net.SplitHostPort" && isRemoteAddr(call.Call.Args[0]) {
						return
					}
				}
				if isRemoteAddr(v) && havePhi {
					// only on the error edge of a SplitHostPort of RemoteAddr
					for _, g := range gs {
						x, nilWhenTrue, isNil := nilCmp(g.Cond)
						if !isNil {
							continue
						}
						ex, isEx := x.(*ssa.Extract)
						if !isEx || ex.Index != 2 {
							continue
						}
						call, isC := ex.Tuple.(*ssa.Call)
						if isC && calleeName(&call.Call) == "net.SplitHostPort" && isRemoteAddr(call.Call.Args[0]) && g.Pos != nilWhenTrue {
							return
						}
					}
				}
				ok = false
			}
			for _, lf := range leaves {
				chk(lf.V, phiEdgeGuards(fn, lf.Phi, lf.K), true)
			}
			for _, d := range direct {
				chk(d, nil, false)
			}
			r.Check(ok && len(facts) > 0, "R8", "(*proxy.IPHash).Select/key", c.Pos(),
				"the key is the client address without its port as split by net.SplitHostPort (which understands bracketed IPv6); the unsplit address is used only when the split failed", facts...)
		}
	}
	if fn := h.fn("R8", pxPkg, "(*URIHash).Select"); fn != nil && hb != nil {
		cs := keyArgs(fn)
		if len(cs) == 0 {
			r.Unresolve("R8", "URIHash.Select does not call hostByHashing")
		}
		for _, c := range cs {
			key := callOf(c).Args[1]
			vals := valuesAt(fn, key, c)
			ok := len(vals) > 0
			for _, v := range vals {
				u, isU := v.(*ssa.UnOp)
				ok = ok && isU && readsField(u, "RequestURI")
			}
			r.Check(ok, "R8", "(*proxy.URIHash).Select/key", c.Pos(), "the key is the request URI as received", describe(key))
		}
	}
	if fn := h.fn("R8", pxPkg, "(*Header).Select"); fn != nil && hb != nil {
		cs := keyArgs(fn)
		if len(cs) == 0 {
			r.Unresolve("R8", "Header.Select does not call hostByHashing")
		}
		isGet := func(v ssa.Value) bool {
			c, ok := v.(*ssa.Call)
			return ok && calleeName(&c.Call) == "(net/http.Header).Get"
		}
		for _, c := range cs {
			key := callOf(c).Args[1]
			ok := allFlowsThrough(key, isGet, true)
			r.Check(ok, "R8", "(*proxy.Header).Select/key", c.Pos(), "the key is built only from the values of the named request headers", describe(key))
		}
	}
}

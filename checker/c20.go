package main

import (
	"go/token"
	"go/types"
	"strings"

	"golang.org/x/tools/go/ssa"
)

func init() {
	register("C20", &propSpec{
		technique: "static analysis: φ-web provenance of the scanned string in Replace (single pass), module-wide taint check of every Replace argument, unconditional-update check of the recorder, guard/loop-exit analysis of the log handler",
		run:       runC20,
		decided: "R1 in Replace the string being scanned is only ever the parameter or a suffix slice of itself that starts after the placeholder just handled; substituted text goes only into the result; " +
			"R2 no Replace call in the module is given text derived from the request (headers, URL, cookies, host) or from another Replace; " +
			"R3 the log handler hands the recorder (not the raw writer) to the next handler and to its own fallback error writer; the recorder updates its status on every WriteHeader and its size after every successful Write, unconditionally, and {status}/{size} read exactly those fields; " +
			"R4 an unknown placeholder yields the empty-value marker; " +
			"R5 every matching log rule must log (known finding: only the first does); " +
			"R6 every update of the recorded size, anywhere in the module, adds a count reported by the wrapped writer for a call made directly on it (no byte counted twice); " +
			"R7 the except test reads the URL copy taken before the next handler ran. Since round 4: R2 also: Replacer.Set stores its value verbatim. R3/R6 as a table of the recorder (header incl. 1xx then final status, writes, one failing, ReadFrom with and without io.ReaderFrom below): status and size are what the wrapped writer was sent. R7 as a table of Logger.ServeHTTP: the except test sees the path as received, one line per non-excepted entry. R8 the recorder inherits no body method. Since round 5: R9 log is listed before (so nested outside) every in-module directive whose handler can answer on its own. Since round 6: R7 with entries that have an ipmask (masked exactly in their own lines); R10 logParse keeps every log directive's except list and mask to itself; the recorder table has a ReadFrom that fails part-way. Since round 8: R11 old.Start, new.Start, old.Close on one unrotated log file leaves the new logger's file open.",
		notDecided: "concurrency of log writes; byte-exact {size} for hijacked connections or writers outside the module.",
	})
}

const logPkg = "caskethttp/log"

func runC20(r *Report, p *Program) {
	h := H{r, p}
	c20R1(h)
	c20R2(h)
	c20SetVerbatim(h)
	c20R3(h)
	c20R4(h)
	c20R5(h)
	c20R6(h)
	c20R7(h)
	bodyBypassRule(h, "R8", 1, func(t *types.Named) bool { return t.Obj().Name() == "ResponseRecorder" })
	c20R9(h)
	c20R10(h)
	c20R11(h)
}

func c20R1(h H) {
	r := h.r
	r.Rule("R1", "single pass: in (*replacer).Replace every value in the φ-web of the string that is searched for braces is the parameter itself or a Slice of a member of that web; the loop-carried member is the slice [idxEnd+1:]; the result of getSubstitution flows into the accumulated result only", 3)
	fn := h.fn("R1", hs, "(*replacer).Replace")
	if fn == nil {
		return
	}
	// the scanned string: operand of Slice instructions that feed strings.Index searches
	web := map[ssa.Value]bool{}
	var seeds []ssa.Value
	allInstrs(fn, func(in ssa.Instruction) {
		c, ok := in.(*ssa.Call)
		if !ok || calleeName(&c.Call) != "strings.Index" {
			return
		}
		if sl, ok := c.Call.Args[0].(*ssa.Slice); ok {
			seeds = append(seeds, sl.X)
		}
	})
	if len(seeds) == 0 {
		r.Unresolve("R1", "Replace: brace search (strings.Index on a slice of the scanned string) not found")
		return
	}
	okWeb := true
	var bad string
	var walk func(v ssa.Value)
	walk = func(v ssa.Value) {
		if web[v] {
			return
		}
		web[v] = true
		switch t := v.(type) {
		case *ssa.Parameter:
		case *ssa.Phi:
			for _, e := range t.Edges {
				walk(e)
			}
		case *ssa.Slice:
			walk(t.X)
		default:
			okWeb = false
			bad = describe(v)
		}
	}
	for _, s := range seeds {
		walk(s)
	}
	r.Check(okWeb, "R1", "httpserver.(*replacer).Replace/scanned-string-is-suffix-of-input", fn.Pos(), "the text searched for placeholders is always a suffix of the original format string (nothing substituted is ever scanned)", bad)
	// loop-carried slice starts at idxEnd+1
	adv := false
	for v := range web {
		sl, ok := v.(*ssa.Slice)
		if !ok || sl.Low == nil || sl.High != nil {
			continue
		}
		if b, ok := sl.Low.(*ssa.BinOp); ok && b.Op == token.ADD {
			if c, ok := constInt(b.Y); ok && c == 1 {
				// and this slice is carried around the loop
				for w := range web {
					if ph, ok := w.(*ssa.Phi); ok {
						for _, e := range ph.Edges {
							if e == v {
								adv = true
							}
						}
					}
				}
			}
		}
	}
	r.Check(adv, "R1", "httpserver.(*replacer).Replace/advances-past-placeholder", fn.Pos(), "each iteration continues strictly after the closing brace just handled")
	// substitution flows only into result
	okFlow := true
	allInstrs(fn, func(in ssa.Instruction) {
		c, ok := in.(*ssa.Call)
		if !ok || !strings.HasSuffix(calleeName(&c.Call), "httpserver.replacer).getSubstitution") {
			return
		}
		for _, ref := range *c.Referrers() {
			b, isBin := ref.(*ssa.BinOp)
			if !isBin || b.Op != token.ADD {
				okFlow = false
				continue
			}
			// the concatenation must not reach the scanned web or another call
			for _, ref2 := range *b.Referrers() {
				switch ref2.(type) {
				case *ssa.Phi, *ssa.BinOp, *ssa.Return:
				default:
					okFlow = false
				}
				if v, ok := ref2.(ssa.Value); ok && web[v] {
					okFlow = false
				}
			}
		}
	})
	r.Check(okFlow, "R1", "httpserver.(*replacer).Replace/substitution-only-into-result", fn.Pos(), "substituted values are concatenated into the result and used nowhere else")
}

// requestTaint: v derives from request-controlled text.
func requestTaint(v ssa.Value) (bool, string) {
	why := ""
	t := derives(v, func(x ssa.Value) bool {
		switch y := x.(type) {
		case *ssa.Call:
			n := calleeName(&y.Call)
			switch n {
			case "(net/http.Header).Get", "(net/http.Header).Values", "(*net/http.Request).Cookie", "(*net/http.Request).FormValue", "(*net/http.Request).UserAgent", "(*net/http.Request).Referer",
				"(net/url.Values).Get", "(*net/url.URL).Query", "(*net/url.URL).RequestURI", "(*net/url.URL).String", "(*net/url.URL).EscapedPath", "(*net/http.Request).BasicAuth":
				why = n
				return true
			}
			if y.Call.IsInvoke() && y.Call.Method.Name() == "Replace" && strings.HasSuffix(y.Call.Value.Type().String(), "httpserver.Replacer") {
				why = "result of another Replace"
				return true
			}
			if strings.HasSuffix(n, "httpserver.replacer).Replace") {
				why = "result of another Replace"
				return true
			}
		}
		p, root := fieldPath(x)
		if p == "" {
			return false
		}
		rt := strings.TrimPrefix(root.Type().String(), "*")
		if strings.HasSuffix(rt, "net/http.Request") {
			for _, f := range []string{"Header", "URL", "Host", "RequestURI", "Form", "PostForm", "Trailer", "RemoteAddr", "Method", "Proto"} {
				if p == f || strings.HasPrefix(p, f+".") {
					why = "request." + p
					return true
				}
			}
		}
		return false
	}, flowOpts{throughCalls: true})
	return t, why
}

func c20R2(h H) {
	r := h.r
	r.Rule("R2", "request text is never a format: the argument of every Replacer.Replace / (*replacer).Replace call in the module does not derive (through calls, φ, fields, concatenation) from the request's header, URL, host, cookies, form, or from the result of another Replace", 10)
	n := 0
	for _, fn := range h.p.ModFuncs() {
		if strings.HasSuffix(shortFunc(fn), "replacer).Replace") {
			continue
		}
		allInstrs(fn, func(in ssa.Instruction) {
			c := callOf(in)
			if c == nil {
				return
			}
			var arg ssa.Value
			if c.IsInvoke() && c.Method.Name() == "Replace" && isReplacerType(c.Value.Type()) {
				arg = c.Args[0]
			} else if f := c.StaticCallee(); f != nil && strings.HasSuffix(funcName(f), "httpserver.replacer).Replace") {
				arg = c.Args[1]
			} else {
				return
			}
			n++
			t, why := requestTaint(arg)
			k := sprintf("%s/replace-arg:%s", shortFunc(fn), argKind(arg))
			r.Check(!t, "R2", k, in.Pos(), "the format handed to Replace comes from configuration or constants, never from the request (a request-supplied '{…}' would be expanded)", why, describe(arg))
		})
	}
	if n < 10 {
		r.Unresolve("R2", sprintf("only %d Replace call sites found", n))
	}
}

func isReplacerType(t types.Type) bool {
	return strings.HasSuffix(t.String(), "httpserver.Replacer")
}

func argKind(v ssa.Value) string {
	if s, ok := constString(v); ok {
		if len(s) > 24 {
			s = s[:24]
		}
		return "const:" + strings.ReplaceAll(s, " ", "_")
	}
	if p, _ := fieldPath(v); p != "" {
		return "field:" + p
	}
	if pr, ok := v.(*ssa.Parameter); ok {
		return "param:" + pr.Name()
	}
	switch v.(type) {
	case *ssa.Phi:
		return "var"
	case *ssa.Call:
		return "call"
	case *ssa.BinOp:
		return "concat"
	}
	return "value"
}

func c20R3(h H) {
	r := h.r
	r.Rule("R3", "the recorder sees everything: in log.Logger.ServeHTTP the Next invoke inside the rule loop and every fallback write (ErrorFunc, WriteHeader, Fprintf) receive the ResponseRecorder; the recorder and the placeholders as a table (E10): a recorder made by NewResponseRecorder, given a header and body writes (one of them failing) and — where it declares one — a ReadFrom, reports the status sent and the bytes the wrapped writer took, and {status} / {size} expand to exactly that", 4)
	fn := h.fn("R3", logPkg, "Logger.ServeHTTP")
	if fn != nil {
		isRec := func(v ssa.Value) bool {
			return derives(v, func(x ssa.Value) bool { return isResultOf(x, 0, modPath+"/"+hs+".NewResponseRecorder") }, flowOpts{})
		}
		hd, _ := loopOverField(fn, "Rules")
		var loop map[*ssa.BasicBlock]bool
		if hd != nil {
			loop = naturalLoop(hd)
		}
		n := 0
		for _, c := range nextInvokes(fn) {
			// the matched-rule Next: dominated by NewResponseRecorder
			created := mustPass(fn, c, func(in ssa.Instruction) bool { return isCallTo(in, modPath+"/"+hs+".NewResponseRecorder") })
			if !created {
				continue
			}
			n++
			r.Check(isRec(callOf(c).Args[0]), "R3", "log.Logger.ServeHTTP/next-gets-recorder", c.Pos(), "the handlers below log write through the recorder")
		}
		_ = loop
		if n == 0 {
			r.Unresolve("R3", "Logger.ServeHTTP: Next invoke after NewResponseRecorder not found")
		}
		// fallback writes
		allInstrs(fn, func(in ssa.Instruction) {
			c := callOf(in)
			if c == nil {
				return
			}
			name := calleeName(c)
			var w ssa.Value
			switch {
			case name == "fmt.Fprintf":
				w = c.Args[0]
			case !c.IsInvoke() && c.StaticCallee() == nil && readsField(c.Value, "ErrorFunc"):
				w = c.Args[0]
			case strings.HasSuffix(name, "ResponseRecorder).WriteHeader"):
				w = c.Args[0]
			case c.IsInvoke() && (c.Method.Name() == "WriteHeader" || c.Method.Name() == "Write"):
				w = c.Value
			default:
				return
			}
			r.Check(isRec(w), "R3", "log.Logger.ServeHTTP/fallback-through-recorder:"+shortCallee(in), in.Pos(), "the error response log generates itself is written through the recorder, so {status} and {size} describe it")
		})
	}
	// the recorder itself and the two placeholders: decided as a table (E10, recorderTable)
	t := recorderTable(h)
	var pos token.Pos
	if f := h.p.Func(hs, "(*ResponseRecorder).Write"); f != nil {
		pos = f.Pos()
	}
	n := sprintf("%d scenarios evaluated", t.n)
	r.Check(t.status == "" && t.other == "", "R3", "httpserver.(*ResponseRecorder).WriteHeader/records-and-delegates-always", pos, "the recorded status is the one sent to the client (200 when none was written explicitly)", n, t.status, t.other)
	r.Check(t.size == "" && t.other == "", "R3", "httpserver.(*ResponseRecorder).Write/counts-what-was-written", pos, "the recorded size is the number of body bytes the wrapped writer took", n, t.size, t.other)
	r.Check(t.subst == "" && t.other == "", "R3", "httpserver.(*replacer).getSubstitution/{status}-{size}-from-recorder", pos, "{status} and {size} expand to what the recorder saw", n, t.subst, t.other)
}

func c20R4(h H) {
	r := h.r
	r.Rule("R4", "unknown placeholder ⇒ empty marker: the final fall-through return of getSubstitution returns the replacer's emptyValue field", 1)
	gs := h.fn("R4", hs, "(*replacer).getSubstitution")
	if gs == nil {
		return
	}
	// the return reached when every comparison failed: the last block by position
	var last *ssa.Return
	for _, rt := range realReturns(gs) {
		if last == nil || rt.Pos() > last.Pos() {
			last = rt
		}
	}
	ok := false
	if last != nil {
		if p, _ := fieldPath(last.Results[0]); p == "emptyValue" {
			ok = true
		}
	}
	r.Check(ok, "R4", "httpserver.(*replacer).getSubstitution/default-is-empty-value", gs.Pos(), "a placeholder nobody recognises expands to the configured empty-value marker")
}

func c20R5(h H) {
	r := h.r
	r.Rule("R5", "every matching log rule logs: the loop over Logger.Rules must not be left (return/break) from inside a matching rule's branch while later rules may also match", 1)
	fn := h.fn("R5", logPkg, "Logger.ServeHTTP")
	if fn == nil {
		return
	}
	hd, _ := loopOverField(fn, "Rules")
	if hd == nil {
		r.Unresolve("R5", "Logger.ServeHTTP: loop over Rules not found")
		return
	}
	loop := naturalLoop(hd)
	early := false
	var pos token.Pos
	for _, e := range loopExitEdges(loop) {
		if e.From == hd && e.Idx == 1 {
			continue
		}
		early = true
		pos = lastInstr(e.From).Pos()
	}
	// a return directly inside the loop body shows up as blocks not in the natural loop but dominated by the header
	for _, b := range fn.Blocks {
		if !loop[b] && hd.Dominates(b) && b != hd {
			if _, isRet := lastInstr(b).(*ssa.Return); isRet {
				// reachable from a loop block other than via the exhaustion edge?
				for _, pr := range b.Preds {
					if loop[pr] && !(pr == hd) {
						early = true
						pos = lastInstr(b).Pos()
					}
				}
			}
		}
	}
	if early {
		r.Fail("R5", "log.Logger.ServeHTTP/first-matching-rule-returns", pos, "the handler returns from inside the first matching rule: with `log / a.log` and `log /api b.log` a request for /api/x is written to a.log only")
	} else {
		r.Hold("R5", "log.Logger.ServeHTTP/all-matching-rules-log", hd.Instrs[0].Pos(), "the loop over log rules runs to exhaustion")
	}
}

package main

import (
	"fmt"
	"go/types"
	"strings"

	"golang.org/x/tools/go/ssa"
)

// Lifecycle traces (E10).  startWithListenerFds, Instance.Restart and Instance.ShutdownCallbacks are evaluated with the
// six callback lists filled with oracle callbacks that log their invocation and succeed or fail as the case says;
// directive execution, MakeServers, startServers and (in Restart) startWithListenerFds are oracles that log and
// succeed or fail as well.  The specification is the trace: which callbacks ran, in which order relative to the
// server start / the start of the new instance / the stop of the old one, what is returned, and whether the
// instance is still in the instance list afterwards.

type lifeResult struct {
	n                       int
	start                   string // startWithListenerFds trace mismatches
	cleanup                 string // failed instance left in the list
	restart                 string // Restart trace mismatches
	afterUp                 string // Restart fails/returns old instance after the new one is up
	wg                      string // the new instance does not share the old one's wait group
	shut                    string // ShutdownCallbacks mismatches
	other                   string // not evaluated at all
	oStart, oRestart, oShut string // undecided cases per function
}

var lifeMemo = map[*Program]*lifeResult{}

func lifecycleTraces(h H) *lifeResult {
	if m, ok := lifeMemo[h.p]; ok {
		return m
	}
	res := &lifeResult{}
	lifeMemo[h.p] = res
	swl := h.p.Func("", "startWithListenerFds")
	rs := h.p.Func("", "(*Instance).Restart")
	sc := h.p.Func("", "(*Instance).ShutdownCallbacks")
	if swl == nil || rs == nil || sc == nil {
		res.other = "startWithListenerFds / Instance.Restart / Instance.ShutdownCallbacks not found"
		return res
	}
	instT := rs.Params[0].Type().(*types.Pointer).Elem()
	cbT := types.NewSignatureType(nil, nil, nil, nil, types.NewTuple(types.NewVar(0, nil, "", types.Universe.Lookup("error").Type())), false)
	cbs := func(names ...string) aval {
		var vs []aval
		for _, n := range names {
			vs = append(vs, acb{n})
		}
		return newVals(vs, cbT)
	}
	errObj := func(name string) aval {
		return aptr{&aobj{name: "err:" + name, typ: types.Typ[types.Int], f: map[string]aval{}}, ""}
	}
	isErr := func(v aval, name string) bool {
		p, ok := v.(aptr)
		return ok && p.obj.name == "err:"+name
	}
	mkInst := func(name string) *aobj {
		o := &aobj{name: name, typ: instT, f: map[string]aval{
			"OnFirstStartup": cbs("first1", "first2"), "OnStartup": cbs("startup1", "startup2"),
			"OnRestart": cbs("restart1", "restart2"), "OnRestartFailed": cbs("failed1"),
			"OnShutdown": cbs("shutdown1", "shutdown2"), "OnFinalShutdown": cbs("final1"),
			"servers": anil{},
		}}
		o.in = func(o *aobj, path string, t types.Type) aval {
			switch path {
			case "context":
				return aiface{aptr{&aobj{name: "context", typ: types.Typ[types.Int], f: map[string]aval{}}, ""}, types.Typ[types.Int]}
			case "wg":
				return aptr{&aobj{name: "wg", typ: types.Typ[types.Int], f: map[string]aval{}}, ""}
			}
			return aunk{"instance field " + path}
		}
		return o
	}
	inList := func(env *absEnv, inst *aobj) bool {
		g := env.globals["instances"]
		sl, ok := g.f[""].(avals)
		if !ok {
			return false
		}
		for _, c := range sl.cells {
			if p, ok := c.f[""].(aptr); ok && p.obj == inst {
				return true
			}
		}
		return false
	}
	// ---------------------------------------------------------------- startWithListenerFds
	// "panic:<step>": the step does not return an error, it panics (a plugin's setup function, a start-up callback)
	failPoints := []string{"", "validate", "makeservers", "first1", "first2", "startup1", "startup2", "startservers", "panic:validate", "panic:startup1", "panic:startservers"}
	for _, upgrade := range []bool{false, true} {
		for _, restart := range []bool{false, true} {
			for _, fail := range failPoints {
				res.n++
				var trace []string
				env := &absEnv{maxSteps: 200000, noFork: true, globals: map[string]*aobj{
					"instances": {name: "instances", typ: types.NewSlice(types.NewPointer(instT)), f: map[string]aval{"": anil{}}},
					"Quiet":     {name: "Quiet", typ: types.Typ[types.Bool], f: map[string]aval{"": abool(true)}},
				}}
				outcome := func(name string) aval {
					if fail == name {
						return errObj(name)
					}
					if fail == "panic:"+name {
						return apanic{}
					}
					return anil{}
				}
				env.ext = func(callee string, args []aval) (aval, bool) {
					switch {
					case strings.HasPrefix(callee, "callback:"):
						n := strings.TrimPrefix(callee, "callback:")
						trace = append(trace, n)
						return outcome(n), true
					case strings.HasSuffix(callee, "casket.ValidateAndExecuteDirectives"):
						trace = append(trace, "directives")
						return outcome("validate"), true
					case callee == "invoke:MakeServers":
						trace = append(trace, "makeservers")
						return atuple{anil{}, outcome("makeservers")}, true
					case strings.HasSuffix(callee, "casket.startServers"):
						trace = append(trace, "SERVE")
						return outcome("startservers"), true
					case strings.HasSuffix(callee, "casket.IsUpgrade"):
						return abool(upgrade), true
					}
					return nil, false
				}
				inst := mkInst("inst")
				var fds aval = anil{}
				if restart {
					fds = amap{&amapData{vals: map[string]aval{}, keys: map[string]aval{}, typ: underlying(swl.Params[2].Type()).(*types.Map)}}
				}
				r, und := env.run(swl, []aval{aiface{aptr{&aobj{name: "casketfile", typ: types.Typ[types.Int], f: map[string]aval{}}, ""}, types.Typ[types.Int]}, aptr{inst, ""}, fds})
				desc := fmt.Sprintf("upgrade=%v restart=%v failing step=%q", upgrade, restart, fail)
				if und != "" {
					if res.oStart == "" {
						res.oStart = "startWithListenerFds, " + desc + ": undecided — " + und
					}
					continue
				}
				if strings.HasPrefix(fail, "panic:") {
					if _, unwound := r.(apanic); !unwound {
						if res.oStart == "" {
							res.oStart = "startWithListenerFds, " + desc + ": undecided — the scripted panic did not unwind the function (result " + describeAval(r) + ")"
						}
					} else if inList(env, inst) && res.cleanup == "" {
						res.cleanup = desc + ": the start-up panicked and the instance stays in the instance list — it never went live, and process shutdown will run its callbacks"
					}
					continue
				}
				// expected trace
				want := []string{"directives"}
				failed := fail == "validate"
				step := func(n string) {
					if failed {
						return
					}
					want = append(want, n)
					if fail == n || (n == "makeservers" && fail == "makeservers") || (n == "SERVE" && fail == "startservers") {
						failed = true
					}
				}
				step("makeservers")
				if !upgrade && !restart {
					step("first1")
					step("first2")
				}
				step("startup1")
				step("startup2")
				step("SERVE")
				failed = failed || fail == "validate"
				if (fail == "first1" || fail == "first2") && (upgrade || restart) {
					failed = false // those callbacks are not run at all
				}
				got := strings.Join(trace, " ")
				wantErr := failed
				_, retNil := r.(anil)
				if got != strings.Join(want, " ") || retNil == wantErr {
					if res.start == "" {
						res.start = fmt.Sprintf("%s: trace [%s] returning error=%v; specification: [%s] returning error=%v", desc, got, !retNil, strings.Join(want, " "), wantErr)
					}
				}
				if wantErr && !retNil && !isErr(r, map[string]string{"validate": "validate", "makeservers": "makeservers", "startservers": "startservers"}[fail]) && !isErr(r, fail) {
					if res.start == "" {
						res.start = desc + ": returns " + describeAval(r) + " instead of the error of the failing step"
					}
				}
				if in := inList(env, inst); in == wantErr && !(retNil == wantErr) {
					if res.cleanup == "" {
						if wantErr {
							res.cleanup = desc + ": the instance whose start failed is still in the instance list"
						} else {
							res.cleanup = desc + ": the started instance is not in the instance list"
						}
					}
				}
			}
		}
	}
	// ---------------------------------------------------------------- Instance.Restart
	var gsT types.Type = types.Typ[types.Invalid]
	if pk := h.p.Pkg(""); pk != nil {
		if o := pk.Pkg.Scope().Lookup("GracefulServer"); o != nil {
			gsT = o.Type()
		}
	}
	var slT types.Type
	if st, ok := underlying(instT).(*types.Struct); ok {
		for i := 0; i < st.NumFields(); i++ {
			if st.Field(i).Name() == "servers" {
				slT = underlying(st.Field(i).Type()).(*types.Slice).Elem()
			}
		}
	}
	for _, fail := range []string{"", "restart1", "restart2", "startnew", "oldstop", "shutdown1", "shutdown2", "failed1"} {
		res.n++
		var trace []string
		var newInst *aobj
		old := mkInst("old")
		if slT != nil {
			old.f["servers"] = newVals([]aval{astruct{map[string]aval{"server": aiface{aptr{&aobj{name: "gs", typ: types.Typ[types.Int], f: map[string]aval{}}, ""}, gsT}, "listener": anil{}, "packet": anil{}}}}, slT)
		}
		env := &absEnv{maxSteps: 400000, noFork: true, globals: map[string]*aobj{
			"instances": {name: "instances", typ: types.NewSlice(types.NewPointer(instT)), f: map[string]aval{"": newVals([]aval{aptr{old, ""}}, types.NewPointer(instT))}},
		}}
		outcome := func(name string) aval {
			if fail == name {
				return errObj(name)
			}
			return anil{}
		}
		env.ext = func(callee string, args []aval) (aval, bool) {
			switch {
			case strings.HasPrefix(callee, "callback:"):
				n := strings.TrimPrefix(callee, "callback:")
				trace = append(trace, n)
				return outcome(n), true
			case strings.HasSuffix(callee, "casket.startWithListenerFds"):
				// a reload hands the new instance a (possibly empty) table of inherited sockets; a nil table is what
				// tells startWithListenerFds that this is the first start (first-startup callbacks run)
				if _, isNil := args[len(args)-1].(anil); isNil {
					trace = append(trace, "START-NEW-AS-FIRST-START(nil socket table)")
				} else {
					trace = append(trace, "START-NEW")
				}
				if p, ok := args[1].(aptr); ok {
					newInst = p.obj
					ow, ok1 := env.load(old, "wg").(aptr)
					nw, ok2 := env.load(newInst, "wg").(aptr)
					if (!ok1 || !ok2 || ow.obj != nw.obj) && res.wg == "" {
						res.wg = fmt.Sprintf("Restart, failing step=%q: the instance being started has wait group %s, the old instance %s", fail, describeAval(env.load(newInst, "wg")), describeAval(env.load(old, "wg")))
					}
				}
				return outcome("startnew"), true
			case callee == "invoke:Stop":
				trace = append(trace, "STOP-OLD")
				return outcome("oldstop"), true
			case callee == "invoke:Address":
				return astr("addr"), true
			case callee == "invoke:ServerType":
				return astr("http"), true
			case strings.HasSuffix(callee, "casket.EmitEvent"):
				return atuple{}, true
			}
			return nil, false
		}
		r, und := env.run(rs, []aval{aptr{old, ""}, aiface{aptr{&aobj{name: "casketfile", typ: types.Typ[types.Int], f: map[string]aval{}}, ""}, types.Typ[types.Int]}})
		desc := fmt.Sprintf("Restart, failing step=%q", fail)
		if und != "" {
			if res.oRestart == "" {
				res.oRestart = desc + ": undecided — " + und
			}
			continue
		}
		var want []string
		wantOld := false
		switch fail {
		case "restart1":
			want, wantOld = []string{"restart1", "failed1"}, true
		case "restart2":
			want, wantOld = []string{"restart1", "restart2", "failed1"}, true
		case "startnew":
			want, wantOld = []string{"restart1", "restart2", "START-NEW", "failed1"}, true
		default:
			want = []string{"restart1", "restart2", "START-NEW", "STOP-OLD", "shutdown1", "shutdown2"}
		}
		got := strings.Join(trace, " ")
		tp, _ := r.(atuple)
		var retInst *aobj
		retNil := false
		if len(tp) == 2 {
			if p, ok := tp[0].(aptr); ok {
				retInst = p.obj
			}
			_, retNil = tp[1].(anil)
		}
		if wantOld {
			if got != strings.Join(want, " ") || retInst != old || retNil {
				if res.restart == "" {
					res.restart = fmt.Sprintf("%s: trace [%s], returns old instance=%v error=%v; specification: [%s], the old instance and the error", desc, got, retInst == old, !retNil, strings.Join(want, " "))
				}
			}
			continue
		}
		if got != strings.Join(want, " ") {
			msg := fmt.Sprintf("%s: trace [%s]; specification: [%s]", desc, got, strings.Join(want, " "))
			if strings.Contains(got, "failed1") || !strings.HasPrefix(got, "restart1 restart2 START-NEW") {
				if res.restart == "" {
					res.restart = msg
				}
			} else if res.afterUp == "" {
				res.afterUp = msg
			}
		}
		if retInst == nil || retInst != newInst || !retNil {
			if res.afterUp == "" {
				res.afterUp = fmt.Sprintf("%s: once the new instance is up Restart must return it with a nil error; it returns new instance=%v error=%v", desc, retInst != nil && retInst == newInst, !retNil)
			}
		}
	}
	// ---------------------------------------------------------------- ShutdownCallbacks
	for _, fail := range []string{"", "shutdown1", "shutdown2", "final1"} {
		res.n++
		var trace []string
		inst := mkInst("inst")
		env := &absEnv{maxSteps: 100000, noFork: true, globals: map[string]*aobj{}}
		env.ext = func(callee string, args []aval) (aval, bool) {
			if strings.HasPrefix(callee, "callback:") {
				n := strings.TrimPrefix(callee, "callback:")
				trace = append(trace, n)
				if n == fail {
					return errObj(n), true
				}
				return anil{}, true
			}
			return nil, false
		}
		r, und := env.run(sc, []aval{aptr{inst, ""}})
		desc := fmt.Sprintf("ShutdownCallbacks, failing callback=%q", fail)
		if und != "" {
			if res.oShut == "" {
				res.oShut = desc + ": undecided — " + und
			}
			continue
		}
		nerr := 0
		switch v := r.(type) {
		case avals:
			nerr = len(v.cells)
		case anil:
		default:
			nerr = -1
		}
		wantErrs := 0
		if fail != "" {
			wantErrs = 1
		}
		if got := strings.Join(trace, " "); got != "shutdown1 shutdown2 final1" || nerr != wantErrs {
			if res.shut == "" {
				res.shut = fmt.Sprintf("%s: trace [%s] with %d error(s) reported; specification: every shutdown and final-shutdown callback runs, in order, and %d error(s) are reported", desc, got, nerr, wantErrs)
			}
		}
	}
	return res
}

var _ = ssa.Value(nil)

package main

import (
	"fmt"
	"go/types"
	"net/textproto"
	"strings"
)

// c04R6: "exactly the configured header_upstream / header_downstream changes applied", as two decision tables (E10).
//
//	(a) application: mutateHeadersByRules, evaluated on a header map {Accept: a, X-Tag: zero} for every kind of
//	    rule — +Field (append each value), -Field (delete), Field (set to the last value) — with the placeholder
//	    replacer as an oracle: the values are expanded once, an empty expansion changes nothing, other headers are
//	    left alone.
//	(b) configuration: parseBlock, evaluated on the token lines `header_upstream +X-Tag one` / `+X-Tag two` (and
//	    the downstream twin, a second field, a deletion), must leave in the upstream's rule maps every rule that
//	    was written, in order, in the map of its own direction.
func c04R6(h H) {
	r := h.r
	r.Rule("R6", "configured header changes as decision tables (E10): mutateHeadersByRules appends every value of a +Field rule after the existing ones, deletes for -Field, sets Field to its last value, expands each value through the replacer once, ignores empty expansions and leaves other headers alone, gives one outcome for several rules on one field whichever way the rule map is walked (with every configured +value present), and a regex replacement rule rewrites every line of a repeated field and drops none; parseBlock records every header_upstream / header_downstream line in the rule map of its own direction, keeping every value of repeated +Field lines in configuration order", 2)
	hdrT, _ := types.Unalias(h.p.typeByName("net/http", "Header")).Underlying().(*types.Map)
	strT := types.Typ[types.String]
	if hdrT == nil {
		r.Unresolve("R6", "net/http.Header not found")
		return
	}
	mkHdr := func(kv ...interface{}) amap {
		m := amap{&amapData{vals: map[string]aval{}, keys: map[string]aval{}, typ: hdrT}}
		for i := 0; i+1 < len(kv); i += 2 {
			k := kv[i].(string)
			var vs []aval
			for _, s := range kv[i+1].([]string) {
				vs = append(vs, astr(s))
			}
			m.m.vals["s:"+k] = newVals(vs, strT)
			m.m.keys["s:"+k] = astr(k)
		}
		return m
	}
	vals := func(m amap, name string) string {
		sl, ok := m.m.vals["s:"+name].(avals)
		if !ok {
			return "(absent)"
		}
		var out []string
		for _, c := range sl.cells {
			out = append(out, describeAval(c.f[""]))
		}
		return "[" + strings.Join(out, " ") + "]"
	}
	// ---- (a) application
	if fn := h.fn("R6", pxPkg, "mutateHeadersByRules"); fn != nil {
		type cs struct {
			rule   string
			values []string
			field  string
			want   string
		}
		cases := []cs{
			{"+X-Tag", []string{"one", "two"}, "X-Tag", `["zero" "<one>" "<two>"]`},
			{"+X-New", []string{"one"}, "X-New", `["<one>"]`},
			{"-X-Tag", []string{""}, "X-Tag", "(absent)"},
			{"X-Tag", []string{"one"}, "X-Tag", `["<one>"]`},
			{"X-Tag", []string{"one", "two"}, "X-Tag", `["<two>"]`},
			{"X-New", []string{"one"}, "X-New", `["<one>"]`},
			{"+X-Tag", []string{"{empty}"}, "X-Tag", `["zero"]`},
			{"X-Tag", []string{"{empty}"}, "X-Tag", `["zero"]`},
		}
		var replT types.Type = types.Typ[types.Int]
		var replsT *types.Map
		if fn.Signature.Params().Len() == 4 {
			replT = fn.Signature.Params().At(2).Type()
			replsT, _ = underlying(fn.Signature.Params().At(3).Type()).(*types.Map)
		}
		bad, nrun := "", 0
		for _, c := range cases {
			if bad != "" {
				break
			}
			expanded := map[string]int{}
			env := &absEnv{globals: map[string]*aobj{}, noFork: true, maxSteps: 100000}
			env.ext = func(callee string, args []aval) (aval, bool) {
				if callee == "invoke:Replace" {
					s, ok := args[1].(astr)
					if !ok {
						return aunk{"Replace of " + describeAval(args[1])}, true
					}
					expanded[string(s)]++
					if s == "{empty}" {
						return astr(""), true
					}
					return astr("<" + string(s) + ">"), true
				}
				return nil, false
			}
			hdr := mkHdr("Accept", []string{"a"}, "X-Tag", []string{"zero"})
			rules := mkHdr(c.rule, c.values)
			var repls aval = anil{}
			if replsT != nil {
				repls = amap{&amapData{vals: map[string]aval{}, keys: map[string]aval{}, typ: replsT}}
			}
			repl := aiface{aptr{&aobj{name: "replacer", typ: types.Typ[types.Int], f: map[string]aval{}}, ""}, replT}
			desc := fmt.Sprintf("headers {Accept: a, X-Tag: zero}, rule %s %v", c.rule, c.values)
			_, und := env.run(fn, []aval{hdr, rules, repl, repls})
			nrun++
			switch {
			case und != "":
				bad = desc + ": undecided — " + und
			case vals(hdr, c.field) != c.want:
				bad = fmt.Sprintf("%s: %s becomes %s, specification says %s", desc, c.field, vals(hdr, c.field), c.want)
			case vals(hdr, "Accept") != `["a"]`:
				bad = desc + ": the untouched header Accept becomes " + vals(hdr, "Accept")
			case c.field != "X-Tag" && vals(hdr, "X-Tag") != `["zero"]`:
				bad = desc + ": the untouched header X-Tag becomes " + vals(hdr, "X-Tag")
			}
			for v, n := range expanded {
				if n > 1 && bad == "" {
					bad = fmt.Sprintf("%s: the value %q is expanded %d times", desc, v, n)
				}
			}
		}
		// ---- several rules on one field: the rules live in a map, whose walk order changes from request to request
		// — the outcome must not depend on it, and a configured +value must be there at the end
		type combo struct {
			rules []interface{}
			must  string // a value X-Tag has to carry afterwards
		}
		combos := []combo{
			{[]interface{}{"-X-Tag", []string{""}, "+X-Tag", []string{"one"}}, `"<one>"`},
			{[]interface{}{"X-Tag", []string{"set"}, "+X-Tag", []string{"one"}}, `"<one>"`},
			{[]interface{}{"-X-Tag", []string{""}, "X-Tag", []string{"set"}}, `"<set>"`},
			{[]interface{}{"-X-Tag", []string{""}, "X-Tag", []string{"set"}, "+X-Tag", []string{"one", "two"}}, `"<two>"`},
		}
		for _, c := range combos {
			if bad != "" {
				break
			}
			var outcomes []string
			desc := fmt.Sprintf("headers {Accept: a, X-Tag: zero}, rules %v", c.rules)
			for _, rev := range []bool{false, true} {
				env := &absEnv{globals: map[string]*aobj{}, noFork: true, maxSteps: 100000, mapRev: rev}
				env.ext = func(callee string, args []aval) (aval, bool) {
					if callee == "invoke:Replace" {
						if s, ok := args[1].(astr); ok {
							return astr("<" + string(s) + ">"), true
						}
					}
					return nil, false
				}
				hdr := mkHdr("Accept", []string{"a"}, "X-Tag", []string{"zero"})
				var repls aval = anil{}
				if replsT != nil {
					repls = amap{&amapData{vals: map[string]aval{}, keys: map[string]aval{}, typ: replsT}}
				}
				repl := aiface{aptr{&aobj{name: "replacer", typ: types.Typ[types.Int], f: map[string]aval{}}, ""}, replT}
				_, und := env.run(fn, []aval{hdr, mkHdr(c.rules...), repl, repls})
				nrun++
				if und != "" {
					bad = desc + ": undecided — " + und
					break
				}
				outcomes = append(outcomes, vals(hdr, "X-Tag"))
			}
			switch {
			case bad != "":
			case outcomes[0] != outcomes[1]:
				bad = fmt.Sprintf("%s: X-Tag becomes %s when the rule map is walked one way and %s the other way — the same configuration changes the same request differently from one request to the next", desc, outcomes[0], outcomes[1])
			case !strings.Contains(outcomes[0], c.must):
				bad = fmt.Sprintf("%s: X-Tag becomes %s; the configured value %s is not applied", desc, outcomes[0], c.must)
			}
		}
		// ---- regex replacement rules: every line of the field is rewritten, none is dropped
		if replsT != nil && bad == "" {
			if sl, ok := underlying(replsT.Elem()).(*types.Slice); ok {
				var reF, toF string
				if st, ok := underlying(sl.Elem()).(*types.Struct); ok {
					for i := 0; i < st.NumFields(); i++ {
						switch st.Field(i).Type().String() {
						case "*regexp.Regexp":
							reF = st.Field(i).Name()
						case "string":
							toF = st.Field(i).Name()
						}
					}
				}
				for _, lines := range [][]string{{"v1"}, {"v1", "w2"}, {"v1", "", "w2"}} {
					if reF == "" || toF == "" {
						bad = "header replacement rule: no regexp / replacement-text fields"
						break
					}
					env := &absEnv{globals: map[string]*aobj{}, noFork: true, maxSteps: 100000}
					env.ext = func(callee string, args []aval) (aval, bool) {
						switch {
						case callee == "invoke:Replace":
							if s, ok := args[1].(astr); ok {
								return astr("<" + string(s) + ">"), true
							}
						case strings.HasSuffix(callee, "regexp.Regexp).ReplaceAllString"):
							a, ok1 := args[1].(astr)
							b, ok2 := args[2].(astr)
							if ok1 && ok2 {
								return astr("re(" + string(a) + "→" + string(b) + ")"), true
							}
						}
						return nil, false
					}
					hdr := mkHdr("Accept", []string{"a"}, "X-Tag", lines)
					rule := astruct{map[string]aval{reF: aptr{&aobj{name: "regexp", typ: types.Typ[types.Int], f: map[string]aval{}}, ""}, toF: astr("to")}}
					repls := amap{&amapData{vals: map[string]aval{"s:x-tag": newVals([]aval{rule}, sl.Elem())}, keys: map[string]aval{"s:x-tag": astr("x-tag")}, typ: replsT}}
					repl := aiface{aptr{&aobj{name: "replacer", typ: types.Typ[types.Int], f: map[string]aval{}}, ""}, replT}
					desc := fmt.Sprintf("headers {Accept: a, X-Tag: %q}, replacement rule on x-tag", lines)
					_, und := env.run(fn, []aval{hdr, mkHdr(), repl, repls})
					nrun++
					var want []string
					for _, l := range lines {
						if l == "" {
							want = append(want, `""`)
						} else {
							want = append(want, fmt.Sprintf("%q", "re("+l+"→<to>)"))
						}
					}
					if und != "" {
						bad = desc + ": undecided — " + und
					} else if got := vals(hdr, "X-Tag"); got != "["+strings.Join(want, " ")+"]" {
						bad = fmt.Sprintf("%s: X-Tag becomes %s; every line is to be rewritten and none dropped: [%s]", desc, got, strings.Join(want, " "))
					} else if vals(hdr, "Accept") != `["a"]` {
						bad = desc + ": the untouched header Accept becomes " + vals(hdr, "Accept")
					}
					if bad != "" {
						break
					}
				}
			}
		}
		r.Check(bad == "", "R6", "proxy.mutateHeadersByRules/rule-table", fn.Pos(), "every kind of configured header rule has exactly its documented effect on the header map and no other", fmt.Sprintf("%d cases evaluated", nrun), bad)
	}
	// ---- (b) configuration
	pb := h.fn("R6", pxPkg, "parseBlock")
	if pb == nil || pb.Signature.Params().Len() < 2 {
		return
	}
	dT := pb.Params[0].Type().(*types.Pointer).Elem()
	uT := pb.Params[1].Type().(*types.Pointer).Elem()
	var tokT types.Type = types.Typ[types.Int]
	if st, ok := underlying(dT).(*types.Struct); ok {
		for k := 0; k < st.NumFields(); k++ {
			if st.Field(k).Name() == "tokens" {
				if sl, ok := underlying(st.Field(k).Type()).(*types.Slice); ok {
					tokT = sl.Elem()
				}
			}
		}
	}
	// the upstream's rule maps, by type: the http.Header fields whose name tells the direction
	var upF, downF string
	if st, ok := underlying(uT).(*types.Struct); ok {
		for k := 0; k < st.NumFields(); k++ {
			if m, ok := types.Unalias(st.Field(k).Type()).Underlying().(*types.Map); ok && types.Identical(m, hdrT) {
				switch n := strings.ToLower(st.Field(k).Name()); {
				case strings.Contains(n, "upstream"):
					upF = st.Field(k).Name()
				case strings.Contains(n, "downstream"):
					downF = st.Field(k).Name()
				}
			}
		}
	}
	if upF == "" || downF == "" {
		r.Unresolve("R6", "staticUpstream: the two http.Header rule maps (upstream / downstream) not found by type")
		return
	}
	type line struct{ dir, field, value string }
	scripts := [][]line{
		{{"header_upstream", "+X-Tag", "one"}, {"header_upstream", "+X-Tag", "two"}},
		{{"header_downstream", "+Link", "one"}, {"header_downstream", "+Link", "two"}},
		{{"header_upstream", "+X-Tag", "one"}, {"header_upstream", "+X-Other", "two"}, {"header_upstream", "+X-Tag", "three"}},
		{{"header_upstream", "+X-Tag", "one"}, {"header_downstream", "+X-Tag", "two"}},
		{{"header_upstream", "X-Tag", "one"}, {"header_upstream", "-X-Gone", ""}},
		{{"header_downstream", "-Server", ""}, {"header_downstream", "+X-Tag", "one"}},
	}
	bad, nrun := "", 0
	for _, sc := range scripts {
		if bad != "" {
			break
		}
		up, down := mkHdr(), mkHdr()
		u := &aobj{name: "upstream", typ: uT, f: map[string]aval{upF: up, downF: down}}
		u.in = func(o *aobj, path string, t types.Type) aval {
			if _, isMap := underlying(t).(*types.Map); isMap {
				return amap{&amapData{vals: map[string]aval{}, keys: map[string]aval{}, typ: underlying(t).(*types.Map)}}
			}
			return zeroOf(t) // an upstream on which nothing else has been configured yet
		}
		var descs []string
		want := map[string]map[string][]string{"header_upstream": {}, "header_downstream": {}}
		for li, ln := range sc {
			toks := []aval{astruct{map[string]aval{"File": astr("Casketfile"), "Line": aint(int64(li + 2)), "Text": astr(ln.dir)}}, astruct{map[string]aval{"File": astr("Casketfile"), "Line": aint(int64(li + 2)), "Text": astr(ln.field)}}}
			d := ln.dir + " " + ln.field
			if ln.value != "" {
				toks = append(toks, astruct{map[string]aval{"File": astr("Casketfile"), "Line": aint(int64(li + 2)), "Text": astr(ln.value)}})
				d += " " + ln.value
			}
			// the next line's first token, so the dispenser sees the end of this line
			toks = append(toks, astruct{map[string]aval{"File": astr("Casketfile"), "Line": aint(int64(li + 3)), "Text": astr("}")}})
			descs = append(descs, d)
			disp := &aobj{name: "dispenser", typ: dT, f: map[string]aval{"cursor": aint(0), "tokens": newVals(toks, tokT), "nesting": aint(1), "filename": astr("Casketfile")}}
			env := &absEnv{globals: map[string]*aobj{}, noFork: true, maxSteps: 200000}
			res, und := env.run(pb, []aval{aptr{disp, ""}, aptr{u, ""}, abool(false)})
			nrun++
			if und != "" {
				bad = "line `" + d + "`: parseBlock undecided — " + und
				break
			}
			if _, isNil := res.(anil); !isNil {
				bad = "line `" + d + "`: parseBlock rejects the line: " + describeAval(res)
				break
			}
			want[ln.dir][ln.field] = append(want[ln.dir][ln.field], ln.value)
		}
		if bad != "" {
			break
		}
		where := "lines `" + strings.Join(descs, "`, `") + "`"
		for dir, m := range map[string]amap{"header_upstream": up, "header_downstream": down} {
			// what the code keeps may have been re-assigned to the field
			if cur, ok := u.f[map[string]string{"header_upstream": upF, "header_downstream": downF}[dir]].(amap); ok {
				m = cur
			}
			for field, vs := range want[dir] {
				var q []string
				for _, v := range vs {
					q = append(q, fmt.Sprintf("%q", v))
				}
				w := "[" + strings.Join(q, " ") + "]"
				got := vals(m, textproto.CanonicalMIMEHeaderKey(field))
				ok := got == w
				if !strings.HasPrefix(field, "+") && got != "(absent)" {
					// set and delete rules: only the last value matters to the application
					ok = strings.HasSuffix(got, q[len(q)-1]+"]")
				}
				if !ok && bad == "" {
					bad = fmt.Sprintf("%s: the %s rules for %s are %s, the configuration says %s", where, dir, field, got, w)
				}
			}
			canonWant := map[string]bool{}
			for field := range want[dir] {
				canonWant[textproto.CanonicalMIMEHeaderKey(field)] = true
			}
			for k := range m.m.vals {
				if !canonWant[strings.TrimPrefix(k, "s:")] && bad == "" {
					bad = fmt.Sprintf("%s: a rule for %s appears among the %s rules, where the configuration has none", where, strings.TrimPrefix(k, "s:"), dir)
				}
			}
		}
	}
	r.Check(bad == "", "R6", "proxy.parseBlock/header-rules-table", pb.Pos(), "every configured header rule is recorded, in order, for its own direction", fmt.Sprintf("%d lines parsed", nrun), bad)
}

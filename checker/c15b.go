package main

import (
	"go/token"
	"go/types"
	"strings"

	"golang.org/x/tools/go/ssa"
)

// c15R4: "manual" sticks.  A site's TLS config is shared by all tls directives written for the site; the flags that
// take the site out of managed HTTPS (Manual: the user supplies certificates; SelfSigned) are only ever raised.  A
// store of a computed value lets a later, unrelated `tls { … }` line lower the flag an earlier `tls cert key` line
// raised — the site would then be given a managed certificate although it was configured as manual.
func c15R4(h H) {
	r := h.r
	r.Rule("R4", "opt-outs are sticky: every store to the fields Manual and SelfSigned of a caskettls.Config anywhere in the module writes the constant true, or a value that is true whenever the field already was (old || x); no directive line can lower what an earlier one raised", 2)
	n := 0
	for _, fn := range h.p.ModFuncs() {
		allInstrs(fn, func(in ssa.Instruction) {
			st, ok := in.(*ssa.Store)
			if !ok {
				return
			}
			fa, ok := st.Addr.(*ssa.FieldAddr)
			if !ok || !strings.HasSuffix(derefType(fa.X.Type()).String(), "caskettls.Config") {
				return
			}
			f := fieldName(fa.X.Type(), fa.Field)
			if f != "Manual" && f != "SelfSigned" {
				return
			}
			if _, fresh := rootOf(fa).(*ssa.Alloc); fresh && strings.HasPrefix(fn.Name(), "New") {
				return // a constructor initialising a fresh config
			}
			n++
			ok2 := false
			if c, isC := st.Val.(*ssa.Const); isC && c.Value != nil && c.Value.String() == "true" {
				ok2 = true
			}
			isOldLoad := func(v ssa.Value) bool {
				ld, ok := v.(*ssa.UnOp)
				if !ok || ld.Op != token.MUL {
					return false
				}
				fa2, ok := ld.X.(*ssa.FieldAddr)
				return ok && fieldName(fa2.X.Type(), fa2.Field) == f
			}
			if b, isB := st.Val.(*ssa.BinOp); isB && b.Op == token.OR && (isOldLoad(b.X) || isOldLoad(b.Y)) {
				ok2 = true
			}
			if ph, isPhi := st.Val.(*ssa.Phi); isPhi {
				// old || x: the true edge comes straight from a branch on the field's old value
				for k, e := range ph.Edges {
					c, isC := e.(*ssa.Const)
					if !isC || c.Value == nil || c.Value.String() != "true" {
						continue
					}
					if i, ok := lastInstr(ph.Block().Preds[k]).(*ssa.If); ok && isOldLoad(i.Cond) && ph.Block().Preds[k].Succs[0] == ph.Block() {
						ok2 = true
					}
				}
			}
			r.Check(ok2, "R4", shortFunc(fn)+"/"+f+"-only-raised", st.Pos(), "the flag that keeps the site out of managed HTTPS is raised, never recomputed", "stores "+describe(st.Val))
		})
	}
	if n < 2 {
		r.Unresolve("R4", sprintf("only %d stores to Config.Manual/SelfSigned found", n))
	}
}

func derefType(t types.Type) types.Type {
	if p, ok := t.Underlying().(*types.Pointer); ok {
		return p.Elem()
	}
	return t
}

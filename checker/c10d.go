package main

import (
	"fmt"
	"go/token"
	"go/types"
	"strings"
	"unicode/utf8"

	"golang.org/x/tools/go/ssa"
)

// c10R9: "exactly those written, in order, regardless of insignificant whitespace, comments and line breaks inside
// quotes", as a decision table of the lexer (E10).  allTokens is evaluated on concrete texts, the buffered reader
// being an oracle that hands out the text rune by rune.  Every text comes with the token list the Casketfile syntax
// gives it — the words, what is inside quotes with \" unescaped and every other backslash kept, and for each token the
// line it begins on (1 + the line breaks before its first character, those inside earlier quoted tokens included).
// Layout variants of one configuration (tabs, runs of blanks, CRLF, blank lines, comments, a byte order mark) must
// all give the same words.
func c10R9(h H) {
	r := h.r
	r.Rule("R9", "the lexer as a decision table (E10): allTokens, evaluated rune by rune on texts with blanks, tabs, CRLF, blank lines, comments (own line, trailing, `#` directly after a word, `#` inside quotes), a byte order mark, quoted tokens holding blanks, line breaks, `#`, braces, \\\" and other backslashes, an unterminated quote, an empty quoted token and an empty text, yields exactly the written words in order, each with the line it begins on", 1)
	fn := h.fn("R9", cfPkg, "allTokens")
	if fn == nil {
		return
	}
	type tok struct {
		text string
		line int
	}
	type cs struct {
		name string
		in   string
		want []tok
	}
	w := func(pairs ...interface{}) []tok {
		var out []tok
		for i := 0; i+1 < len(pairs); i += 2 {
			out = append(out, tok{pairs[i].(string), pairs[i+1].(int)})
		}
		return out
	}
	base := w("host", 1, "{", 1, "gzip", 2, "foo", 2, "log", 3, "out put", 3, "}", 4)
	cases := []cs{
		{"canonical layout", "host {\n gzip foo\n log \"out put\"\n}", base},
		{"tabs and runs of blanks", "host\t \t{\n\t\tgzip    foo   \n  log\t\"out put\"  \n}\n", base},
		{"CRLF line ends", "host {\r\n gzip foo\r\n log \"out put\"\r\n}\r\n", base},
		{"byte order mark", "\ufeffhost {\n gzip foo\n log \"out put\"\n}", base},
		{"trailing comments", "host { # the site\n gzip foo # compress\n log \"out put\"#x\n}", base},
		{"blank and comment lines shift the line numbers only", "# head\n\nhost {\n\n gzip foo\n # none\n log \"out put\"\n}", w("host", 3, "{", 3, "gzip", 5, "foo", 5, "log", 7, "out put", 7, "}", 8)},
		{"# after a word starts a comment that runs to the end of the line", "a#b c\nd", w("a", 1, "d", 2)},
		{"# after a word, at the end of the text", "a b#c d", w("a", 1, "b", 1)},
		{"# inside quotes is kept", "log \"a # b\" c", w("log", 1, "a # b", 1, "c", 1)},
		{"braces inside quotes are text", "log \"{ }\" {", w("log", 1, "{ }", 1, "{", 1)},
		{"line break inside quotes", "log \"a\nb\" c\nd", w("log", 1, "a\nb", 1, "c", 2, "d", 3)},
		{"two line breaks inside quotes, then a comment", "x \"1\n2\n3\" # c\ny", w("x", 1, "1\n2\n3", 1, "y", 4)},
		{"escaped quote", "say \"a \\\"b\\\" c\" d", w("say", 1, "a \"b\" c", 1, "d", 1)},
		{"other backslashes are kept", "re \"\\d+\\\\x\" \\n", w("re", 1, "\\d+\\\\x", 1, "\\n", 1)},
		{"empty quoted token", "a \"\" b", w("a", 1, "", 1, "b", 1)},
		{"quote in the middle of a word is text", "a\"b c\"d", w("a\"b", 1, "c\"d", 1)},
		{"unterminated quote runs to the end", "a \"b c\nd", w("a", 1, "b c\nd", 1)},
		{"non-ASCII words", "höst { \"ü ß\" }", w("höst", 1, "{", 1, "ü ß", 1, "}", 1)},
		{"only blanks and comments", " \n# nothing\n\t\n", nil},
		{"empty text (an empty file among imported ones)", "", nil},
		{"word at the very end without line break", "a b", w("a", 1, "b", 1)},
	}
	if theTier == "thorough" {
		// one configuration rendered with every combination of in-line separator, line end and byte order mark;
		// the expected tokens and lines follow from the construction
		rows := [][]string{{"host", "{"}, {"gzip", "foo"}, {"log", "\"out put\"", "x"}, {"}"}}
		for _, sep := range []string{" ", "\t", "   ", " \t "} {
			for _, eol := range []string{"\n", "\r\n", " \n", " # c\n", "\n\n", "\n# c\n"} {
				for _, bom := range []string{"", "\ufeff"} {
					text := bom
					var want []tok
					line := 1
					for _, row := range rows {
						text += strings.Join(row, sep) + eol
						for _, t := range row {
							want = append(want, tok{strings.Trim(t, "\""), line})
						}
						line += strings.Count(eol, "\n")
					}
					cases = append(cases, cs{fmt.Sprintf("generated layout: separator %q, line end %q, BOM %v", sep, eol, bom != ""), text, want})
				}
			}
		}
	}
	var tokT types.Type = types.Typ[types.Int]
	if t := h.p.typeByName(modPath+"/"+cfPkg, "Token"); t != nil {
		tokT = t
	}
	_ = tokT
	bad, nrun := "", 0
	for _, c := range cases {
		text := c.in
		pos, last := 0, 0
		eofObj := &aobj{name: "io.EOF", typ: types.Typ[types.Int], f: map[string]aval{}}
		eof := aiface{aptr{eofObj, ""}, types.Typ[types.Int]}
		env := &absEnv{globals: map[string]*aobj{"EOF": {name: "io.EOF variable", typ: types.Typ[types.Int], f: map[string]aval{"": eof}}}, noFork: true, maxSteps: 2000000}
		reader := &aobj{name: "buffered reader", typ: types.Typ[types.Int], f: map[string]aval{}}
		env.ext = func(callee string, args []aval) (aval, bool) {
			switch callee {
			case "bufio.NewReader", "bufio.NewReaderSize":
				return aptr{reader, ""}, true
			case "(*bufio.Reader).ReadRune":
				if pos >= len(text) {
					last = 0
					return atuple{aint(0), aint(0), eof}, true
				}
				rn, size := utf8.DecodeRuneInString(text[pos:])
				pos += size
				last = size
				return atuple{aint(int64(rn)), aint(int64(size)), anil{}}, true
			case "(*bufio.Reader).UnreadRune":
				pos -= last
				last = 0
				return anil{}, true
			}
			return nil, false
		}
		input := aiface{aptr{&aobj{name: "input", typ: types.Typ[types.Int], f: map[string]aval{}}, ""}, types.Typ[types.Int]}
		res, und := env.run(fn, []aval{input})
		nrun++
		desc := fmt.Sprintf("%s (%q)", c.name, c.in)
		if und != "" {
			bad = desc + ": undecided — " + und
			break
		}
		tp, ok := res.(atuple)
		if !ok || len(tp) != 2 {
			bad = desc + ": returns " + describeAval(res)
			break
		}
		if _, isNil := tp[1].(anil); !isNil {
			bad = desc + ": rejected with " + describeAval(tp[1])
			break
		}
		var got []tok
		if sl, ok := tp[0].(avals); ok {
			for _, cell := range sl.cells {
				t, _ := cell.f["Text"].(astr)
				l, _ := cell.f["Line"].(aint)
				if _, isStr := cell.f["Text"].(astr); !isStr {
					t = astr("?" + describeAval(cell.f["Text"]))
				}
				got = append(got, tok{string(t), int(l)})
			}
		}
		show := func(ts []tok) string {
			var out []string
			for _, t := range ts {
				out = append(out, fmt.Sprintf("%q@%d", t.text, t.line))
			}
			return "[" + strings.Join(out, " ") + "]"
		}
		if show(got) != show(c.want) {
			bad = fmt.Sprintf("%s: the lexer yields %s, the syntax says %s", desc, show(got), show(c.want))
			break
		}
	}
	r.Check(bad == "" && nrun == len(cases), "R9", "casketfile.allTokens/lexer-table", fn.Pos(), "the tokens are the written words, in order, whatever the layout, with the line each begins on", fmt.Sprintf("%d texts lexed", nrun), bad)
}

// c10R10: a parse depends on the text it is given and on the files it imports — not on an earlier parse.  The reload
// path parses the configuration again in the same process; anything the parser remembered in package-level state
// (tokens of an imported file, say, keyed by name and modification time) makes a later reload answer with what was on
// disk earlier.  In package casketfile no function other than the package initialiser writes a package-level
// variable: no store to one (or to a field or element of one) and no update of a map held in one.
func c10R10(h H) { parserHasNoMemory(h, "R10") }

func parserHasNoMemory(h H, rule string) {
	r := h.r
	r.Rule(rule, "the parser has no memory: in package casketfile no function outside the package initialisers stores to a package-level variable (or a field or element of one) or updates a map held in one — a second parse in the same process (a reload) sees exactly what a first one would", 1)
	underGlobal := func(v ssa.Value) *ssa.Global {
		for i := 0; i < 8; i++ {
			switch t := v.(type) {
			case *ssa.Global:
				if t.Pkg != nil && strings.HasSuffix(t.Pkg.Pkg.Path(), "/"+cfPkg) {
					return t
				}
				return nil
			case *ssa.FieldAddr:
				v = t.X
			case *ssa.IndexAddr:
				v = t.X
			case *ssa.UnOp:
				v = t.X
			default:
				return nil
			}
		}
		return nil
	}
	n, bad := 0, ""
	var pos token.Pos
	for _, fn := range h.p.PkgFuncs(cfPkg) {
		for _, g := range withClosures(fn) {
			if g.Name() == "init" || strings.HasPrefix(g.Name(), "init#") {
				continue
			}
			n++
			allInstrs(g, func(in ssa.Instruction) {
				var gl *ssa.Global
				switch t := in.(type) {
				case *ssa.Store:
					gl = underGlobal(t.Addr)
				case *ssa.MapUpdate:
					gl = underGlobal(t.Map)
				}
				if gl != nil && bad == "" {
					bad = sprintf("%s writes the package-level variable %s at %s", shortFunc(g), gl.Name(), h.p.Pos(in.Pos()))
					pos = in.Pos()
				}
			})
		}
	}
	if n < 20 {
		r.Unresolve(rule, sprintf("package casketfile: only %d functions found", n))
		return
	}
	r.Check(bad == "", rule, "casketfile/no-package-state-written-while-parsing", pos, "nothing of one parse is remembered for the next", sprintf("%d functions examined", n), bad)
}

package main

import (
	"fmt"
	"go/token"
	"go/types"
	"os"
	"path"
	"sort"
	"strings"
)

// c10R8: "the blocks, their keys and each directive's argument tokens are exactly those written … regardless of
// whether the text was written inline, in a snippet or in an imported file", as a decision table (E10).  The parser
// (parseAll, on a token list — the lexer is R5/R2's business) is evaluated on pairs of configurations: one written
// inline, one with parts of it moved into snippets (also nested ones, ones that begin with an import, ones that
// contain a sub-block) or into an imported file (the file system and the lexing of that file being oracles).  Both
// must be accepted and yield the same blocks: same keys, same directives, same argument texts in the same order.
// c10ParseTable evaluates the parser table (see c10R8); it is also what decides C09 R2.
func c10ParseTable(h H) (bad, envBad string, nrun int, pos token.Pos) {
	fn := h.p.Func(cfPkg, "(*parser).parseAll")
	if fn == nil {
		return "casketfile.(*parser).parseAll not found", "", 0, token.NoPos
	}
	pT := fn.Params[0].Type().(*types.Pointer).Elem()
	var tokT types.Type = types.Typ[types.Int]
	if t := h.p.typeByName(modPath+"/"+cfPkg, "Token"); t != nil {
		tokT = t
	}
	// a word containing ⏎ stands for a quoted token with a line break inside: it begins on its line, and what follows
	// it (on its physical line and below) is one line further down
	lex := func(file, text string) []aval {
		var toks []aval
		extra := 0
		for li, ln := range strings.Split(text, "\n") {
			for _, t := range strings.Fields(ln) {
				toks = append(toks, astruct{map[string]aval{"File": astr(file), "Line": aint(int64(li + 1 + extra)), "Text": astr(strings.ReplaceAll(t, "⏎", "\n"))}})
				extra += strings.Count(t, "⏎")
			}
		}
		return toks
	}
	type cs struct {
		name   string
		inline string
		other  string
		files  map[string]string
		must   string // what the inline form has to parse to (where the pair alone would not pin it)
	}
	cases := []cs{
		{"snippet imported in the middle of a block", "host {\n root /a\n gzip foo\n log out\n}", "(s) {\n gzip foo\n}\nhost {\n root /a\n import s\n log out\n}", nil, `{"host": gzip→["gzip" "foo"]; log→["log" "out"]; root→["root" "/a"]}`},
		{"snippet imported as first line", "host {\n gzip foo\n log out\n}", "(s) {\n gzip foo\n}\nhost {\n import s\n log out\n}", nil, ""},
		{"snippet imported as last line", "host {\n log out\n gzip foo\n}", "(s) {\n gzip foo\n}\nhost {\n log out\n import s\n}", nil, ""},
		{"snippet as the only line", "host {\n gzip foo\n}", "(s) {\n gzip foo\n}\nhost {\n import s\n}", nil, ""},
		{"two-line snippet", "host {\n gzip foo\n errors e.log\n log out\n}", "(s) {\n gzip foo\n errors e.log\n}\nhost {\n import s\n log out\n}", nil, ""},
		{"nested snippets, the outer one beginning with the import", "host {\n gzip foo\n log out\n}", "(inner) {\n gzip foo\n}\n(outer) {\n import inner\n log out\n}\nhost {\n import outer\n}", nil, ""},
		{"nested snippets, the import in the middle", "host {\n root /a\n gzip foo\n log out\n}", "(inner) {\n gzip foo\n}\n(outer) {\n root /a\n import inner\n log out\n}\nhost {\n import outer\n}", nil, ""},
		{"snippet holding a sub-block", "host {\n root /a\n errors {\n  404 x.html\n  500 y.html\n }\n log out\n}", "(s) {\n errors {\n  404 x.html\n  500 y.html\n }\n}\nhost {\n root /a\n import s\n log out\n}", nil, ""},
		{"same snippet in two blocks", "a.host {\n gzip foo\n}\nb.host {\n gzip foo\n log out\n}", "(s) {\n gzip foo\n}\na.host {\n import s\n}\nb.host {\n import s\n log out\n}", nil, ""},
		{"block without braces", "host\ngzip foo\nlog out", "(s) {\n gzip foo\n}\nhost\nimport s\nlog out", nil, ""},
		{"imported file in the middle", "host {\n root /a\n gzip foo\n log out\n}", "host {\n root /a\n import f.conf\n log out\n}", map[string]string{"/etc/f.conf": "gzip foo"}, ""},
		{"imported file, two lines, as first line", "host {\n gzip foo\n errors e.log\n log out\n}", "host {\n import f.conf\n log out\n}", map[string]string{"/etc/f.conf": "gzip foo\nerrors e.log"}, ""},
		{"imported file that begins with the import of a snippet", "host {\n gzip foo\n log out\n}", "(s) {\n gzip foo\n}\nhost {\n import f.conf\n}", map[string]string{"/etc/f.conf": "import s\nlog out"}, ""},
		{"snippet imported inside a sub-block", "host {\n errors {\n  404 x.html\n  500 y.html\n }\n}", "(s) {\n 404 x.html\n}\nhost {\n errors {\n  import s\n  500 y.html\n }\n}", nil, ""},
		{"nested snippets imported inside a sub-block", "host {\n errors {\n  404 x.html\n  500 y.html\n }\n}", "(inner) {\n 404 x.html\n}\n(outer) {\n import inner\n 500 y.html\n}\nhost {\n errors {\n  import outer\n }\n}", nil, ""},
		{"two snippets imported one after the other", "host {\n gzip foo\n log out\n root /a\n}", "(s) {\n gzip foo\n}\n(t) {\n log out\n}\nhost {\n import s\n import t\n root /a\n}", nil, ""},
		{"snippet defined after use site's file position is irrelevant: snippet with arguments spanning lines", "host {\n proxy / a b {\n  policy x\n }\n log out\n}", "(s) {\n proxy / a b {\n  policy x\n }\n}\nhost {\n import s\n log out\n}", nil, ""},
		{"import on the line of the opening brace", "host { gzip foo\n log out\n}", "(s) {\n gzip foo\n}\nhost { import s\n log out\n}", nil, ""},
		{"a file of whole blocks imported at top level", "a.host {\n gzip foo\n}\nb.host {\n log out\n}", "import f.conf\nb.host {\n log out\n}", map[string]string{"/etc/f.conf": "a.host {\n gzip foo\n}"}, ""},
		{"a file of whole blocks imported between blocks", "a.host {\n gzip foo\n}\nc.host {\n root /c\n}\nb.host {\n log out\n}", "a.host {\n gzip foo\n}\nimport f.conf\nb.host {\n log out\n}", map[string]string{"/etc/f.conf": "c.host {\n root /c\n}"}, ""},
		{"a file of addresses imported in the address line", "a.host,\nb.host {\n log out\n}", "import f.conf\nb.host {\n log out\n}", map[string]string{"/etc/f.conf": "a.host,"}, ""},
		{"a token with a line break inside, followed by an argument on its line", "host {\n log a⏎b c\n gzip foo\n}", "(s) {\n log a⏎b c\n}\nhost {\n import s\n gzip foo\n}", nil, `{"host": gzip→["gzip" "foo"]; log→["log" "a\nb" "c"]}`},
		{"a token with a line break inside ends its line", "host {\n log a⏎b\n gzip foo\n}", "(s) {\n gzip foo\n}\nhost {\n log a⏎b\n import s\n}", nil, `{"host": gzip→["gzip" "foo"]; log→["log" "a\nb"]}`},
		{"an environment value with a line break, followed by an argument on its line", "host {\n log {$NL} c\n gzip foo\n}", "(s) {\n log {$NL} c\n}\nhost {\n import s\n gzip foo\n}", nil, `{"host": gzip→["gzip" "foo"]; log→["log" "a\nb" "c"]}`},
		{"repeated directive keeps its order", "host {\n header /a X 1\n gzip foo\n header /b Y 2\n}", "(s) {\n gzip foo\n header /b Y 2\n}\nhost {\n header /a X 1\n import s\n}", nil, `{"host": gzip→["gzip" "foo"]; header→["header" "/a" "X" "1" "header" "/b" "Y" "2"]}`},
		{"a directive repeated around another one with arguments", "host {\n header /a X 1\n rewrite /old /new\n header /b Y 2\n log out\n}", "(s) {\n rewrite /old /new\n}\nhost {\n header /a X 1\n import s\n header /b Y 2\n log out\n}", nil, `{"host": header→["header" "/a" "X" "1" "header" "/b" "Y" "2"]; log→["log" "out"]; rewrite→["rewrite" "/old" "/new"]}`},
	}
	if theTier == "thorough" {
		// every contiguous run of lines of a six-line block moved into a snippet, and every split of it into two
		// snippets (the second imported from within the first or after it), against the inline form
		lines := []string{"root /a", "gzip foo", "header /x A 1", "errors {", " 404 x.html", "}", "header /y B 2", "log out"}
		// a sub-block is one unit
		units := [][]string{{lines[0]}, {lines[1]}, {lines[2]}, {lines[3], lines[4], lines[5]}, {lines[6]}, {lines[7]}}
		flat := func(us [][]string) []string {
			var out []string
			for _, u := range us {
				out = append(out, u...)
			}
			return out
		}
		inline := "host {\n " + strings.Join(flat(units), "\n ") + "\n}"
		want := `{"host": errors→["errors" "{" "404" "x.html" "}"]; gzip→["gzip" "foo"]; header→["header" "/x" "A" "1" "header" "/y" "B" "2"]; log→["log" "out"]; root→["root" "/a"]}`
		for i := 0; i < len(units); i++ {
			for j := i + 1; j <= len(units); j++ {
				other := "(s) {\n " + strings.Join(flat(units[i:j]), "\n ") + "\n}\nhost {\n"
				if i > 0 {
					other += " " + strings.Join(flat(units[:i]), "\n ") + "\n"
				}
				other += " import s\n"
				if j < len(units) {
					other += " " + strings.Join(flat(units[j:]), "\n ") + "\n"
				}
				other += "}"
				cases = append(cases, cs{fmt.Sprintf("lines %d–%d of a six-directive block in a snippet", i+1, j), inline, other, nil, want})
				for k := i + 1; k < j; k++ {
					// split the run: the inner snippet holds units[k:j], the outer one units[i:k] and the import
					nested := "(inner) {\n " + strings.Join(flat(units[k:j]), "\n ") + "\n}\n(outer) {\n " + strings.Join(flat(units[i:k]), "\n ") + "\n import inner\n}\nhost {\n"
					if i > 0 {
						nested += " " + strings.Join(flat(units[:i]), "\n ") + "\n"
					}
					nested += " import outer\n"
					if j < len(units) {
						nested += " " + strings.Join(flat(units[j:]), "\n ") + "\n"
					}
					nested += "}"
					cases = append(cases, cs{fmt.Sprintf("lines %d–%d in nested snippets split after line %d", i+1, j, k), inline, nested, nil, want})
				}
			}
		}
	}
	parse := func(text string, files map[string]string) (string, string) {
		p := &aobj{name: "parser", typ: pT, f: map[string]aval{
			"Dispenser.filename": astr("/etc/Casketfile"), "Dispenser.cursor": aint(-1), "Dispenser.nesting": aint(0),
			"Dispenser.tokens": newVals(lex("/etc/Casketfile", text), tokT),
		}}
		env := &absEnv{globals: map[string]*aobj{}, noFork: true, maxSteps: 2000000}
		env.ext = func(callee string, args []aval) (aval, bool) {
			switch {
			case callee == "os.Getenv":
				if k, ok := args[0].(astr); ok && k == "NL" {
					return astr("a\nb"), true
				}
				return astr(""), true
			case callee == "path/filepath.Abs":
				if s, ok := args[0].(astr); ok {
					if !strings.HasPrefix(string(s), "/") {
						s = "/etc/" + s
					}
					return atuple{s, anil{}}, true
				}
			case callee == "path/filepath.Glob":
				if s, ok := args[0].(astr); ok {
					if _, have := files[string(s)]; have {
						return atuple{newVals([]aval{s}, types.Typ[types.String]), anil{}}, true
					}
					return atuple{anil{}, anil{}}, true
				}
			case strings.HasSuffix(callee, "parser).doSingleImport"):
				if s, ok := args[1].(astr); ok {
					return atuple{newVals(lex(string(s), files[string(s)]), tokT), anil{}}, true
				}
			case callee == "path/filepath.IsAbs":
				if s, ok := args[0].(astr); ok {
					return abool(strings.HasPrefix(string(s), "/")), true
				}
			case callee == "path/filepath.Dir":
				if s, ok := args[0].(astr); ok {
					return astr(path.Dir(string(s))), true
				}
			case callee == "path/filepath.Join":
				if sl, ok := args[0].(avals); ok {
					var parts []string
					for _, c := range sl.cells {
						p, ok := c.f[""].(astr)
						if !ok {
							return nil, false
						}
						parts = append(parts, string(p))
					}
					return astr(path.Join(parts...)), true
				}
			case callee == "log.Printf":
				return atuple{}, true
			}
			return nil, false
		}
		res, und := env.run(fn, []aval{aptr{p, ""}})
		if und != "" {
			return "", "undecided — " + und
		}
		tp, ok := res.(atuple)
		if !ok || len(tp) != 2 {
			return "", "parseAll returned " + describeAval(res)
		}
		if _, isNil := tp[1].(anil); !isNil {
			return "", "rejected: " + describeAval(tp[1])
		}
		blocks, ok := tp[0].(avals)
		if !ok {
			if _, isNil := tp[0].(anil); isNil {
				return "(no blocks)", ""
			}
			return "", "blocks: " + describeAval(tp[0])
		}
		var out []string
		for _, c := range blocks.cells {
			var keys []string
			if ks, ok := c.f["Keys"].(avals); ok {
				for _, k := range ks.cells {
					keys = append(keys, describeAval(k.f[""]))
				}
			}
			var dirs []string
			if m, ok := c.f["Tokens"].(amap); ok {
				for k, v := range m.m.vals {
					var texts []string
					if sl, ok := v.(avals); ok {
						for _, t := range sl.cells {
							texts = append(texts, describeAval(t.f["Text"]))
						}
					} else {
						texts = append(texts, describeAval(v))
					}
					dirs = append(dirs, strings.TrimPrefix(k, "s:")+"→["+strings.Join(texts, " ")+"]")
				}
			} else {
				dirs = append(dirs, "tokens: "+describeAval(c.f["Tokens"]))
			}
			sort.Strings(dirs)
			out = append(out, "{"+strings.Join(keys, ",")+": "+strings.Join(dirs, "; ")+"}")
		}
		return strings.Join(out, " "), ""
	}
	for _, c := range cases {
		a, e1 := parse(c.inline, nil)
		b, e2 := parse(c.other, c.files)
		if os.Getenv("VT_DEBUG") == "parse" {
			fmt.Fprintf(os.Stderr, "PARSE %s\n  inline: %s %s\n  other:  %s %s\n", c.name, a, e1, b, e2)
		}
		nrun += 2
		show := func(s string) string { return "`" + strings.ReplaceAll(s, "\n", " ⏎") + "`" }
		switch {
		case e1 != "":
			bad = fmt.Sprintf("%s: the inline form %s: %s", c.name, show(c.inline), e1)
		case e2 != "":
			bad = fmt.Sprintf("%s: %s: %s (the inline form %s is accepted)", c.name, show(c.other), e2, show(c.inline))
		case a != b:
			bad = fmt.Sprintf("%s: %s parses to %s, but the inline form %s to %s", c.name, show(c.other), b, show(c.inline), a)
		case c.must != "" && a != c.must:
			bad = fmt.Sprintf("%s: the inline form %s parses to %s, the syntax says %s", c.name, show(c.inline), a, c.must)
		case !strings.Contains(a, "host"):
			bad = fmt.Sprintf("%s: the inline form %s parses to %s", c.name, show(c.inline), a)
		}
		if bad != "" {
			break
		}
	}
	// the one case of this kind the tree is known to get wrong, kept apart
	{
		got, e := parse("host {\n log {$NL}\n gzip foo\n}", nil)
		want := `{"host": gzip→["gzip" "foo"]; log→["log" "a\nb"]}`
		if e != "" {
			envBad = "`host { ⏎ log {$NL} ⏎ gzip foo ⏎}` with NL=\"a\\nb\": " + e
		} else if got != want {
			envBad = "`host { ⏎ log {$NL} ⏎ gzip foo ⏎}` with NL=\"a\\nb\" parses to " + got + ", the syntax says " + want + " (the line after the value is taken for its arguments)"
		}
	}
	return bad, envBad, nrun, fn.Pos()
}

func c10R8(h H) {
	r := h.r
	r.Rule("R8", "inline = snippet = imported file, as a decision table (E10): parseAll evaluated on configurations given as token lists, each written inline and again with parts moved into snippets (first, middle, last and only line of a block; nested snippets; a snippet that begins with an import; a snippet holding a sub-block; a block without braces) or into an imported file, yields the same server blocks: the same keys and for every directive the same argument texts in the same order", 1)
	bad, envBad, nrun, pos := c10ParseTable(h)
	if nrun == 0 {
		r.Unresolve("R8", bad)
		return
	}
	r.Check(envBad == "", "R8", "casketfile.(*parser).parseAll/env-value-with-line-break", pos, "an environment value that holds a line break does not change which line the following tokens are on", envBad)
	r.Check(bad == "", "R8", "casketfile.(*parser).parseAll/inline-snippet-import-table", pos, "a configuration means the same whether its lines are written inline, in a snippet or in an imported file", fmt.Sprintf("%d configurations parsed", nrun), bad)
}

package main

import (
	"encoding/json"

	"fmt"
	"golang.org/x/tools/go/ssa"
	"os"
	"path/filepath"
	"runtime/debug"
	"sort"
	"strings"
)

// ruleFn analyses one loaded program (one platform) and appends obligations.
type ruleFn func(r *Report, p *Program)

type propSpec struct {
	technique  string
	run        ruleFn
	decided    string
	notDecided string
	assume     []string
	allBodies  bool // needs dependency bodies (whole-program call graph)
}

var props = map[string]*propSpec{}

var debugCmds = map[string]func(*Program){}

func register(id string, s *propSpec) { props[id] = s }

func usage() {
	fmt.Fprintln(os.Stderr, "usage: casketlint check <Cxx> [--tier quick|thorough] | casketlint list | casketlint explain <file>")
	os.Exit(2)
}

func main() {
	if len(os.Args) < 2 {
		usage()
	}
	switch os.Args[1] {
	case "list":
		var ids []string
		for id := range props {
			ids = append(ids, id)
		}
		sort.Strings(ids)
		for _, id := range ids {
			if len(os.Args) > 2 && os.Args[2] == "--json" {
				b, _ := json.Marshal(map[string]string{"id": id, "technique": props[id].technique, "decided": props[id].decided, "not_decided": props[id].notDecided})
				fmt.Println(string(b))
			} else {
				fmt.Println(id)
			}
		}
	case "explain":
		if len(os.Args) < 3 {
			usage()
		}
		b, err := os.ReadFile(os.Args[2])
		if err != nil {
			fmt.Fprintln(os.Stderr, err)
			os.Exit(2)
		}
		os.Stdout.Write(b)
		fmt.Println()
	case "dirmap":
		prog, err := LoadProgram("linux", "amd64", false)
		if err != nil {
			fmt.Fprintln(os.Stderr, err)
			os.Exit(2)
		}
		dm := prog.DirectiveMap()
		var names []string
		for n := range dm.ByName {
			names = append(names, n)
		}
		sort.Slice(names, func(i, j int) bool { return dm.ByName[names[i]].Index < dm.ByName[names[j]].Index })
		for _, n := range names {
			d := dm.ByName[n]
			fmt.Printf("%3d %-14s st=%-5s mod=%-5v action=%v handlers=%v\n", d.Index, n, d.ServerType, d.InModule, d.Action != nil, d.HandlerTys)
		}
		fmt.Println(len(dm.Order), "listed;", len(dm.ByName), "registered")
	case "normdump":
		// debugging aid: print the normalised source of every file the normaliser rewrote
		res, err := normalizeRepo("linux", "amd64")
		if err != nil {
			fmt.Fprintln(os.Stderr, err)
			os.Exit(2)
		}
		for _, l := range res.Inlined {
			fmt.Println("INLINED", l)
		}
		for _, l := range res.Kept {
			fmt.Println("KEPT", l)
		}
		for name, b := range res.Overlay {
			if len(os.Args) > 2 && os.Args[2] == "-q" {
				continue
			}
			fmt.Printf("=== %s\n%s\n", name, b)
		}
	case "knownfuncs":
		// prints the declaration keys of every function in /repo (baseline list for normalize.go)
		m, err := scanFuncDecls(repoDir)
		if err != nil {
			fmt.Fprintln(os.Stderr, err)
			os.Exit(2)
		}
		var ks []string
		for k := range m {
			ks = append(ks, k)
		}
		sort.Strings(ks)
		for _, k := range ks {
			if sh := declShapes[k]; sh != "" {
				fmt.Println(k + "\t" + sh)
			} else {
				fmt.Println(k)
			}
		}
	case "dump":
		// debugging aid: print the SSA of a function
		prog, err := LoadProgram("linux", "amd64", false)
		if err != nil {
			fmt.Fprintln(os.Stderr, err)
			os.Exit(2)
		}
		for _, name := range os.Args[3:] {
			f := prog.Func(os.Args[2], name)
			if f == nil {
				fmt.Println("not found:", name)
				continue
			}
			for _, g := range withClosures(f) {
				g.WriteTo(os.Stdout)
			}
		}
	case "checkall":
		// development aid: one load, every property's rules (linux/amd64, quick); never writes the real evidence
		if os.Getenv("VERIF_OUT") == "" {
			outDir = filepath.Join(os.TempDir(), "vt-checkall")
		}
		prog, err := LoadProgram("linux", "amd64", false)
		if err != nil {
			fmt.Printf("VIOLATION property=all replay=- LOAD-FAILED: %v\n", err)
			os.Exit(1)
		}
		var ids []string
		for id := range props {
			ids = append(ids, id)
		}
		sort.Strings(ids)
		code := 0
		for _, id := range ids {
			func() {
				defer func() {
					if e := recover(); e != nil {
						fmt.Printf("VIOLATION property=%s replay=- CHECKER-PANIC %v\n%s\n", id, e, debug.Stack())
						code = 1
					}
				}()
				spec := props[id]
				rep := NewReport(id, "quick", prog)
				rep.Decided, rep.NotDecided, rep.Assumptions = spec.decided, spec.notDecided, spec.assume
				rep.Platforms = []string{"linux/amd64"}
				spec.run(rep, prog)
				rep.dedupe()
				if rep.Finish() != 0 {
					code = 1
				}
			}()
		}
		os.Exit(code)
	case "check":
		if len(os.Args) < 3 {
			usage()
		}
		id := os.Args[2]
		tier := os.Getenv("VERIF_TIER")
		for i := 3; i < len(os.Args); i++ {
			if os.Args[i] == "--tier" && i+1 < len(os.Args) {
				tier = os.Args[i+1]
				i++
			}
		}
		if tier != "thorough" {
			tier = "quick"
		}
		os.Exit(runCheck(id, tier))
	default:
		if f, ok := debugCmds[os.Args[1]]; ok {
			prog, err := LoadProgram("linux", "amd64", false)
			if err != nil {
				fmt.Fprintln(os.Stderr, err)
				os.Exit(2)
			}
			f(prog)
			return
		}
		usage()
	}
}

func runCheck(id, tier string) (code int) {
	spec := props[id]
	if spec == nil {
		fmt.Fprintf(os.Stderr, "unknown property %s\n", id)
		return 2
	}
	defer func() {
		if e := recover(); e != nil {
			// a checker panic is a failure of the machinery, never a pass
			fmt.Printf("VIOLATION property=%s replay=- CHECKER-PANIC %v\n%s\n", id, e, debug.Stack())
			code = 1
		}
	}()
	theTier = tier
	type plat struct{ os, arch string }
	plats := []plat{{"linux", "amd64"}}
	if tier == "thorough" {
		plats = append(plats, plat{"windows", "amd64"}, plat{"linux", "386"})
	}
	if v := os.Getenv("VT_PLAT"); v != "" { // debugging aid: one platform only, e.g. VT_PLAT=windows/amd64
		if i := strings.Index(v, "/"); i > 0 {
			plats = []plat{{v[:i], v[i+1:]}}
		}
	}
	var rep *Report
	for i, pl := range plats {
		prog, err := LoadProgram(pl.os, pl.arch, spec.allBodies)
		if err != nil {
			fmt.Printf("VIOLATION property=%s replay=- LOAD-FAILED %s/%s: %v\n", id, pl.os, pl.arch, err)
			return 1
		}
		if i == 0 {
			rep = NewReport(id, tier, prog)
			rep.Decided, rep.NotDecided, rep.Assumptions = spec.decided, spec.notDecided, spec.assume
		} else {
			rep.Prog = prog
		}
		rep.Platforms = append(rep.Platforms, pl.os+"/"+pl.arch)
		spec.run(rep, prog)
		rep.dedupe()
	}
	if tier == "thorough" {
		runThoroughExtras(id, rep)
	}
	return rep.Finish()
}

// dedupe merges identical obligations produced on several platforms.
func (r *Report) dedupe() {
	seen := map[string]bool{}
	var out []Ob
	for _, o := range r.Obs {
		k := fmt.Sprintf("%s|%s|%v|%s", o.Rule, o.Construct, o.OK, o.What)
		if seen[k] {
			continue
		}
		seen[k] = true
		out = append(out, o)
	}
	r.Obs = out
	seenU := map[string]bool{}
	var u []string
	for _, x := range r.Unresolved {
		if !seenU[x] {
			seenU[x] = true
			u = append(u, x)
		}
	}
	r.Unresolved = u
}

func init() {
	debugCmds["effects"] = func(prog *Program) {
		dm := prog.DirectiveMap()
		var roots []*ssa.Function
		for _, d := range dm.ByName {
			if d.InModule && d.Action != nil {
				roots = append(roots, d.Action)
			}
		}
		for _, n := range []string{"Start", "(*Instance).Restart", "ValidateAndExecuteDirectives", "startWithListenerFds"} {
			if f := prog.Func("", n); f != nil {
				roots = append(roots, f)
			}
		}
		fns := setupReach(prog, roots)
		effs := collectEffects(prog, fns)
		keys := map[string]int{}
		for _, e := range effs {
			keys[effectKey(e)+"  @"+prog.Pos(e.In.Pos())]++
		}
		var ks []string
		for k := range keys {
			ks = append(ks, k)
		}
		sort.Strings(ks)
		for _, k := range ks {
			fmt.Println(k)
		}
		fmt.Println(len(fns), "functions;", len(effs), "effects")
	}
}

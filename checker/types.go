package main

import (
	"fmt"
	"go/token"
)

var fmtSprintf = fmt.Sprintf

type tokenPos = token.Pos

func sprintf(f string, a ...interface{}) string { return fmtSprintf(f, a...) }

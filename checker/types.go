package main

import "go/token"

type tokenPos = token.Pos

package main

import (
	"strings"

	"golang.org/x/tools/go/ssa"
)

func init() {
	register("C08", &propSpec{
		technique:  "static analysis: SSA CFG acquire/release pairing (typestate) over every function of the module; effect inventory of configuration loads over the module call graph; lifecycle trace tables (E10) for undo-on-failure",
		run:        runC08,
		decided:    "R1 every mutex acquired anywhere in the module is released on every exit of the acquiring function (a leaked lock makes the next load block forever). Since round 4: R3 as a table of startServers: a failing start closes every socket opened or rebuilt so far. R5 also: cloneEventHooks / restoreEventHooks evaluated on a modelled registry leave it exactly as it was. Since round 6: R6 names given to RegisterEventHook at configuration time derive from a per-call unique source (the hooks of a load that failed later stay registered, so a repeatable name would make the next valid load panic). Since round 8: R7 no function registered as a shutdown callback is also a restart-failed callback (those run on the instance that keeps serving).",
		notDecided: "latency bound in seconds; behavioural equality with a fresh process; OS-level socket tables.",
	})
}

var lockMethods = map[string]string{
	"(*sync.Mutex).Lock":    "(*sync.Mutex).Unlock",
	"(*sync.RWMutex).Lock":  "(*sync.RWMutex).Unlock",
	"(*sync.RWMutex).RLock": "(*sync.RWMutex).RUnlock",
}

func lockSpec() pairSpec {
	return pairSpec{
		acquire: func(in ssa.Instruction) (string, bool) {
			c, ok := in.(*ssa.Call)
			if !ok {
				return "", false
			}
			n := calleeName(&c.Call)
			if _, ok := lockMethods[n]; !ok || len(c.Call.Args) == 0 {
				return "", false
			}
			return n + "@" + describe(c.Call.Args[0]), true
		},
		release: func(c *ssa.CallCommon, key string) bool {
			i := strings.Index(key, "@")
			want := lockMethods[key[:i]]
			if calleeName(c) != want || len(c.Args) == 0 {
				return false
			}
			return describe(c.Args[0]) == key[i+1:]
		},
	}
}

func runC08(r *Report, p *Program) {
	c08R1(r, p)
}

func c08R1(r *Report, p *Program) {
	r.Rule("R1", "lock pairing, module-wide: every sync.Mutex/RWMutex Lock/RLock is followed on every path to a Return or explicit panic of the acquiring function by the matching Unlock on the same receiver expression (directly, by defer, or by a deferred closure)", 25)
	spec := lockSpec()
	for _, fn := range p.ModFuncs() {
		for _, res := range spec.run(fn) {
			mu := res.Key[strings.Index(res.Key, "@")+1:]
			construct := shortFunc(fn) + "/" + mu
			if res.BadExit == nil {
				r.Hold("R1", construct, res.Acquire.Pos(), "lock released on every exit", res.Key)
			} else {
				r.Fail("R1", construct, res.Acquire.Pos(),
					"mutex "+mu+" acquired here is still held at the exit at "+p.Pos(exitPos(res.BadExit))+" — the next caller blocks forever", res.Key)
			}
		}
	}
}

// exitPos gives a position for an exit instruction (Return has one; Panic too).
func exitPos(in ssa.Instruction) (pos tokenPos) {
	return in.Pos()
}

package main

import (
	"go/token"
	"go/types"
	"sort"
	"strings"

	"golang.org/x/tools/go/ssa"
)

// errorSources: where the error a function returns can come from — followed through merges, through the results of
// module functions it calls (to a depth), down to the calls that leave the module ("os.Open"), to errors the module
// constructs itself ("new:<function>") and to anything else ("other:<what>").
func errorSources(fn *ssa.Function) []string {
	set := map[string]bool{}
	type key struct {
		v ssa.Value
	}
	seen := map[ssa.Value]bool{}
	var walk func(v ssa.Value, depth int)
	fromCall := func(c *ssa.Call, idx int, depth int) {
		callee := c.Call.StaticCallee()
		if callee != nil && callee.Pkg != nil && isModPkg(callee.Pkg.Pkg.Path()) && len(callee.Blocks) > 0 {
			if depth > 6 {
				set["other:call chain deeper than 6 through "+shortFunc(callee)] = true
				return
			}
			for _, rt := range realReturns(callee) {
				res := retResults(rt)
				if idx < len(res) {
					walk(res[idx], depth+1)
				}
			}
			return
		}
		if mc, ok := c.Call.Value.(*ssa.MakeClosure); ok {
			if f, ok := mc.Fn.(*ssa.Function); ok && len(f.Blocks) > 0 {
				for _, rt := range realReturns(f) {
					res := retResults(rt)
					if idx < len(res) {
						walk(res[idx], depth+1)
					}
				}
				return
			}
		}
		n := calleeName(&c.Call)
		if n == "" {
			n = "dynamic call " + describe(c.Call.Value)
		}
		switch {
		case n == "errors.New" || n == "fmt.Errorf":
			set["new:constructed error"] = true
		default:
			set["call:"+n] = true
		}
	}
	walk = func(v ssa.Value, depth int) {
		if v == nil || seen[v] {
			return
		}
		seen[v] = true
		switch t := v.(type) {
		case *ssa.Const:
			return // nil
		case *ssa.Phi:
			for _, e := range t.Edges {
				walk(e, depth)
			}
		case *ssa.Extract:
			if c, ok := t.Tuple.(*ssa.Call); ok {
				fromCall(c, t.Index, depth)
				return
			}
			set["other:"+describe(v)] = true
		case *ssa.Call:
			fromCall(t, 0, depth)
		case *ssa.MakeInterface:
			set["new:constructed error"] = true
		case *ssa.ChangeInterface:
			walk(t.X, depth)
		case *ssa.ChangeType:
			walk(t.X, depth)
		case *ssa.TypeAssert:
			walk(t.X, depth)
		case *ssa.UnOp:
			if t.Op == token.MUL {
				if g, ok := t.X.(*ssa.Global); ok {
					set["global:"+g.Name()] = true
					return
				}
				u := unspill(t, t)
				if u != ssa.Value(t) {
					walk(u, depth)
					return
				}
			}
			set["other:"+describe(v)] = true
		default:
			set["other:"+describe(v)] = true
		}
	}
	sig := fn.Signature.Results()
	for _, rt := range realReturns(fn) {
		res := retResults(rt)
		for i := 0; i < sig.Len() && i < len(res); i++ {
			if types.Identical(sig.At(i).Type(), types.Universe.Lookup("error").Type()) {
				walk(res[i], 0)
			}
		}
	}
	var out []string
	for k := range set {
		out = append(out, k)
	}
	sort.Strings(out)
	return out
}

// c11StartOnlyErrors: the accepted error sources of the steps that only a real start runs between directives (the
// registered parsing callbacks).  -validate skips them; whatever they can fail on, validation cannot see.  Each entry
// was confirmed by reading: none of them depends on what the Casketfile says beyond what the directives' own setup
// functions already checked.
var c11StartOnlyErrors = map[string]string{
	"call:path/filepath.Abs": "hideCasketfile: fails only when the working directory cannot be determined (environment, not configuration)",
	"call:(*github.com/caddyserver/certmagic.Config).ObtainCertAsync":         "activateHTTPS: obtaining a managed certificate — ACME, network and storage failures at start-up; -validate never contacts a CA (upstream behaviour)",
	"call:(*github.com/caddyserver/certmagic.Config).CacheManagedCertificate": "activateHTTPS→enableAutoHTTPS: loading an already obtained certificate from storage",
	"call:(*github.com/caddyserver/certmagic.Cache).RenewManagedCertificates": "activateHTTPS: renewing what is about to expire, same failure class as obtaining",
}

func c11R6(h H) {
	r := h.r
	r.Rule("R6", "steps only a real start runs cannot reject a configuration: for every function registered through casket.RegisterParsingCallback (executed between directives only when justValidate is false) the sources of its error result — followed through module helpers to the calls leaving the module and to errors the module constructs — are each in the confirmed table of environment failures (working directory, certificate management); a new source is a way for start to fail on a Casketfile that -validate accepted", 2)
	n := 0
	for _, fn := range h.p.ModFuncs() {
		for _, c := range callsTo(fn, "casket.RegisterParsingCallback") {
			var cbs []*ssa.Function
			derives(callOf(c).Args[2], func(v ssa.Value) bool {
				if f, ok := v.(*ssa.Function); ok {
					cbs = append(cbs, f)
				}
				if mc, ok := v.(*ssa.MakeClosure); ok {
					if f, ok := mc.Fn.(*ssa.Function); ok {
						cbs = append(cbs, f)
					}
				}
				return false
			}, flowOpts{})
			if len(cbs) == 0 {
				r.Unresolve("R6", "RegisterParsingCallback at "+h.p.Pos(c.Pos())+": callback not resolved to a function")
				continue
			}
			for _, cb := range cbs {
				n++
				var unknown []string
				srcs := errorSources(cb)
				for _, s := range srcs {
					if _, ok := c11StartOnlyErrors[s]; !ok {
						unknown = append(unknown, s)
					}
				}
				r.Check(len(unknown) == 0, "R6", shortFunc(cb)+"/start-only-error-sources", cb.Pos(),
					"every way this start-only step can fail is a confirmed environment failure", "sources: "+strings.Join(srcs, ", "), "not in the confirmed table: "+strings.Join(unknown, ", "))
			}
		}
	}
	if n < 2 {
		r.Unresolve("R6", sprintf("only %d parsing callbacks found (activateHTTPS and hideCasketfile expected)", n))
	}
}

package main

import (
	"fmt"
	"go/types"
	"strings"
)

// recorderTable: the response recorder and the {status} / {size} placeholders as a decision table (E10).  A
// recorder made by the code's own constructor has a header and three body writes passed through it (the wrapped
// writer is an oracle reporting the bytes it took; one write fails); then — if the recorder declares ReadFrom —
// a ReadFrom, with the wrapped writer offering io.ReaderFrom or not.  What the recorder reports, and what the
// replacer expands {status} and {size} to, must be the status written and the bytes the wrapped writer took.
type recorderTableResult struct {
	status string
	size   string
	subst  string
	other  string
	n      int
}

var recorderMemo = map[*Program]*recorderTableResult{}

func recorderTable(h H) *recorderTableResult {
	if m, ok := recorderMemo[h.p]; ok {
		return m
	}
	res := &recorderTableResult{}
	recorderMemo[h.p] = res
	mk := h.p.Func(hs, "NewResponseRecorder")
	wh := h.p.Func(hs, "(*ResponseRecorder).WriteHeader")
	wr := h.p.Func(hs, "(*ResponseRecorder).Write")
	stF := h.p.Func(hs, "(*ResponseRecorder).Status")
	szF := h.p.Func(hs, "(*ResponseRecorder).Size")
	gs := h.p.Func(hs, "(*replacer).getSubstitution")
	if mk == nil || wh == nil || wr == nil || stF == nil || szF == nil || gs == nil {
		res.other = "NewResponseRecorder / ResponseRecorder.WriteHeader, Write, Status, Size / replacer.getSubstitution not all found"
		return res
	}
	rf := h.p.Func(hs, "(*ResponseRecorder).ReadFrom") // usually absent
	replT := gs.Params[0].Type().(*types.Pointer).Elem()
	for _, withStatus := range []bool{true, false} {
		for _, variant := range []int{0, 1, 2} {
			// 0: the wrapped writer offers io.ReaderFrom; 1: it does not; 2: it does and its ReadFrom fails part-way
			offersReadFrom, rfFails := variant != 1, variant == 2
			if variant != 0 && rf == nil {
				continue
			}
			res.n++
			desc := fmt.Sprintf("WriteHeader(103) then WriteHeader(404)=%v", withStatus)
			var took int64
			var sentHeaders []int64
			script := []struct {
				n   int64
				err bool
			}{{3, false}, {2, false}, {1, true}}
			wi := 0
			under := &aobj{name: "wrapped writer", typ: types.Typ[types.Int], f: map[string]aval{}}
			var underT types.Type = types.Typ[types.Int]
			if offersReadFrom && rf != nil {
				// a writer type that offers io.ReaderFrom: the recorder's own type does when it declares ReadFrom
				underT = rf.Params[0].Type()
			}
			env := &absEnv{noFork: true, maxSteps: 200000, globals: map[string]*aobj{}}
			failErr := aiface{aptr{&aobj{name: "err:broken pipe", typ: types.Typ[types.Int], f: map[string]aval{}}, ""}, types.Typ[types.Int]}
			env.ext = func(callee string, args []aval) (aval, bool) {
				switch {
				case callee == "time.Now":
					return astruct{map[string]aval{}}, true
				case callee == "invoke:WriteHeader":
					if v, ok := args[len(args)-1].(aint); ok {
						sentHeaders = append(sentHeaders, int64(v))
					}
					return atuple{}, true
				case callee == "invoke:Write":
					if o, ok := args[0].(aiface); ok {
						if p, isP := o.val.(aptr); !isP || p.obj != under {
							return nil, false // a module writer: its own Write is evaluated
						}
					}
					if wi < len(script) {
						s := script[wi]
						wi++
						if s.err {
							return atuple{aint(s.n), failErr}, true
						}
						took += s.n
						return atuple{aint(s.n), anil{}}, true
					}
					// unscripted writes (a library copy loop writing through the recorder): everything is taken
					nb := int64(0)
					if sl, ok := args[len(args)-1].(avals); ok {
						nb = int64(len(sl.cells))
					}
					took += nb
					return atuple{aint(nb), anil{}}, true
				case callee == "invoke:ReadFrom":
					if rfFails {
						// four bytes went out, then the source (or the connection) failed
						took += 4
						return atuple{aint(4), aiface{aptr{&aobj{name: "copy error", typ: types.Typ[types.Int], f: map[string]aval{}}, ""}, types.Typ[types.Int]}}, true
					}
					took += 7
					return atuple{aint(7), anil{}}, true
				case callee == "io.Copy", callee == "io.CopyBuffer", callee == "io.CopyN":
					// the library copies 7 bytes from the source into the destination by calling its Write
					var cells []aval
					for k := 0; k < 7; k++ {
						cells = append(cells, aint(int64(k)))
					}
					buf := newVals(cells, types.Typ[types.Uint8])
					if o, ok := args[0].(aiface); ok {
						if p, isP := o.val.(aptr); isP && p.obj == under {
							took += 7
							return atuple{aint(7), anil{}}, true
						}
						if _, ok := env.callMethod(h.p.SSA, o, "Write", buf); ok {
							return atuple{aint(7), anil{}}, true
						}
					}
					took += 7
					return atuple{aint(7), anil{}}, true
				case strings.HasSuffix(callee, "sync.Pool).Get"):
					return aiface{newVals([]aval{aint(0)}, types.Typ[types.Uint8]), types.NewSlice(types.Typ[types.Uint8])}, true
				case strings.HasSuffix(callee, "sync.Pool).Put"):
					return atuple{}, true
				}
				return nil, false
			}
			rv, und := env.run(mk, []aval{aiface{aptr{under, ""}, underT}})
			rec, ok := rv.(aptr)
			if und != "" || !ok {
				if res.other == "" {
					res.other = desc + ": NewResponseRecorder: " + und + " " + describeAval(rv)
				}
				continue
			}
			step := func(what string, f func() (aval, string)) bool {
				if _, und := f(); und != "" {
					if res.other == "" {
						res.other = desc + ": " + what + " undecided — " + und
					}
					return false
				}
				return true
			}
			okRun := true
			if withStatus {
				// an informational header first: net/http lets 1xx be followed by the final status
				okRun = step("WriteHeader", func() (aval, string) { return env.run(wh, []aval{rec, aint(103)}) })
				okRun = okRun && step("WriteHeader", func() (aval, string) { return env.run(wh, []aval{rec, aint(404)}) })
				if okRun && (len(sentHeaders) != 2 || sentHeaders[1] != 404) && res.status == "" {
					res.status = fmt.Sprintf("%s: after WriteHeader(103), WriteHeader(404) the wrapped writer was sent the headers %v", desc, sentHeaders)
				}
			}
			for k := 0; k < 3 && okRun; k++ {
				buf := newVals([]aval{aint(1), aint(2), aint(3)}, types.Typ[types.Uint8])
				okRun = step("Write", func() (aval, string) { return env.run(wr, []aval{rec, buf}) })
			}
			if rf != nil && okRun {
				src := aiface{aptr{&aobj{name: "source", typ: types.Typ[types.Int], f: map[string]aval{}}, ""}, types.Typ[types.Int]}
				okRun = step("ReadFrom", func() (aval, string) { return env.run(rf, []aval{rec, src}) })
				desc += fmt.Sprintf(", then ReadFrom (wrapped writer offers io.ReaderFrom=%v, its ReadFrom fails after 4 bytes=%v)", offersReadFrom, rfFails)
			}
			if !okRun {
				continue
			}
			wantStatus := int64(200)
			if withStatus {
				wantStatus = 404
			}
			gotStatus, _ := env.run(stF, []aval{rec})
			gotSize, _ := env.run(szF, []aval{rec})
			if v, ok := gotStatus.(aint); (!ok || int64(v) != wantStatus) && res.status == "" {
				res.status = fmt.Sprintf("%s: Status() is %s, the client was sent %d", desc, describeAval(gotStatus), wantStatus)
			}
			if v, ok := gotSize.(aint); (!ok || (int64(v) != took && int64(v) != took+1)) && res.size == "" {
				// the failing write took one byte before it failed: counting it or not are both exact enough
				res.size = fmt.Sprintf("%s: Size() is %s, the wrapped writer took %d bytes", desc, describeAval(gotSize), took)
			}
			// the placeholders
			repl := &aobj{name: "replacer", typ: replT, f: map[string]aval{"responseRecorder": rec, "emptyValue": astr("-"), "customReplacements": anil{}}}
			repl.in = func(o *aobj, path string, t types.Type) aval { return aunk{"replacer field " + path} }
			for _, q := range []struct {
				key  string
				want []string
			}{{"{status}", []string{fmt.Sprint(wantStatus)}}, {"{size}", []string{fmt.Sprint(took), fmt.Sprint(took + 1)}}} {
				got, und := env.run(gs, []aval{aptr{repl, ""}, astr(q.key)})
				s, isS := got.(astr)
				okv := false
				for _, w := range q.want {
					if isS && string(s) == w {
						okv = true
					}
				}
				if (und != "" || !okv) && res.subst == "" {
					res.subst = fmt.Sprintf("%s: %s expands to %s, the recorder saw %s %s", desc, q.key, describeAval(got), q.want[0], und)
				}
			}
		}
	}
	return res
}

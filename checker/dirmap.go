package main

// Directive → handler map, extracted from the program on every run:
//   - the ordered `directives` list of package httpserver (constant values
//     resolved through go/types, never text);
//   - every casket.RegisterPlugin(name, Plugin{ServerType, Action}) call in
//     an init function (module packages and linked dependencies);
//   - from each Action, the closure passed to (*SiteConfig).AddMiddleware and
//     the concrete handler types it can return; their ServeHTTP methods are
//     the directive's request-time entry points.

import (
	"go/token"
	"go/types"
	"sort"
	"strings"

	"golang.org/x/tools/go/ssa"
)

type Directive struct {
	Name       string
	Index      int // position in httpserver.directives, -1 if absent
	ServerType string
	Action     *ssa.Function
	InModule   bool
	Handlers   []*ssa.Function // ServeHTTP methods of the handler types it installs
	HandlerTys []string
	RegPos     token.Pos
}

type DirMap struct {
	Order  []string // the directives list
	Pos    token.Pos
	ByName map[string]*Directive
}

func (p *Program) directiveList() ([]string, token.Pos) {
	return p.stringTable(hs, "directives")
}

func (p *Program) DirectiveMap() *DirMap {
	dm := &DirMap{ByName: map[string]*Directive{}}
	dm.Order, dm.Pos = p.directiveList()
	idx := map[string]int{}
	for i, n := range dm.Order {
		if _, dup := idx[n]; !dup {
			idx[n] = i
		}
	}
	for _, sp := range p.SSA.AllPackages() {
		for _, m := range sp.Members {
			fn, ok := m.(*ssa.Function)
			if !ok || !strings.HasPrefix(fn.Name(), "init") || len(fn.Blocks) == 0 {
				continue
			}
			for _, g := range withClosures(fn) {
				allInstrs(g, func(in ssa.Instruction) {
					if !isCallTo(in, modPath+".RegisterPlugin") {
						return
					}
					c := callOf(in)
					name, ok := constString(c.Args[0])
					if !ok {
						return
					}
					d := &Directive{Name: name, Index: -1, RegPos: in.Pos(), InModule: isModPkg(sp.Pkg.Path())}
					if i, ok := idx[name]; ok {
						d.Index = i
					}
					// Plugin struct: field stores
					derives(c.Args[1], func(v ssa.Value) bool {
						switch t := v.(type) {
						case *ssa.Function:
							if d.Action == nil {
								d.Action = t
							}
						case *ssa.Const:
							if s, ok := constString(t); ok && d.ServerType == "" {
								d.ServerType = s
							}
						case *ssa.MakeClosure:
							if d.Action == nil {
								d.Action, _ = t.Fn.(*ssa.Function)
							}
						}
						return false
					}, flowOpts{})
					if d.ServerType == "" {
						// generic plugin (all server types): e.g. tls, on
						d.ServerType = "*"
					}
					key := name
					if prev, ok := dm.ByName[key]; ok && prev.ServerType == "http" {
						return
					}
					dm.ByName[key] = d
				})
			}
		}
	}
	for _, d := range dm.ByName {
		if d.Action != nil {
			p.handlersOf(d)
		}
	}
	return dm
}

// handlersOf finds the handler types installed by the directive's setup.
func (p *Program) handlersOf(d *Directive) {
	seenTy := map[string]bool{}
	res := p.reachableAny([]*ssa.Function{d.Action})
	for f := range res {
		allInstrs(f, func(in ssa.Instruction) {
			c := callOf(in)
			if c == nil {
				return
			}
			callee := c.StaticCallee()
			if callee == nil || callee.Name() != "AddMiddleware" || !strings.Contains(funcName(callee), "httpserver.SiteConfig") {
				return
			}
			// the middleware argument: a closure (or function) returning a Handler
			var mws []*ssa.Function
			derives(c.Args[1], func(v ssa.Value) bool {
				switch t := v.(type) {
				case *ssa.MakeClosure:
					mws = append(mws, t.Fn.(*ssa.Function))
				case *ssa.Function:
					mws = append(mws, t)
				}
				return false
			}, flowOpts{})
			// a method value (m.wrap) arrives as a synthetic bound-method wrapper: the declared method is what returns
			// the handler
			for i := 0; i < len(mws); i++ {
				if mws[i].Synthetic == "" {
					continue
				}
				allInstrs(mws[i], func(in2 ssa.Instruction) {
					if c2 := callOf(in2); c2 != nil && !c2.IsInvoke() {
						if g := c2.StaticCallee(); g != nil && len(g.Blocks) > 0 && g.Synthetic == "" {
							mws = append(mws, g)
						}
					}
				})
			}
			for _, mw := range mws {
				for _, rv := range returnValues(mw, 0) {
					derives(rv, func(v ssa.Value) bool {
						mi, ok := v.(*ssa.MakeInterface)
						if !ok {
							return false
						}
						T := mi.X.Type()
						ts := types.TypeString(T, nil)
						if seenTy[ts] {
							return false
						}
						seenTy[ts] = true
						ms := p.SSA.MethodSets.MethodSet(T)
						for i := 0; i < ms.Len(); i++ {
							if ms.At(i).Obj().Name() == "ServeHTTP" {
								if m := p.SSA.MethodValue(ms.At(i)); m != nil {
									if m.Synthetic != "" {
										// pointer-receiver wrapper of a value method: analyse the declared method
										if fo, ok := ms.At(i).Obj().(*types.Func); ok {
											if decl := p.SSA.FuncValue(fo); decl != nil {
												m = decl
											}
										}
									}
									d.Handlers = append(d.Handlers, m)
									d.HandlerTys = append(d.HandlerTys, ts)
								}
							}
						}
						return false
					}, flowOpts{})
				}
			}
		})
	}
	sort.Strings(d.HandlerTys)
}

// reachableAny: static + closure + module-CHA reachability that also enters
// dependency packages whose bodies were built.
func (p *Program) reachableAny(roots []*ssa.Function) map[*ssa.Function]bool {
	seen := map[*ssa.Function]bool{}
	work := append([]*ssa.Function{}, roots...)
	for len(work) > 0 {
		f := work[len(work)-1]
		work = work[:len(work)-1]
		if f == nil || seen[f] || len(f.Blocks) == 0 {
			continue
		}
		seen[f] = true
		allInstrs(f, func(in ssa.Instruction) {
			if mc, ok := in.(*ssa.MakeClosure); ok {
				work = append(work, mc.Fn.(*ssa.Function))
			}
			if c := callOf(in); c != nil && !c.IsInvoke() {
				if g := calleeFunc(c); g != nil {
					pk := fnPkg(g)
					if pk != nil && (isModPkg(pk.Path()) || strings.Contains(pk.Path(), "casket-plugins")) {
						work = append(work, g)
					}
				}
			}
		})
	}
	return seen
}

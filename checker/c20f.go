package main

import (
	"fmt"
	"go/types"
	"golang.org/x/tools/go/ssa"
	"strings"
)

// c20R10: every log directive is configured by its own block.  logParse is evaluated (E10) on several `log` lines
// of one site, some with `except` and `ipmask` sub-directives; each resulting entry must carry exactly the
// exceptions and the mask flag written in its own block — an exception inherited from an earlier block silently drops
// lines of requests that are "within the scope and not excepted".
func c20R10(h H) {
	r := h.r
	r.Rule("R10", "log directives are configured independently, as a table (E10) of logParse: for `log / a.log {uri} { except /health }` followed by `log / b.log {uri}`, `log /api c.log { except /api/x /api/y ⏎ ipmask 255.255.0.0 }` and `log d.log`, every entry has the output, path scope, exceptions and ipmask flag written in its own directive and nothing of another's", 1)
	fn := h.fn("R10", logPkg, "logParse")
	if fn == nil {
		return
	}
	ctlT := fn.Params[0].Type().(*types.Pointer).Elem()
	lines := [][]string{
		{"log", "/", "a.log", "{uri}", "{"}, {"except", "/health"}, {"}"},
		{"log", "/", "b.log", "{uri}"},
		{"log", "/api", "c.log", "{"}, {"except", "/api/x", "/api/y"}, {"ipmask", "255.255.0.0"}, {"}"},
		{"log", "d.log"},
	}
	type want struct {
		scope, out, exc string
		mask            bool
	}
	wants := []want{{"/", "a.log", "/health", false}, {"/", "b.log", "", false}, {"/api", "c.log", "/api/x /api/y", true}, {"/", "d.log", "", false}}
	c := mkController(ctlT, lines)
	if c == nil {
		r.Unresolve("R10", "casket.Controller: embedded dispenser not found")
		return
	}
	env := &absEnv{globals: map[string]*aobj{}, noFork: true, maxSteps: 600000}
	env.ext = func(callee string, args []aval) (aval, bool) {
		switch {
		case strings.HasSuffix(callee, "httpserver.DefaultLogRoller"):
			return aptr{&aobj{name: "log roller", typ: types.Typ[types.Int], f: map[string]aval{}}, ""}, true
		case strings.HasSuffix(callee, "httpserver.IsLogRollerSubdirective"):
			return abool(false), true
		case callee == "net.ParseIP":
			if s, ok := args[0].(astr); ok {
				return newVals([]aval{astr("ip:" + string(s))}, types.Typ[types.Uint8]), true
			}
		case callee == "(net.IP).To4":
			return args[0], true
		}
		return nil, false
	}
	res, und := env.run(fn, []aval{aptr{c, ""}})
	bad := ""
	var got []want
	switch {
	case und != "":
		bad = "undecided — " + und
	default:
		tp, ok := res.(atuple)
		if !ok || len(tp) != 2 {
			bad = "logParse returns " + describeAval(res)
			break
		}
		if _, isNil := tp[1].(anil); !isNil {
			bad = "logParse rejects the directives: " + describeAval(tp[1])
			break
		}
		var rules []aval
		switch v := tp[0].(type) {
		case avals:
			for _, cl := range v.cells {
				rules = append(rules, cl.f[""])
			}
		case aslice:
			for _, o := range v.elems {
				rules = append(rules, aptr{o, ""})
			}
		}
		for _, rv := range rules {
			rp, ok := rv.(aptr)
			if !ok {
				bad = "a rule is " + describeAval(rv)
				break
			}
			scope, _ := env.load(rp.obj, joinPath(rp.path, "PathScope")).(astr)
			var entries []aval
			switch v := env.load(rp.obj, joinPath(rp.path, "Entries")).(type) {
			case avals:
				for _, cl := range v.cells {
					entries = append(entries, cl.f[""])
				}
			case aslice:
				for _, o := range v.elems {
					entries = append(entries, aptr{o, ""})
				}
			}
			for _, ev := range entries {
				ep, ok := ev.(aptr)
				if !ok {
					continue
				}
				lp, ok := env.load(ep.obj, joinPath(ep.path, "Log")).(aptr)
				if !ok {
					continue
				}
				out, _ := env.load(lp.obj, joinPath(lp.path, "Output")).(astr)
				mask, _ := env.load(lp.obj, joinPath(lp.path, "IPMaskExists")).(abool)
				var exc []string
				if ex, ok := env.load(lp.obj, joinPath(lp.path, "Exceptions")).(avals); ok {
					for _, cl := range ex.cells {
						if s, ok := cl.f[""].(astr); ok {
							exc = append(exc, string(s))
						}
					}
				}
				got = append(got, want{string(scope), string(out), strings.Join(exc, " "), bool(mask)})
			}
		}
	}
	if bad == "" {
		for _, w := range wants {
			found := false
			for _, g := range got {
				if g.out == w.out {
					found = true
					if g != w {
						bad = fmt.Sprintf("the log %s is configured with scope %q, exceptions [%s], ipmask=%v; its directive says scope %q, exceptions [%s], ipmask=%v", w.out, g.scope, g.exc, g.mask, w.scope, w.exc, w.mask)
					}
				}
			}
			if !found && bad == "" {
				bad = fmt.Sprintf("no entry for the log %s (entries: %v)", w.out, got)
			}
		}
		if len(got) != len(wants) && bad == "" {
			bad = fmt.Sprintf("%d entries for %d directives", len(got), len(wants))
		}
	}
	r.Check(bad == "", "R10", "log.logParse/independent-directives", fn.Pos(), "each log directive's entry carries what its own block says", fmt.Sprintf("%d directives parsed", len(wants)), bad)
}

// c20R11: a reload starts the new instance's loggers before it closes the old instance's, and both usually name the
// same file.  Logger.Start / Logger.Close are evaluated (E10; the operating system's files are oracles that record
// which were closed) over that sequence — old.Start, new.Start, old.Close — for a log file without rotation: the new
// logger's writer is still open afterwards (its lines are not lost), and the old logger's own file is closed.
func c20R11(h H) {
	r := h.r
	r.Rule("R11", "a reload does not close the log it has just opened, as a table (E10) of httpserver.Logger.Start and Close over the sequence old.Start, new.Start, old.Close on one unrotated log file (roller absent or disabled): afterwards the new logger writes to a file that has not been closed, and the file the old logger opened has been", 1)
	st := h.fn("R11", hs, "(*Logger).Start")
	cl := h.fn("R11", hs, "(*Logger).Close")
	if st == nil || cl == nil {
		return
	}
	lT := derefType(st.Params[0].Type())
	var fileT types.Type = types.Typ[types.Int]
	if t := h.p.typeByName("os", "File"); t != nil {
		fileT = t
	}
	bad, n := "", 0
	for _, roller := range []string{"absent", "disabled"} {
		closed := map[*aobj]bool{}
		var opened []*aobj
		stdFile := func(name string) *aobj {
			return &aobj{name: name, typ: types.NewPointer(fileT), f: map[string]aval{"": aptr{&aobj{name: name + " file", typ: fileT, f: map[string]aval{}}, ""}}}
		}
		env := &absEnv{globals: map[string]*aobj{"Stdout": stdFile("os.Stdout"), "Stderr": stdFile("os.Stderr")}, noFork: true, maxSteps: 200000}
		env.ext = func(callee string, args []aval) (aval, bool) {
			switch {
			case callee == "os.OpenFile":
				f := &aobj{name: sprintf("file #%d", len(opened)+1), typ: fileT, f: map[string]aval{}}
				opened = append(opened, f)
				return atuple{aptr{f, ""}, anil{}}, true
			case callee == "(*os.File).Close":
				if p, ok := args[0].(aptr); ok {
					closed[p.obj] = true
				}
				return anil{}, true
			case callee == "(*os.File).Name":
				return astr("/var/log/access.log"), true
			case callee == "path/filepath.Abs":
				return atuple{args[0], anil{}}, true
			case callee == "log.New":
				return aptr{&aobj{name: "log.Logger", typ: types.Typ[types.Int], f: map[string]aval{}}, ""}, true
			case strings.HasSuffix(callee, "httpserver.parseSyslogAddress"):
				return anil{}, true
			case callee == "invoke:Close":
				if p, ok := ifaceVal(args[0]).(aptr); ok {
					closed[p.obj] = true
				}
				return anil{}, true
			}
			return nil, false
		}
		mk := func(name string) *aobj {
			o := &aobj{name: name, typ: lT, f: map[string]aval{"Output": astr("/var/log/access.log"), "writer": anil{}, "fileMu": anil{}, "Logger": anil{}}}
			if roller == "absent" {
				o.f["Roller"] = anil{}
			} else {
				var rollerT types.Type = types.Typ[types.Int]
				if t := h.p.typeByName(modPath+"/"+hs, "LogRoller"); t != nil {
					rollerT = t
				}
				ro := &aobj{name: "roller of " + name, typ: rollerT, f: map[string]aval{"Disabled": abool(true)}}
				ro.in = func(o *aobj, path string, t types.Type) aval { return zeroOf(t) }
				o.f["Roller"] = aptr{ro, ""}
			}
			o.in = func(o *aobj, path string, t types.Type) aval { return zeroOf(t) }
			return o
		}
		oldL, newL := mk("old logger"), mk("new logger")
		n++
		desc := "log file without rotation (roller " + roller + "), old.Start → new.Start → old.Close"
		und := ""
		for _, step := range []struct {
			fn *ssa.Function
			l  *aobj
		}{{st, oldL}, {st, newL}, {cl, oldL}} {
			if _, u := env.run(step.fn, []aval{aptr{step.l, ""}}); u != "" {
				und = u
				break
			}
		}
		if und != "" {
			bad = desc + ": undecided — " + und
			break
		}
		w, _ := ifaceVal(env.load(newL, "writer")).(aptr)
		switch {
		case w.obj == nil:
			bad = desc + ": the new logger has no writer: " + describeAval(env.load(newL, "writer"))
		case closed[w.obj]:
			bad = desc + ": the file the new logger writes to (" + w.obj.name + ") has been closed — every request after the reload is answered and none is logged"
		case len(opened) == 0 || !closed[opened[0]]:
			bad = desc + ": the file the old logger opened is left open"
		}
		if bad != "" {
			break
		}
	}
	r.Check(bad == "", "R11", "httpserver.(*Logger)/start-new-then-close-old", st.Pos(), "closing the old instance's logger leaves the new instance's log file open", sprintf("%d sequences evaluated", n), bad)
}

package main

import (
	"fmt"
	"go/types"
	"strings"
)

// c20R10: every log directive is configured by its own block.  logParse is evaluated (E10) on several `log` lines
// of one site, some with `except` and `ipmask` sub-directives; each resulting entry must carry exactly the
// exceptions and the mask flag written in its own block — an exception inherited from an earlier block silently drops
// lines of requests that are "within the scope and not excepted".
func c20R10(h H) {
	r := h.r
	r.Rule("R10", "log directives are configured independently, as a table (E10) of logParse: for `log / a.log {uri} { except /health }` followed by `log / b.log {uri}`, `log /api c.log { except /api/x /api/y ⏎ ipmask 255.255.0.0 }` and `log d.log`, every entry has the output, path scope, exceptions and ipmask flag written in its own directive and nothing of another's", 1)
	fn := h.fn("R10", logPkg, "logParse")
	if fn == nil {
		return
	}
	ctlT := fn.Params[0].Type().(*types.Pointer).Elem()
	lines := [][]string{
		{"log", "/", "a.log", "{uri}", "{"}, {"except", "/health"}, {"}"},
		{"log", "/", "b.log", "{uri}"},
		{"log", "/api", "c.log", "{"}, {"except", "/api/x", "/api/y"}, {"ipmask", "255.255.0.0"}, {"}"},
		{"log", "d.log"},
	}
	type want struct {
		scope, out, exc string
		mask            bool
	}
	wants := []want{{"/", "a.log", "/health", false}, {"/", "b.log", "", false}, {"/api", "c.log", "/api/x /api/y", true}, {"/", "d.log", "", false}}
	c := mkController(ctlT, lines)
	if c == nil {
		r.Unresolve("R10", "casket.Controller: embedded dispenser not found")
		return
	}
	env := &absEnv{globals: map[string]*aobj{}, noFork: true, maxSteps: 600000}
	env.ext = func(callee string, args []aval) (aval, bool) {
		switch {
		case strings.HasSuffix(callee, "httpserver.DefaultLogRoller"):
			return aptr{&aobj{name: "log roller", typ: types.Typ[types.Int], f: map[string]aval{}}, ""}, true
		case strings.HasSuffix(callee, "httpserver.IsLogRollerSubdirective"):
			return abool(false), true
		case callee == "net.ParseIP":
			if s, ok := args[0].(astr); ok {
				return newVals([]aval{astr("ip:" + string(s))}, types.Typ[types.Uint8]), true
			}
		case callee == "(net.IP).To4":
			return args[0], true
		}
		return nil, false
	}
	res, und := env.run(fn, []aval{aptr{c, ""}})
	bad := ""
	var got []want
	switch {
	case und != "":
		bad = "undecided — " + und
	default:
		tp, ok := res.(atuple)
		if !ok || len(tp) != 2 {
			bad = "logParse returns " + describeAval(res)
			break
		}
		if _, isNil := tp[1].(anil); !isNil {
			bad = "logParse rejects the directives: " + describeAval(tp[1])
			break
		}
		var rules []aval
		switch v := tp[0].(type) {
		case avals:
			for _, cl := range v.cells {
				rules = append(rules, cl.f[""])
			}
		case aslice:
			for _, o := range v.elems {
				rules = append(rules, aptr{o, ""})
			}
		}
		for _, rv := range rules {
			rp, ok := rv.(aptr)
			if !ok {
				bad = "a rule is " + describeAval(rv)
				break
			}
			scope, _ := env.load(rp.obj, joinPath(rp.path, "PathScope")).(astr)
			var entries []aval
			switch v := env.load(rp.obj, joinPath(rp.path, "Entries")).(type) {
			case avals:
				for _, cl := range v.cells {
					entries = append(entries, cl.f[""])
				}
			case aslice:
				for _, o := range v.elems {
					entries = append(entries, aptr{o, ""})
				}
			}
			for _, ev := range entries {
				ep, ok := ev.(aptr)
				if !ok {
					continue
				}
				lp, ok := env.load(ep.obj, joinPath(ep.path, "Log")).(aptr)
				if !ok {
					continue
				}
				out, _ := env.load(lp.obj, joinPath(lp.path, "Output")).(astr)
				mask, _ := env.load(lp.obj, joinPath(lp.path, "IPMaskExists")).(abool)
				var exc []string
				if ex, ok := env.load(lp.obj, joinPath(lp.path, "Exceptions")).(avals); ok {
					for _, cl := range ex.cells {
						if s, ok := cl.f[""].(astr); ok {
							exc = append(exc, string(s))
						}
					}
				}
				got = append(got, want{string(scope), string(out), strings.Join(exc, " "), bool(mask)})
			}
		}
	}
	if bad == "" {
		for _, w := range wants {
			found := false
			for _, g := range got {
				if g.out == w.out {
					found = true
					if g != w {
						bad = fmt.Sprintf("the log %s is configured with scope %q, exceptions [%s], ipmask=%v; its directive says scope %q, exceptions [%s], ipmask=%v", w.out, g.scope, g.exc, g.mask, w.scope, w.exc, w.mask)
					}
				}
			}
			if !found && bad == "" {
				bad = fmt.Sprintf("no entry for the log %s (entries: %v)", w.out, got)
			}
		}
		if len(got) != len(wants) && bad == "" {
			bad = fmt.Sprintf("%d entries for %d directives", len(got), len(wants))
		}
	}
	r.Check(bad == "", "R10", "log.logParse/independent-directives", fn.Pos(), "each log directive's entry carries what its own block says", fmt.Sprintf("%d directives parsed", len(wants)), bad)
}

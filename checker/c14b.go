package main

import (
	"fmt"
	"go/types"
	"strings"

	"golang.org/x/tools/go/ssa"
)

// c14Avail: the availability predicates as decision tables (E10).  A host object is built by the code's own
// staticUpstream.NewHost (so that the CheckDown closure it installs is the one evaluated); then Down, Full and
// Available are evaluated for every combination of {Unhealthy 0/1} x {Fails <,=,> MaxFails} x {MaxConns 0 / set}
// x {Conns <,=,> MaxConns}.  Specification: down iff unhealthy or fails >= max_fails; full iff a cap is set and
// conns >= cap; available iff neither.
func c14Avail(h H, rule string) {
	r := h.r
	nh := h.fn(rule, pxPkg, "(*staticUpstream).NewHost")
	down := h.fn(rule, pxPkg, "(*UpstreamHost).Down")
	full := h.fn(rule, pxPkg, "(*UpstreamHost).Full")
	avail := h.fn(rule, pxPkg, "(*UpstreamHost).Available")
	if nh == nil || down == nil || full == nil || avail == nil {
		return
	}
	upT := nh.Params[0].Type().(*types.Pointer).Elem()
	hostT := down.Params[0].Type().(*types.Pointer).Elem()
	type cs struct {
		unhealthy bool
		failsCmp  int // fails vs maxfails
		capSet    bool
		connsCmp  int // conns vs cap
	}
	var cases []cs
	for _, u := range []bool{false, true} {
		for _, f := range []int{-1, 0, 1} {
			cases = append(cases, cs{u, f, false, 0})
			for _, c := range []int{-1, 0, 1} {
				cases = append(cases, cs{u, f, true, c})
			}
		}
	}
	desc := func(c cs) string {
		rel := map[int]string{-1: "<", 0: "=", 1: ">"}
		s := fmt.Sprintf("unhealthy=%v fails%smax_fails", c.unhealthy, rel[c.failsCmp])
		if c.capSet {
			s += fmt.Sprintf(" conns%smax_conns", rel[c.connsCmp])
		} else {
			s += " no max_conns"
		}
		return s
	}
	bad, nrun := "", 0
	for _, c := range cases {
		c := c
		if bad != "" {
			break
		}
		env := &absEnv{globals: map[string]*aobj{}, maxSteps: 100000}
		env.cmp = func(a, b aval) (int, bool) {
			name := func(v aval) string {
				if s, ok := v.(asym); ok {
					return s.name
				}
				if z, ok := v.(aint); ok && z == 0 {
					return "0"
				}
				return ""
			}
			na, nb := name(a), name(b)
			rel := func(x, y string) (int, bool) {
				switch {
				case x == "fails" && y == "maxfails":
					return c.failsCmp, true
				case x == "conns" && y == "cap":
					return c.connsCmp, true
				case x == "cap" && y == "0":
					return 1, true // a configured cap is positive
				case x == "maxfails" && y == "0":
					return 1, true
				case x == "fails" && y == "0":
					if c.failsCmp >= 0 {
						return 1, true // at least max_fails (> 0) failures
					}
					return 0, false
				case x == "conns" && y == "0":
					if c.connsCmp >= 0 {
						return 1, true
					}
					return 0, false
				}
				return 0, false
			}
			if v, ok := rel(na, nb); ok {
				return v, true
			}
			if v, ok := rel(nb, na); ok {
				return -v, true
			}
			return 0, false
		}
		env.ext = func(callee string, args []aval) (aval, bool) {
			switch {
			case callee == "net/url.Parse":
				return atuple{aptr{&aobj{name: "url", typ: types.Typ[types.Int], f: map[string]aval{}}, ""}, anil{}}, true
			case strings.HasSuffix(callee, "proxy.NewSingleHostReverseProxy"):
				return aptr{&aobj{name: "reverseproxy", typ: types.Typ[types.Int], f: map[string]aval{}}, ""}, true
			case strings.Contains(callee, "ReverseProxy).Use"):
				return atuple{}, true
			}
			return nil, false
		}
		mk := func() []aval {
			up := &aobj{name: "upstream", typ: upT, f: map[string]aval{}, in: func(o *aobj, path string, t types.Type) aval {
				switch path {
				case "MaxFails":
					return asym{"maxfails"}
				case "MaxConns":
					if c.capSet {
						return asym{"cap"}
					}
					return aint(0)
				case "insecureSkipVerify":
					return abool(false)
				case "CaCertPool", "ClientKeyPair":
					return anil{}
				}
				return aunk{"upstream field " + path}
			}}
			return []aval{aptr{up, ""}, astr("http://backend")}
		}
		env.runForks(nh, mk, func(res aval, und string, _ int) bool {
			nrun++
			if und != "" {
				bad = desc(c) + ": NewHost undecided — " + und
				return false
			}
			tp, ok := res.(atuple)
			if !ok || len(tp) != 2 {
				bad = "NewHost: unexpected result " + describeAval(res)
				return false
			}
			hp, ok := tp[0].(aptr)
			if !ok {
				return true // the error return of NewHost
			}
			if !types.Identical(hp.obj.typ, hostT) {
				bad = "NewHost: result is not an UpstreamHost"
				return false
			}
			if c.unhealthy {
				hp.obj.f["Unhealthy"] = aint(1)
			} else {
				hp.obj.f["Unhealthy"] = aint(0)
			}
			hp.obj.f["Fails"] = asym{"fails"}
			hp.obj.f["Conns"] = asym{"conns"}
			wantDown := c.unhealthy || c.failsCmp >= 0
			wantFull := c.capSet && c.connsCmp >= 0
			for _, q := range []struct {
				fn   *ssa.Function
				want bool
				what string
			}{{down, wantDown, "Down"}, {full, wantFull, "Full"}, {avail, !wantDown && !wantFull, "Available"}} {
				sub := &absEnv{globals: env.globals, cmp: env.cmp, ext: env.ext, noFork: true, maxSteps: 20000}
				got, und := sub.run(q.fn, []aval{hp})
				if und != "" {
					bad = desc(c) + ": " + q.what + " undecided — " + und
					return false
				}
				if b, ok := got.(abool); !ok || bool(b) != q.want {
					bad = fmt.Sprintf("%s: %s() = %s, specification says %v", desc(c), q.what, describeAval(got), q.want)
					return false
				}
			}
			return true
		})
	}
	r.Check(bad == "", rule, "proxy.(*UpstreamHost)/availability-table", avail.Pos(),
		"a backend built by NewHost is down exactly while it is marked unhealthy or has at least max_fails unexpired failures, full exactly when a cap is set and its in-flight count has reached it, and available exactly when neither",
		fmt.Sprintf("%d evaluations", nrun), bad)
	// the default predicate (hosts without CheckDown): unhealthy or any unexpired failure
	bad2 := ""
	for _, u := range []bool{false, true} {
		for _, f := range []bool{false, true} {
			env := &absEnv{globals: map[string]*aobj{}, noFork: true}
			env.cmp = func(a, b aval) (int, bool) {
				if s, ok := a.(asym); ok && s.name == "fails" {
					if z, ok := b.(aint); ok && z == 0 {
						return 1, true
					}
				}
				if s, ok := b.(asym); ok && s.name == "fails" {
					if z, ok := a.(aint); ok && z == 0 {
						return -1, true
					}
				}
				return 0, false
			}
			host := &aobj{name: "host", typ: hostT, f: map[string]aval{"CheckDown": anil{}, "MaxConns": aint(0)}}
			host.f["Unhealthy"] = aint(0)
			if u {
				host.f["Unhealthy"] = aint(1)
			}
			host.f["Fails"] = aint(0)
			if f {
				host.f["Fails"] = asym{"fails"}
			}
			got, und := env.run(down, []aval{aptr{host, ""}})
			if b, ok := got.(abool); und != "" || !ok || bool(b) != (u || f) {
				bad2 = fmt.Sprintf("unhealthy=%v failures=%v: Down() = %s %s", u, f, describeAval(got), und)
			}
		}
	}
	r.Check(bad2 == "", rule, "proxy.(*UpstreamHost).Down/default-table", down.Pos(), "without a CheckDown function a backend is down exactly while it is unhealthy or has an unexpired failure", bad2)
}

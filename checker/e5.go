package main

// E5 driver: panic-freedom obligations over a scope of functions.
//   stage 1  compiler prove pass (bce.go): site not in the residue ⇒ discharged
//   stage 2  guard prover (prover.go)
//   stage 3  proof-carrying exceptions: a manual argument whose premises are
//            re-checked on every run (named guards must still dominate the site)
// Anything left is a violation.

import (
	"fmt"
	"go/ast"
	"go/token"
	"go/types"
	"sort"
	"strings"

	"golang.org/x/tools/go/ssa"
)

type e5Exception struct {
	reason string
	// premises, re-checked on every run:
	//   "guard:<text>"       <text> occurs in the rendered dominating guards of the site ("cond=true/false")
	//   "only-caller:<func>" every use of the enclosing function is a static call from <func> (short name)
	//   "caller-arg:<text>"  the first non-receiver argument at each such call renders containing <text>
	//   "returns:<func>=<type>" every return value of that module function has that dynamic type
	//   "elems:<type>"       every value converted to the asserted interface type inside this function has that dynamic type
	//   "ssa:<text>"         the resolved (SSA) form of the index/bound expression contains <text> (width-changing conversions are shown)
	requires []string
}

// srcExpr returns a canonical source text of the index/slice expression whose '[' is at pos: the expression as
// written, except that a local variable with exactly one definition (`x := e`, never reassigned, never
// address-taken) is replaced by its defining expression.  Renaming such a local, or hoisting a subexpression into
// one, therefore does not change the text — exception keys stay attached to the same computation.
func srcExpr(p *Program, pos token.Pos) string {
	if !pos.IsValid() {
		return ""
	}
	file := p.Fset.File(pos)
	if file == nil {
		return ""
	}
	for _, pk := range p.Roots {
		for _, f := range pk.Syntax {
			if p.Fset.File(f.Pos()) != file {
				continue
			}
			var target ast.Expr
			var encl ast.Node // innermost enclosing FuncDecl
			for _, d := range f.Decls {
				fd, ok := d.(*ast.FuncDecl)
				if !ok || fd.Body == nil || pos < fd.Pos() || pos > fd.End() {
					continue
				}
				encl = fd
				ast.Inspect(fd, func(n ast.Node) bool {
					switch t := n.(type) {
					case *ast.IndexExpr:
						if t.Lbrack == pos {
							target = t
						}
					case *ast.SliceExpr:
						if t.Lbrack == pos {
							target = t
						}
					}
					return target == nil
				})
			}
			if target == nil {
				return ""
			}
			return canonText(pk.TypesInfo, encl, target, 0)
		}
	}
	return ""
}

// singleDef returns the defining expression of a local variable that is defined once and never modified.
func singleDef(info *types.Info, encl ast.Node, obj types.Object) ast.Expr {
	var def ast.Expr
	ndef, bad := 0, false
	ast.Inspect(encl, func(n ast.Node) bool {
		switch t := n.(type) {
		case *ast.AssignStmt:
			for i, l := range t.Lhs {
				id, ok := l.(*ast.Ident)
				if !ok {
					continue
				}
				if info.Defs[id] == obj {
					ndef++
					if len(t.Lhs) == len(t.Rhs) {
						def = t.Rhs[i]
					} else {
						bad = true
					}
				} else if info.Uses[id] == obj {
					bad = true // reassigned
				}
			}
		case *ast.ValueSpec:
			for i, id := range t.Names {
				if info.Defs[id] == obj {
					ndef++
					if len(t.Values) == len(t.Names) {
						def = t.Values[i]
					} else {
						bad = true
					}
				}
			}
		case *ast.IncDecStmt:
			if id, ok := t.X.(*ast.Ident); ok && info.Uses[id] == obj {
				bad = true
			}
		case *ast.UnaryExpr:
			if id, ok := t.X.(*ast.Ident); ok && t.Op == token.AND && info.Uses[id] == obj {
				bad = true
			}
		case *ast.RangeStmt:
			for _, e := range []ast.Expr{t.Key, t.Value} {
				if id, ok := e.(*ast.Ident); ok && (info.Defs[id] == obj || info.Uses[id] == obj) {
					bad = true
				}
			}
		}
		return true
	})
	if bad || ndef != 1 || def == nil {
		return nil
	}
	switch t := def.(type) {
	case *ast.FuncLit, *ast.CompositeLit:
		return nil
	case *ast.UnaryExpr:
		if _, isLit := t.X.(*ast.CompositeLit); isLit {
			return nil
		}
	}
	return def
}

func canonText(info *types.Info, encl ast.Node, e ast.Expr, depth int) string {
	if depth > 4 || info == nil || encl == nil {
		return types.ExprString(e)
	}
	subst := map[*ast.Ident]string{}
	ast.Inspect(e, func(n ast.Node) bool {
		switch t := n.(type) {
		case *ast.FuncLit:
			return false
		case *ast.SelectorExpr:
			// only the operand can be a local
			ast.Inspect(t.X, func(m ast.Node) bool {
				if id, ok := m.(*ast.Ident); ok {
					if s, ok := canonIdent(info, encl, id, depth); ok {
						subst[id] = s
					}
				}
				return true
			})
			return false
		case *ast.Ident:
			if s, ok := canonIdent(info, encl, t, depth); ok {
				subst[t] = s
			}
		}
		return true
	})
	if len(subst) == 0 {
		return types.ExprString(e)
	}
	return exprStringSubst(e, subst)
}

func canonIdent(info *types.Info, encl ast.Node, id *ast.Ident, depth int) (string, bool) {
	v, ok := info.Uses[id].(*types.Var)
	if !ok || v.IsField() || v.Parent() == nil || v.Pkg() == nil || v.Parent() == v.Pkg().Scope() {
		return "", false
	}
	def := singleDef(info, encl, v)
	if def == nil {
		return "", false
	}
	s := canonText(info, encl, def, depth+1)
	switch def.(type) {
	case *ast.BinaryExpr, *ast.UnaryExpr, *ast.StarExpr:
		s = "(" + s + ")"
	}
	return s, true
}

// exprStringSubst renders e with some identifiers replaced by text.
func exprStringSubst(e ast.Expr, subst map[*ast.Ident]string) string {
	// render through a copy in which the identifiers carry unique marker names
	marks := map[string]string{}
	i := 0
	saved := map[*ast.Ident]string{}
	for id, s := range subst {
		m := fmt.Sprintf("vtSUBST%dX", i)
		i++
		marks[m] = s
		saved[id] = id.Name
		id.Name = m
	}
	out := types.ExprString(e)
	for id, n := range saved {
		id.Name = n
	}
	for m, s := range marks {
		out = strings.ReplaceAll(out, m, s)
	}
	return out
}

func checkPremises(p *Program, fn *ssa.Function, in ssa.Instruction, ex e5Exception) string {
	guards := strings.Join(renderGuards(fn, in), " ; ")
	for _, req := range ex.requires {
		switch {
		case strings.HasPrefix(req, "guard:"):
			if !strings.Contains(guards, strings.TrimPrefix(req, "guard:")) && !guardViaHelper(fn, in, strings.TrimPrefix(req, "guard:")) {
				return req + " (dominating guards now: " + guards + ")"
			}
		case strings.HasPrefix(req, "ssa:"):
			d := ""
			switch t := in.(type) {
			case *ssa.Slice:
				d = describe(t)
			case *ssa.IndexAddr:
				d = describe(t.Index)
			case *ssa.Index:
				d = describe(t.Index)
			}
			if !strings.Contains(strings.ReplaceAll(d, " ", ""), strings.TrimPrefix(req, "ssa:")) {
				return req + " (expression is now " + d + ")"
			}
		case strings.HasPrefix(req, "no-field-store:"):
			// no-field-store:<shortFunc>=<field>: that module function (and its module callees) never stores to a field of that name
			spec := strings.SplitN(strings.TrimPrefix(req, "no-field-store:"), "=", 2)
			found := false
			for _, g := range p.ModFuncs() {
				if shortFunc(g) == spec[0] {
					found = true
					if writesOf(g, 0)[spec[1]] {
						return req + " (it now stores to " + spec[1] + ")"
					}
				}
			}
			if !found {
				return req + " (function not found)"
			}
		case strings.HasPrefix(req, "returns:"):
			// returns:<shortFunc>=<type>: every return of that module function is a value of that dynamic type
			spec := strings.SplitN(strings.TrimPrefix(req, "returns:"), "=", 2)
			ok := false
			for _, g := range p.ModFuncs() {
				if shortFunc(g) != spec[0] {
					continue
				}
				ok = true
				for _, rv := range returnValues(g, 0) {
					mi, isMI := rv.(*ssa.MakeInterface)
					if !isMI || shortType(mi.X.Type().String()) != strings.TrimPrefix(spec[1], "*") && mi.X.Type().String() != spec[1] {
						ok = false
					}
				}
			}
			if !ok {
				return req
			}
		case strings.HasPrefix(req, "elems:"):
			// elems:<type>: every interface value appended to / stored into a slice in this function has that dynamic type
			want := strings.TrimPrefix(req, "elems:")
			bad := ""
			var ta *ssa.TypeAssert
			if t, ok := in.(*ssa.TypeAssert); ok {
				ta = t
			}
			allInstrs(fn, func(x ssa.Instruction) {
				mi, ok := x.(*ssa.MakeInterface)
				if !ok || ta == nil || !types.Identical(mi.Type(), ta.X.Type()) {
					return
				}
				if !strings.HasSuffix(mi.X.Type().String(), want) {
					bad = mi.X.Type().String() + " at " + p.Pos(mi.Pos())
				}
			})
			if bad != "" {
				return req + " (also holds " + bad + ")"
			}
		case strings.HasPrefix(req, "only-caller:"), strings.HasPrefix(req, "caller-arg:"):
			want := strings.TrimPrefix(strings.TrimPrefix(req, "only-caller:"), "caller-arg:")
			n := 0
			bad := ""
			for _, g := range p.ModFuncs() {
				allInstrs(g, func(x ssa.Instruction) {
					c := callOf(x)
					if c != nil && c.StaticCallee() == fn {
						n++
						if strings.HasPrefix(req, "only-caller:") && outerFunc(g) != want {
							bad = "also called from " + shortFunc(g)
						}
						if strings.HasPrefix(req, "caller-arg:") {
							args := c.Args
							if fn.Signature.Recv() != nil && len(args) > 0 {
								args = args[1:]
							}
							if len(args) == 0 || !strings.Contains(strings.ReplaceAll(describe(args[0]), " ", ""), want) {
								bad = "argument at " + p.Pos(x.Pos()) + " is " + describe(args[0])
							}
						}
						return
					}
					for _, op := range x.Operands(nil) {
						if op != nil && *op == ssa.Value(fn) && (c == nil || c.Value != ssa.Value(fn)) {
							bad = "function used as a value in " + shortFunc(g)
						}
					}
				})
			}
			if n == 0 {
				bad = "no caller found"
			}
			if bad != "" {
				return req + " (" + bad + ")"
			}
		}
	}
	return ""
}

type e5Stats struct {
	Funcs, Sites, Compiler, Prover, Exception, Failed int
}

var residueCache = map[string]*bceResidue{}

func getResidue(p *Program) (*bceResidue, error) {
	k := p.GOOS + "/" + p.GOARCH
	if r, ok := residueCache[k]; ok {
		return r, nil
	}
	var ov map[string][]byte
	if p.Norm != nil {
		ov = p.Norm.Overlay
	}
	r, err := runBCE(p.GOOS, p.GOARCH, ov)
	if err != nil {
		return nil, err
	}
	residueCache[k] = r
	return r, nil
}

func renderGuards(fn *ssa.Function, in ssa.Instruction) []string {
	var out []string
	for _, g := range guardAtoms(fn, nil, in) {
		out = append(out, fmt.Sprintf("%s=%v", describe(g.Cond), g.Pos))
	}
	sort.Strings(out)
	return out
}

// e5Check runs the three stages over every obligation of the scope.
func e5Check(h H, rule string, scope []*ssa.Function, exceptions map[string]e5Exception) e5Stats {
	r := h.r
	var st e5Stats
	res, err := getResidue(h.p)
	if err != nil {
		r.Unresolve(rule, err.Error())
		return st
	}
	sort.Slice(scope, func(i, j int) bool { return scope[i].Pos() < scope[j].Pos() })
	seenKey := map[string]int{}
	for _, fn := range scope {
		if len(fn.Blocks) == 0 {
			continue
		}
		st.Funcs++
		allInstrs(fn, func(in ssa.Instruction) {
			switch t := in.(type) {
			case *ssa.Panic:
				st.Sites++
				key := shortFunc(fn) + "|panic"
				if ex, ok := exceptions[key]; ok {
					if missing := checkPremises(h.p, fn, in, ex); missing != "" {
						st.Failed++
						r.Fail(rule, key, in.Pos(), "the manual argument for this explicit panic rests on a premise that no longer holds: "+missing)
						return
					}
					st.Exception++
					r.Hold(rule, key, in.Pos(), "explicit panic accepted: "+ex.reason, ex.requires...)
				} else if proveAt(fn, in).prove(newLin(-1)) || proveAtCallers(h.p, fn, in, 0) {
					st.Prover++
					r.Hold(rule, key, in.Pos(), "explicit panic unreachable: the guards leading to it contradict each other, or contradict what every caller passes")
				} else {
					st.Failed++
					r.Fail(rule, key, in.Pos(), "explicit panic reachable in code that must be total")
				}
				return
			case *ssa.TypeAssert:
				if t.CommaOk || types.Identical(t.AssertedType, t.X.Type()) {
					// identical type: go/ssa's nil check for an interface method value (nil dereferences are not claimed)
					return
				}
				st.Sites++
				key := shortFunc(fn) + "|assert:" + strings.ReplaceAll(types.TypeString(t.AssertedType, func(pk *types.Package) string { return pk.Name() }), " ", "")
				if ex, ok := exceptions[key]; ok {
					if missing := checkPremises(h.p, fn, in, ex); missing != "" {
						st.Failed++
						r.Fail(rule, key, in.Pos(), "the manual argument for this unchecked type assertion rests on a premise that no longer holds: "+missing)
						return
					}
					st.Exception++
					r.Hold(rule, key, in.Pos(), "unchecked type assertion accepted: "+ex.reason, ex.requires...)
				} else {
					st.Failed++
					r.Fail(rule, key, in.Pos(), "unchecked type assertion panics when the dynamic type differs", describe(t))
				}
				return
			case *ssa.IndexAddr, *ssa.Index, *ssa.Slice:
			case *ssa.BinOp:
				if t.Op != token.QUO && t.Op != token.REM {
					return
				}
				if !isIntType(t.Type()) {
					return
				}
				if c, ok := constInt(t.Y); ok && c != 0 {
					return
				}
			default:
				return
			}
			// map lookups are ssa.Lookup, not Index: fine.  Index on arrays with constant in-range index: skip
			pos := in.Pos()
			isDiv := false
			if b, ok := in.(*ssa.BinOp); ok && (b.Op == token.QUO || b.Op == token.REM) {
				isDiv = true
			}
			st.Sites++
			if !isDiv && pos.IsValid() {
				ps := h.p.Fset.Position(pos)
				k := fmt.Sprintf("%s:%d:%d", strings.TrimPrefix(h.p.Pos(pos)[:strings.LastIndex(h.p.Pos(pos), ":")], "./"), ps.Line, ps.Column)
				if _, inResidue := res.sites[k]; !inResidue {
					st.Compiler++
					return
				}
			}
			if !isDiv && !pos.IsValid() {
				// synthetic (range loops): the compiler generated and proved these itself
				st.Compiler++
				return
			}
			pr := proveAt(fn, in)
			goals, descs, kind, expr := boundsGoals(pr, in)
			if goals == nil {
				st.Compiler++
				return
			}
			var failed []string
			how := "bounds proved from dominating guards"
			for i := range goals {
				if pr.prove(goals[i]) {
					continue
				}
				// stage 2b: loop invariants, φ case split, caller-side discharge
				if proveWithInvariants(fn, in, i) {
					how = "bounds proved from dominating guards and verified loop invariants"
					continue
				}
				if provePhiSplit(fn, in, i) {
					how = "bounds proved by case split over the incoming edges of a φ"
					continue
				}
				if proveAtCallers(h.p, fn, in, i) {
					how = "bounds proved at every call site of this unexported function (parameter precondition)"
					continue
				}
				failed = append(failed, descs[i])
			}
			if se := srcExpr(h.p, pos); se != "" {
				expr = se
			}
			key := shortFunc(fn) + "|" + kind + ":" + strings.ReplaceAll(expr, " ", "")
			seenKey[key]++
			if seenKey[key] > 1 {
				key = fmt.Sprintf("%s#%d", key, seenKey[key])
			}
			if len(failed) == 0 {
				st.Prover++
				r.Hold(rule, key, pos, how, renderGuards(fn, in)...)
				return
			}
			if ex, ok := lookupException(exceptions, key); ok {
				if missing := checkPremises(h.p, fn, in, ex); missing == "" {
					st.Exception++
					r.Hold(rule, key, pos, "accepted by a proof-carrying exception whose premises still hold: "+ex.reason, ex.requires...)
					return
				} else {
					st.Failed++
					r.Fail(rule, key, pos, "the manual safety argument for this site rests on a premise that no longer holds: "+missing)
					return
				}
			}
			st.Failed++
			r.Fail(rule, key, pos, kind+" can be out of range: neither the compiler nor the guard prover can show "+strings.Join(failed, ", "), renderGuards(fn, in)...)
		})
	}
	return st
}

// lookupException: an exception is keyed by the source text of the site; a local that names a sub-expression makes
// the canonical text differ by a pair of parentheses only — those do not matter.
func lookupException(exceptions map[string]e5Exception, key string) (e5Exception, bool) {
	if ex, ok := exceptions[key]; ok {
		return ex, true
	}
	strip := func(s string) string { return strings.NewReplacer("(", "", ")", "").Replace(s) }
	for k, ex := range exceptions {
		if strip(k) == strip(key) {
			return ex, true
		}
	}
	return e5Exception{}, false
}

// guardViaHelper: the required guard does not dominate the site itself, but the site lies behind the nil-error edge
// of a call to a module function every one of whose nil-error returns lies behind that guard (the test moved into a
// helper that reports failure through its error result).
func guardViaHelper(fn *ssa.Function, in ssa.Instruction, want string) bool {
	for _, g := range guardAtoms(fn, nil, in) {
		x, nilWhenTrue, ok := nilCmp(g.Cond)
		if !ok || nilWhenTrue != g.Pos {
			continue // not the "is nil" edge
		}
		ex, ok := x.(*ssa.Extract)
		if !ok {
			continue
		}
		c, ok := ex.Tuple.(*ssa.Call)
		if !ok {
			continue
		}
		hf := c.Call.StaticCallee()
		if hf == nil || len(hf.Blocks) == 0 || fnPkg(hf) == nil || !isModPkg(fnPkg(hf).Path()) {
			continue
		}
		okAll, n := true, 0
		for _, rt := range realReturns(hf) {
			res := retResults(rt)
			if ex.Index >= len(res) {
				okAll = false
				continue
			}
			if cst, isC := res[ex.Index].(*ssa.Const); !isC || cst.Value != nil {
				continue // an error return
			}
			n++
			if !strings.Contains(strings.Join(renderGuards(hf, rt), " ; "), want) {
				okAll = false
			}
		}
		if okAll && n > 0 {
			return true
		}
	}
	return false
}

package main

import (
	"fmt"
	"sort"

	"golang.org/x/tools/go/ssa"
)

// requestScope: the module functions reachable (static calls and module implementers of interfaces) from the
// request-time entry points: every in-module directive's handlers, the server's own ServeHTTP and the file server.
func requestScope(p *Program) []*ssa.Function {
	dm := p.DirectiveMap()
	var roots []*ssa.Function
	for _, d := range dm.ByName {
		if d.InModule {
			roots = append(roots, d.Handlers...)
		}
	}
	for _, spec := range [][2]string{{hs, "(*Server).ServeHTTP"}, {sfPkg, "FileServer.ServeHTTP"}} {
		if f := p.Func(spec[0], spec[1]); f != nil {
			roots = append(roots, f)
		}
	}
	fns := setupReach(p, roots)
	var out []*ssa.Function
	for f := range fns {
		out = append(out, f)
	}
	sort.Slice(out, func(i, j int) bool { return out[i].Pos() < out[j].Pos() })
	return out
}

func init() {
	debugCmds["reqscope"] = func(prog *Program) {
		scope := requestScope(prog)
		rep := NewReport("C19", "quick", prog)
		h := H{rep, prog}
		rep.Rule("RX", "exploration", 0)
		st := e5Check(h, "RX", scope, c19Exceptions)
		fmt.Printf("functions %d, sites %d, failed %d\n", st.Funcs, st.Sites, st.Failed)
		for _, o := range rep.Obs {
			if !o.OK {
				fmt.Printf("UNPROVEN %s %s :: %s :: %v\n", o.Construct, o.Pos, o.What, o.Facts)
			}
		}
	}
}

package main

import (
	"fmt"
	"go/token"
	"go/types"
	"math"
	"sort"
	"strings"

	"golang.org/x/tools/go/ssa"
)

// c05R9: what each policy selects, as a decision table (E10).  Pools of 1–4 backends, every availability mask, and
// per policy the quantity it orders by: pool position (first), in-flight rank (least_conn), hashed start slot
// (hash policies), the running counter (round_robin).  Random draws are values outside the abstraction: every
// resolution of a branch on them must satisfy the specification.
func c05R9(h H) { selectionTables(h, "R9") }

// selectionTables: the policies' decision tables under the given rule id (C05 R9; C14 registers them too — a policy
// that hands out a backend at its connection cap is how max_conns gets exceeded).
func selectionTables(h H, rule string) {
	r := h.r
	r.Rule(rule, "selection tables: for every pool of 1–5 backends (1–3 for least_conn, random and the key policies; 1–7 and 1–4 in the thorough tier) and every availability mask including backends at their connection cap, evaluated abstractly (E10) — first returns the earliest available backend; hostByHashing returns the first available one in cyclic order from hash(key) mod n; least_conn returns an available backend whose in-flight count is minimal among the available ones (for every outcome of its random tie-break); random returns an available one (for every outcome of its draws); round_robin returns the next available one after its counter and, with all backends available, n consecutive selections return n different backends; each returns nil exactly when no backend is available", 5)
	hostT := func(fn *ssa.Function, param int) types.Type {
		return underlying(fn.Params[param].Type()).(*types.Slice).Elem().(*types.Pointer).Elem()
	}
	type hostCase struct {
		avail []bool
		rank  []int  // in-flight rank, least_conn only
		full  []bool // an unavailable host is at its connection cap (instead of unhealthy)
	}
	mkHosts := func(t types.Type, c hostCase) aslice {
		var sl aslice
		for i := range c.avail {
			i := i
			sl.elems = append(sl.elems, &aobj{name: fmt.Sprintf("host%d", i), typ: t, f: map[string]aval{}, in: func(o *aobj, path string, t types.Type) aval {
				atCap := !c.avail[i] && c.full != nil && c.full[i]
				switch path {
				case "Unhealthy":
					if c.avail[i] || atCap {
						return aint(0)
					}
					return aint(1)
				case "MaxConns":
					if atCap {
						return asym{fmt.Sprintf("cap%d", i)}
					}
					return aint(0)
				case "Fails", "MaxFails":
					return aint(0)
				case "Conns":
					return asym{fmt.Sprintf("v%d", i)}
				case "CheckDown":
					return anil{}
				}
				return aunk{"host field " + path}
			}})
		}
		return sl
	}
	hostIdx := func(v aval) (int, bool) {
		switch t := v.(type) {
		case anil:
			return -1, true
		case aptr:
			var i int
			if _, err := fmt.Sscanf(t.obj.name, "host%d", &i); err == nil && t.path == "" {
				return i, true
			}
		}
		return 0, false
	}
	newEnv := func(c hostCase, hashVal int64) *absEnv {
		env := &absEnv{globals: map[string]*aobj{}}
		env.cmp = func(a, b aval) (int, bool) {
			ra, oka := symIdx(a)
			rb, okb := symIdx(b)
			if oka && okb && ra < len(c.rank) && rb < len(c.rank) {
				switch {
				case c.rank[ra] < c.rank[rb]:
					return -1, true
				case c.rank[ra] > c.rank[rb]:
					return 1, true
				}
				return 0, true
			}
			// a host at its cap: in-flight count equals the cap, which is positive
			capIdx := func(v aval) (int, bool) {
				s, ok := v.(asym)
				if !ok || !strings.HasPrefix(s.name, "cap") {
					return 0, false
				}
				var i int
				_, err := fmt.Sscanf(s.name, "cap%d", &i)
				return i, err == nil
			}
			if i, ok := capIdx(b); ok && oka && ra == i {
				return 0, true
			}
			if i, ok := capIdx(a); ok && okb && rb == i {
				return 0, true
			}
			if _, ok := capIdx(a); ok {
				if z, isZ := b.(aint); isZ && z == 0 {
					return 1, true
				}
			}
			if _, ok := capIdx(b); ok {
				if z, isZ := a.(aint); isZ && z == 0 {
					return -1, true
				}
			}
			// in-flight counts are far below the sentinel the search starts from
			if oka {
				if z, ok := b.(aint); ok && z == math.MaxInt64 {
					return -1, true
				}
			}
			if okb {
				if z, ok := a.(aint); ok && z == math.MaxInt64 {
					return 1, true
				}
			}
			return 0, false
		}
		env.ext = func(callee string, args []aval) (aval, bool) {
			switch {
			case strings.HasPrefix(callee, "sync/atomic.Load"):
				if p, ok := args[0].(aptr); ok {
					return env.load(p.obj, p.path), true
				}
			case strings.HasSuffix(callee, "proxy.hash"):
				return aint(hashVal), true
			case strings.HasPrefix(callee, "math/rand."):
				return aunk{"random draw"}, true
			}
			return nil, false
		}
		return env
	}
	masks := func(n int) [][]bool {
		var out [][]bool
		for m := 0; m < 1<<n; m++ {
			a := make([]bool, n)
			for i := range a {
				a[i] = m&(1<<i) != 0
			}
			out = append(out, a)
		}
		return out
	}
	// every availability mask, each unavailable host being either unhealthy or at its cap
	hostCases := func(n int) []hostCase {
		var out []hostCase
		for _, av := range masks(n) {
			out = append(out, hostCase{avail: av})
			anyDown := false
			for _, a := range av {
				anyDown = anyDown || !a
			}
			if anyDown {
				full := make([]bool, n)
				for i := range full {
					full[i] = true
				}
				out = append(out, hostCase{avail: av, full: full})
			}
		}
		return out
	}
	descCase := func(c hostCase) string {
		var p []string
		for i, a := range c.avail {
			s := fmt.Sprintf("host%d:", i)
			if a {
				s += "up"
			} else if c.full != nil && c.full[i] {
				s += "at-cap"
			} else {
				s += "down"
			}
			if c.rank != nil {
				s += fmt.Sprintf("/conns-rank%d", c.rank[i])
			}
			p = append(p, s)
		}
		return "[" + strings.Join(p, " ") + "]"
	}
	firstAvailFrom := func(avail []bool, start int) int {
		n := len(avail)
		for k := 0; k < n; k++ {
			if avail[(start+k)%n] {
				return (start + k) % n
			}
		}
		return -1
	}
	get := func(name string) *ssa.Function { return h.fn(rule, pxPkg, name) }

	// first
	if fn := get("(*First).Select"); fn != nil {
		bad, nrun := "", 0
		for n := 1; n <= tb(5, 7) && bad == ""; n++ {
			for _, c := range hostCases(n) {
				c := c
				av := c.avail
				env := newEnv(c, 0)
				env.runForks(fn, func() []aval {
					return []aval{aptr{&aobj{name: "policy", typ: fn.Params[0].Type().(*types.Pointer).Elem(), f: map[string]aval{}}, ""}, mkHosts(hostT(fn, 1), c), aunk{"request"}}
				}, func(res aval, und string, _ int) bool {
					nrun++
					got, ok := hostIdx(res)
					want := firstAvailFrom(av, 0)
					if und != "" || !ok || got != want {
						bad = fmt.Sprintf("%s: want host %d, got %s %s", descCase(c), want, describeAval(res), und)
						return false
					}
					return true
				})
				if bad != "" {
					break
				}
			}
		}
		r.Check(bad == "", rule, "(*proxy.First).Select/table", fn.Pos(), "first returns the earliest available backend of the pool, nil when none is available", fmt.Sprintf("%d cases evaluated", nrun), bad)
	}
	// hostByHashing
	if fn := get("hostByHashing"); fn != nil {
		bad, nrun := "", 0
		for n := 1; n <= tb(5, 7) && bad == ""; n++ {
			for _, c := range hostCases(n) {
				c := c
				av := c.avail
				for hv := int64(0); hv < int64(2*n+1) && bad == ""; hv++ {
					env := newEnv(c, hv)
					env.runForks(fn, func() []aval { return []aval{mkHosts(hostT(fn, 0), c), astr("key")} }, func(res aval, und string, _ int) bool {
						nrun++
						got, ok := hostIdx(res)
						want := firstAvailFrom(av, int(hv)%n)
						if und != "" || !ok || got != want {
							bad = fmt.Sprintf("%s hash=%d: want host %d, got %s %s", descCase(c), hv, want, describeAval(res), und)
							return false
						}
						return true
					})
				}
			}
		}
		r.Check(bad == "", rule, "proxy.hostByHashing/table", fn.Pos(), "the hash policies return the first available backend in cyclic order from slot hash(key) mod n — the same backend for the same key while availability is unchanged — and nil when none is available", fmt.Sprintf("%d cases evaluated", nrun), bad)
	}
	// least_conn
	if fn := get("(*LeastConn).Select"); fn != nil {
		bad, nrun := "", 0
		for n := 1; n <= tb(3, 4) && bad == ""; n++ {
			for _, av := range masks(n) {
				for _, rk := range weakOrders(n) {
					c := hostCase{avail: av, rank: rk}
					env := newEnv(c, 0)
					env.runForks(fn, func() []aval {
						return []aval{aptr{&aobj{name: "policy", typ: fn.Params[0].Type().(*types.Pointer).Elem(), f: map[string]aval{}}, ""}, mkHosts(hostT(fn, 1), c), aunk{"request"}}
					}, func(res aval, und string, _ int) bool {
						nrun++
						got, ok := hostIdx(res)
						best := -1
						for i := range av {
							if av[i] && (best < 0 || rk[i] < rk[best]) {
								best = i
							}
						}
						good := ok && und == "" && ((best < 0 && got == -1) || (best >= 0 && got >= 0 && av[got] && rk[got] == rk[best]))
						if !good {
							bad = fmt.Sprintf("%s: want an available backend of minimal in-flight rank (e.g. host %d), got %s %s", descCase(c), best, describeAval(res), und)
							return false
						}
						return true
					})
					if bad != "" {
						break
					}
				}
				if bad != "" {
					break
				}
			}
		}
		r.Check(bad == "", rule, "(*proxy.LeastConn).Select/table", fn.Pos(), "least_conn returns an available backend whose in-flight count is minimal among the available ones, whatever its random tie-break draws; nil when none is available", fmt.Sprintf("%d evaluations (cases x tie-break outcomes)", nrun), bad)
	}
	// random
	if fn := get("(*Random).Select"); fn != nil {
		bad, nrun := "", 0
		for n := 1; n <= tb(3, 4) && bad == ""; n++ {
			for _, av := range masks(n) {
				c := hostCase{avail: av}
				env := newEnv(c, 0)
				env.runForks(fn, func() []aval {
					return []aval{aptr{&aobj{name: "policy", typ: fn.Params[0].Type().(*types.Pointer).Elem(), f: map[string]aval{}}, ""}, mkHosts(hostT(fn, 1), c), aunk{"request"}}
				}, func(res aval, und string, _ int) bool {
					nrun++
					got, ok := hostIdx(res)
					any := firstAvailFrom(av, 0) >= 0
					good := ok && und == "" && ((!any && got == -1) || (any && got >= 0 && av[got]))
					if !good {
						bad = fmt.Sprintf("%s: want an available backend, got %s %s", descCase(c), describeAval(res), und)
						return false
					}
					return true
				})
				if bad != "" {
					break
				}
			}
		}
		r.Check(bad == "", rule, "(*proxy.Random).Select/table", fn.Pos(), "random returns an available backend for every outcome of its draws, nil only when none is available", fmt.Sprintf("%d evaluations (cases x draw outcomes)", nrun), bad)
	}
	// round_robin
	if fn := get("(*RoundRobin).Select"); fn != nil {
		bad, nrun := "", 0
		polT := fn.Params[0].Type().(*types.Pointer).Elem()
		for n := 1; n <= tb(5, 7) && bad == ""; n++ {
			for _, c := range hostCases(n) {
				c := c
				av := c.avail
				// every residue of the counter, and the two values before it wraps around
				counters := []int64{1<<32 - 2, 1<<32 - 1}
				for r0 := int64(0); r0 < int64(n); r0++ {
					counters = append(counters, r0)
				}
				for _, r0 := range counters {
					if bad != "" {
						break
					}
					env := newEnv(c, 0)
					env.noFork = true
					pol := &aobj{name: "policy", typ: polT, f: map[string]aval{"robin": aint(r0)}}
					hosts := mkHosts(hostT(fn, 1), c)
					allUp := firstAvailFrom(av, 0) >= 0
					for _, a := range av {
						allUp = allUp && a
					}
					seen := map[int]bool{}
					calls := 1
					if allUp {
						calls = n
					}
					for k := 0; k < calls && bad == ""; k++ {
						res, und := env.run(fn, []aval{aptr{pol, ""}, hosts, aunk{"request"}})
						nrun++
						got, ok := hostIdx(res)
						any := firstAvailFrom(av, 0) >= 0
						if und != "" || !ok || (any && (got < 0 || !av[got])) || (!any && got != -1) {
							bad = fmt.Sprintf("%s counter=%d call %d: want an available backend, got %s %s", descCase(c), r0, k+1, describeAval(res), und)
							break
						}
						if k == 0 && any && r0 < int64(n) {
							if want := firstAvailFrom(av, int(r0+1)%n); got != want {
								bad = fmt.Sprintf("%s counter=%d: want the next available backend after the counter (host %d), got host %d", descCase(c), r0, want, got)
								break
							}
						}
						if allUp && seen[got] {
							bad = fmt.Sprintf("%s counter=%d: %d consecutive selections with all backends available returned host %d twice", descCase(c), r0, n, got)
							break
						}
						seen[got] = true
					}
				}
			}
		}
		r.Check(bad == "", rule, "(*proxy.RoundRobin).Select/table", fn.Pos(), "round_robin returns the next available backend after its counter (an available one also when the counter is about to wrap around); with all n backends available, n consecutive selections return n different backends (an even rotation)", fmt.Sprintf("%d evaluations", nrun), bad)
	}
	// --- the policies that key by a request attribute, and the upstream's own Select
	reqT := func(fn *ssa.Function, param int) types.Type { return fn.Params[param].Type().(*types.Pointer).Elem() }
	hashEnv := func(c hostCase) (*absEnv, map[string]int64) {
		slots := map[string]int64{}
		env := newEnv(c, 0)
		inner := env.ext
		env.ext = func(callee string, args []aval) (aval, bool) {
			if strings.HasSuffix(callee, "proxy.hash") {
				k, _ := keyOf(args[0])
				if _, ok := slots[k]; !ok {
					slots[k] = int64(len(slots)) // different keys start at different slots (the adversarial hash)
				}
				return aint(slots[k]), true
			}
			return inner(callee, args)
		}
		return env, slots
	}
	allUp := func(n int) []bool {
		a := make([]bool, n)
		for i := range a {
			a[i] = true
		}
		return a
	}
	mkReq := func(t types.Type, remote aval, uri aval, hdr map[string]aval) aval {
		o := &aobj{name: "request", typ: t, f: map[string]aval{}}
		o.in = func(o *aobj, path string, t types.Type) aval {
			switch path {
			case "RemoteAddr":
				return remote
			case "RequestURI":
				return uri
			case "Header":
				m := amap{&amapData{vals: map[string]aval{}, keys: map[string]aval{}, typ: underlying(t).(*types.Map)}}
				for k, v := range hdr {
					m.m.vals["s:"+k] = newVals([]aval{v}, types.Typ[types.String])
					m.m.keys["s:"+k] = astr(k)
				}
				return m
			}
			return aunk{"request field " + path}
		}
		return aptr{o, ""}
	}
	polObj := func(fn *ssa.Function, fields map[string]aval) aval {
		o := &aobj{name: "policy", typ: fn.Params[0].Type().(*types.Pointer).Elem(), f: map[string]aval{}}
		for k, v := range fields {
			o.f[k] = v
		}
		return aptr{o, ""}
	}
	// same key, same backend; the key is the documented request attribute
	type keyed struct {
		name   string
		same   [][2]aval // pairs of requests that must be sent to the same backend
		differ [][2]aval // pairs that the adversarial hash sends to different start slots (so the key really is used)
		fields map[string]aval
	}
	if fn := get("(*IPHash).Select"); fn != nil {
		t := reqT(fn, 2)
		ip4 := func(port string) aval {
			return mkReq(t, strOf(atom{sym: "ip4"}, atom{lit: ":" + port}), astr("/"), nil)
		}
		ip6 := func(port string) aval {
			return mkReq(t, strOf(atom{lit: "["}, atom{sym: "ip6"}, atom{lit: "]:" + port}), astr("/"), nil)
		}
		other := mkReq(t, strOf(atom{sym: "other"}, atom{lit: ":1000"}), astr("/"), nil)
		bad, nrun := "", 0
		for n := 2; n <= tb(3, 4) && bad == ""; n++ {
			c := hostCase{avail: allUp(n)}
			for _, pair := range [][2]aval{{ip4("1000"), ip4("2000")}, {ip6("1000"), ip6("2000")}} {
				env, _ := hashEnv(c)
				hosts := mkHosts(hostT(fn, 1), c)
				r1, u1 := env.run(fn, []aval{polObj(fn, nil), hosts, pair[0]})
				r2, u2 := env.run(fn, []aval{polObj(fn, nil), hosts, pair[1]})
				r3, u3 := env.run(fn, []aval{polObj(fn, nil), hosts, other})
				nrun += 3
				g1, ok1 := hostIdx(r1)
				g2, ok2 := hostIdx(r2)
				g3, ok3 := hostIdx(r3)
				switch {
				case u1+u2+u3 != "" || !ok1 || !ok2 || !ok3:
					bad = fmt.Sprintf("%d backends: undecided %s %s %s", n, u1, u2, u3)
				case g1 != g2:
					bad = fmt.Sprintf("%d backends, all available: two connections of one client address (different source ports) go to hosts %d and %d", n, g1, g2)
				case g1 == g3:
					bad = fmt.Sprintf("%d backends: a different client address is not hashed differently (the key is not the client address)", n)
				}
			}
		}
		r.Check(bad == "", rule, "(*proxy.IPHash).Select/table", fn.Pos(), "ip_hash sends every connection of one client address (IPv4 or bracketed IPv6, any source port) to the same backend, and keys by that address", fmt.Sprintf("%d evaluations", nrun), bad)
	}
	if fn := get("(*URIHash).Select"); fn != nil {
		t := reqT(fn, 2)
		bad, nrun := "", 0
		for n := 2; n <= tb(3, 4) && bad == ""; n++ {
			c := hostCase{avail: allUp(n)}
			env, _ := hashEnv(c)
			hosts := mkHosts(hostT(fn, 1), c)
			a1 := mkReq(t, strOf(atom{sym: "ipA"}, atom{lit: ":1"}), symLabel("uri1"), nil)
			a2 := mkReq(t, strOf(atom{sym: "ipB"}, atom{lit: ":2"}), symLabel("uri1"), nil)
			b := mkReq(t, strOf(atom{sym: "ipA"}, atom{lit: ":1"}), symLabel("uri2"), nil)
			r1, u1 := env.run(fn, []aval{polObj(fn, nil), hosts, a1})
			r2, u2 := env.run(fn, []aval{polObj(fn, nil), hosts, a2})
			r3, u3 := env.run(fn, []aval{polObj(fn, nil), hosts, b})
			nrun += 3
			g1, _ := hostIdx(r1)
			g2, _ := hostIdx(r2)
			g3, _ := hostIdx(r3)
			if u1+u2+u3 != "" || g1 != g2 || g1 == g3 {
				bad = fmt.Sprintf("%d backends: same URI -> hosts %d,%d; other URI -> host %d %s%s%s", n, g1, g2, g3, u1, u2, u3)
			}
		}
		r.Check(bad == "", rule, "(*proxy.URIHash).Select/table", fn.Pos(), "uri_hash sends requests for one URI to the same backend whoever sends them, and keys by the URI", fmt.Sprintf("%d evaluations", nrun), bad)
	}
	if fn := get("(*Header).Select"); fn != nil {
		t := reqT(fn, 2)
		bad, nrun := "", 0
		names := newVals([]aval{astr("X-Key")}, types.Typ[types.String])
		for n := 2; n <= tb(3, 4) && bad == ""; n++ {
			c := hostCase{avail: allUp(n)}
			env, _ := hashEnv(c)
			hosts := mkHosts(hostT(fn, 1), c)
			a1 := mkReq(t, astr("1.1.1.1:1"), astr("/a"), map[string]aval{"X-Key": symLabel("k1")})
			a2 := mkReq(t, astr("2.2.2.2:2"), astr("/b"), map[string]aval{"X-Key": symLabel("k1")})
			b := mkReq(t, astr("1.1.1.1:1"), astr("/a"), map[string]aval{"X-Key": symLabel("k2")})
			r1, u1 := env.run(fn, []aval{polObj(fn, map[string]aval{"Names": names}), hosts, a1})
			r2, u2 := env.run(fn, []aval{polObj(fn, map[string]aval{"Names": names}), hosts, a2})
			r3, u3 := env.run(fn, []aval{polObj(fn, map[string]aval{"Names": names}), hosts, b})
			nrun += 3
			g1, _ := hostIdx(r1)
			g2, _ := hostIdx(r2)
			g3, _ := hostIdx(r3)
			if u1+u2+u3 != "" || g1 != g2 || g1 == g3 || g1 < 0 {
				bad = fmt.Sprintf("%d backends: same header value -> hosts %d,%d; other value -> host %d %s%s%s", n, g1, g2, g3, u1, u2, u3)
			}
		}
		r.Check(bad == "", rule, "(*proxy.Header).Select/table", fn.Pos(), "the header policy sends requests carrying one value of the named header to the same backend, and keys by that value", fmt.Sprintf("%d evaluations", nrun), bad)
		// no header name configured: the policy returns nil although backends are available (known finding of C05;
		// not a matter of the connection cap, so not registered under C14)
		if rule == "R9" {
			c := hostCase{avail: allUp(2)}
			env, _ := hashEnv(c)
			res, und := env.run(fn, []aval{polObj(fn, map[string]aval{"Names": anil{}}), mkHosts(hostT(fn, 1), c), mkReq(t, astr("1.1.1.1:1"), astr("/"), nil)})
			g, ok := hostIdx(res)
			r.Check(und == "" && ok && g >= 0, rule, "(*proxy.Header).Select/no-name-configured", fn.Pos(), "with backends available a policy must return one; `policy header` without a header name returns nil", describeAval(res), und)
		}
	}
	if fn := get("(*staticUpstream).Select"); fn != nil {
		upT := fn.Params[0].Type().(*types.Pointer).Elem()
		first := get("(*First).Select")
		bad, nrun := "", 0
		for n := 1; n <= tb(3, 4) && bad == ""; n++ {
			for _, av := range masks(n) {
				for _, withPolicy := range []bool{false, true} {
					if withPolicy && first == nil {
						continue
					}
					c := hostCase{avail: av}
					env := newEnv(c, 0)
					env.runForks(fn, func() []aval {
						up := &aobj{name: "upstream", typ: upT, f: map[string]aval{"Hosts": mkHosts(hostT(first, 1), c)}}
						if withPolicy {
							up.f["Policy"] = aiface{aptr{&aobj{name: "first", typ: first.Params[0].Type().(*types.Pointer).Elem(), f: map[string]aval{}}, ""}, first.Params[0].Type()}
						} else {
							up.f["Policy"] = anil{}
						}
						return []aval{aptr{up, ""}, aunk{"request"}}
					}, func(res aval, und string, _ int) bool {
						nrun++
						got, ok := hostIdx(res)
						any := firstAvailFrom(av, 0)
						good := ok && und == "" && ((any < 0 && got == -1) || (any >= 0 && got >= 0 && av[got]))
						if good && withPolicy && any >= 0 && got != any {
							good = false
						}
						if !good {
							bad = fmt.Sprintf("%s policy=%v: want an available backend (the configured policy's choice), got %s %s", descCase(c), withPolicy, describeAval(res), und)
							return false
						}
						return true
					})
					if bad != "" {
						break
					}
				}
				if bad != "" {
					break
				}
			}
		}
		r.Check(bad == "", rule, "(*proxy.staticUpstream).Select/table", fn.Pos(), "the upstream returns nil exactly when no backend is available and otherwise what its policy (random when none is configured) selects", fmt.Sprintf("%d evaluations", nrun), bad)
	}
	// the pool size the retry logic relies on: the request body is kept for replay when the upstream reports more
	// than one backend.  That count must be the configured pool, not the currently available part of it — a backend
	// that is down when the request arrives may be back when the first attempt has failed and consumed the body.
	if fn := get("(*staticUpstream).GetHostCount"); fn != nil {
		upT := fn.Params[0].Type().(*types.Pointer).Elem()
		first := get("(*First).Select")
		bad, nrun := "", 0
		for n := 1; n <= tb(3, 5) && bad == "" && first != nil; n++ {
			for _, c := range hostCases(n) {
				c := c
				env := newEnv(c, 0)
				env.runForks(fn, func() []aval {
					up := &aobj{name: "upstream", typ: upT, f: map[string]aval{"Hosts": mkHosts(hostT(first, 1), c)}}
					return []aval{aptr{up, ""}}
				}, func(res aval, und string, _ int) bool {
					nrun++
					if got, ok := res.(aint); !ok || und != "" || int(got) != n {
						bad = fmt.Sprintf("%s: the upstream reports %s backends, the pool has %d %s", descCase(c), describeAval(res), n, und)
						return false
					}
					return true
				})
				if bad != "" {
					break
				}
			}
		}
		r.Check(bad == "", rule, "(*proxy.staticUpstream).GetHostCount/table", fn.Pos(), "the number of backends the retry logic sees (it decides whether the body is kept for replay) is the configured pool size whatever the backends' current availability", fmt.Sprintf("%d evaluations", nrun), bad)
	}
}

func symIdx(v aval) (int, bool) {
	s, ok := v.(asym)
	if !ok || !strings.HasPrefix(s.name, "v") {
		return 0, false
	}
	var i int
	if _, err := fmt.Sscanf(s.name, "v%d", &i); err != nil {
		return 0, false
	}
	return i, true
}

// evalRegistry evaluates a package-level registry map: the variable's own initialiser, then every declared init
// function of the package that (directly or through a callee) stores into it.  The returned environment holds the
// filled map under the variable's name.
func evalRegistry(p *Program, rel, name string) (amap, *absEnv, string) {
	v, und := evalGlobal(p, rel, name)
	if und != "" {
		return amap{}, nil, und
	}
	m, ok := v.(amap)
	if !ok {
		return amap{}, nil, "the registry is not a map: " + describeAval(v)
	}
	pk := p.Pkg(rel)
	g := pk.Members[name].(*ssa.Global)
	env := &absEnv{globals: map[string]*aobj{name: {name: name, typ: g.Type().(*types.Pointer).Elem(), f: map[string]aval{"": m}}}, noFork: true, maxSteps: 400000}
	touches := func(f *ssa.Function) bool {
		hit := false
		for _, fn := range withHelpers(f, 2) {
			allInstrs(fn, func(in ssa.Instruction) {
				for _, op := range in.Operands(nil) {
					if *op == ssa.Value(g) {
						hit = true
					}
				}
			})
		}
		return hit
	}
	var inits []*ssa.Function
	for _, mem := range pk.Members {
		if f, ok := mem.(*ssa.Function); ok && strings.HasPrefix(f.Name(), "init#") && touches(f) {
			inits = append(inits, f)
		}
	}
	sort.Slice(inits, func(i, j int) bool { return inits[i].Name() < inits[j].Name() })
	for _, f := range inits {
		if _, und := env.run(f, nil); und != "" {
			return amap{}, nil, f.Name() + ": " + und
		}
	}
	if cur, ok := env.globals[name].f[""].(amap); ok {
		m = cur
	}
	return m, env, ""
}

// c05R10: a policy object belongs to one proxy block.  round_robin keeps its cursor in the policy object; were two
// upstreams handed the same object, each would advance the other's cursor and neither would visit its backends
// evenly.  Every registered policy constructor is evaluated twice: the results must be distinct objects whenever the
// policy type has any field.
func c05R10(h H) {
	r := h.r
	r.Rule("R10", "policy objects are per upstream: every constructor registered in proxy.supportedPolicies (the registry is evaluated from the package's initialisers, E10) yields a different object on each call whenever the policy type has fields (round_robin's cursor, header's name) — no state is shared between proxy blocks", 1)
	m, env, und := evalRegistry(h.p, pxPkg, "supportedPolicies")
	if und != "" {
		r.Unresolve("R10", "proxy.supportedPolicies: "+und)
		return
	}
	var names []string
	for k := range m.m.vals {
		names = append(names, k)
	}
	sort.Strings(names)
	bad := ""
	n := 0
	for _, k := range names {
		f, ok := m.m.vals[k].(afunc)
		if !ok {
			bad = "policy " + strings.TrimPrefix(k, "s:") + ": the registered constructor is " + describeAval(m.m.vals[k])
			break
		}
		var objs []*aobj
		stateful := false
		for call := 0; call < 2; call++ {
			res, und := env.runFunc(f, []aval{newVals([]aval{astr("X-Name")}, types.Typ[types.String])})
			if und != "" {
				bad = "policy " + strings.TrimPrefix(k, "s:") + ": constructor undecided — " + und
				break
			}
			if i, ok := res.(aiface); ok {
				res = i.val
			}
			p, ok := res.(aptr)
			if !ok {
				if _, unknown := res.(aunk); unknown {
					bad = "policy " + strings.TrimPrefix(k, "s:") + ": what the constructor returns cannot be determined (" + describeAval(res) + ")"
					break
				}
				// a policy held by value carries no shared state
				continue
			}
			if st, ok := underlying(p.obj.typ).(*types.Struct); ok && st.NumFields() > 0 {
				stateful = true
			}
			objs = append(objs, p.obj)
		}
		if bad != "" {
			break
		}
		n++
		if stateful && len(objs) == 2 && objs[0] == objs[1] {
			bad = "policy " + strings.TrimPrefix(k, "s:") + ": two proxy blocks configured with it receive the same policy object (its state is shared between upstreams)"
			break
		}
	}
	pos := token.NoPos
	if fn := h.p.Func(pxPkg, "RegisterPolicy"); fn != nil {
		pos = fn.Pos()
	}
	r.Check(bad == "" && n >= 6, "R10", "proxy.supportedPolicies/fresh-policy-per-upstream", pos, "each proxy block gets its own policy object", fmt.Sprintf("%d registered constructors evaluated twice", n), bad)
}

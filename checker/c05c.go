package main

import (
	"fmt"
	"go/types"
	"math"
	"strings"

	"golang.org/x/tools/go/ssa"
)

// c05R9: what each policy selects, as a decision table (E10).  Pools of 1–4 backends, every availability mask, and
// per policy the quantity it orders by: pool position (first), in-flight rank (least_conn), hashed start slot
// (hash policies), the running counter (round_robin).  Random draws are values outside the abstraction: every
// resolution of a branch on them must satisfy the specification.
func c05R9(h H) {
	r := h.r
	r.Rule("R9", "selection tables: for every pool of 1–4 backends and every availability mask, evaluated abstractly (E10) — first returns the earliest available backend; hostByHashing returns the first available one in cyclic order from hash(key) mod n; least_conn returns an available backend whose in-flight count is minimal among the available ones (for every outcome of its random tie-break); random returns an available one (for every outcome of its draws); round_robin returns the next available one after its counter and, with all backends available, n consecutive selections return n different backends; each returns nil exactly when no backend is available", 5)
	hostT := func(fn *ssa.Function, param int) types.Type {
		return underlying(fn.Params[param].Type()).(*types.Slice).Elem().(*types.Pointer).Elem()
	}
	type hostCase struct {
		avail []bool
		rank  []int // in-flight rank, least_conn only
	}
	mkHosts := func(t types.Type, c hostCase) aslice {
		var sl aslice
		for i := range c.avail {
			i := i
			sl.elems = append(sl.elems, &aobj{name: fmt.Sprintf("host%d", i), typ: t, f: map[string]aval{}, in: func(o *aobj, path string, t types.Type) aval {
				switch path {
				case "Unhealthy":
					if c.avail[i] {
						return aint(0)
					}
					return aint(1)
				case "Fails", "MaxConns", "MaxFails":
					return aint(0)
				case "Conns":
					return asym{fmt.Sprintf("v%d", i)}
				case "CheckDown":
					return anil{}
				}
				return aunk{"host field " + path}
			}})
		}
		return sl
	}
	hostIdx := func(v aval) (int, bool) {
		switch t := v.(type) {
		case anil:
			return -1, true
		case aptr:
			var i int
			if _, err := fmt.Sscanf(t.obj.name, "host%d", &i); err == nil && t.path == "" {
				return i, true
			}
		}
		return 0, false
	}
	newEnv := func(c hostCase, hashVal int64) *absEnv {
		env := &absEnv{globals: map[string]*aobj{}}
		env.cmp = func(a, b aval) (int, bool) {
			ra, oka := symIdx(a)
			rb, okb := symIdx(b)
			if oka && okb && ra < len(c.rank) && rb < len(c.rank) {
				switch {
				case c.rank[ra] < c.rank[rb]:
					return -1, true
				case c.rank[ra] > c.rank[rb]:
					return 1, true
				}
				return 0, true
			}
			// in-flight counts are far below the sentinel the search starts from
			if oka {
				if z, ok := b.(aint); ok && z == math.MaxInt64 {
					return -1, true
				}
			}
			if okb {
				if z, ok := a.(aint); ok && z == math.MaxInt64 {
					return 1, true
				}
			}
			return 0, false
		}
		env.ext = func(callee string, args []aval) (aval, bool) {
			switch {
			case strings.HasPrefix(callee, "sync/atomic.Load"):
				if p, ok := args[0].(aptr); ok {
					return env.load(p.obj, p.path), true
				}
			case strings.HasSuffix(callee, "proxy.hash"):
				return aint(hashVal), true
			case strings.HasPrefix(callee, "math/rand."):
				return aunk{"random draw"}, true
			}
			return nil, false
		}
		return env
	}
	masks := func(n int) [][]bool {
		var out [][]bool
		for m := 0; m < 1<<n; m++ {
			a := make([]bool, n)
			for i := range a {
				a[i] = m&(1<<i) != 0
			}
			out = append(out, a)
		}
		return out
	}
	descCase := func(c hostCase) string {
		var p []string
		for i, a := range c.avail {
			s := fmt.Sprintf("host%d:", i)
			if a {
				s += "up"
			} else {
				s += "down"
			}
			if c.rank != nil {
				s += fmt.Sprintf("/conns-rank%d", c.rank[i])
			}
			p = append(p, s)
		}
		return "[" + strings.Join(p, " ") + "]"
	}
	firstAvailFrom := func(avail []bool, start int) int {
		n := len(avail)
		for k := 0; k < n; k++ {
			if avail[(start+k)%n] {
				return (start + k) % n
			}
		}
		return -1
	}
	type policy struct {
		name string
		fn   *ssa.Function
	}
	get := func(name string) *ssa.Function { return h.fn("R9", pxPkg, name) }

	// first
	if fn := get("(*First).Select"); fn != nil {
		bad, nrun := "", 0
		for n := 1; n <= 4 && bad == ""; n++ {
			for _, av := range masks(n) {
				c := hostCase{avail: av}
				env := newEnv(c, 0)
				env.runForks(fn, func() []aval {
					return []aval{aptr{&aobj{name: "policy", typ: fn.Params[0].Type().(*types.Pointer).Elem(), f: map[string]aval{}}, ""}, mkHosts(hostT(fn, 1), c), aunk{"request"}}
				}, func(res aval, und string, _ int) bool {
					nrun++
					got, ok := hostIdx(res)
					want := firstAvailFrom(av, 0)
					if und != "" || !ok || got != want {
						bad = fmt.Sprintf("%s: want host %d, got %s %s", descCase(c), want, describeAval(res), und)
						return false
					}
					return true
				})
				if bad != "" {
					break
				}
			}
		}
		r.Check(bad == "", "R9", "(*proxy.First).Select/table", fn.Pos(), "first returns the earliest available backend of the pool, nil when none is available", fmt.Sprintf("%d cases evaluated", nrun), bad)
	}
	// hostByHashing
	if fn := get("hostByHashing"); fn != nil {
		bad, nrun := "", 0
		for n := 1; n <= 4 && bad == ""; n++ {
			for _, av := range masks(n) {
				for hv := int64(0); hv < int64(2*n+1) && bad == ""; hv++ {
					c := hostCase{avail: av}
					env := newEnv(c, hv)
					env.runForks(fn, func() []aval { return []aval{mkHosts(hostT(fn, 0), c), astr("key")} }, func(res aval, und string, _ int) bool {
						nrun++
						got, ok := hostIdx(res)
						want := firstAvailFrom(av, int(hv)%n)
						if und != "" || !ok || got != want {
							bad = fmt.Sprintf("%s hash=%d: want host %d, got %s %s", descCase(c), hv, want, describeAval(res), und)
							return false
						}
						return true
					})
				}
			}
		}
		r.Check(bad == "", "R9", "proxy.hostByHashing/table", fn.Pos(), "the hash policies return the first available backend in cyclic order from slot hash(key) mod n — the same backend for the same key while availability is unchanged — and nil when none is available", fmt.Sprintf("%d cases evaluated", nrun), bad)
	}
	// least_conn
	if fn := get("(*LeastConn).Select"); fn != nil {
		bad, nrun := "", 0
		for n := 1; n <= 3 && bad == ""; n++ {
			for _, av := range masks(n) {
				for _, rk := range weakOrders(n) {
					c := hostCase{avail: av, rank: rk}
					env := newEnv(c, 0)
					env.runForks(fn, func() []aval {
						return []aval{aptr{&aobj{name: "policy", typ: fn.Params[0].Type().(*types.Pointer).Elem(), f: map[string]aval{}}, ""}, mkHosts(hostT(fn, 1), c), aunk{"request"}}
					}, func(res aval, und string, _ int) bool {
						nrun++
						got, ok := hostIdx(res)
						best := -1
						for i := range av {
							if av[i] && (best < 0 || rk[i] < rk[best]) {
								best = i
							}
						}
						good := ok && und == "" && ((best < 0 && got == -1) || (best >= 0 && got >= 0 && av[got] && rk[got] == rk[best]))
						if !good {
							bad = fmt.Sprintf("%s: want an available backend of minimal in-flight rank (e.g. host %d), got %s %s", descCase(c), best, describeAval(res), und)
							return false
						}
						return true
					})
					if bad != "" {
						break
					}
				}
				if bad != "" {
					break
				}
			}
		}
		r.Check(bad == "", "R9", "(*proxy.LeastConn).Select/table", fn.Pos(), "least_conn returns an available backend whose in-flight count is minimal among the available ones, whatever its random tie-break draws; nil when none is available", fmt.Sprintf("%d evaluations (cases x tie-break outcomes)", nrun), bad)
	}
	// random
	if fn := get("(*Random).Select"); fn != nil {
		bad, nrun := "", 0
		for n := 1; n <= 3 && bad == ""; n++ {
			for _, av := range masks(n) {
				c := hostCase{avail: av}
				env := newEnv(c, 0)
				env.runForks(fn, func() []aval {
					return []aval{aptr{&aobj{name: "policy", typ: fn.Params[0].Type().(*types.Pointer).Elem(), f: map[string]aval{}}, ""}, mkHosts(hostT(fn, 1), c), aunk{"request"}}
				}, func(res aval, und string, _ int) bool {
					nrun++
					got, ok := hostIdx(res)
					any := firstAvailFrom(av, 0) >= 0
					good := ok && und == "" && ((!any && got == -1) || (any && got >= 0 && av[got]))
					if !good {
						bad = fmt.Sprintf("%s: want an available backend, got %s %s", descCase(c), describeAval(res), und)
						return false
					}
					return true
				})
				if bad != "" {
					break
				}
			}
		}
		r.Check(bad == "", "R9", "(*proxy.Random).Select/table", fn.Pos(), "random returns an available backend for every outcome of its draws, nil only when none is available", fmt.Sprintf("%d evaluations (cases x draw outcomes)", nrun), bad)
	}
	// round_robin
	if fn := get("(*RoundRobin).Select"); fn != nil {
		bad, nrun := "", 0
		polT := fn.Params[0].Type().(*types.Pointer).Elem()
		for n := 1; n <= 4 && bad == ""; n++ {
			for _, av := range masks(n) {
				for r0 := int64(0); r0 < int64(n) && bad == ""; r0++ {
					c := hostCase{avail: av}
					env := newEnv(c, 0)
					env.noFork = true
					pol := &aobj{name: "policy", typ: polT, f: map[string]aval{"robin": aint(r0)}}
					hosts := mkHosts(hostT(fn, 1), c)
					allUp := firstAvailFrom(av, 0) >= 0
					for _, a := range av {
						allUp = allUp && a
					}
					seen := map[int]bool{}
					calls := 1
					if allUp {
						calls = n
					}
					for k := 0; k < calls && bad == ""; k++ {
						res, und := env.run(fn, []aval{aptr{pol, ""}, hosts, aunk{"request"}})
						nrun++
						got, ok := hostIdx(res)
						any := firstAvailFrom(av, 0) >= 0
						if und != "" || !ok || (any && (got < 0 || !av[got])) || (!any && got != -1) {
							bad = fmt.Sprintf("%s counter=%d call %d: want an available backend, got %s %s", descCase(c), r0, k+1, describeAval(res), und)
							break
						}
						if k == 0 && any {
							if want := firstAvailFrom(av, int(r0+1)%n); got != want {
								bad = fmt.Sprintf("%s counter=%d: want the next available backend after the counter (host %d), got host %d", descCase(c), r0, want, got)
								break
							}
						}
						if allUp && seen[got] {
							bad = fmt.Sprintf("%s counter=%d: %d consecutive selections with all backends available returned host %d twice", descCase(c), r0, n, got)
							break
						}
						seen[got] = true
					}
				}
			}
		}
		r.Check(bad == "", "R9", "(*proxy.RoundRobin).Select/table", fn.Pos(), "round_robin returns the next available backend after its counter; with all n backends available, n consecutive selections return n different backends (an even rotation)", fmt.Sprintf("%d evaluations", nrun), bad)
	}
}

func symIdx(v aval) (int, bool) {
	s, ok := v.(asym)
	if !ok || !strings.HasPrefix(s.name, "v") {
		return 0, false
	}
	var i int
	if _, err := fmt.Sscanf(s.name, "v%d", &i); err != nil {
		return 0, false
	}
	return i, true
}

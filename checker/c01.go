package main

import (
	"go/token"
	"go/types"
	"strings"

	"golang.org/x/tools/go/ssa"
)

func init() {
	register("C01", &propSpec{
		technique: "static analysis: decision-table extraction of the vhost trie (Insert/Match evaluated abstractly over opaque host labels and path bytes for all small site sets and insertion orders, E10), SSA value flow (key normalisation on all data paths), CFG edge guards over serveHTTP, commutativity of trie writes",
		run:       runC01,
		decided: "R1 the host key used to insert and to look up a site is case-folded and port-stripped by the same function on every data path; " +
			"R2 the matched site's handler chain runs only when a site was found, the not-found branch always writes the site-not-found response (404, 421 for HTTP/2+) and runs no handler; " +
			"R6 the routing table of the trie: for every set of up to three sites over the host patterns {exact, *.b.c, *.*.c, *.*.*, catch-all, and two shorter patterns that must not match} x path prefixes {/, /x, /xy}, inserted in every order, Match returns the site of the most specific matching host pattern with the longest matching path prefix, or no site (abstract evaluation with opaque labels and path bytes, E10) — this subsumes the former pattern rules R3 (lookup order) and R4 (longest prefix); " +
			"R5 every write of trie state on the Insert path commutes (idempotent insert-if-absent of a fresh node, the key's own terminal node, a constant, or a monotone accumulation), a necessary condition of declaration-order independence. Since round 4: R7 the routing table of the server as NewServer wires it (sites written with scheme, port, path, any letter case; catch-all and designated fallback sites): a site is found under the host a request will carry, and a designated fallback site for hosts no site has. Since round 5: R1 is retired (what it pinned is decided by R6 and R7 without naming the normalising function). Since round 6: R2 as a table of serveHTTP (no site: the not-found response once, no handler; a site: its chain once, prefix stripped unless /). R8 IP-literal hosts ([::1], [::1]:80, [::]:8080, 127.0.0.1) are filed and found under one name (concrete keys, the library's SplitHostPort). Since round 8: R9 a site's trie key is its address as written (Address.VHost table), not the lower-cased normalised path.",
		notDecided: "site sets larger than three and host names with more than three labels (the table is exhaustive below that bound); the relative order of the built-in fallback hosts; path-prefix trimming arithmetic.",
	})
}

const hs = "caskethttp/httpserver"

func runC01(r *Report, p *Program) {
	h := H{r, p}
	// R1 (writer and reader normalise the key alike) was a pattern rule over splitHostPath; the routing tables
	// R6 and R7 decide it from behaviour: sites written in any letter case, with port and path, are found by requests
	// whose host comes in another case, with or without a port.
	c01R2(h)
	// R3 (lookup order) and R4 (longest prefix) were pattern rules over matchHost/Match/matchPath; they are
	// subsumed by the routing table R6, which decides the same clauses from the functions' input/output behaviour
	// and is indifferent to how the code spells them.
	c01R5(h)
	c01R6(h)
	c01R7(h)
	c01R8(h)
	c01R9(h)
}

func isEdgesMapLookup(in ssa.Instruction) (*ssa.Lookup, bool) {
	l, ok := in.(*ssa.Lookup)
	if !ok || !l.CommaOk && false {
		return nil, false
	}
	if !ok {
		return nil, false
	}
	return l, readsField(l.X, "edges")
}

func c01R1Patterns(h H) {
	r := h.r
	r.Rule("R1", "key normalisation agrees between writer and reader: vhostTrie.splitHostPath's host result passes strings.ToLower on every data path and has its port removed via net.SplitHostPort; Insert keys the host-level map, and Match calls matchHost, only with that result (or a configured fallback host)", 4)
	split := h.fn("R1", hs, "(*vhostTrie).splitHostPath")
	if split == nil {
		return
	}
	toLower := func(v ssa.Value) bool { return isResultOf(v, -1, "strings.ToLower") }
	for _, rv := range returnValues(split, 0) {
		ok := allFlowsThrough(rv, toLower, false)
		r.Check(ok, "R1", "httpserver.(*vhostTrie).splitHostPath/host-result-lowercased", rv.Pos(),
			"every data path into the returned host passes strings.ToLower (host matching ignores letter case)", describe(rv))
		port := derives(rv, func(v ssa.Value) bool { return isResultOf(v, 0, "net.SplitHostPort") }, flowOpts{})
		r.Check(port, "R1", "httpserver.(*vhostTrie).splitHostPath/host-result-port-stripped", rv.Pos(),
			"the returned host can come from net.SplitHostPort's host result (host matching ignores the port)", describe(rv))
	}
	fromSplit := func(v ssa.Value) bool { return isResultOf(v, 0, funcName(split)) }
	if ins := h.fn("R1", hs, "(*vhostTrie).Insert"); ins != nil {
		n := 0
		allInstrs(ins, func(in ssa.Instruction) {
			var key ssa.Value
			var x ssa.Value
			switch t := in.(type) {
			case *ssa.Lookup:
				key, x = t.Index, t.X
			case *ssa.MapUpdate:
				key, x = t.Key, t.Map
			default:
				return
			}
			if !readsField(x, "edges") {
				return
			}
			n++
			r.Check(fromSplit(key), "R1", "httpserver.(*vhostTrie).Insert/edges-key", in.Pos(),
				"host-level map is keyed by splitHostPath's normalised host", describe(key))
		})
		if n == 0 {
			r.Unresolve("R1", "no access to t.edges found in vhostTrie.Insert")
		}
	}
	if m := h.fn("R1", hs, "(*vhostTrie).Match"); m != nil {
		for _, c := range findCalls(m, func(in ssa.Instruction) bool { return methodCallNamed(in, "vhostTrie", "matchHost") }) {
			arg := callOf(c).Args[1]
			ok := fromSplit(arg) || derives(arg, func(v ssa.Value) bool { return readsField(v, "fallbackHosts") }, flowOpts{})
			r.Check(ok, "R1", "httpserver.(*vhostTrie).Match/matchHost-arg", c.Pos(),
				"matchHost is called with splitHostPath's normalised host or a configured fallback host", describe(arg))
		}
	}
}

func c01R2(h H) {
	r := h.r
	r.Rule("R2", "not-found runs no handler, as a decision table (E10) of (*Server).serveHTTP with the trie, the ACME challenge handler, the not-found writer, trimPathPrefix and the chains as oracles: for {no site, a site at /, a site at /app} x {challenge answered or not} x {server with/without sites} — no site: the not-found response exactly once and no handler; a site: exactly its chain, once, its result returned, the prefix stripped exactly when it is not /; WriteSiteNotFound's status is 404, or 421 under ProtoMajor >= 2", 4)
	fn := h.fn("R2", hs, "(*Server).serveHTTP")
	if fn == nil {
		return
	}
	// decided as a table (E10, c01ServeTable); the control-flow formulation was retired with round 6
	nf, fd, other, n := c01ServeTable(h)
	cases := sprintf("%d cases evaluated", n)
	r.Check(fd == "" && other == "", "R2", "httpserver.(*Server).serveHTTP/chain-invoke", fn.Pos(), "when Match returned a site, exactly that site's handler chain runs, once, and its result is returned", cases, fd, other)
	r.Check(nf == "" && other == "", "R2", "httpserver.(*Server).serveHTTP/not-found-branch", fn.Pos(), "when Match returned no site the not-found response is written once (or the ACME challenge was answered) and 0 returned", cases, nf, other)
	r.Check(nf == "" && other == "", "R2", "httpserver.(*Server).serveHTTP/not-found-runs-no-handler", fn.Pos(), "no site's handler runs for a request that matched no site", cases, nf, other)
	if w := h.fn("R2", hs, "WriteSiteNotFound"); w != nil {
		for _, c := range findCalls(w, func(in ssa.Instruction) bool { return isCallTo(in, modPath+"/"+hs+".WriteTextResponse") }) {
			st := callOf(c).Args[1]
			consts := map[int64]bool{}
			okShape := true
			var walk func(v ssa.Value)
			seen := map[ssa.Value]bool{}
			walk = func(v ssa.Value) {
				if seen[v] {
					return
				}
				seen[v] = true
				if n, ok := constInt(v); ok {
					consts[n] = true
					return
				}
				if ph, ok := v.(*ssa.Phi); ok {
					for _, e := range ph.Edges {
						walk(e)
					}
					return
				}
				okShape = false
			}
			walk(st)
			ok := okShape && len(consts) == 2 && consts[404] && consts[421]
			r.Check(ok, "R2", "httpserver.WriteSiteNotFound/status-set", c.Pos(), "status written is one of the constants {404, 421}", describe(st))
			// 421 exactly under ProtoMajor >= 2: every way the constant 421 reaches the status is guarded by
			// ProtoMajor >= 2 and every way 404 reaches it by ProtoMajor < 2 (in whatever syntactic form)
			leaves, _ := phiLeaves(st)
			g := len(leaves) >= 2
			isPM := func(v ssa.Value) bool { return readsField(v, "ProtoMajor") }
			for _, lf := range leaves {
				n, _ := constInt(lf.V)
				gs := phiEdgeGuards(w, lf.Phi, lf.K)
				switch n {
				case 421:
					g = g && guardsImplyAtLeast(gs, isPM, 2)
				case 404:
					g = g && guardsImplyAtMost(gs, isPM, 1)
				}
			}
			r.Check(g, "R2", "httpserver.WriteSiteNotFound/421-iff-http2", c.Pos(), "421 is chosen exactly on the true edge of ProtoMajor >= 2")
		}
	}
}

func c01R3(h H) {
	r := h.r
	r.Rule("R3", "specificity order: in matchHost the lookup keyed by the unmodified host precedes every lookup keyed by a strings.Join candidate, the wildcard ladder ascends by 1 storing \"*\" at the loop index, every candidate keeps all labels, and a hit returns at once; in Match the request host is tried before fallback hosts, which are tried only while nothing matched", 6)
	fn := h.fn("R3", hs, "(*vhostTrie).matchHost")
	if fn != nil {
		var exact, cand []*ssa.Lookup
		allInstrs(fn, func(in ssa.Instruction) {
			l, ok := in.(*ssa.Lookup)
			if !ok || !readsField(l.X, "edges") {
				return
			}
			if _, isParam := l.Index.(*ssa.Parameter); isParam {
				exact = append(exact, l)
			} else if jc, ok := l.Index.(*ssa.Call); ok && calleeName(&jc.Call) == "strings.Join" {
				cand = append(cand, l)
				// the candidate is built from ALL labels of the host: the Split result itself, not a sub-slice
				whole := isResultOf(jc.Call.Args[0], 0, "strings.Split")
				sep, _ := constString(jc.Call.Args[1])
				var splitSep string
				if sc, ok := jc.Call.Args[0].(*ssa.Call); ok && len(sc.Call.Args) == 2 {
					splitSep, _ = constString(sc.Call.Args[1])
					if _, isParam := sc.Call.Args[0].(*ssa.Parameter); !isParam {
						whole = false
					}
				}
				r.Check(whole && sep == "." && splitSep == ".", "R3", "httpserver.(*vhostTrie).matchHost/candidate-keeps-all-labels", l.Pos(),
					"each wildcard candidate is strings.Join of the complete label list of the given host (dropping labels would let one '*' stand for several)", describe(l.Index))
			} else {
				r.Fail("R3", "httpserver.(*vhostTrie).matchHost/lookup-key", l.Pos(), "host-level lookup with a key that is neither the given host nor a wildcard candidate built by strings.Join", describe(l.Index))
			}
		})
		if len(exact) == 0 || len(cand) == 0 {
			r.Unresolve("R3", "matchHost: exact and wildcard lookups not both found")
		}
		for _, c := range cand {
			ok := mustPass(fn, c, func(in ssa.Instruction) bool {
				for _, e := range exact {
					if in == e {
						return true
					}
				}
				return false
			})
			r.Check(ok, "R3", "httpserver.(*vhostTrie).matchHost/exact-before-wildcard", c.Pos(), "every wildcard-candidate lookup is preceded on all paths by the exact-name lookup")
			// after a hit (ok true edge) no further lookup
			if okv := commaOkOf(c); okv != nil {
				hit := guardEdges(fn, true, func(v ssa.Value) bool { return v == okv })
				more := false
				for e := range hit {
					s := e.From.Succs[e.Idx]
					if len(s.Instrs) == 0 {
						continue
					}
					chk := func(in ssa.Instruction) bool {
						if l, ok := in.(*ssa.Lookup); ok && readsField(l.X, "edges") {
							more = true
							return false
						}
						return true
					}
					if chk(s.Instrs[0]) {
						reach(fn, s.Instrs[0], cut{}, chk)
					}
				}
				r.Check(len(hit) > 0 && !more, "R3", "httpserver.(*vhostTrie).matchHost/first-hit-returns", c.Pos(), "the first matching candidate (fewest wildcard labels) is returned without trying further candidates")
			}
		}
		// ladder: stores of "*" into the label slice at an index advancing by +1
		n := 0
		allInstrs(fn, func(in ssa.Instruction) {
			st, ok := in.(*ssa.Store)
			if !ok {
				return
			}
			ia, ok := st.Addr.(*ssa.IndexAddr)
			if !ok {
				return
			}
			if !derives(ia.X, func(v ssa.Value) bool { return isResultOf(v, 0, "strings.Split") }, flowOpts{}) {
				return
			}
			n++
			s, isStar := constString(st.Val)
			step, isInd := unitStep(ia.Index)
			r.Check(isStar && s == "*" && isInd && step == 1, "R3", "httpserver.(*vhostTrie).matchHost/wildcard-ladder", st.Pos(),
				"labels are replaced by \"*\" cumulatively from the left, one more per iteration (index advances by +1)", describe(st.Val), describe(ia.Index))
		})
		if n == 0 {
			r.Unresolve("R3", "matchHost: no store into the label slice found")
		}
	}
	m := h.fn("R3", hs, "(*vhostTrie).Match")
	if m != nil {
		split := funcName(h.p.Func(hs, "(*vhostTrie).splitHostPath"))
		calls := findCalls(m, func(in ssa.Instruction) bool { return methodCallNamed(in, "vhostTrie", "matchHost") })
		var primary []ssa.Instruction
		var fallback []ssa.Instruction
		for _, c := range calls {
			if isResultOf(callOf(c).Args[1], 0, split) {
				primary = append(primary, c)
			} else {
				fallback = append(fallback, c)
			}
		}
		if len(primary) == 0 {
			r.Unresolve("R3", "Match: no matchHost call on the request host")
		}
		isBranch := func(v ssa.Value) bool {
			return derives(v, func(x ssa.Value) bool {
				c, ok := x.(*ssa.Call)
				return ok && methodCallNamed(c, "vhostTrie", "matchHost")
			}, flowOpts{})
		}
		nilE := nilEdges(m, true, isBranch)
		for _, c := range fallback {
			ok1 := mustPass(m, c, func(in ssa.Instruction) bool {
				for _, pc := range primary {
					if in == pc {
						return true
					}
				}
				return false
			})
			r.Check(ok1, "R3", "httpserver.(*vhostTrie).Match/request-host-first", c.Pos(), "the request's own host is tried before any fallback host")
			r.Check(onlyVia(m, c, nilE), "R3", "httpserver.(*vhostTrie).Match/fallback-only-if-unmatched", c.Pos(), "a fallback host is tried only while no branch has matched (nil test on the branch)")
		}
	}
}

func commaOkOf(l *ssa.Lookup) ssa.Value {
	for _, ref := range *l.Referrers() {
		if e, ok := ref.(*ssa.Extract); ok && e.Index == 1 {
			return e
		}
	}
	return nil
}

func c01R4(h H) {
	r := h.r
	r.Rule("R4", "longest path prefix: matchPath returns only after its walk loop, the walk advances exactly one byte per iteration, the remembered node is replaced by each visited node that has a site and by nothing else, under no guard other than 'edge exists' and 'node has a site'", 4)
	fn := h.fn("R4", hs, "(*vhostTrie).matchPath")
	if fn == nil {
		return
	}
	// returns outside loops
	for _, e := range exitsOf(fn) {
		if ret, ok := e.(*ssa.Return); ok {
			r.Check(!inLoop(ret.Block()), "R4", "httpserver.(*vhostTrie).matchPath/return-after-walk", ret.Pos(), "no return inside the walk loop (the walk continues past the first site)")
		}
	}
	// result φ web
	rets := returnValues(fn, 0)
	if len(rets) == 0 {
		r.Unresolve("R4", "matchPath has no return value")
		return
	}
	// find the lookup in the loop
	var look *ssa.Lookup
	allInstrs(fn, func(in ssa.Instruction) {
		if l, ok := in.(*ssa.Lookup); ok && readsField(l.X, "edges") && inLoop(l.Block()) {
			look = l
		}
	})
	if look == nil {
		r.Unresolve("R4", "matchPath: no edges lookup inside a loop")
		return
	}
	okv := commaOkOf(look)
	// one byte per step.  Two equivalent forms: the key is s[0] of a remaining-path φ that is updated by
	// s = s[1:], or the key is s[i] of the loop-invariant path with i = φ(0, i+1).
	stepOK := false
	var idxPhi *ssa.Phi
	var keyByte *ssa.Index
	{
		v := look.Index
		for {
			switch t := v.(type) {
			case *ssa.Convert:
				v = t.X
				continue
			case *ssa.ChangeType:
				v = t.X
				continue
			}
			break
		}
		if l, ok := v.(*ssa.Index); ok {
			if _, isStr := l.X.Type().Underlying().(*types.Basic); isStr {
				keyByte = l
			}
		}
	}
	if keyByte != nil {
		if c, ok := constInt(keyByte.Index); ok && c == 0 {
			if ph, ok := keyByte.X.(*ssa.Phi); ok {
				for _, e := range ph.Edges {
					if s, ok := e.(*ssa.Slice); ok && s.X == ph && s.High == nil && inLoop(s.Block()) {
						if lo, ok := constInt(s.Low); ok && lo == 1 {
							stepOK = true
						}
					}
				}
			}
		} else if ph, ok := keyByte.Index.(*ssa.Phi); ok {
			_, inv := keyByte.X.(*ssa.Parameter)
			step, isStep := unitStep(ph)
			zero := false
			for _, e := range ph.Edges {
				if c, ok := constInt(e); ok && c == 0 {
					zero = true
				}
			}
			if inv && isStep && step == 1 && zero && len(ph.Edges) == 2 {
				stepOK = true
				idxPhi = ph
			}
		}
	}
	r.Check(stepOK, "R4", "httpserver.(*vhostTrie).matchPath/one-byte-per-step", look.Pos(), "the walk consumes exactly one byte of the path per iteration, starting at its first byte (s = s[1:] with key s[0], or key s[i] with i = 0, 1, 2, …)")
	// the walk advances: the map consulted is the edges field of a node φ one of whose incoming values is the
	// node just found (t = next), so that step k looks at the k-th node of the path and not always at the root
	advances := false
	if ua, ok := look.X.(*ssa.UnOp); ok {
		if fa, ok := ua.X.(*ssa.FieldAddr); ok {
			if ph, ok := fa.X.(*ssa.Phi); ok {
				for _, e := range ph.Edges {
					if ex, ok := e.(*ssa.Extract); ok && ex.Tuple == look && ex.Index == 0 {
						advances = true
					}
				}
			}
		}
	}
	r.Check(advances, "R4", "httpserver.(*vhostTrie).matchPath/advances-to-found-node", look.Pos(), "each step consults the edges of the node found by the previous step")
	// all φ leaves of the result are nil or the lookup's node
	nodeOK := true
	var leaves []string
	seen := map[ssa.Value]bool{}
	var selPhis []*ssa.Phi
	var walk func(v ssa.Value)
	walk = func(v ssa.Value) {
		if seen[v] {
			return
		}
		seen[v] = true
		switch t := v.(type) {
		case *ssa.Phi:
			selPhis = append(selPhis, t)
			for _, e := range t.Edges {
				walk(e)
			}
		case *ssa.Const:
			leaves = append(leaves, "nil")
			if t.Value != nil {
				nodeOK = false
			}
		case *ssa.Extract:
			leaves = append(leaves, describe(t))
			if t.Tuple != look || t.Index != 0 {
				nodeOK = false
			}
		default:
			leaves = append(leaves, describe(v))
			nodeOK = false
		}
	}
	for _, rv := range rets {
		if _, direct := rv.(*ssa.Extract); direct {
			// returning the node just visited ends the walk at the first site
			r.Fail("R4", "httpserver.(*vhostTrie).matchPath/return-after-walk", rv.Pos(), "a node is returned straight from the walk instead of the longest match remembered so far", describe(rv))
		}
		walk(rv)
	}
	r.Check(nodeOK, "R4", "httpserver.(*vhostTrie).matchPath/result-is-last-site-node", rets[0].Pos(), "the result is nil or a node reached by the walk", strings.Join(leaves, ","))
	// guards of the block that selects the new node
	for _, ph := range selPhis {
		for k, e := range ph.Edges {
			ex, ok := e.(*ssa.Extract)
			if !ok || ex.Tuple != look {
				continue
			}
			pred := ph.Block().Preds[k]
			if len(pred.Instrs) == 0 {
				continue
			}
			target := pred.Instrs[len(pred.Instrs)-1]
			// conditional edges inside the loop that dominate pred
			var guards []string
			extra := false
			siteGuard := false
			for _, i := range ifs(fn) {
				if !inLoop(i.Block()) {
					continue
				}
				for idx := 0; idx < 2; idx++ {
					ed := edge{i.Block(), idx}
					if !canReach(fn, nil, target, cut{edges: map[edge]bool{ed: true}}) {
						v, flip := stripNot(i.Cond)
						desc := describe(v)
						guards = append(guards, desc)
						switch {
						case v == okv && idx == 0 && !flip:
						case isLenPositive(v):
						case idxPhi != nil && isIndexBound(v, idxPhi):
						default:
							if x, nilWhenTrue, ok := nilCmp(v); ok && readsField(x, "site") && ((idx == 0) != nilWhenTrue) != flip {
								siteGuard = true
							} else {
								extra = true
							}
						}
					}
				}
			}
			r.Check(siteGuard && !extra, "R4", "httpserver.(*vhostTrie).matchPath/select-guards", target.Pos(),
				"the remembered node is replaced exactly when the edge exists and the node has a site (no additional condition such as 'nothing remembered yet')", guards...)
		}
	}
}

// isIndexBound: v is `i < len(x)` for the given induction variable (the continuation test of an index loop).
func isIndexBound(v ssa.Value, i *ssa.Phi) bool {
	b, ok := v.(*ssa.BinOp)
	if !ok || b.Op != token.LSS || b.X != i {
		return false
	}
	c, ok := b.Y.(*ssa.Call)
	return ok && calleeName(&c.Call) == "builtin.len"
}

func isLenPositive(v ssa.Value) bool {
	x, kind, c, ok := intCmp(v)
	if !ok {
		return false
	}
	call, isCall := x.(*ssa.Call)
	if !isCall || calleeName(&call.Call) != "builtin.len" {
		return false
	}
	return (kind == "gt" && c == 0) || (kind == "ne" && c == 0)
}

// c01R5: a structural necessary condition of "the outcome never depends on the order in which the sites were
// declared".  The trie is built by repeated Insert calls; its final state is independent of their order iff the
// writes commute.  Every write of trie state performed on the Insert path must therefore be one of
//
//	(a) a map insert of a freshly made node on the 'absent' edge of a lookup of that same key (idempotent),
//	(b) the site/path fields of the key's own terminal node (a location no other key writes), stored outside
//	    the walk loop or under the terminal test of the recursion,
//	(c) a constant (all writers agree), or
//	(d) a monotone accumulation: the stored value is combined with the field's current value by + | & || &&,
//	    or the store is guarded by a comparison of the new value with the field's current value (max/min).
//
// A plain store of a per-key value into a location shared between keys (`t.depth = n`) makes the last declared
// site win, whatever the field is used for on the lookup side; fields never read on the Match path are ignored.
func c01R5(h H) {
	r := h.r
	r.Rule("R5", "declaration-order independence of the trie: every write of vhostTrie state reachable from Insert is an idempotent map insert of a fresh node behind the absent-test of the same key, the site/path store of the key's own terminal node, a constant, or a monotone accumulation over the field's current value; no per-key value is plainly stored into state shared between keys that the lookup side reads", 4)
	ins := h.fn("R5", hs, "(*vhostTrie).Insert")
	if ins == nil {
		return
	}
	isTrie := func(t types.Type) bool {
		if p, ok := t.Underlying().(*types.Pointer); ok {
			t = p.Elem()
		}
		n, ok := t.(*types.Named)
		return ok && n.Obj().Name() == "vhostTrie"
	}
	// functions on the Insert path (static module callees, transitively)
	var fns []*ssa.Function
	seen := map[*ssa.Function]bool{}
	var add func(f *ssa.Function)
	add = func(f *ssa.Function) {
		if f == nil || seen[f] || f.Blocks == nil || fnPkg(f) == nil || !isModPkg(fnPkg(f).Path()) {
			return
		}
		seen[f] = true
		fns = append(fns, f)
		for _, c := range withClosures(f) {
			allInstrs(c, func(in ssa.Instruction) {
				if cc := callOf(in); cc != nil {
					add(cc.StaticCallee())
				}
			})
		}
	}
	add(ins)
	// fields the lookup side reads
	readByMatch := map[string]bool{}
	mseen := map[*ssa.Function]bool{}
	var madd func(f *ssa.Function)
	madd = func(f *ssa.Function) {
		if f == nil || mseen[f] || f.Blocks == nil || fnPkg(f) == nil || !isModPkg(fnPkg(f).Path()) {
			return
		}
		mseen[f] = true
		allInstrs(f, func(in ssa.Instruction) {
			if fa, ok := in.(*ssa.FieldAddr); ok && isTrie(fa.X.Type()) {
				readByMatch[fieldName(fa.X.Type(), fa.Field)] = true
			}
			if cc := callOf(in); cc != nil {
				madd(cc.StaticCallee())
			}
		})
	}
	madd(h.p.Func(hs, "(*vhostTrie).Match"))
	fresh := func(v ssa.Value) bool {
		switch t := v.(type) {
		case *ssa.Alloc:
			return true
		case *ssa.Call:
			f := t.Call.StaticCallee()
			return f != nil && alwaysFreshResult(f)
		}
		return false
	}
	for _, fn := range fns {
		recursive := false
		allInstrs(fn, func(in ssa.Instruction) {
			if cc := callOf(in); cc != nil && cc.StaticCallee() == fn {
				recursive = true
			}
		})
		allInstrs(fn, func(in ssa.Instruction) {
			switch st := in.(type) {
			case *ssa.MapUpdate:
				if !readsField(st.Map, "edges") {
					return
				}
				// absent edge of a lookup on the same map expression with the same key
				var okv ssa.Value
				allInstrs(fn, func(x ssa.Instruction) {
					if l, ok := x.(*ssa.Lookup); ok && readsField(l.X, "edges") && sameKeyValue(l.Index, st.Key) {
						if e := commaOkOf(l); e != nil {
							okv = e
						}
					}
				})
				ok := false
				if okv != nil {
					ok = onlyVia(fn, st, guardEdges(fn, false, func(v ssa.Value) bool { return v == okv }))
				}
				vals := valuesAt(fn, st.Value, st)
				fr := len(vals) > 0
				for _, v := range vals {
					fr = fr && fresh(v)
				}
				r.Check(ok && fr, "R5", shortFunc(fn)+"/edges-insert-if-absent", st.Pos(),
					"a node is added to the edge map only when the key is absent, and it is a fresh empty node (re-inserting or inserting in another order yields the same map)", describe(st.Key), describe(st.Value))
			case *ssa.Store:
				fa, ok := st.Addr.(*ssa.FieldAddr)
				if !ok || !isTrie(fa.X.Type()) {
					return
				}
				if _, isAlloc := rootOf(fa.X).(*ssa.Alloc); isAlloc {
					return // initialising a node that is being created
				}
				name := fieldName(fa.X.Type(), fa.Field)
				if !readByMatch[name] {
					return
				}
				construct := shortFunc(fn) + "/store:" + name
				if name == "site" || name == "path" {
					// the key's own terminal node: not inside the walk loop; in the recursive form under the
					// 'nothing left of the path' test
					ok := !inLoop(st.Block())
					if ok && recursive {
						term := guardEdges(fn, true, func(v ssa.Value) bool {
							if x, eq, lit, ok := strCmp(v); ok && eq && lit == "" {
								_, isP := paramRoot(x)
								return isP
							}
							return false
						})
						for e := range guardEdges(fn, true, func(v ssa.Value) bool {
							x, kind, c, ok := intCmp(v)
							if !ok || !(kind == "eq" && c == 0) {
								return false
							}
							call, isCall := x.(*ssa.Call)
							return isCall && calleeName(&call.Call) == "builtin.len"
						}) {
							term[e] = true
						}
						ok = onlyVia(fn, st, term)
					}
					if ok && !recursive {
						// after the walk: no loop is reachable from the store
						reach(fn, st, cut{}, func(x ssa.Instruction) bool {
							if inLoop(x.Block()) {
								ok = false
								return false
							}
							return true
						})
					}
					r.Check(ok, "R5", construct, st.Pos(), "the site and its path are stored only at the key's own terminal node (after the whole path was walked), a location no other key writes")
					return
				}
				// shared state: constant, accumulation, or max/min-guarded
				ok = false
				why := "plain store of a per-key value"
				if _, isC := st.Val.(*ssa.Const); isC {
					ok, why = true, "constant"
				}
				loadsSame := func(v ssa.Value) bool {
					u, isU := v.(*ssa.UnOp)
					if !isU || u.Op != token.MUL {
						return false
					}
					f2, isF := u.X.(*ssa.FieldAddr)
					return isF && f2.Field == fa.Field && isTrie(f2.X.Type())
				}
				if b, isB := st.Val.(*ssa.BinOp); isB && !ok {
					switch b.Op {
					case token.ADD, token.OR, token.AND:
						if loadsSame(b.X) || loadsSame(b.Y) {
							ok, why = true, "accumulation "+b.Op.String()
						}
					}
				}
				if ph, isPhi := st.Val.(*ssa.Phi); isPhi && !ok {
					// t.f = t.f || x lowers to a φ of a constant and x
					all := true
					for _, e := range ph.Edges {
						if _, isC := e.(*ssa.Const); !isC && !loadsSame(e) {
							if _, isBool := e.Type().Underlying().(*types.Basic); !isBool || e.Type().Underlying().(*types.Basic).Kind() != types.Bool {
								all = false
							}
						}
					}
					if all {
						ok, why = true, "boolean accumulation"
					}
				}
				if !ok {
					for _, g := range dominatingGuards(fn, nil, st) {
						if b, isB := g.Cond.(*ssa.BinOp); isB {
							switch b.Op {
							case token.LSS, token.GTR, token.LEQ, token.GEQ:
								if (loadsSame(b.X) && sameKeyValue(b.Y, st.Val)) || (loadsSame(b.Y) && sameKeyValue(b.X, st.Val)) {
									ok, why = true, "max/min update"
								}
							}
						}
					}
				}
				r.Check(ok, "R5", construct, st.Pos(), "trie state shared between keys and read by the lookup is updated commutatively (constant, accumulation or max/min), so the result does not depend on declaration order", why, describe(st.Val))
			}
		})
	}
}

// alwaysFreshResult: every return of f yields a value allocated in f (a constructor).
func alwaysFreshResult(f *ssa.Function) bool {
	if f.Blocks == nil {
		return false
	}
	rv := returnValues(f, 0)
	if len(rv) == 0 {
		return false
	}
	for _, v := range rv {
		if _, ok := rootOf(v).(*ssa.Alloc); !ok {
			return false
		}
	}
	return true
}

// sameKeyValue: the two SSA values are the same register, or loads/conversions of the same thing.
func sameKeyValue(a, b ssa.Value) bool {
	if a == b {
		return true
	}
	switch x := a.(type) {
	case *ssa.Convert:
		if y, ok := b.(*ssa.Convert); ok {
			return sameKeyValue(x.X, y.X)
		}
	case *ssa.ChangeType:
		if y, ok := b.(*ssa.ChangeType); ok {
			return sameKeyValue(x.X, y.X)
		}
	case *ssa.Index:
		if y, ok := b.(*ssa.Index); ok {
			return sameKeyValue(x.X, y.X) && sameKeyValue(x.Index, y.Index)
		}
	case *ssa.Const:
		if y, ok := b.(*ssa.Const); ok {
			return x.Value != nil && y.Value != nil && x.Value.ExactString() == y.Value.ExactString()
		}
	case *ssa.Call:
		// pure string helpers applied to the same operands
		if y, ok := b.(*ssa.Call); ok && calleeName(&x.Call) == calleeName(&y.Call) && len(x.Call.Args) == len(y.Call.Args) {
			switch calleeName(&x.Call) {
			case "strings.ToLower", "strings.TrimSpace", "builtin.len":
				for i := range x.Call.Args {
					if !sameKeyValue(x.Call.Args[i], y.Call.Args[i]) {
						return false
					}
				}
				return true
			}
		}
	}
	return false
}

package main

// SSA helpers shared by the rules: resolved callees, instruction-granular
// CFG reachability with removed instructions/edges (must-pass-through, edge
// guards), condition decomposition and intraprocedural value flow.

import (
	"fmt"
	"go/constant"
	"go/token"
	"go/types"
	"strings"

	"golang.org/x/tools/go/ssa"
)

// ---------------------------------------------------------------------------
// Callee resolution

// calleeName returns a canonical name of the statically resolved callee of a
// call: "pkgpath.Func", "(pkgpath.T).M" / "(*pkgpath.T).M" for methods, or
// "iface:(pkgpath.I).M" for interface invokes; "" for dynamic calls.
func calleeName(c *ssa.CallCommon) string {
	if c.IsInvoke() {
		recv := c.Value.Type()
		return "iface:(" + types.TypeString(recv, nil) + ")." + c.Method.Name()
	}
	switch v := c.Value.(type) {
	case *ssa.Function:
		return funcName(v)
	case *ssa.Builtin:
		return "builtin." + v.Name()
	case *ssa.MakeClosure:
		if f, ok := v.Fn.(*ssa.Function); ok {
			return funcName(f)
		}
	}
	return ""
}

func funcName(f *ssa.Function) string {
	if f == nil {
		return ""
	}
	if o := f.Origin(); o != nil {
		f = o
	}
	if f.Signature.Recv() != nil {
		rt := f.Signature.Recv().Type()
		return "(" + types.TypeString(rt, nil) + ")." + f.Name()
	}
	if f.Parent() != nil {
		return funcName(f.Parent()) + "$" + strings.TrimPrefix(f.Name(), f.Parent().Name()+"$")
	}
	if f.Pkg != nil {
		return f.Pkg.Pkg.Path() + "." + f.Name()
	}
	if o := f.Object(); o != nil && o.Pkg() != nil {
		return o.Pkg().Path() + "." + f.Name()
	}
	return f.Name()
}

// shortFunc is a stable short construct key for a function: "pkg.(*T).M".
func shortFunc(f *ssa.Function) string {
	n := funcName(f)
	n = strings.ReplaceAll(n, modPath+"/", "")
	n = strings.ReplaceAll(n, modPath+".", "casket.")
	// drop directory prefixes of package paths inside the name
	var b strings.Builder
	i := 0
	for i < len(n) {
		j := i
		for j < len(n) && (isIdentByte(n[j]) || n[j] == '/' || n[j] == '-') {
			j++
		}
		seg := n[i:j]
		if k := strings.LastIndex(seg, "/"); k >= 0 {
			seg = seg[k+1:]
		}
		b.WriteString(seg)
		if j < len(n) {
			b.WriteByte(n[j])
			j++
		}
		i = j
	}
	return b.String()
}

func isIdentByte(c byte) bool {
	return c == '_' || c >= '0' && c <= '9' || c >= 'a' && c <= 'z' || c >= 'A' && c <= 'Z'
}

// callOf returns the CallCommon if instr is a call/go/defer.
func callOf(in ssa.Instruction) *ssa.CallCommon {
	if c, ok := in.(ssa.CallInstruction); ok {
		return c.Common()
	}
	return nil
}

// isCallTo reports whether instr is a (plain) call to one of the names.
func isCallTo(in ssa.Instruction, names ...string) bool {
	c := callOf(in)
	if c == nil {
		return false
	}
	n := calleeName(c)
	for _, w := range names {
		if n == w {
			return true
		}
	}
	return false
}

// methodCallNamed: call (static or invoke) of a method named m on a receiver
// whose (pointer-stripped) type string ends with typeSuffix ("" = any).
func methodCallNamed(in ssa.Instruction, typeSuffix, m string) bool {
	c := callOf(in)
	if c == nil {
		return false
	}
	if c.IsInvoke() {
		if c.Method.Name() != m {
			return false
		}
		return typeSuffix == "" || strings.HasSuffix(strings.TrimPrefix(types.TypeString(c.Value.Type(), nil), "*"), typeSuffix)
	}
	f := c.StaticCallee()
	if f == nil || f.Name() != m || f.Signature.Recv() == nil {
		return false
	}
	rt := strings.TrimPrefix(types.TypeString(f.Signature.Recv().Type(), nil), "*")
	return typeSuffix == "" || strings.HasSuffix(rt, typeSuffix)
}

// allInstrs iterates over all instructions of fn.
func allInstrs(fn *ssa.Function, f func(ssa.Instruction)) {
	for _, b := range fn.Blocks {
		for _, in := range b.Instrs {
			f(in)
		}
	}
}

// withClosures returns fn and all anonymous functions nested in it.
func withClosures(fn *ssa.Function) []*ssa.Function {
	out := []*ssa.Function{fn}
	for _, a := range fn.AnonFuncs {
		out = append(out, withClosures(a)...)
	}
	return out
}

// withHelpers: fn, its closures, and the functions of the same package it calls statically or takes as a value
// (method values such as walker.visit included), transitively up to the given depth.  Used by rules whose anchored
// mechanism may have been split into helpers that the normaliser cannot inline (functions used as values).
func withHelpers(fn *ssa.Function, depth int) []*ssa.Function {
	seen := map[*ssa.Function]bool{}
	var out []*ssa.Function
	var add func(f *ssa.Function, d int)
	add = func(f *ssa.Function, d int) {
		if f == nil || seen[f] || len(f.Blocks) == 0 {
			return
		}
		if fnPkg(f) == nil || fnPkg(fn) == nil || fnPkg(f).Path() != fnPkg(fn).Path() {
			return
		}
		seen[f] = true
		if f.Synthetic == "" {
			out = append(out, f)
		}
		for _, a := range f.AnonFuncs {
			add(a, d)
		}
		if d <= 0 {
			return
		}
		allInstrs(f, func(in ssa.Instruction) {
			if c := callOf(in); c != nil {
				add(c.StaticCallee(), d-1)
			}
			for _, op := range in.Operands(nil) {
				if *op == nil {
					continue
				}
				switch t := (*op).(type) {
				case *ssa.Function:
					add(t, d-1)
				case *ssa.MakeClosure:
					if g, ok := t.Fn.(*ssa.Function); ok {
						add(g, d-1)
					}
				case *ssa.Global:
					// a package-level table of functions the code dispatches through (a map or slice literal filled in by the
					// package initialiser): its entries are helpers too
					for _, g := range tableFunctions(t) {
						add(g, d-1)
					}
				}
			}
		})
	}
	add(fn, depth)
	return out
}

// tableFunctions: the functions a package-level variable's initialiser files in it (map values, slice or array
// elements, struct fields of those), for a variable nothing else assigns.  Method expressions are thunks: the method
// they wrap is returned as well.
func tableFunctions(g *ssa.Global) []*ssa.Function {
	if g.Pkg == nil || !isModPkg(g.Pkg.Pkg.Path()) || assignedOutsideInit(g) {
		return nil
	}
	ini := g.Pkg.Func("init")
	if ini == nil {
		return nil
	}
	// values that flow into the variable: the stored value and, transitively, what is put into it
	root := map[ssa.Value]bool{}
	allInstrs(ini, func(in ssa.Instruction) {
		if st, ok := in.(*ssa.Store); ok && st.Addr == ssa.Value(g) {
			root[st.Val] = true
		}
	})
	if len(root) == 0 {
		return nil
	}
	for changed, round := true, 0; changed && round < 6; round++ {
		changed = false
		allInstrs(ini, func(in ssa.Instruction) {
			switch t := in.(type) {
			case *ssa.Slice:
				if root[t] && !root[t.X] {
					root[t.X], changed = true, true
				}
			case *ssa.MakeInterface:
				if root[t] && !root[t.X] {
					root[t.X], changed = true, true
				}
			}
		})
	}
	var out []*ssa.Function
	seen := map[*ssa.Function]bool{}
	addF := func(v ssa.Value) {
		var f *ssa.Function
		switch t := v.(type) {
		case *ssa.Function:
			f = t
		case *ssa.MakeClosure:
			f, _ = t.Fn.(*ssa.Function)
		case *ssa.ChangeType:
			f, _ = t.X.(*ssa.Function)
		}
		if f == nil || seen[f] {
			return
		}
		seen[f] = true
		out = append(out, f)
		if f.Synthetic != "" {
			allInstrs(f, func(x ssa.Instruction) {
				if c := callOf(x); c != nil && c.StaticCallee() != nil && !seen[c.StaticCallee()] {
					seen[c.StaticCallee()] = true
					out = append(out, c.StaticCallee())
				}
			})
		}
	}
	under := func(addr ssa.Value) bool {
		for i := 0; i < 6; i++ {
			if root[addr] {
				return true
			}
			switch t := addr.(type) {
			case *ssa.IndexAddr:
				addr = t.X
			case *ssa.FieldAddr:
				addr = t.X
			default:
				return false
			}
		}
		return false
	}
	allInstrs(ini, func(in ssa.Instruction) {
		switch t := in.(type) {
		case *ssa.MapUpdate:
			if root[t.Map] {
				addF(t.Value)
			}
		case *ssa.Store:
			if under(t.Addr) {
				addF(t.Val)
			}
		}
	})
	return out
}

func findCalls(fn *ssa.Function, pred func(ssa.Instruction) bool) []ssa.Instruction {
	var out []ssa.Instruction
	allInstrs(fn, func(in ssa.Instruction) {
		if callOf(in) != nil && pred(in) {
			out = append(out, in)
		}
	})
	return out
}

// ---------------------------------------------------------------------------
// Instruction-granular reachability

type edge struct {
	From *ssa.BasicBlock
	Idx  int // successor index
}

type cut struct {
	instr func(ssa.Instruction) bool // instructions that block a path (path may not pass *through* them)
	edges map[edge]bool              // removed edges
}

func idxOf(in ssa.Instruction) int {
	for i, x := range in.Block().Instrs {
		if x == in {
			return i
		}
	}
	return -1
}

// reach computes the set of (block, entered) reachable from a start point,
// never passing through a cut instruction or removed edge.  start==nil means
// function entry.  The walk begins *after* start.  visit is called for every
// instruction reached (including cut instructions themselves, which are
// reached but not passed).
func reach(fn *ssa.Function, start ssa.Instruction, c cut, visit func(ssa.Instruction) bool) {
	if len(fn.Blocks) == 0 {
		return
	}
	if start == nil {
		reachFrom(fn, fn.Blocks[0], 0, nil, c, visit)
	} else {
		reachFrom(fn, start.Block(), idxOf(start)+1, nil, c, visit)
	}
}

// reachEdge is reach starting at the top of block b, entered from pred (so that the φ values of b are known).
func reachEdge(fn *ssa.Function, pred, b *ssa.BasicBlock, c cut, visit func(ssa.Instruction) bool) {
	reachFrom(fn, b, 0, pred, c, visit)
}

// feasiblePhiEdges: the incoming edges of ph from which `at` can still be reached (constant-φ threading prunes
// the edges whose value sends control elsewhere).
func feasiblePhiEdges(fn *ssa.Function, ph *ssa.Phi, at ssa.Instruction) []int {
	var out []int
	for k, pred := range ph.Block().Preds {
		found := false
		reachEdge(fn, pred, ph.Block(), cut{}, func(in ssa.Instruction) bool {
			if in == at {
				found = true
				return false
			}
			return true
		})
		if found {
			out = append(out, k)
		}
	}
	return out
}

// valuesAt resolves a merge φ to the incoming values that are possible when control is at `at`
// (a non-φ value is its own single possibility).
func valuesAt(fn *ssa.Function, v ssa.Value, at ssa.Instruction) []ssa.Value {
	ph, ok := v.(*ssa.Phi)
	if !ok || isLoopHeaderPhi(ph) {
		return []ssa.Value{v}
	}
	var out []ssa.Value
	for _, k := range feasiblePhiEdges(fn, ph, at) {
		out = append(out, valuesAt(fn, ph.Edges[k], lastInstr(ph.Block().Preds[k]))...)
	}
	if len(out) == 0 {
		return []ssa.Value{v}
	}
	return out
}

func reachFrom(fn *ssa.Function, sb *ssa.BasicBlock, si int, spred *ssa.BasicBlock, c cut, visit func(ssa.Instruction) bool) {
	type key struct{ b, pred *ssa.BasicBlock }
	seen := map[key]bool{}
	type item struct {
		b    *ssa.BasicBlock
		i    int
		pred *ssa.BasicBlock // the block control came from (nil: unknown)
	}
	var work []item
	work = append(work, item{sb, si, spred})
	if si == 0 {
		k := key{sb, nil}
		if predSensitive(sb) {
			k.pred = spred
		}
		seen[k] = true
	}
	// Recover block is an implicit successor of every panic/exit once defers run; ignore.
	for len(work) > 0 {
		it := work[len(work)-1]
		work = work[:len(work)-1]
		b := it.b
		blocked := false
		for i := it.i; i < len(b.Instrs); i++ {
			in := b.Instrs[i]
			if visit != nil && !visit(in) {
				return
			}
			if c.instr != nil && c.instr(in) {
				blocked = true
				break
			}
		}
		if blocked {
			continue
		}
		forced := -1
		if it.pred != nil {
			forced = decidedBranch(b, it.pred)
		}
		for si, s := range b.Succs {
			if c.edges[edge{b, si}] || (forced >= 0 && si != forced) {
				continue
			}
			k := key{s, nil}
			if predSensitive(s) {
				k.pred = b
			}
			if !seen[k] {
				seen[k] = true
				work = append(work, item{s, 0, b})
			}
		}
	}
}

// Constant-φ jump threading.  When a block branches on a φ defined in that
// very block (a flag, or the result temporary of an expanded helper) and the
// value arriving from the predecessor just taken is a constant, only one
// successor is feasible.  reach follows only that one, which makes every
// path-based rule insensitive to "early return" versus "set a flag, test it
// later" versions of the same control flow.  (Sound: only infeasible paths
// are pruned.)
var predSensCache = map[*ssa.BasicBlock]int8{}

func predSensitive(b *ssa.BasicBlock) bool {
	if v, ok := predSensCache[b]; ok {
		return v == 1
	}
	r := int8(0)
	if ph, _, _ := branchPhi(b); ph != nil {
		r = 1
	}
	predSensCache[b] = r
	return r == 1
}

// branchPhi: b ends in `if φ`, `if !φ`, `if φ == const` or `if φ != const` with φ defined in b.
func branchPhi(b *ssa.BasicBlock) (ph *ssa.Phi, cmp *ssa.Const, neq bool) {
	i, ok := lastInstr(b).(*ssa.If)
	if !ok {
		return nil, nil, false
	}
	v, _ := stripNot(i.Cond)
	// a variable captured by a closure lives in a slot: `*slot = φ; t = *slot; if t …` tests the φ
	v = unspill(v, i)
	if p, ok := v.(*ssa.Phi); ok && p.Block() == b {
		return p, nil, false
	}
	if bo, ok := v.(*ssa.BinOp); ok && (bo.Op == token.EQL || bo.Op == token.NEQ) {
		for _, pr := range [][2]ssa.Value{{unspill(bo.X, bo), bo.Y}, {unspill(bo.Y, bo), bo.X}} {
			p, isP := pr[0].(*ssa.Phi)
			c, isC := pr[1].(*ssa.Const)
			if isP && isC && p.Block() == b {
				return p, c, bo.Op == token.NEQ
			}
		}
	}
	return nil, nil, false
}

// decidedBranch returns the only feasible successor index of b when entered from pred, or -1.
func decidedBranch(b, pred *ssa.BasicBlock) int {
	if !predSensitive(b) {
		return -1
	}
	ph, cmp, neq := branchPhi(b)
	k := -1
	for i, p := range b.Preds {
		if p == pred {
			if k >= 0 {
				return -1 // both outcomes of pred's branch arrive here
			}
			k = i
		}
	}
	if k < 0 {
		return -1
	}
	in, ok := ph.Edges[k].(*ssa.Const)
	if !ok {
		if cmp != nil && cmp.Value == nil {
			// a value that is certainly not nil, or one whose nil-ness was just tested on the way here
			isNil, known := false, certainlyNonNil(ph.Edges[k])
			if !known {
				isNil, known = testedNil(ph.Edges[k], pred)
			}
			if known {
				_, flip := stripNot(lastInstr(b).(*ssa.If).Cond)
				truth := neq != isNil // (φ != nil) for a non-nil value, (φ == nil) for a nil one
				if truth != flip {
					return 0
				}
				return 1
			}
		}
		return -1
	}
	_, flip := stripNot(lastInstr(b).(*ssa.If).Cond)
	var truth bool
	switch {
	case cmp == nil:
		if in.Value == nil || in.Value.Kind() != constant.Bool {
			return -1
		}
		truth = constant.BoolVal(in.Value)
	case cmp.Value == nil || in.Value == nil:
		if !(cmp.Value == nil && in.Value == nil) {
			return -1
		}
		truth = !neq
	default:
		if cmp.Value.Kind() != in.Value.Kind() || cmp.Value.Kind() == constant.Unknown {
			return -1
		}
		truth = constant.Compare(in.Value, token.EQL, cmp.Value) != neq
	}
	if truth != flip {
		return 0
	}
	return 1
}

// testedNil: control reaches the end of block `from` only through one outcome of a nil test of v itself
// (following single-predecessor chains upwards): returns whether v is nil there.
func testedNil(v ssa.Value, from *ssa.BasicBlock) (isNil, known bool) {
	b := from
	for hops := 0; hops < 6; hops++ {
		if len(b.Preds) != 1 {
			return false, false
		}
		p := b.Preds[0]
		if i, ok := lastInstr(p).(*ssa.If); ok && p.Succs[0] != p.Succs[1] {
			c, flip := stripNot(i.Cond)
			if x, nilWhenTrue, ok := nilCmp(c); ok && x == v {
				tookTrue := p.Succs[0] == b
				return (tookTrue != flip) == nilWhenTrue, true
			}
		}
		b = p
	}
	return false, false
}

func certainlyNonNil(v ssa.Value) bool {
	switch t := v.(type) {
	case *ssa.Alloc, *ssa.MakeMap, *ssa.MakeSlice, *ssa.MakeChan, *ssa.MakeClosure, *ssa.MakeInterface, *ssa.FieldAddr, *ssa.IndexAddr, *ssa.Function, *ssa.Global:
		return true
	case *ssa.Call:
		switch calleeName(&t.Call) {
		case "fmt.Errorf", "errors.New":
			return true
		}
		if f := t.Call.StaticCallee(); f != nil && f.Signature.Results().Len() == 1 {
			return alwaysNonNilResult(f, 0)
		}
	}
	return false
}

var nonNilMemo = map[*ssa.Function]int8{}

// alwaysNonNilResult: every return of the module function f yields a value that is certainly not nil
// (error constructors such as Dispenser.Errf / ArgErr).
func alwaysNonNilResult(f *ssa.Function, depth int) bool {
	if v, ok := nonNilMemo[f]; ok {
		return v == 1
	}
	if len(f.Blocks) == 0 || depth > 4 {
		return false
	}
	nonNilMemo[f] = 0 // recursion: assume not
	ok := true
	n := 0
	for _, rt := range realReturns(f) {
		res := retResults(rt)
		if len(res) != 1 {
			ok = false
			break
		}
		n++
		switch t := res[0].(type) {
		case *ssa.Call:
			switch calleeName(&t.Call) {
			case "fmt.Errorf", "errors.New":
				continue
			}
			if g := t.Call.StaticCallee(); g != nil && g.Signature.Results().Len() == 1 && alwaysNonNilResult(g, depth+1) {
				continue
			}
			ok = false
		case *ssa.MakeInterface:
		default:
			ok = false
		}
	}
	if ok && n > 0 {
		nonNilMemo[f] = 1
		return true
	}
	return false
}

// canReach: is target reachable from start (nil=entry) avoiding the cut?
func canReach(fn *ssa.Function, start, target ssa.Instruction, c cut) bool {
	found := false
	reach(fn, start, c, func(in ssa.Instruction) bool {
		if in == target {
			found = true
			return false
		}
		return true
	})
	return found
}

// mustPass: every path from entry to target passes through an instruction
// satisfying via.
func mustPass(fn *ssa.Function, target ssa.Instruction, via func(ssa.Instruction) bool) bool {
	return !canReach(fn, nil, target, cut{instr: func(in ssa.Instruction) bool { return in != target && via(in) }})
}

// exitsOf returns the exit instructions (Return, Panic) of fn.
func exitsOf(fn *ssa.Function) []ssa.Instruction {
	var out []ssa.Instruction
	for _, b := range fn.Blocks {
		if len(b.Instrs) == 0 {
			continue
		}
		switch b.Instrs[len(b.Instrs)-1].(type) {
		case *ssa.Return, *ssa.Panic:
			out = append(out, b.Instrs[len(b.Instrs)-1])
		}
	}
	return out
}

// reachesExitAvoiding: from start, can some Return be reached without passing via?
func reachesReturnAvoiding(fn *ssa.Function, start ssa.Instruction, via func(ssa.Instruction) bool) (ssa.Instruction, bool) {
	var hit ssa.Instruction
	reach(fn, start, cut{instr: via}, func(in ssa.Instruction) bool {
		if _, ok := in.(*ssa.Return); ok {
			hit = in
			return false
		}
		return true
	})
	return hit, hit != nil
}

// ---------------------------------------------------------------------------
// Conditions (If edges)

// condEdge identifies the edge of an If taken when an atomic condition holds.
type condEdge struct {
	If   *ssa.If
	True bool
}

func (e condEdge) edge() edge {
	i := 0
	if !e.True {
		i = 1
	}
	return edge{e.If.Block(), i}
}

// ifs returns all If instructions of fn.
func ifs(fn *ssa.Function) []*ssa.If {
	var out []*ssa.If
	for _, b := range fn.Blocks {
		if len(b.Instrs) == 0 {
			continue
		}
		if i, ok := b.Instrs[len(b.Instrs)-1].(*ssa.If); ok {
			out = append(out, i)
		}
	}
	return out
}

// stripNot peels boolean negations: returns the inner value and whether the
// polarity is flipped.
func stripNot(v ssa.Value) (ssa.Value, bool) {
	flip := false
	for {
		if u, ok := v.(*ssa.UnOp); ok && u.Op == token.NOT {
			v = u.X
			flip = !flip
			continue
		}
		// comparisons of a boolean with a constant: (x == true) is x, (x == false) is !x, and so on
		if b, ok := v.(*ssa.BinOp); ok && (b.Op == token.EQL || b.Op == token.NEQ) {
			x, c := b.X, b.Y
			if _, isC := x.(*ssa.Const); isC {
				x, c = c, x
			}
			if cc, isC := c.(*ssa.Const); isC && cc.Value != nil && cc.Value.Kind() == constant.Bool {
				if (b.Op == token.EQL) != constant.BoolVal(cc.Value) {
					flip = !flip
				}
				v = x
				continue
			}
		}
		return v, flip
	}
}

// guardEdges returns, for each If in fn whose (negation-stripped) condition
// satisfies pred, the edge on which the condition is TRUE (want=true) or
// FALSE (want=false).
func guardEdges(fn *ssa.Function, want bool, pred func(ssa.Value) bool) map[edge]bool {
	out := map[edge]bool{}
	for _, i := range ifs(fn) {
		v, flip := stripNot(i.Cond)
		if pred(v) {
			t := want
			if flip {
				t = !t
			}
			out[condEdge{i, t}.edge()] = true
			continue
		}
		// the condition is a conjunction (a && b, possibly stored in a flag and negated): the edge on which the
		// conjunction holds implies each of its atoms
		if _, isPhi := v.(*ssa.Phi); !isPhi {
			continue
		}
		for _, taken := range []bool{true, false} {
			for _, a := range conjAtoms(fn, i.Cond, taken, 0) {
				if a.Cond != v && pred(a.Cond) && a.Pos == want {
					out[condEdge{i, taken}.edge()] = true
				}
			}
		}
	}
	return out
}

// onlyVia: target is reachable from entry only by taking one of the edges.
func onlyVia(fn *ssa.Function, target ssa.Instruction, edges map[edge]bool) bool {
	if len(edges) == 0 {
		return false
	}
	return !canReach(fn, nil, target, cut{edges: edges})
}

// ---------------------------------------------------------------------------
// Value description and flow

func constString(v ssa.Value) (string, bool) {
	c, ok := v.(*ssa.Const)
	if !ok || c.Value == nil || c.Value.Kind() != constant.String {
		return "", false
	}
	return constant.StringVal(c.Value), true
}

func constInt(v ssa.Value) (int64, bool) {
	c, ok := v.(*ssa.Const)
	if !ok || c.Value == nil {
		return 0, false
	}
	if c.Value.Kind() != constant.Int {
		return 0, false
	}
	n, ok := constant.Int64Val(c.Value)
	return n, ok
}

// fieldPath renders loads of fields: for `x.A.B` returns ("A.B", root).
func fieldPath(v ssa.Value) (string, ssa.Value) {
	var parts []string
	for {
		switch t := v.(type) {
		case *ssa.UnOp:
			if t.Op == token.MUL {
				v = t.X
				continue
			}
			return strings.Join(parts, "."), v
		case *ssa.FieldAddr:
			parts = append([]string{fieldName(t.X.Type(), t.Field)}, parts...)
			v = t.X
			continue
		case *ssa.Field:
			parts = append([]string{fieldName(t.X.Type(), t.Field)}, parts...)
			v = t.X
			continue
		}
		return strings.Join(parts, "."), v
	}
}

func fieldName(t types.Type, i int) string {
	if p, ok := t.Underlying().(*types.Pointer); ok {
		t = p.Elem()
	}
	if s, ok := t.Underlying().(*types.Struct); ok && i < s.NumFields() {
		return s.Field(i).Name()
	}
	return fmt.Sprintf("#%d", i)
}

// readsField: v is (a load of) a field whose path ends with suffix.
func readsField(v ssa.Value, suffix string) bool {
	p, _ := fieldPath(v)
	return p != "" && (p == suffix || strings.HasSuffix(p, "."+suffix))
}

// flowOpts tune backward flow.
type flowOpts struct {
	throughCalls bool // treat every call result as derived from its args (incl. receiver)
	depth        int
}

// derives reports whether v is (transitively, intraprocedurally) computed
// from a value satisfying src.  Follows phis, conversions, binops, slices,
// field/index loads, loads of local allocs (via their stores), MakeInterface,
// TypeAssert, Extract, and call results (through arguments) when
// throughCalls.
func derives(v ssa.Value, src func(ssa.Value) bool, o flowOpts) bool {
	seen := map[ssa.Value]bool{}
	var walk func(v ssa.Value, d int) bool
	walk = func(v ssa.Value, d int) bool {
		if v == nil || seen[v] {
			return false
		}
		seen[v] = true
		if src(v) {
			return true
		}
		if d > 60 {
			return false
		}
		switch t := v.(type) {
		case *ssa.Phi:
			for _, e := range t.Edges {
				if walk(e, d+1) {
					return true
				}
			}
		case *ssa.UnOp:
			if t.Op == token.MUL {
				// load: from alloc → its stores; otherwise the address expression
				if a, ok := t.X.(*ssa.Alloc); ok {
					for _, s := range storesTo(a) {
						if walk(s, d+1) {
							return true
						}
					}
					return false
				}
				if fv, ok := t.X.(*ssa.FreeVar); ok {
					for _, s := range storesToFreeVar(fv) {
						if walk(s, d+1) {
							return true
						}
					}
					return false
				}
			}
			return walk(t.X, d+1)
		case *ssa.BinOp:
			return walk(t.X, d+1) || walk(t.Y, d+1)
		case *ssa.Convert:
			return walk(t.X, d+1)
		case *ssa.ChangeType:
			return walk(t.X, d+1)
		case *ssa.ChangeInterface:
			return walk(t.X, d+1)
		case *ssa.MakeInterface:
			return walk(t.X, d+1)
		case *ssa.TypeAssert:
			return walk(t.X, d+1)
		case *ssa.Slice:
			return walk(t.X, d+1)
		case *ssa.Extract:
			return walk(t.Tuple, d+1)
		case *ssa.FieldAddr:
			if a, ok := t.X.(*ssa.Alloc); ok {
				// stores to this field of a local struct
				for _, s := range fieldStores(a, t.Field) {
					if walk(s, d+1) {
						return true
					}
				}
			}
			return walk(t.X, d+1)
		case *ssa.Field:
			return walk(t.X, d+1)
		case *ssa.IndexAddr:
			return walk(t.X, d+1)
		case *ssa.Index:
			return walk(t.X, d+1)
		case *ssa.Lookup:
			return walk(t.X, d+1)
		case *ssa.Call:
			if o.throughCalls {
				if !t.Call.IsInvoke() {
					if _, isFn := t.Call.Value.(*ssa.Function); !isFn {
						if walk(t.Call.Value, d+1) {
							return true
						}
					}
				} else if walk(t.Call.Value, d+1) {
					return true
				}
				for _, a := range t.Call.Args {
					if walk(a, d+1) {
						return true
					}
				}
			}
		case *ssa.Alloc:
			for _, s := range storesTo(t) {
				if walk(s, d+1) {
					return true
				}
			}
		}
		return false
	}
	return walk(v, 0)
}

// storesTo returns the values stored to an Alloc — directly, or into any
// field/element of it (struct and array literals) — in its function and,
// when captured, in closures.
func storesTo(a *ssa.Alloc) []ssa.Value {
	var out []ssa.Value
	var viaAddr func(addr ssa.Value, depth int)
	viaAddr = func(addr ssa.Value, depth int) {
		refs := addr.Referrers()
		if refs == nil || depth > 4 {
			return
		}
		for _, r := range *refs {
			switch s := r.(type) {
			case *ssa.Store:
				if s.Addr == addr {
					out = append(out, s.Val)
				}
			case *ssa.FieldAddr:
				if s.X == addr {
					viaAddr(s, depth+1)
				}
			case *ssa.IndexAddr:
				if s.X == addr {
					viaAddr(s, depth+1)
				}
			case *ssa.MakeClosure:
				if addr != ssa.Value(a) {
					continue
				}
				// captured: find stores through the matching free var
				fn := s.Fn.(*ssa.Function)
				for i, b := range s.Bindings {
					if b == a && i < len(fn.FreeVars) {
						out = append(out, storesToFreeVar(fn.FreeVars[i])...)
					}
				}
			}
		}
	}
	viaAddr(a, 0)
	return out
}

func storesToFreeVar(fv *ssa.FreeVar) []ssa.Value {
	var out []ssa.Value
	for _, r := range *fv.Referrers() {
		if s, ok := r.(*ssa.Store); ok && s.Addr == fv {
			out = append(out, s.Val)
		}
	}
	// plus the stores visible in the parent via the bound alloc
	fn := fv.Parent()
	if p := fn.Parent(); p != nil {
		idx := -1
		for i, x := range fn.FreeVars {
			if x == fv {
				idx = i
			}
		}
		allInstrs(p, func(in ssa.Instruction) {
			if mc, ok := in.(*ssa.MakeClosure); ok && mc.Fn == fn && idx >= 0 && idx < len(mc.Bindings) {
				if a, ok := mc.Bindings[idx].(*ssa.Alloc); ok {
					for _, r := range *a.Referrers() {
						if s, ok := r.(*ssa.Store); ok && s.Addr == a {
							out = append(out, s.Val)
						}
					}
				}
			}
		})
	}
	return out
}

func fieldStores(a *ssa.Alloc, field int) []ssa.Value {
	var out []ssa.Value
	for _, r := range *a.Referrers() {
		if fa, ok := r.(*ssa.FieldAddr); ok && fa.Field == field {
			for _, rr := range *fa.Referrers() {
				if s, ok := rr.(*ssa.Store); ok && s.Addr == fa {
					out = append(out, s.Val)
				}
			}
		}
	}
	return out
}

// isCallResult: v is the result (or an Extract of the result) of a call
// matching pred.
func isCallResult(v ssa.Value, pred func(*ssa.Call) bool) bool {
	switch t := v.(type) {
	case *ssa.Call:
		return pred(t)
	case *ssa.Extract:
		if c, ok := t.Tuple.(*ssa.Call); ok {
			return pred(c)
		}
	}
	return false
}

func callNamed(names ...string) func(*ssa.Call) bool {
	return func(c *ssa.Call) bool {
		n := calleeName(&c.Call)
		for _, w := range names {
			if n == w {
				return true
			}
		}
		return false
	}
}

// describe gives a short canonical rendering of a value for evidence.
func describe(v ssa.Value) string {
	return describeD(v, 0)
}

func describeD(v ssa.Value, d int) string {
	if v == nil {
		return "nil"
	}
	if d > 5 {
		return "…"
	}
	switch t := v.(type) {
	case *ssa.Const:
		if t.Value == nil {
			return "nil"
		}
		return t.Value.ExactString()
	case *ssa.Parameter:
		return t.Name()
	case *ssa.FreeVar:
		return t.Name()
	case *ssa.Global:
		return t.Name()
	case *ssa.Function:
		return shortFunc(t)
	case *ssa.UnOp:
		if t.Op == token.MUL {
			if p, root := fieldPath(t); p != "" {
				return describeD(root, d+1) + "." + p
			}
			return describeD(t.X, d+1)
		}
		return t.Op.String() + describeD(t.X, d+1)
	case *ssa.BinOp:
		return "(" + describeD(t.X, d+1) + " " + t.Op.String() + " " + describeD(t.Y, d+1) + ")"
	case *ssa.Call:
		var as []string
		for _, a := range t.Call.Args {
			as = append(as, describeD(a, d+1))
		}
		n := calleeName(&t.Call)
		if t.Call.IsInvoke() {
			n = describeD(t.Call.Value, d+1) + "." + t.Call.Method.Name()
		} else if f := t.Call.StaticCallee(); f != nil {
			n = shortFunc(f)
		}
		return n + "(" + strings.Join(as, ", ") + ")"
	case *ssa.Extract:
		return describeD(t.Tuple, d+1) + fmt.Sprintf("#%d", t.Index)
	case *ssa.FieldAddr, *ssa.Field:
		p, root := fieldPath(v)
		return describeD(root, d+1) + "." + p
	case *ssa.Phi:
		if t.Comment != "" {
			return "φ(" + t.Comment + ")"
		}
		return "φ"
	case *ssa.Alloc:
		if t.Comment != "" {
			return t.Comment
		}
		return "alloc"
	case *ssa.Convert:
		// integer conversions that change the width are part of an expression's meaning (uint16 sums wrap)
		if bx, ok := t.X.Type().Underlying().(*types.Basic); ok && bx.Info()&types.IsInteger != 0 {
			if bt, ok := t.Type().Underlying().(*types.Basic); ok && bt.Info()&types.IsInteger != 0 && bt.Kind() != bx.Kind() {
				return bt.Name() + "(" + describeD(t.X, d+1) + ")"
			}
		}
		return describeD(t.X, d+1)
	case *ssa.ChangeType:
		return describeD(t.X, d+1)
	case *ssa.MakeInterface:
		return describeD(t.X, d+1)
	case *ssa.Slice:
		if a, ok := t.X.(*ssa.Alloc); ok && a.Comment == "varargs" {
			var es []string
			for _, s := range storesTo(a) {
				es = append(es, describeD(s, d+1))
			}
			return strings.Join(es, ", ")
		}
		lo, hi := "", ""
		if t.Low != nil {
			lo = describeD(t.Low, d+1)
		}
		if t.High != nil {
			hi = describeD(t.High, d+1)
		}
		return describeD(t.X, d+1) + "[" + lo + ":" + hi + "]"
	case *ssa.IndexAddr:
		return describeD(t.X, d+1) + "[" + describeD(t.Index, d+1) + "]"
	case *ssa.Index:
		return describeD(t.X, d+1) + "[" + describeD(t.Index, d+1) + "]"
	case *ssa.Lookup:
		return describeD(t.X, d+1) + "[" + describeD(t.Index, d+1) + "]"
	case *ssa.TypeAssert:
		return describeD(t.X, d+1) + ".(" + types.TypeString(t.AssertedType, func(p *types.Package) string { return p.Name() }) + ")"
	}
	return v.Name()
}

// rootOf returns the root object of an address/field chain.
func rootOf(v ssa.Value) ssa.Value {
	for {
		switch t := v.(type) {
		case *ssa.UnOp:
			if t.Op == token.MUL {
				v = t.X
				continue
			}
			return v
		case *ssa.FieldAddr:
			v = t.X
			continue
		case *ssa.Field:
			v = t.X
			continue
		case *ssa.IndexAddr:
			v = t.X
			continue
		}
		return v
	}
}

// ---------------------------------------------------------------------------
// Rule-writing helpers

// H bundles a report and program for concise rule code.
type H struct {
	r *Report
	p *Program
}

// fn resolves a function or records an unresolved anchor.
func (h H) fn(rule, rel, name string) *ssa.Function {
	f := h.p.Func(rel, name)
	if f == nil || len(f.Blocks) == 0 {
		h.r.Unresolve(rule, "function "+rel+"."+name+" not found (renamed or removed): rule cannot be evaluated")
		return nil
	}
	return f
}

// nilCmp decomposes `x == nil` / `x != nil`: returns x and whether the
// condition being TRUE means x is nil.
func nilCmp(v ssa.Value) (x ssa.Value, nilWhenTrue bool, ok bool) {
	b, isB := v.(*ssa.BinOp)
	if !isB || (b.Op != token.EQL && b.Op != token.NEQ) {
		return nil, false, false
	}
	isNil := func(v ssa.Value) bool {
		c, ok := v.(*ssa.Const)
		return ok && c.Value == nil
	}
	switch {
	case isNil(b.Y):
		x = b.X
	case isNil(b.X):
		x = b.Y
	default:
		return nil, false, false
	}
	return x, b.Op == token.EQL, true
}

// nilEdges returns the edges on which a value satisfying pred is known to be
// nil (isNil=true) or non-nil (isNil=false).
func nilEdges(fn *ssa.Function, isNil bool, pred func(ssa.Value) bool) map[edge]bool {
	out := map[edge]bool{}
	for _, i := range ifs(fn) {
		v, flip := stripNot(i.Cond)
		x, nilWhenTrue, ok := nilCmp(v)
		if !ok || !pred(x) {
			continue
		}
		// condition (after stripping nots) true ⇒ x nil iff nilWhenTrue
		takeTrue := nilWhenTrue == isNil
		if flip {
			takeTrue = !takeTrue
		}
		out[condEdge{i, takeTrue}.edge()] = true
	}
	return out
}

// intCmp decomposes an integer comparison against a constant into the
// canonical form "x > c" (strict lower bound) or "x < c" (strict upper
// bound) for the TRUE outcome.  Returns x, kind ("gt","lt","eq","ne"), c.
func intCmp(v ssa.Value) (x ssa.Value, kind string, c int64, ok bool) {
	b, isB := v.(*ssa.BinOp)
	if !isB {
		return
	}
	op := b.Op
	var cv int64
	var okc bool
	if cv, okc = constInt(b.Y); okc {
		x = b.X
	} else if cv, okc = constInt(b.X); okc {
		x = b.Y
		// mirror
		switch op {
		case token.LSS:
			op = token.GTR
		case token.GTR:
			op = token.LSS
		case token.LEQ:
			op = token.GEQ
		case token.GEQ:
			op = token.LEQ
		}
	} else {
		return nil, "", 0, false
	}
	switch op {
	case token.GTR:
		return x, "gt", cv, true
	case token.GEQ:
		return x, "gt", cv - 1, true
	case token.LSS:
		return x, "lt", cv, true
	case token.LEQ:
		return x, "lt", cv + 1, true
	case token.EQL:
		return x, "eq", cv, true
	case token.NEQ:
		return x, "ne", cv, true
	}
	return nil, "", 0, false
}

// strCmp decomposes `x == "lit"` / `x != "lit"`.
func strCmp(v ssa.Value) (x ssa.Value, eq bool, lit string, ok bool) {
	b, isB := v.(*ssa.BinOp)
	if !isB || (b.Op != token.EQL && b.Op != token.NEQ) {
		return
	}
	if s, okc := constString(b.Y); okc {
		return b.X, b.Op == token.EQL, s, true
	}
	if s, okc := constString(b.X); okc {
		return b.Y, b.Op == token.EQL, s, true
	}
	return
}

// allFlowsThrough: on every backward data path from v to a leaf, a value
// satisfying pred is crossed.  Leaves that are constants are accepted when
// constOK.  Follows the same operators as derives (through call arguments
// for calls not matching pred).
func allFlowsThrough(v ssa.Value, pred func(ssa.Value) bool, constOK bool) bool {
	memo := map[ssa.Value]int{} // 1 = in progress/true-assumed, 2 = true, 3 = false
	var walk func(v ssa.Value, d int) bool
	walk = func(v ssa.Value, d int) bool {
		if v == nil {
			return false
		}
		if pred(v) {
			return true
		}
		switch memo[v] {
		case 1, 2:
			return true // cycles (loop phis) are coinductively fine
		case 3:
			return false
		}
		if d > 50 {
			return false
		}
		memo[v] = 1
		res := false
		switch t := v.(type) {
		case *ssa.Const:
			res = constOK
		case *ssa.Phi:
			res = true
			for _, e := range t.Edges {
				if !walk(e, d+1) {
					res = false
					break
				}
			}
		case *ssa.Extract:
			res = walk(t.Tuple, d+1)
		case *ssa.Call:
			// result derived from all arguments: require every string/slice-typed arg to be normalised
			res = len(t.Call.Args) > 0
			for _, a := range t.Call.Args {
				if _, isC := a.(*ssa.Const); isC {
					continue
				}
				if !walk(a, d+1) {
					res = false
					break
				}
			}
		case *ssa.Slice:
			res = walk(t.X, d+1)
		case *ssa.Convert:
			res = walk(t.X, d+1)
		case *ssa.ChangeType:
			res = walk(t.X, d+1)
		case *ssa.BinOp:
			res = walk(t.X, d+1) && walk(t.Y, d+1)
		case *ssa.UnOp:
			if t.Op == token.MUL {
				if a, ok := t.X.(*ssa.Alloc); ok {
					st := storesTo(a)
					res = len(st) > 0
					for _, s := range st {
						if !walk(s, d+1) {
							res = false
							break
						}
					}
				} else if ia, ok := t.X.(*ssa.IndexAddr); ok {
					res = walk(ia.X, d+1)
				}
			} else {
				res = walk(t.X, d+1)
			}
		case *ssa.Index:
			res = walk(t.X, d+1)
		case *ssa.IndexAddr:
			res = walk(t.X, d+1)
		}
		if res {
			memo[v] = 2
		} else {
			memo[v] = 3
		}
		return res
	}
	return walk(v, 0)
}

// returnValues returns, per result index, the values returned at each Return.
func returnValues(fn *ssa.Function, idx int) []ssa.Value {
	var out []ssa.Value
	for _, e := range exitsOf(fn) {
		if ret, ok := e.(*ssa.Return); ok && idx < len(ret.Results) {
			out = append(out, ret.Results[idx])
		}
	}
	return out
}

// isResultOf: v is call/extract #idx of a call to one of names.
func isResultOf(v ssa.Value, idx int, names ...string) bool {
	switch t := v.(type) {
	case *ssa.Call:
		return idx <= 0 && callNamed(names...)(t)
	case *ssa.Extract:
		if c, ok := t.Tuple.(*ssa.Call); ok {
			return (idx < 0 || t.Index == idx) && callNamed(names...)(c)
		}
	}
	return false
}

// inLoop reports whether block b is in a natural loop of fn (can reach itself).
func inLoop(b *ssa.BasicBlock) bool {
	seen := map[*ssa.BasicBlock]bool{}
	var st []*ssa.BasicBlock
	st = append(st, b.Succs...)
	for len(st) > 0 {
		x := st[len(st)-1]
		st = st[:len(st)-1]
		if x == b {
			return true
		}
		if seen[x] {
			continue
		}
		seen[x] = true
		st = append(st, x.Succs...)
	}
	return false
}

// blockReaches: can `from` reach `to` along CFG edges (from != to requires ≥1 edge; from==to requires a cycle).
func blockReaches(from, to *ssa.BasicBlock) bool {
	seen := map[*ssa.BasicBlock]bool{}
	st := append([]*ssa.BasicBlock{}, from.Succs...)
	for len(st) > 0 {
		x := st[len(st)-1]
		st = st[:len(st)-1]
		if x == to {
			return true
		}
		if seen[x] {
			continue
		}
		seen[x] = true
		st = append(st, x.Succs...)
	}
	return false
}

// unitStep: v is an integer induction variable advanced by a constant step
// each iteration: v = φ(init, v') with v' = v + c, or v' itself.  Returns c.
func unitStep(v ssa.Value) (int64, bool) {
	var phi *ssa.Phi
	switch t := v.(type) {
	case *ssa.Phi:
		phi = t
	case *ssa.BinOp:
		if t.Op == token.ADD || t.Op == token.SUB {
			if p, ok := t.X.(*ssa.Phi); ok {
				phi = p
			}
		}
	}
	if phi == nil {
		return 0, false
	}
	for _, e := range phi.Edges {
		if b, ok := e.(*ssa.BinOp); ok && (b.Op == token.ADD || b.Op == token.SUB) && b.X == phi {
			if c, ok := constInt(b.Y); ok {
				if b.Op == token.SUB {
					c = -c
				}
				return c, true
			}
		}
	}
	return 0, false
}

// ---------------------------------------------------------------------------
// Loops

// naturalLoop returns the blocks of the natural loop headed by h: h plus
// every block that reaches a back edge p→h (h dominates p) without passing
// through h.  Empty if h has no back edge (h is not a loop header).
func naturalLoop(h *ssa.BasicBlock) map[*ssa.BasicBlock]bool {
	out := map[*ssa.BasicBlock]bool{}
	var work []*ssa.BasicBlock
	for _, p := range h.Preds {
		if p == h || h.Dominates(p) {
			if !out[p] {
				out[p] = true
				work = append(work, p)
			}
		}
	}
	if len(work) == 0 {
		return out
	}
	out[h] = true
	for len(work) > 0 {
		b := work[len(work)-1]
		work = work[:len(work)-1]
		if b == h {
			continue
		}
		for _, p := range b.Preds {
			if !out[p] {
				out[p] = true
				work = append(work, p)
			}
		}
	}
	return out
}

// loopOverField finds the header block of a loop whose continuation test
// compares an index with len(x) where x is loaded from a field whose path
// ends in fieldSuffix.  Returns the header and its If.
func loopOverField(fn *ssa.Function, fieldSuffix string) (*ssa.BasicBlock, *ssa.If) {
	for _, i := range ifs(fn) {
		b, ok := i.Cond.(*ssa.BinOp)
		if !ok || b.Op != token.LSS {
			continue
		}
		c, ok := b.Y.(*ssa.Call)
		if !ok || calleeName(&c.Call) != "builtin.len" {
			continue
		}
		if !derives(c.Call.Args[0], func(v ssa.Value) bool { return readsField(v, fieldSuffix) }, flowOpts{}) {
			continue
		}
		if len(naturalLoop(i.Block())) > 0 {
			return i.Block(), i
		}
	}
	return nil, nil
}

// loopExitEdges returns the edges leaving the loop (from a loop block to a non-loop block).
func loopExitEdges(loop map[*ssa.BasicBlock]bool) []edge {
	var out []edge
	for b := range loop {
		for i, s := range b.Succs {
			if !loop[s] {
				out = append(out, edge{b, i})
			}
		}
	}
	return out
}

// ---------------------------------------------------------------------------
// Guards

// guardInfo is one conditional edge that every path from entry to a target must take.
type guardInfo struct {
	If   *ssa.If
	True bool      // the edge taken
	Cond ssa.Value // condition with negations stripped
	Pos  bool      // Cond holds (true) / does not hold (false) on the taken edge
}

// dominatingGuards returns every conditional edge whose removal makes target
// unreachable from the function entry (start==nil) or from start.
func dominatingGuards(fn *ssa.Function, start, target ssa.Instruction) []guardInfo {
	var out []guardInfo
	for _, i := range ifs(fn) {
		for idx := 0; idx < 2; idx++ {
			ed := edge{i.Block(), idx}
			if i.Block().Succs[0] == i.Block().Succs[1] {
				continue
			}
			if !canReach(fn, start, target, cut{edges: map[edge]bool{ed: true}}) && canReach(fn, start, target, cut{}) {
				v, flip := stripNot(i.Cond)
				out = append(out, guardInfo{If: i, True: idx == 0, Cond: v, Pos: (idx == 0) != flip})
			}
		}
	}
	return out
}

// firstInstr returns the first instruction of a block.
func firstInstr(b *ssa.BasicBlock) ssa.Instruction {
	if len(b.Instrs) == 0 {
		return nil
	}
	return b.Instrs[0]
}

func lastInstr(b *ssa.BasicBlock) ssa.Instruction {
	if len(b.Instrs) == 0 {
		return nil
	}
	return b.Instrs[len(b.Instrs)-1]
}

// loopOf returns the innermost natural loop (header, blocks) containing b, or nil.
func loopOf(b *ssa.BasicBlock) (*ssa.BasicBlock, map[*ssa.BasicBlock]bool) {
	var best *ssa.BasicBlock
	var bestSet map[*ssa.BasicBlock]bool
	for _, h := range b.Parent().Blocks {
		set := naturalLoop(h)
		if len(set) == 0 || !set[b] {
			continue
		}
		if best == nil || len(set) < len(bestSet) {
			best, bestSet = h, set
		}
	}
	return best, bestSet
}

// definedOutside: v is defined outside the loop (parameter, constant, global, or instruction in a non-loop block).
func definedOutside(v ssa.Value, loop map[*ssa.BasicBlock]bool) bool {
	in, ok := v.(ssa.Instruction)
	if !ok {
		return true
	}
	return !loop[in.Block()]
}

// isAtomicCall returns the address operand if in is a call to sync/atomic.* on an address.
func isAtomicCall(in ssa.Instruction) (ssa.Value, string, bool) {
	c := callOf(in)
	if c == nil || c.IsInvoke() {
		return nil, "", false
	}
	n := calleeName(c)
	if !strings.HasPrefix(n, "sync/atomic.") || len(c.Args) == 0 {
		return nil, "", false
	}
	return resolveAddr(c.Args[0]), strings.TrimPrefix(n, "sync/atomic."), true
}

func uniqueValues(vs []ssa.Value) []ssa.Value {
	seen := map[ssa.Value]bool{}
	var out []ssa.Value
	for _, v := range vs {
		if !seen[v] {
			seen[v] = true
			out = append(out, v)
		}
	}
	return out
}

// resolveAddr follows a pointer that was only given a name: a local `p := &x.f` (also when the local is captured
// by a closure and therefore lives in a cell), a closure's free variable bound to such a pointer, or a parameter
// of a function literal that is called or started exactly once with such a pointer.
func resolveAddr(v ssa.Value) ssa.Value {
	for i := 0; i < 8; i++ {
		switch t := v.(type) {
		case *ssa.UnOp:
			if t.Op != token.MUL {
				return v
			}
			switch a := t.X.(type) {
			case *ssa.Alloc:
				st := uniqueValues(storesTo(a))
				if len(st) != 1 {
					return v
				}
				v = st[0]
				continue
			case *ssa.FreeVar:
				// a captured cell holding the pointer
				st := uniqueValues(storesToFreeVar(a))
				if len(st) != 1 {
					return v
				}
				v = st[0]
				continue
			}
			return v
		case *ssa.FreeVar:
			fn := t.Parent()
			if fn == nil || fn.Parent() == nil {
				return v
			}
			idx := -1
			for k, fv := range fn.FreeVars {
				if fv == t {
					idx = k
				}
			}
			var bound ssa.Value
			n := 0
			allInstrs(fn.Parent(), func(in ssa.Instruction) {
				if mc, ok := in.(*ssa.MakeClosure); ok && mc.Fn == ssa.Value(fn) && idx >= 0 && idx < len(mc.Bindings) {
					bound = mc.Bindings[idx]
					n++
				}
			})
			if n != 1 {
				return v
			}
			v = bound
			continue
		case *ssa.Parameter:
			fn := t.Parent()
			if fn == nil || fn.Parent() == nil {
				return v
			}
			idx := -1
			for k, p := range fn.Params {
				if p == t {
					idx = k
				}
			}
			var arg ssa.Value
			n := 0
			allInstrs(fn.Parent(), func(in ssa.Instruction) {
				c := callOf(in)
				if c == nil || c.IsInvoke() {
					return
				}
				callee := c.StaticCallee()
				if mc, ok := c.Value.(*ssa.MakeClosure); ok {
					callee, _ = mc.Fn.(*ssa.Function)
				}
				if callee == fn && idx >= 0 && idx < len(c.Args) {
					arg = c.Args[idx]
					n++
				}
			})
			if n != 1 {
				return v
			}
			v = arg
			continue
		}
		return v
	}
	return v
}

// conjAtoms decomposes a boolean value built with && (lowered by go/ssa to a
// φ of `false` constants and the right operand) into its conjuncts, each with
// the polarity under which it must hold.  A value that is not such a φ is its
// own single atom.
func conjAtoms(fn *ssa.Function, v ssa.Value, pos bool, depth int) []guardInfo {
	v, flip := stripNot(v)
	if flip {
		pos = !pos
	}
	ph, ok := v.(*ssa.Phi)
	if !ok || !pos || depth > 4 {
		return []guardInfo{{Cond: v, Pos: pos}}
	}
	var out []guardInfo
	for k, e := range ph.Edges {
		if c, ok := e.(*ssa.Const); ok {
			if c.Value != nil && c.Value.String() == "false" {
				continue // short-circuit edge of &&
			}
			return []guardInfo{{Cond: v, Pos: pos}} // a `true` edge: this is an ||, not decomposed
		}
		out = append(out, conjAtoms(fn, e, true, depth+1)...)
		pred := ph.Block().Preds[k]
		if t := lastInstr(pred); t != nil {
			for _, g := range dominatingGuards(fn, nil, t) {
				if !ph.Block().Dominates(g.If.Block()) && g.If.Block() != ph.Block() {
					out = append(out, conjAtoms(fn, g.Cond, g.Pos, depth+1)...)
				}
			}
		}
	}
	return out
}

// guardAtoms: the dominating guards of target, with && φ conditions expanded into atoms.
func guardAtoms(fn *ssa.Function, start, target ssa.Instruction) []guardInfo {
	var out []guardInfo
	seen := map[string]bool{}
	for _, g := range dominatingGuards(fn, start, target) {
		for _, a := range conjAtoms(fn, g.Cond, g.Pos, 0) {
			if a.If == nil {
				a.If = g.If
			}
			k := sprintf("%p/%v", a.Cond, a.Pos)
			if !seen[k] {
				seen[k] = true
				out = append(out, a)
			}
		}
	}
	return out
}

// ---------------------------------------------------------------------------
// Defer-spilled results and captured parameters

// unspill resolves a load of a local slot to the value stored into it most
// recently in the same block before `at` (go/ssa spills named/deferred
// results and captured parameters into Allocs).  Other values are returned unchanged.
func unspill(v ssa.Value, at ssa.Instruction) ssa.Value {
	ld, ok := v.(*ssa.UnOp)
	if !ok || ld.Op != token.MUL {
		return v
	}
	a, ok := ld.X.(*ssa.Alloc)
	if !ok {
		return v
	}
	// single-store slot (captured parameter): resolve regardless of block
	var only ssa.Value
	n := 0
	for _, r := range *a.Referrers() {
		if st, ok := r.(*ssa.Store); ok && st.Addr == a {
			only = st.Val
			n++
		}
	}
	if n == 1 {
		if _, isParam := only.(*ssa.Parameter); isParam {
			return only
		}
	}
	var last ssa.Value
	for _, in := range at.Block().Instrs {
		if in == at || in == ssa.Instruction(ld) {
			break // only stores before the load determine what it reads
		}
		if st, ok := in.(*ssa.Store); ok && st.Addr == a {
			last = st.Val
		}
	}
	if last != nil {
		return last
	}
	return v
}

// retResults returns the (unspilled) results of a Return.
func retResults(rt *ssa.Return) []ssa.Value {
	out := make([]ssa.Value, len(rt.Results))
	for i, v := range rt.Results {
		u := unspill(v, rt)
		// the stored value may itself be a load of another slot (e.g. `return i, err`)
		out[i] = unspill(u, rt)
	}
	return out
}

// realReturns: the Return instructions of fn except the one in the recover block.
func realReturns(fn *ssa.Function) []*ssa.Return {
	var out []*ssa.Return
	for _, e := range exitsOf(fn) {
		if rt, ok := e.(*ssa.Return); ok && rt.Block() != fn.Recover {
			out = append(out, rt)
		}
	}
	return out
}

// paramRoot resolves a field-path root through a spilled parameter slot.
func paramRoot(v ssa.Value) (*ssa.Parameter, bool) {
	if p, ok := v.(*ssa.Parameter); ok {
		return p, true
	}
	if ld, ok := v.(*ssa.UnOp); ok && ld.Op == token.MUL {
		v = ld.X
	}
	{
		if a, ok := v.(*ssa.Alloc); ok {
			var only ssa.Value
			n := 0
			for _, r := range *a.Referrers() {
				if st, ok := r.(*ssa.Store); ok && st.Addr == a {
					only = st.Val
					n++
				}
			}
			if n == 1 {
				if p, ok := only.(*ssa.Parameter); ok {
					return p, true
				}
			}
		}
	}
	return nil, false
}

// ---------------------------------------------------------------------------
// Form-independent guard reasoning (robust against inverted conditions,
// early returns and if/switch rewrites)

// phiEdgeGuards: the guard atoms that hold whenever control enters ph's block
// through its k-th predecessor: the guards dominating that predecessor's
// terminator plus, if the predecessor ends in a conditional branch, the
// outcome that leads to ph's block.
func phiEdgeGuards(fn *ssa.Function, ph *ssa.Phi, k int) []guardInfo {
	pred := ph.Block().Preds[k]
	t := lastInstr(pred)
	if t == nil {
		return nil
	}
	out := guardAtoms(fn, nil, t)
	if i, ok := t.(*ssa.If); ok && pred.Succs[0] != pred.Succs[1] {
		takeTrue := pred.Succs[0] == ph.Block()
		v, flip := stripNot(i.Cond)
		for _, a := range conjAtoms(fn, v, takeTrue != flip, 0) {
			if a.If == nil {
				a.If = i
			}
			out = append(out, a)
		}
	}
	return out
}

// atomIntBounds interprets a guard atom as a constraint on an integer value:
// when the atom holds, lo <= x <= hi (each bound optional).
func atomIntBounds(a guardInfo) (x ssa.Value, lo, hi int64, hasLo, hasHi, ok bool) {
	x, kind, c, isCmp := intCmp(a.Cond)
	if !isCmp {
		return nil, 0, 0, false, false, false
	}
	switch kind {
	case "gt": // x > c
		if a.Pos {
			return x, c + 1, 0, true, false, true
		}
		return x, 0, c, false, true, true
	case "lt": // x < c
		if a.Pos {
			return x, 0, c - 1, false, true, true
		}
		return x, c, 0, true, false, true
	case "eq":
		if a.Pos {
			return x, c, c, true, true, true
		}
	case "ne":
		if !a.Pos {
			return x, c, c, true, true, true
		}
	}
	return nil, 0, 0, false, false, false
}

// guardsImplyAtLeast / AtMost: some atom on a value satisfying pred bounds it from below / above.
func guardsImplyAtLeast(gs []guardInfo, pred func(ssa.Value) bool, n int64) bool {
	for _, g := range gs {
		if x, lo, _, hasLo, _, ok := atomIntBounds(g); ok && hasLo && lo >= n && pred(x) {
			return true
		}
	}
	return false
}

func guardsImplyAtMost(gs []guardInfo, pred func(ssa.Value) bool, n int64) bool {
	for _, g := range gs {
		if x, _, hi, _, hasHi, ok := atomIntBounds(g); ok && hasHi && hi <= n && pred(x) {
			return true
		}
	}
	return false
}

// phiLeaves enumerates the non-φ leaves of a φ web together with the φ edge through which each enters.
type phiLeaf struct {
	Phi *ssa.Phi
	K   int
	V   ssa.Value
}

func phiLeaves(v ssa.Value) (leaves []phiLeaf, direct []ssa.Value) {
	seen := map[ssa.Value]bool{}
	var walk func(v ssa.Value)
	walk = func(v ssa.Value) {
		ph, ok := v.(*ssa.Phi)
		if !ok {
			direct = append(direct, v)
			return
		}
		if seen[v] {
			return
		}
		seen[v] = true
		for k, e := range ph.Edges {
			if _, isPhi := e.(*ssa.Phi); isPhi {
				walk(e)
			} else {
				leaves = append(leaves, phiLeaf{ph, k, e})
			}
		}
	}
	walk(v)
	return
}

// boolCases enumerates, form-independently, the ways a boolean function can
// return `want`: one entry per way, each the set of guard atoms that hold on
// it.  `return true` behind guards, `return a || b`, `return a && b`, and
// early-return chains all reduce to the same case lists.
func boolCases(fn *ssa.Function, want bool) [][]guardInfo {
	var out [][]guardInfo
	var expand func(v ssa.Value, want bool, base []guardInfo, depth int)
	expand = func(v ssa.Value, want bool, base []guardInfo, depth int) {
		v, flip := stripNot(v)
		if flip {
			want = !want
		}
		if c, ok := v.(*ssa.Const); ok && c.Value != nil {
			if (c.Value.String() == "true") == want {
				out = append(out, base)
			}
			return
		}
		if ph, ok := v.(*ssa.Phi); ok && depth < 6 {
			for k, e := range ph.Edges {
				gs := append(append([]guardInfo{}, base...), phiEdgeGuards(fn, ph, k)...)
				expand(e, want, gs, depth+1)
			}
			return
		}
		out = append(out, append(append([]guardInfo{}, base...), guardInfo{Cond: v, Pos: want}))
	}
	for _, rt := range realReturns(fn) {
		res := retResults(rt)
		if len(res) == 0 {
			continue
		}
		expand(res[0], want, guardAtoms(fn, nil, rt), 0)
	}
	return out
}

// isConstFlag: a boolean φ all of whose leaves are constants (a flag such as found/ok produced by merging
// `…, true` and `…, false` results).  With constant-φ threading its test adds no information of its own.
func isConstFlag(v ssa.Value) bool {
	ph, ok := v.(*ssa.Phi)
	if !ok {
		return false
	}
	leaves, _ := phiLeaves(ph)
	if len(leaves) == 0 {
		return false
	}
	for _, l := range leaves {
		c, isC := l.V.(*ssa.Const)
		if !isC || c.Value == nil || c.Value.Kind() != constant.Bool {
			return false
		}
	}
	return true
}

// accessorOf: f is a method whose every return yields one and the same field of its receiver, read directly
// (`func (r *T) Status() int { return r.status }`); returns that field's name, else "".
func accessorOf(f *ssa.Function) string {
	if f == nil || len(f.Blocks) == 0 || f.Signature.Recv() == nil || len(f.Params) != 1 {
		return ""
	}
	name := ""
	for _, rt := range realReturns(f) {
		res := retResults(rt)
		if len(res) != 1 {
			return ""
		}
		p, root := fieldPath(res[0])
		if root != ssa.Value(f.Params[0]) || p == "" || strings.Contains(p, ".") || (name != "" && name != p) {
			return ""
		}
		name = p
	}
	// no stores at all: a pure read
	pure := true
	allInstrs(f, func(in ssa.Instruction) {
		switch in.(type) {
		case *ssa.Store, *ssa.MapUpdate, *ssa.Call, *ssa.Go, *ssa.Defer, *ssa.Send:
			pure = false
		}
	})
	if !pure {
		return ""
	}
	return name
}

func leafValues(ls []phiLeaf) []ssa.Value {
	var out []ssa.Value
	for _, l := range ls {
		out = append(out, l.V)
	}
	return out
}

package main

// E1: acquire/release pairing on the SSA CFG.  For an acquire instruction A
// with resource key k, every path from A to a function exit (Return or
// explicit Panic) must pass a release of k: a call releasing k, a `defer`
// of such a call, or a deferred closure whose body releases k.  A deferred
// release executed on every path *before* A also covers A.

import (
	"golang.org/x/tools/go/ssa"
)

type pairSpec struct {
	// acquire returns the resource key when in acquires.
	acquire func(in ssa.Instruction) (string, bool)
	// release reports whether the call c releases key.
	release func(c *ssa.CallCommon, key string) bool
}

type pairResult struct {
	Fn      *ssa.Function
	Acquire ssa.Instruction
	Key     string
	BadExit ssa.Instruction // nil if paired on all paths
}

func (s pairSpec) releases(in ssa.Instruction, key string) bool {
	switch t := in.(type) {
	case *ssa.Call:
		if s.release(&t.Call, key) {
			return true
		}
		// immediately-invoked or same-package wrapper that releases on all paths
		if f := calleeFunc(&t.Call); f != nil && len(f.Blocks) > 0 && isModFunc(f) {
			return s.releasesOnAllPaths(f, key, 2)
		}
	case *ssa.Defer:
		if s.release(&t.Call, key) {
			return true
		}
		if f := calleeFunc(&t.Call); f != nil && len(f.Blocks) > 0 {
			// deferred closure/function: releases if some path-independent release exists
			return s.releasesOnAllPaths(f, key, 2)
		}
	}
	return false
}

func calleeFunc(c *ssa.CallCommon) *ssa.Function {
	if c.IsInvoke() {
		return nil
	}
	switch v := c.Value.(type) {
	case *ssa.Function:
		return v
	case *ssa.MakeClosure:
		f, _ := v.Fn.(*ssa.Function)
		return f
	}
	return nil
}

func isModFunc(f *ssa.Function) bool {
	pk := fnPkg(f)
	return pk != nil && isModPkg(pk.Path())
}

// releasesOnAllPaths: every path from f's entry to a Return passes a release of key.
func (s pairSpec) releasesOnAllPaths(f *ssa.Function, key string, depth int) bool {
	if depth == 0 {
		return false
	}
	any := false
	_, bad := reachesReturnAvoiding(f, nil, func(in ssa.Instruction) bool {
		if c := callOf(in); c != nil && s.release(c, key) {
			any = true
			return true
		}
		return false
	})
	return any && !bad
}

func (s pairSpec) run(fn *ssa.Function) []pairResult {
	var out []pairResult
	allInstrs(fn, func(in ssa.Instruction) {
		key, ok := s.acquire(in)
		if !ok {
			return
		}
		res := pairResult{Fn: fn, Acquire: in, Key: key}
		// a deferred release that every path to A has already executed?
		pre := mustPass(fn, in, func(x ssa.Instruction) bool {
			d, ok := x.(*ssa.Defer)
			return ok && s.releases(d, key)
		})
		if !pre {
			var bad ssa.Instruction
			reach(fn, in, cut{instr: func(x ssa.Instruction) bool { return s.releases(x, key) }}, func(x ssa.Instruction) bool {
				switch x.(type) {
				case *ssa.Return, *ssa.Panic:
					if !s.releases(x, key) {
						bad = x
						return false
					}
				}
				return true
			})
			res.BadExit = bad
		}
		out = append(out, res)
	})
	return out
}

package main

import (
	"fmt"
	"go/types"
	"net/url"
	"strings"
)

// c05R11: a backend that can never be reached is as good as none, and the balancer keeps selecting it.  An upstream
// address is given the scheme http:// unless it carries one already; "carries one" has to mean a scheme, not a host
// name that begins with the same letters.  staticUpstream.NewHost is evaluated (E10) on a table of addresses; the
// host's Name must be the address with exactly the scheme it was written with, or http://.
func c05R11(h H) {
	r := h.r
	r.Rule("R11", "backend addresses keep or get a scheme, as a table (E10) of staticUpstream.NewHost: plain host:port addresses — also those whose host name begins with the letters http (httpd:80, http-api.internal:8080, https-gw:443) — are named http://<address>; addresses written with http://, https://, quic://, unix:, srv:// and srv+https:// stay as written", 1)
	fn := h.fn("R11", pxPkg, "(*staticUpstream).NewHost")
	if fn == nil {
		return
	}
	suT := derefType(fn.Params[0].Type())
	cases := []struct{ in, want string }{
		{"backend:8080", "http://backend:8080"}, {"10.0.0.1:80", "http://10.0.0.1:80"},
		{"httpd:80", "http://httpd:80"}, {"http-api.internal:8080", "http://http-api.internal:8080"}, {"https-gw:443", "http://https-gw:443"}, {"httpbin", "http://httpbin"},
		{"http://a:80", "http://a:80"}, {"https://a", "https://a"}, {"quic://a:443", "quic://a:443"}, {"unix:/run/app.sock", "unix:/run/app.sock"},
		{"srv://svc.local", "srv://svc.local"}, {"srv+https://svc.local", "srv+https://svc.local"},
	}
	bad, n := "", 0
	for _, c := range cases {
		env := &absEnv{globals: map[string]*aobj{}, noFork: true, maxSteps: 100000}
		env.ext = func(callee string, args []aval) (aval, bool) {
			switch {
			case callee == "net/url.Parse":
				if s, ok := args[0].(astr); ok {
					if _, err := url.Parse(string(s)); err != nil {
						return atuple{anil{}, aiface{aptr{&aobj{name: "url error", typ: types.Typ[types.Int], f: map[string]aval{}}, ""}, types.Typ[types.Int]}}, true
					}
					return atuple{aptr{&aobj{name: "base url", typ: types.Typ[types.Int], f: map[string]aval{}}, ""}, anil{}}, true
				}
			case strings.HasSuffix(callee, "proxy.NewSingleHostReverseProxy"):
				return aptr{&aobj{name: "reverse proxy", typ: types.Typ[types.Int], f: map[string]aval{}}, ""}, true
			}
			return nil, false
		}
		su := &aobj{name: "upstream", typ: suT, f: map[string]aval{}}
		su.in = func(o *aobj, path string, t types.Type) aval { return zeroOf(t) }
		res, und := env.run(fn, []aval{aptr{su, ""}, astr(c.in)})
		n++
		desc := fmt.Sprintf("upstream address %q", c.in)
		name := ""
		if tp, ok := res.(atuple); ok && len(tp) == 2 {
			if p, ok := tp[0].(aptr); ok {
				if s, ok := env.load(p.obj, joinPath(p.path, "Name")).(astr); ok {
					name = string(s)
				}
			}
		}
		switch {
		case und != "" && name == "":
			bad = desc + ": undecided — " + und
		case name != c.want:
			bad = fmt.Sprintf("%s: the backend is named %q, specification says %q (the URL parser takes what stands before the first colon for the scheme: the backend can never be reached, and is never marked down)", desc, name, c.want)
		}
		if bad != "" {
			break
		}
	}
	r.Check(bad == "", "R11", "proxy.(*staticUpstream).NewHost/scheme-table", fn.Pos(), "every backend address ends up with the scheme it was written with, or http://", fmt.Sprintf("%d addresses evaluated", n), bad)
}

package main

import (
	"go/constant"
	"go/token"
	"strings"

	"golang.org/x/tools/go/ssa"
)

// c19R5: a backend's status line is peer bytes.  net/http's client accepts any three-digit-or-not number there
// ("HTTP/1.1 42 x", "HTTP/1.1 1000 x"), and http.ResponseWriter.WriteHeader panics for codes outside 100..999.  In
// the proxy's relay (ReverseProxy.ServeHTTP and the helper the header commit may have been moved to), every
// WriteHeader whose argument is the backend response's StatusCode is reached only on paths that have compared that
// status against both ends of the accepted range.  The guards are read off the dominating conditional edges in
// whatever spelling (<, <=, >, >=, negated, either operand order); for a helper with one call site the caller's
// guards at that site count too.
func c19R5(h H) {
	r := h.r
	r.Rule("R5", "a backend status outside 100..999 never reaches WriteHeader: in proxy.ReverseProxy.ServeHTTP (and a single-caller helper the relay was moved to) every ResponseWriter.WriteHeader whose argument is a load of the backend response's StatusCode is dominated by guards that bound that field to 100..999", 1)
	fn0 := h.fn("R5", pxPkg, "(*ReverseProxy).ServeHTTP")
	if fn0 == nil {
		return
	}
	isStatus := func(v ssa.Value) bool {
		u, ok := v.(*ssa.UnOp)
		if !ok || u.Op != token.MUL {
			return false
		}
		p, base := fieldPath(v)
		return p == "StatusCode" && strings.HasSuffix(derefType(base.Type()).String(), "net/http.Response")
	}
	bounds := func(fn *ssa.Function, at ssa.Instruction, lo, hi *int64) {
		for _, g := range dominatingGuards(fn, nil, at) {
			b, ok := g.Cond.(*ssa.BinOp)
			if !ok {
				continue
			}
			x, y, op := b.X, b.Y, b.Op
			if isStatus(y) {
				x, y = y, x
				op = map[token.Token]token.Token{token.LSS: token.GTR, token.LEQ: token.GEQ, token.GTR: token.LSS, token.GEQ: token.LEQ, token.EQL: token.EQL, token.NEQ: token.NEQ}[op]
			}
			k, isC := y.(*ssa.Const)
			if !isStatus(x) || !isC || k.Value == nil || k.Value.Kind() != constant.Int {
				continue
			}
			c, _ := constant.Int64Val(k.Value)
			if !g.Pos {
				neg, ok := map[token.Token]token.Token{token.LSS: token.GEQ, token.LEQ: token.GTR, token.GTR: token.LEQ, token.GEQ: token.LSS}[op]
				if !ok {
					continue
				}
				op = neg
			}
			switch op {
			case token.GEQ:
				if c > *lo {
					*lo = c
				}
			case token.GTR:
				if c+1 > *lo {
					*lo = c + 1
				}
			case token.LEQ:
				if c < *hi {
					*hi = c
				}
			case token.LSS:
				if c-1 < *hi {
					*hi = c - 1
				}
			}
		}
	}
	n := 0
	for _, fn := range withHelpers(fn0, 2) {
		allInstrs(fn, func(in ssa.Instruction) {
			c := callOf(in)
			if c == nil || !c.IsInvoke() || c.Method.Name() != "WriteHeader" || len(c.Args) != 1 || !isStatus(c.Args[0]) {
				return
			}
			n++
			lo, hi := int64(-1<<62), int64(1<<62)
			bounds(fn, in, &lo, &hi)
			if fn != fn0 {
				if sites := callSitesOf(h.p, fn); len(sites) == 1 {
					bounds(sites[0].Parent(), sites[0], &lo, &hi)
				}
			}
			r.Check(lo >= 100 && hi <= 999, "R5", shortFunc(fn)+"/status-in-range-before-WriteHeader", in.Pos(), "the backend's status is compared against both ends of 100..999 on every path to the header commit (WriteHeader panics outside that range)", sprintf("bounds established on the path: %d..%d", lo, hi))
		})
	}
	if n == 0 {
		r.Unresolve("R5", "ReverseProxy.ServeHTTP: no WriteHeader of the backend's StatusCode found")
	}
}

// c19R6: the relay has no panic of its own.  Which branch of ReverseProxy.ServeHTTP runs is decided by the backend's
// response (status 101 with `Upgrade: websocket` selects the tunnel branch whether or not the client asked for an
// upgrade); an explicit panic there is a panic a peer can trigger.
func c19R6(h H) {
	r := h.r
	r.Rule("R6", "no explicit panic in the proxy's relay: ReverseProxy.ServeHTTP (and single-caller helpers it was split into) contains no panic statement — its branches are selected by what the backend answers", 1)
	fn0 := h.fn("R6", pxPkg, "(*ReverseProxy).ServeHTTP")
	if fn0 == nil {
		return
	}
	n := 0
	for _, fn := range withHelpers(fn0, 2) {
		k := 0
		allInstrs(fn, func(in ssa.Instruction) {
			if _, ok := in.(*ssa.Panic); ok && in.Pos().IsValid() { // (go/ssa's own "unreachable" panics have no position)
				k++
				n++
				r.Check(false, "R6", sprintf("%s/explicit-panic#%d", shortFunc(fn), k), in.Pos(), "a panic statement on a path the backend's response selects")
			}
		})
	}
	if n == 0 {
		r.Check(true, "R6", shortFunc(fn0)+"/no-explicit-panic", fn0.Pos(), "the relay reports failures as errors")
	}
}

package main

import (
	"fmt"
	"go/types"
	"strings"
)

// mkController builds a *casket.Controller whose embedded dispenser holds the given token lines (cursor before the
// first token, as a directive's setup function receives it).
func mkController(ctlT types.Type, lines [][]string) *aobj {
	var dT types.Type
	dField := ""
	if st, ok := underlying(ctlT).(*types.Struct); ok {
		for i := 0; i < st.NumFields(); i++ {
			if strings.HasSuffix(st.Field(i).Type().String(), "casketfile.Dispenser") {
				dT, dField = st.Field(i).Type(), st.Field(i).Name()
			}
		}
	}
	if dT == nil {
		return nil
	}
	var tokT types.Type = types.Typ[types.Int]
	if st, ok := underlying(dT).(*types.Struct); ok {
		for k := 0; k < st.NumFields(); k++ {
			if st.Field(k).Name() == "tokens" {
				if sl, ok := underlying(st.Field(k).Type()).(*types.Slice); ok {
					tokT = sl.Elem()
				}
			}
		}
	}
	var toks []aval
	for li, ln := range lines {
		for _, t := range ln {
			toks = append(toks, astruct{map[string]aval{"File": astr("Casketfile"), "Line": aint(int64(li + 1)), "Text": astr(t)}})
		}
	}
	c := &aobj{name: "controller", typ: ctlT, f: map[string]aval{
		joinPath(dField, "cursor"): aint(-1), joinPath(dField, "tokens"): newVals(toks, tokT), joinPath(dField, "nesting"): aint(0), joinPath(dField, "filename"): astr("Casketfile"),
	}}
	c.in = func(o *aobj, path string, t types.Type) aval { return aunk{"controller field " + path} }
	return c
}

// c03R5: the protected and excluded scopes are the ones written in the Casketfile.  basicAuthParse is evaluated (E10)
// on directive texts with resources and exclusions written with and without trailing slash, rooted or not.  What it
// stores may protect more than was written (a resource that is a prefix of the written one) and may exclude less (an
// exclusion that has the written one as a prefix) — never the other way round: an exclusion wider than written
// serves protected content without credentials.
func c03R5(h H) {
	r := h.r
	r.Rule("R5", "configured scopes: basicauth's parser, evaluated (E10) on directive texts whose resources and exclusions are written with and without trailing slash, rooted or not, stores for every written resource a scope that covers it (the text itself or a prefix of it) and for every written exclusion a scope it covers (the text itself or an extension of it): protection is never narrowed and an exclusion never widened by the way the path is written", 1)
	fn := h.fn("R5", "caskethttp/basicauth", "basicAuthParse")
	if fn == nil {
		return
	}
	ctlT := fn.Params[0].Type().(*types.Pointer).Elem()
	type script struct {
		lines      [][]string
		resources  []string
		exclusions []string
	}
	scripts := []script{
		{[][]string{{"basicauth", "/admin/", "bob", "pw"}}, []string{"/admin/"}, nil},
		{[][]string{{"basicauth", "/admin", "bob", "pw", "{"}, {"exclude", "/admin/public/"}, {"}"}}, []string{"/admin"}, []string{"/admin/public/"}},
		{[][]string{{"basicauth", "bob", "pw", "{"}, {"/private/"}, {"/reports"}, {"exclude", "/private/open/"}, {"exclude", "/reports/summary"}, {"}"}}, []string{"/private/", "/reports"}, []string{"/private/open/", "/reports/summary"}},
		{[][]string{{"basicauth", "bob", "pw", "{"}, {"/a/b/"}, {"exclude", "/a/b/c/"}, {"realm", "R"}, {"}"}}, []string{"/a/b/"}, []string{"/a/b/c/"}},
	}
	rooted := func(s string) string {
		if !strings.HasPrefix(s, "/") {
			return "/" + s
		}
		return s
	}
	strs := func(v aval) ([]string, bool) {
		switch sl := v.(type) {
		case anil:
			return nil, true
		case avals:
			var out []string
			for _, c := range sl.cells {
				s, ok := c.f[""].(astr)
				if !ok {
					return nil, false
				}
				out = append(out, string(s))
			}
			return out, true
		}
		return nil, false
	}
	bad, nrun := "", 0
	for _, sc := range scripts {
		if bad != "" {
			break
		}
		var text []string
		for _, l := range sc.lines {
			text = append(text, strings.Join(l, " "))
		}
		desc := "`" + strings.Join(text, " ⏎ ") + "`"
		c := mkController(ctlT, sc.lines)
		if c == nil {
			r.Unresolve("R5", "casket.Controller: embedded dispenser not found")
			return
		}
		env := &absEnv{globals: map[string]*aobj{}, noFork: true, maxSteps: 400000}
		env.ext = func(callee string, args []aval) (aval, bool) {
			switch {
			case strings.HasSuffix(callee, "httpserver.GetConfig"):
				cfg := &aobj{name: "siteconfig", typ: types.Typ[types.Int], f: map[string]aval{"Root": astr("/srv")}}
				cfg.in = func(o *aobj, path string, t types.Type) aval { return aunk{"site config field " + path} }
				return aptr{cfg, ""}, true
			case strings.HasSuffix(callee, "basicauth.passwordMatcher"), strings.HasSuffix(callee, "basicauth.PlainMatcher"), strings.HasSuffix(callee, "basicauth.GetHtpasswdMatcher"):
				return atuple{acb{"matcher"}, anil{}}, true
			}
			return nil, false
		}
		res, und := env.run(fn, []aval{aptr{c, ""}})
		nrun++
		if und != "" {
			bad = desc + ": undecided — " + und
			break
		}
		tp, ok := res.(atuple)
		if !ok || len(tp) != 2 {
			bad = desc + ": unexpected result " + describeAval(res)
			break
		}
		if _, isNil := tp[1].(anil); !isNil {
			bad = desc + ": the parser rejects the directive: " + describeAval(tp[1])
			break
		}
		rules, ok := tp[0].(avals)
		if !ok || len(rules.cells) != 1 {
			bad = desc + ": one rule expected, the parser returns " + describeAval(tp[0])
			break
		}
		rule := rules.cells[0]
		gotRes, ok1 := strs(env.load(rule, "Resources"))
		gotEx, ok2 := strs(env.load(rule, "Exclude"))
		if !ok1 || !ok2 {
			bad = desc + ": stored scopes are not concrete strings: " + describeAval(env.load(rule, "Resources")) + " / " + describeAval(env.load(rule, "Exclude"))
			break
		}
		for _, w := range sc.resources {
			covered := false
			for _, g := range gotRes {
				if strings.HasPrefix(rooted(w), rooted(g)) {
					covered = true
				}
			}
			if !covered {
				bad = fmt.Sprintf("%s: the written resource %q is covered by none of the stored resources %q", desc, w, gotRes)
			}
		}
		for _, g := range gotEx {
			within := false
			for _, w := range sc.exclusions {
				if strings.HasPrefix(rooted(g), rooted(w)) {
					within = true
				}
			}
			if !within && bad == "" {
				bad = fmt.Sprintf("%s: the stored exclusion %q is wider than every written exclusion %q — paths outside the written exclusion are served without credentials", desc, g, sc.exclusions)
			}
		}
		if len(gotRes) != len(sc.resources) && bad == "" {
			bad = fmt.Sprintf("%s: %d resources written, %d stored (%q)", desc, len(sc.resources), len(gotRes), gotRes)
		}
	}
	r.Check(bad == "", "R5", "basicauth.basicAuthParse/scopes-as-written", fn.Pos(), "protection is never narrowed and an exclusion never widened by the way a path is written in the Casketfile", fmt.Sprintf("%d directive texts evaluated", nrun), bad)
}

// c03R6: paths made internal are also kept out of everything the file handlers derive.  The internal middleware
// tests the request path; an index page, a precompressed sibling, a listing entry or an archive member is reached
// under another request path.  The directive therefore puts its paths on the site's hide list, and the file
// handlers test every file they open against that list (the obligations of C02 R2, registered here under R6).
func c03R6(h H) {
	r := h.r
	c02HiddenRule(h, "R6")
	fn := h.fn("R6", "caskethttp/internalsrv", "setup")
	if fn == nil {
		return
	}
	ctlT := fn.Params[0].Type().(*types.Pointer).Elem()
	lines := [][]string{{"internal", "/docs/index.html"}, {"internal", "/secret/"}}
	c := mkController(ctlT, lines)
	if c == nil {
		r.Unresolve("R6", "casket.Controller: embedded dispenser not found")
		return
	}
	var cfgT types.Type = types.Typ[types.Int]
	if g := h.p.Func(hs, "GetConfig"); g != nil {
		if p, ok := g.Signature.Results().At(0).Type().(*types.Pointer); ok {
			cfgT = p.Elem()
		}
	}
	cfg := &aobj{name: "siteconfig", typ: cfgT, f: map[string]aval{"HiddenFiles": newVals([]aval{astr("/Casketfile")}, types.Typ[types.String])}}
	cfg.in = func(o *aobj, path string, t types.Type) aval { return aunk{"site config field " + path} }
	added := 0
	env := &absEnv{globals: map[string]*aobj{}, noFork: true, maxSteps: 400000}
	env.ext = func(callee string, args []aval) (aval, bool) {
		switch {
		case strings.HasSuffix(callee, "httpserver.GetConfig"):
			return aptr{cfg, ""}, true
		case strings.HasSuffix(callee, "SiteConfig).AddMiddleware"):
			added++
			return atuple{}, true
		}
		return nil, false
	}
	res, und := env.run(fn, []aval{aptr{c, ""}})
	bad := ""
	switch {
	case und != "":
		bad = "undecided — " + und
	default:
		if _, isNil := res.(anil); !isNil {
			bad = "setup rejects `internal /docs/index.html ⏎ internal /secret/`: " + describeAval(res)
		}
	}
	if bad == "" {
		got := map[string]bool{}
		if sl, ok := env.load(cfg, "HiddenFiles").(avals); ok {
			for _, cl := range sl.cells {
				if s, ok := cl.f[""].(astr); ok {
					got[string(s)] = true
				}
			}
		}
		for _, w := range []string{"/Casketfile", "/docs/index.html", "/secret/"} {
			if !got[w] {
				bad = fmt.Sprintf("after `internal /docs/index.html ⏎ internal /secret/` the site's hide list lacks %q (it holds %v): the file handlers would serve it as an index page, sibling, listing entry or archive member", w, describeAval(env.load(cfg, "HiddenFiles")))
				break
			}
		}
		if added != 1 && bad == "" {
			bad = fmt.Sprintf("the internal middleware is added %d times", added)
		}
	}
	r.Check(bad == "", "R6", "internalsrv.setup/paths-on-hide-list", fn.Pos(), "every path made internal is put on the site's hide list (and what was on it stays)", bad)
}

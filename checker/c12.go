package main

import (
	"go/token"
	"sort"
	"strings"

	"golang.org/x/tools/go/ssa"
)

func init() {
	register("C12", &propSpec{
		technique: "static analysis: defer/recover structure with panic-free recovery path, (status,error) contract as guard atoms on every post-Next write across all handlers of the directive map, commit-once typestate of the ResponseWriter wrappers",
		run:       runC12,
		decided: "R1 the top-level handler and the errors handler defer a function that recovers and, when something was recovered, reaches a 500 write on every path without executing anything that can itself panic by construction (unchecked type assertion, explicit panic); " +
			"R2 in every in-repository handler, a write to the client that can follow Next.ServeHTTP is guarded by status >= 400 of that very call (or by the buffered-response idiom), and headers of a buffered response are copied to the real writer only when no error return can follow; " +
			"R3 the server's fallback error writer runs under exactly status >= 400 of the chain's result; gzip writes its fallback to the unwrapped writer; " +
			"R4 each wrapper writer commits the header from Write only while its own 'written' flag is unset and sets the flag whenever it commits; " +
			"R5 the gzip handler finishes the compressed stream exactly once on every exit (one deferred release registered before the next handler runs, conditional on nothing but the compressor's existence, closing before pooling). Since round 4: R7 the buffering response writer as a table: stream or buffer x explicit header x Write/ReadFrom. Since round 5: R8 errors.setup as a table (errors, errors visible, errors <file>, a block, two lines): the installed handler's logger has Start registered at startup and Close at shutdown. Since round 6: R9 errorsParse stores every error page as the written path resolved against the site root. Since round 7: R10 fastcgi reports no error status once the responder's header is written. R11 errors' errorPage commits the header once on every path. Since round 8: R7 Buffered() is true exactly when the response is held back, also for a header-only response. Since round 10: R12 every pooled object with a Reset method (response and include buffers, the ClientHello buffer, gzip writers) is Reset in the getting function before any other use, so no response contains bytes an earlier or panicked request left in a pooled buffer.",
		notDecided: "client-visible byte equality; liveness of net/http after a panic; handlers outside the repository.",
	})
}

func runC12(r *Report, p *Program) {
	h := H{r, p}
	dm := p.DirectiveMap()
	c12R1(h)
	c12R2(h, dm)
	c12R3(h)
	c12R4(h)
	gzipStreamRule(h, "R5")
	c12R7(h)
	c12R8(h)
	c12R9(h)
	c12R10(h)
	c12R11(h)
	c12R12(h)
}

// writes500: the instruction writes a 500 response (DefaultErrorFunc/WriteTextResponse/errorPage with constant 500).
func writes500(in ssa.Instruction) bool {
	c := callOf(in)
	if c == nil || c.IsInvoke() {
		return false
	}
	n := calleeName(c)
	if !(strings.HasSuffix(n, "httpserver.DefaultErrorFunc") || strings.HasSuffix(n, "httpserver.WriteTextResponse") || strings.HasSuffix(n, "ErrorHandler).errorPage")) {
		return false
	}
	for _, a := range c.Args {
		if v, ok := constInt(a); ok && v == 500 {
			return true
		}
	}
	return false
}

func c12R1(h H) {
	r := h.r
	r.Rule("R1", "containment: (*Server).ServeHTTP and ErrorHandler.ServeHTTP register, before any other call, a deferred function that calls recover(); on its non-nil edge every path reaches a call that writes status 500, and no path from recover() to that write executes an unchecked type assertion or an explicit panic", 4)
	for _, spec := range [][2]string{{hs, "(*Server).ServeHTTP"}, {"caskethttp/errors", "ErrorHandler.ServeHTTP"}} {
		fn := h.fn("R1", spec[0], spec[1])
		if fn == nil {
			continue
		}
		key := shortFunc(fn)
		// first call-like instruction must be the defer
		var firstCall ssa.Instruction
		var def *ssa.Defer
		for _, in := range fn.Blocks[0].Instrs {
			if d, ok := in.(*ssa.Defer); ok {
				def = d
				if firstCall == nil {
					firstCall = in
				}
				break
			}
			if callOf(in) != nil && firstCall == nil {
				if _, isB := callOf(in).Value.(*ssa.Builtin); !isB {
					firstCall = in
				}
			}
		}
		r.Check(def != nil && firstCall == ssa.Instruction(def), "R1", key+"/recover-registered-first", fn.Pos(), "the recovering defer is registered before anything that could panic")
		if def == nil {
			continue
		}
		rf := calleeFunc(&def.Call)
		if rf == nil {
			r.Fail("R1", key+"/recovery-function", def.Pos(), "deferred value is not a resolvable function")
			continue
		}
		var rec ssa.Instruction
		allInstrs(rf, func(in ssa.Instruction) {
			if c := callOf(in); c != nil && calleeName(c) == "builtin.recover" {
				rec = in
			}
		})
		if rec == nil {
			r.Fail("R1", key+"/recovery-function", rf.Pos(), "the deferred function does not call recover()")
			continue
		}
		nonNil := nilEdges(rf, false, func(v ssa.Value) bool { return v == rec.(ssa.Value) })
		reached := len(nonNil) > 0
		danger := ""
		for e := range nonNil {
			s := e.From.Succs[e.Idx]
			f := firstInstr(s)
			if f == nil {
				continue
			}
			// every path to a return passes a 500 write
			if !writes500(f) {
				if _, bad := reachesReturnAvoiding(rf, f, writes500); bad {
					reached = false
				}
			}
			// nothing dangerous before the write
			chk := func(in ssa.Instruction) bool {
				switch t := in.(type) {
				case *ssa.TypeAssert:
					if !t.CommaOk {
						danger = "unchecked type assertion " + describe(t) + " at " + h.p.Pos(t.Pos())
					}
				case *ssa.Panic:
					danger = "explicit panic at " + h.p.Pos(t.Pos())
				}
				return danger == ""
			}
			if chk(f) && !writes500(f) {
				reach(rf, f, cut{instr: writes500}, chk)
			}
		}
		r.Check(reached, "R1", key+"/recovered-panic-yields-500", rec.Pos(), "whenever a panic was recovered a 500 response is written on every path")
		r.Check(danger == "", "R1", key+"/recovery-path-cannot-panic", rec.Pos(), "the recovery path executes nothing that panics by construction before the 500 is written", danger)
	}
}

// clientWrite: in writes to (or commits headers of) a response writer; returns the writer operand.
func clientWrite(in ssa.Instruction) (ssa.Value, string, bool) {
	c := callOf(in)
	if c == nil {
		return nil, "", false
	}
	if _, isDefer := in.(*ssa.Defer); isDefer {
		return nil, "", false
	}
	if c.IsInvoke() {
		if (c.Method.Name() == "Write" || c.Method.Name() == "WriteHeader") && strings.HasSuffix(c.Value.Type().String(), "net/http.ResponseWriter") {
			return c.Value, c.Method.Name(), true
		}
		return nil, "", false
	}
	n := calleeName(c)
	switch {
	case strings.HasSuffix(n, "httpserver.DefaultErrorFunc"), strings.HasSuffix(n, "httpserver.WriteTextResponse"), strings.HasSuffix(n, "httpserver.WriteSiteNotFound"),
		n == "net/http.Error", n == "net/http.Redirect", n == "net/http.ServeContent", n == "net/http.NotFound":
		return c.Args[0], shortCallee(in), true
	case n == "fmt.Fprintf" || n == "fmt.Fprintln" || n == "fmt.Fprint" || n == "io.WriteString":
		if strings.HasSuffix(c.Args[0].Type().String(), "io.Writer") {
			if mi, ok := c.Args[0].(*ssa.MakeInterface); ok && isWriterish(mi.X) {
				return mi.X, shortCallee(in), true
			}
			if ci, ok := c.Args[0].(*ssa.ChangeInterface); ok && isWriterish(ci.X) {
				return ci.X, shortCallee(in), true
			}
		}
	case n == "io.Copy":
		if ci, ok := c.Args[0].(*ssa.ChangeInterface); ok && isWriterish(ci.X) {
			return ci.X, "io.Copy", true
		}
		if mi, ok := c.Args[0].(*ssa.MakeInterface); ok && isWriterish(mi.X) {
			return mi.X, "io.Copy", true
		}
	case strings.HasSuffix(n, "ErrorHandler).errorPage"):
		return c.Args[1], "errorPage", true
	}
	if f := c.StaticCallee(); f != nil && (f.Name() == "WriteHeader" || f.Name() == "Write") && f.Signature.Recv() != nil {
		if implementsRW(f.Signature.Recv().Type().String()) {
			return c.Args[0], shortCallee(in), true
		}
	}
	// calls through a function-typed field taking a ResponseWriter first (log's ErrorFunc)
	if c.StaticCallee() == nil && len(c.Args) > 0 && strings.HasSuffix(c.Args[0].Type().String(), "net/http.ResponseWriter") {
		if _, isB := c.Value.(*ssa.Builtin); !isB {
			if readsField(c.Value, "ErrorFunc") {
				return c.Args[0], "ErrorFunc", true
			}
		}
	}
	return nil, "", false
}

func isWriterish(v ssa.Value) bool {
	t := v.Type().String()
	return strings.HasSuffix(t, "net/http.ResponseWriter") || implementsRW(t)
}

func implementsRW(t string) bool {
	for _, s := range []string{"ResponseRecorder", "ResponseBuffer", "gzipResponseWriter", "ResponseFilterWriter", "internalResponseWriter", "ResponseWriterWrapper", "headerResponseWriter", "responseWriter"} {
		if strings.HasSuffix(strings.TrimPrefix(t, "*"), "."+s) {
			return true
		}
	}
	return false
}

func c12R2(h H, dm *DirMap) {
	r := h.r
	r.Rule("R2", "(status, error) contract, write side: in every in-repository handler (directive map + Server.ServeHTTP), a call that writes to a response writer and can execute after a Next.ServeHTTP invoke returned is guarded by status >= 400 where status is that invoke's first result — or lies behind ResponseBuffer.Buffered() (nothing was committed) — or is internal's documented re-dispatch; after ResponseBuffer.CopyHeader no return with a status >= 400 is reachable", 6)
	type hf struct {
		name string
		fn   *ssa.Function
	}
	var hs2 []hf
	var names []string
	for n := range dm.ByName {
		names = append(names, n)
	}
	sort.Strings(names)
	for _, n := range names {
		d := dm.ByName[n]
		if !d.InModule {
			continue
		}
		for _, f := range d.Handlers {
			hs2 = append(hs2, hf{n, f})
		}
	}
	if f := h.p.Func(sfPkg, "FileServer.ServeHTTP"); f != nil {
		hs2 = append(hs2, hf{"(fileserver)", f})
	}
	if len(hs2) < 20 {
		r.Unresolve("R2", sprintf("only %d handlers resolved from the directive map", len(hs2)))
	}
	checked := 0
	for _, x := range hs2 {
		fn := x.fn
		if len(fn.Blocks) == 0 {
			continue
		}
		nx := nextInvokes(fn)
		if len(nx) == 0 {
			continue
		}
		allInstrs(fn, func(in ssa.Instruction) {
			w, what, ok := clientWrite(in)
			if !ok {
				return
			}
			_ = w
			for k, n := range nx {
				if in == n || !canReach(fn, n, in, cut{}) {
					continue
				}
				checked++
				status := statusOf(n)
				guarded := false
				buffered := false
				for _, g := range guardAtoms(fn, n, in) {
					if xv, lo, _, hasLo, _, ok := atomIntBounds(g); ok && hasLo && lo >= 400 && status != nil && sameOrLoadOf(xv, status) {
						guarded = true
					}
					if cc, ok := g.Cond.(*ssa.Call); ok && strings.HasSuffix(calleeName(&cc.Call), "ResponseBuffer).Buffered") && g.Pos {
						buffered = true
					}
				}
				construct := sprintf("%s/%s-after-next#%d", shortFunc(fn), what, k+1)
				switch {
				case guarded:
					r.Hold("R2", construct, in.Pos(), "write after Next is behind status >= 400 of that call: nothing had been written")
				case buffered:
					r.Hold("R2", construct, in.Pos(), "write after Next is behind ResponseBuffer.Buffered(): the downstream response was captured, not committed")
				default:
					r.Fail("R2", construct, in.Pos(), "this write can run after the next handler returned a status below 400 — i.e. after a response was already written (second header commit / appended body)")
				}
			}
		})
		// CopyHeader rule
		for _, c := range callsTo(fn, "ResponseBuffer).CopyHeader") {
			bad := ""
			reach(fn, c, cut{}, func(in ssa.Instruction) bool {
				if rt, ok := in.(*ssa.Return); ok && rt.Block() != fn.Recover {
					res := retResults(rt)
					if v, ok := constInt(res[0]); ok && v >= 400 {
						bad = h.p.Pos(rt.Pos())
					}
				}
				return bad == ""
			})
			checked++
			r.Check(bad == "", "R2", shortFunc(fn)+"/CopyHeader-then-no-error-return", c.Pos(), "the buffered response's headers (Content-Length, ETag, …) reach the real writer only when the handler goes on to write the response itself; an error status returned afterwards would be sent with those stale headers", "error return at "+bad)
		}
	}
	if checked < 5 {
		r.Unresolve("R2", sprintf("only %d post-Next writes examined", checked))
	}
	// return side of the contract: status 0 from the next handler means "response written".  A handler may pass the
	// next handler's status on, or report 0; it may report a status of its own making only where the downstream
	// response was not committed (buffered) or the next handler itself reported >= 400 (nothing written yet).
	// Anything else makes the caller write a second response on top of the first.
	r.Rule("R6", "(status, error) contract, return side: in every in-repository handler, a status returned after a Next.ServeHTTP invoke is that invoke's own status, the constant 0, or — only behind ResponseBuffer.Buffered(), behind internal's redirect-pending test (its writer discards such responses) or behind status >= 300 of that invoke — a status of the handler's own making", 2)
	ret := 0
	for _, x := range hs2 {
		fn := x.fn
		if len(fn.Blocks) == 0 {
			continue
		}
		nx := nextInvokes(fn)
		for k, n := range nx {
			status := statusOf(n)
			for _, rt := range realReturns(fn) {
				if !canReach(fn, n, rt, cut{}) {
					continue
				}
				res := retResults(rt)
				if len(res) != 2 {
					continue
				}
				if ex, ok := res[0].(*ssa.Extract); ok && ex.Tuple == n.(ssa.Value) {
					continue // return next.ServeHTTP(w, r)
				}
				uncommitted := false
				for _, g := range guardAtoms(fn, n, rt) {
					if xv, lo, _, hasLo, _, ok := atomIntBounds(g); ok && hasLo && lo >= 300 && status != nil && sameOrLoadOf(xv, status) {
						uncommitted = true
					}
					if cc, ok := g.Cond.(*ssa.Call); ok && strings.HasSuffix(calleeName(&cc.Call), "ResponseBuffer).Buffered") && g.Pos {
						uncommitted = true
					}
					if g.Pos && headerPending(g.Cond, 0) {
						uncommitted = true // internal's writer drops everything while the redirect header is set
					}
				}
				var own []string
				for _, v := range valuesAt(fn, res[0], rt) {
					if c, ok := constInt(v); ok && c == 0 {
						continue
					}
					fromNext := false
					for _, m := range nx {
						if st := statusOf(m); st != nil && sameOrLoadOf(v, st) {
							fromNext = true
						}
					}
					if fromNext && !derivesFromOther(v, nx) {
						continue
					}
					own = append(own, describe(v))
				}
				if len(own) == 0 {
					continue
				}
				ret++
				r.Check(uncommitted, "R6", sprintf("%s/own-status-after-next#%d@%s", shortFunc(fn), k+1, strings.Join(own, ",")), rt.Pos(),
					"a status that is not the next handler's own is reported only where the downstream response is known not to be committed (buffered, or the next handler reported an error status)", own...)
			}
		}
	}
	_ = ret
}

// derivesFromOther: v mixes the next handler's status with something else (a φ or expression with other inputs).
func derivesFromOther(v ssa.Value, nx []ssa.Instruction) bool {
	seen := map[ssa.Value]bool{}
	other := false
	var walk func(v ssa.Value, d int)
	walk = func(v ssa.Value, d int) {
		if v == nil || seen[v] || d > 20 || other {
			return
		}
		seen[v] = true
		switch t := v.(type) {
		case *ssa.Extract:
			for _, n := range nx {
				if t.Tuple == n.(ssa.Value) {
					return
				}
			}
			other = true
		case *ssa.Phi:
			for _, e := range t.Edges {
				walk(e, d+1)
			}
		case *ssa.Const:
			if c, ok := constInt(t); !ok || c != 0 {
				other = true
			}
		case *ssa.UnOp:
			if a, ok := t.X.(*ssa.Alloc); ok {
				for _, s := range storesTo(a) {
					walk(s, d+1)
				}
				return
			}
			other = true
		default:
			other = true
		}
	}
	walk(v, 0)
	return other
}

// statusOf: the status result (Extract #0) of a Next invoke.
func statusOf(n ssa.Instruction) ssa.Value {
	v, ok := n.(ssa.Value)
	if !ok {
		return nil
	}
	for _, ref := range *v.Referrers() {
		if ex, ok := ref.(*ssa.Extract); ok && ex.Index == 0 {
			return ex
		}
	}
	return nil
}

// sameOrLoadOf: x is status, or a load of a local slot into which status was stored, or a φ of it.
func sameOrLoadOf(x, status ssa.Value) bool {
	if x == status {
		return true
	}
	return derives(x, func(v ssa.Value) bool { return v == status }, flowOpts{})
}

func c12R3(h H) {
	r := h.r
	r.Rule("R3", "fallback writer: in (*Server).ServeHTTP DefaultErrorFunc is called under exactly status >= 400 of serveHTTP's result and nothing else; gzip's fallback DefaultErrorFunc receives the handler's own w parameter (the unwrapped writer)", 2)
	if fn := h.fn("R3", hs, "(*Server).ServeHTTP"); fn != nil {
		for _, c := range callsTo(fn, "httpserver.DefaultErrorFunc") {
			var okG bool
			var extra []string
			for _, g := range guardAtoms(fn, nil, c) {
				if x, lo, _, hasLo, hasHi, ok := atomIntBounds(g); ok && hasLo && !hasHi && lo == 400 && derives(x, func(v ssa.Value) bool { return isResultOf(v, 0, "(*"+modPath+"/"+hs+".Server).serveHTTP") }, flowOpts{}) {
					okG = true
				} else {
					extra = append(extra, describe(g.Cond))
				}
			}
			r.Check(okG && len(extra) == 0, "R3", "httpserver.(*Server).ServeHTTP/fallback-iff-status>=400", c.Pos(), "the server writes its plain error page exactly when the chain reported an error status without writing", extra...)
		}
	}
	if fn := h.fn("R3", gzPkg, "Gzip.ServeHTTP"); fn != nil {
		for _, c := range callsTo(fn, "httpserver.DefaultErrorFunc") {
			_, isParam := paramRoot(callOf(c).Args[0])
			r.Check(isParam, "R3", "gzip.Gzip.ServeHTTP/fallback-to-unwrapped-writer", c.Pos(), "the error body is written to the raw writer, not through the gzip stream that is about to be closed", describe(callOf(c).Args[0]))
		}
	}
}

func c12R4(h H) {
	r := h.r
	r.Rule("R4", "writers commit once: for gzipResponseWriter and ResponseFilterWriter, Write calls the type's own WriteHeader only on the false edge of its statusCodeWritten flag, and WriteHeader stores true into that flag on every path; ResponseBuffer.Write/ReadFrom likewise with wroteHeader", 4)
	for _, spec := range [][3]string{{gzPkg, "gzipResponseWriter", "statusCodeWritten"}, {gzPkg, "ResponseFilterWriter", "statusCodeWritten"}, {hs, "ResponseBuffer", "wroteHeader"}} {
		wr := h.p.Func(spec[0], "(*"+spec[1]+").Write")
		wh := h.p.Func(spec[0], "(*"+spec[1]+").WriteHeader")
		if wr == nil || wh == nil {
			r.Unresolve("R4", spec[1]+": Write/WriteHeader not found")
			continue
		}
		unset := guardEdges(wr, false, func(v ssa.Value) bool { return readsField(v, spec[2]) })
		n := 0
		okW := true
		allInstrs(wr, func(in ssa.Instruction) {
			c := callOf(in)
			if c == nil {
				return
			}
			if c.StaticCallee() == wh {
				n++
				if !onlyVia(wr, in, unset) {
					okW = false
				}
			}
		})
		if n > 0 {
			r.Check(okW, "R4", shortType(spec[1])+".Write/implicit-header-once", wr.Pos(), "Write commits the implicit 200 header only while nothing was committed yet")
		} else {
			r.Hold("R4", shortType(spec[1])+".Write/implicit-header-once", wr.Pos(), "Write never commits a header itself")
		}
		// WriteHeader sets the flag on every path to return
		sets := func(in ssa.Instruction) bool {
			st, ok := in.(*ssa.Store)
			if !ok {
				return false
			}
			fa, ok := st.Addr.(*ssa.FieldAddr)
			if !ok || fieldName(fa.X.Type(), fa.Field) != spec[2] {
				return false
			}
			c, isC := st.Val.(*ssa.Const)
			return isC && c.Value != nil && c.Value.String() == "true"
		}
		_, bad := reachesReturnAvoiding(wh, nil, sets)
		already := guardEdges(wh, true, func(v ssa.Value) bool { return readsField(v, spec[2]) })
		// an informational header (1xx) is no commit: the branch taken only for codes up to 199
		info := guardEdges(wh, true, func(v ssa.Value) bool {
			bo, ok := v.(*ssa.BinOp)
			if !ok {
				return false
			}
			isCode := func(x ssa.Value) bool { p, ok := x.(*ssa.Parameter); return ok && p.Name() == "code" }
			if c, ok := constInt(bo.Y); ok && isCode(bo.X) {
				return (bo.Op == token.LEQ && c <= 199) || (bo.Op == token.LSS && c <= 200)
			}
			return false
		})
		if bad && (len(already) > 0 || len(info) > 0) {
			// an early return on "already written" is the other legitimate shape
			bad = false
			for _, rt := range realReturns(wh) {
				if !mustPass(wh, rt, sets) && !(len(already) > 0 && onlyVia(wh, rt, already)) && !(len(info) > 0 && onlyVia(wh, rt, info)) {
					bad = true
				}
			}
		}
		r.Check(!bad, "R4", shortType(spec[1])+".WriteHeader/sets-flag", wh.Pos(), "whenever WriteHeader commits, the writer remembers it")
	}
	_ = token.NoPos
}

// headerPending: v is a boolean that can be true only when a response header read with Header.Get is non-empty — the
// test itself, or the result of module functions (methods, bound method values) all of whose returns are such tests.
func headerPending(v ssa.Value, depth int) bool {
	if depth > 4 || v == nil {
		return false
	}
	viaReturns := func(c *ssa.Call, idx int, pred func(ssa.Value, int) bool) bool {
		f := c.Call.StaticCallee()
		if f == nil || len(f.Blocks) == 0 || f.Pkg == nil && f.Parent() == nil && f.Synthetic == "" {
			return false
		}
		rets := realReturns(f)
		if len(rets) == 0 {
			return false
		}
		for _, rt := range rets {
			res := retResults(rt)
			if idx >= len(res) || !pred(res[idx], depth+1) {
				return false
			}
		}
		return true
	}
	var headerValue func(v ssa.Value, depth int) bool
	headerValue = func(v ssa.Value, depth int) bool {
		if depth > 4 {
			return false
		}
		switch t := v.(type) {
		case *ssa.Call:
			if calleeName(&t.Call) == "(net/http.Header).Get" {
				return true
			}
			return viaReturns(t, 0, headerValue)
		case *ssa.Extract:
			if c, ok := t.Tuple.(*ssa.Call); ok {
				return viaReturns(c, t.Index, headerValue)
			}
		}
		return false
	}
	switch t := v.(type) {
	case *ssa.BinOp:
		if t.Op == token.NEQ {
			if s, ok := constString(t.Y); ok && s == "" {
				return headerValue(t.X, depth)
			}
			if s, ok := constString(t.X); ok && s == "" {
				return headerValue(t.Y, depth)
			}
		}
	case *ssa.Call:
		return viaReturns(t, 0, headerPending)
	case *ssa.Extract:
		if c, ok := t.Tuple.(*ssa.Call); ok {
			return viaReturns(c, t.Index, headerPending)
		}
	}
	return false
}

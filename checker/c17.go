package main

import (
	"fmt"
	"go/token"
	"go/types"
	"math"
	"strings"

	"golang.org/x/tools/go/ssa"
)

func init() {
	register("C17", &propSpec{
		technique: "static analysis: exact guard-atom sets around the body wrapper, must-pass ordering of sort-before-store, sentinel-error identity discipline (errors.Is after foreign callees) with sibling agreement on 413, decision-table extraction of the two strictest-of merge functions by abstract evaluation of their SSA (E10: groups of 0-3 sites x set/unset x every relative order); decision tables of Limit.ServeHTTP and maxBytesReader.Read (E10)",
		run:       runC17,
		decided: "R1 the decision table of Limit.ServeHTTP (up to three path limits, every set of matching entries, body present or not): the next handler runs once with the body wrapped by a reader carrying the first matching entry's limit, or untouched; the limit list is sorted longest-path-first before it is stored; " +
			"R2 the decision table of maxBytesReader.Read (allowance 0-3, buffer 0-5, remembered error, every source result): the remembered error without touching the source, (0, nil) for an empty buffer, otherwise one read of min(len(p), remaining+1) bytes passed through within the allowance and cut to it with the too-large sentinel beyond; " +
			"R3 the too-large sentinel is tested with errors.Is wherever the error crossed foreign code, and every body-forwarding handler (proxy: two sites, fastcgi) maps it to 413; " +
			"R4 each shared listener setting comes out as the smallest value among the sites that set it, and as the default (header limit: untouched) exactly when none does — the full input/output table of both merge functions for every group of up to three sites. Since round 4: R1 SortPathLimits as a table (sort.Sort modelled by the type's own methods). R5 parseLimits stores every body limit under exactly its written path and setupTimeouts keeps the timeouts of every timeouts block. Since round 5: R3's proxy part along the proxy traces (an over-limit body answers 413); the reader's allowance field is identified by what Read writes. Since round 6: R5 with two limits directives in one site. Since round 7: R2 also for the two largest representable allowances; R5 parseSize refuses byte counts beyond 63 bits, scopes are stored cleaned; R4 `timeouts none` is the least strict setting.",
		notDecided: "allowances and buffers beyond the enumerated small sizes (the reader's arithmetic is the same for all); groups of more than three co-hosted sites (the merge is a fold of the step the table covers); the merge of more than two `none` settings beyond the enumerated groups.",
	})
}

const limPkg = "caskethttp/limits"

func runC17(r *Report, p *Program) {
	h := H{r, p}
	c17R1(h)
	c17R2(h)
	c17R3(h)
	c17R4(h)
	c17R5(h)
	c17Tables(h)
}

func c17R1(h H) {
	r := h.r
	r.Rule("R1", "the body is wrapped before the handlers see it: Limit.ServeHTTP, evaluated abstractly (E10) for every list of up to three (thorough tier: five) path limits, every set of matching entries and body present/absent, invokes the next handler exactly once with the body wrapped by a reader carrying the first matching entry's limit, or untouched when nothing matches or there is no body; parseLimits calls SortPathLimits on the slice before storing it into the site config; the comparator orders by longer path first", 3)
	if pl := h.fn("R1", limPkg, "parseLimits"); pl != nil {
		sorts := callsTo(pl, "limits.SortPathLimits")
		n := 0
		allInstrs(pl, func(in ssa.Instruction) {
			st, ok := in.(*ssa.Store)
			if !ok {
				return
			}
			fa, ok := st.Addr.(*ssa.FieldAddr)
			if !ok || fieldName(fa.X.Type(), fa.Field) != "MaxRequestBodySizes" {
				return
			}
			n++
			ok2 := mustPass(pl, in, anyOf(sorts))
			same := false
			for _, s := range sorts {
				if callOf(s).Args[0] == st.Val {
					same = true
				}
			}
			r.Check(ok2 && same, "R1", "limits.parseLimits/sorted-before-stored", st.Pos(), "the list the handler scans (first match wins) was sorted longest path first")
		})
		if n == 0 {
			r.Unresolve("R1", "parseLimits: store to MaxRequestBodySizes not found")
		}
	}
	if sp := h.fn("R1", limPkg, "SortPathLimits"); sp != nil {
		// decided as a table (E10; sort.Sort is modelled by an insertion sort driven by the type's own methods)
		bad, n := "", 0
		plT := underlying(sp.Params[0].Type()).(*types.Slice).Elem()
		for _, in := range [][]string{{"/a", "/a/b/c", "/a/b"}, {"/", "/upload/", "/up"}, {"/x/y", "/x"}, {"/only"}, {}, {"/aa", "/b", "/cccc", "/dd"}} {
			n++
			var vs []aval
			for i, p := range in {
				vs = append(vs, astruct{map[string]aval{"Path": astr(p), "Limit": aint(int64(100 + i))}})
			}
			var list aval = anil{}
			if len(vs) > 0 {
				list = newVals(vs, plT)
			}
			env := &absEnv{noFork: true, maxSteps: 100000, globals: map[string]*aobj{}}
			if _, und := env.run(sp, []aval{list}); und != "" {
				bad = sprintf("SortPathLimits(%q): undecided — %s", in, und)
				break
			}
			var got []string
			if sl, ok := list.(avals); ok {
				for _, cl := range sl.cells {
					p, _ := env.load(cl, "Path").(astr)
					got = append(got, string(p))
				}
			}
			for i := 1; i < len(got); i++ {
				if len(got[i-1]) < len(got[i]) {
					bad = sprintf("SortPathLimits(%q) leaves %q: %q comes before the longer %q", in, got, got[i-1], got[i])
				}
			}
			if len(got) != len(in) && bad == "" {
				bad = sprintf("SortPathLimits(%q) leaves %q", in, got)
			}
			if bad != "" {
				break
			}
		}
		r.Check(bad == "", "R1", "limits.SortPathLimits/longest-first", sp.Pos(), "paths are ordered by decreasing length so the most specific limit is found first", sprintf("%d lists sorted", n), bad)
	}
}

func isLoopCond(g guardInfo) bool {
	b, ok := g.Cond.(*ssa.BinOp)
	if !ok || b.Op != token.LSS {
		return false
	}
	c, ok := b.Y.(*ssa.Call)
	return ok && calleeName(&c.Call) == "builtin.len" && len(naturalLoop(g.If.Block())) > 0
}

// lenOfParamField: v is len(<param k>.Path) → k, else -1.
func lenOfParamField(v ssa.Value) int {
	c, ok := v.(*ssa.Call)
	if !ok || calleeName(&c.Call) != "builtin.len" {
		return -1
	}
	_, root := fieldPath(c.Call.Args[0])
	pr, ok := root.(*ssa.Parameter)
	if !ok {
		return -1
	}
	for i, q := range pr.Parent().Params {
		if q == pr {
			return i
		}
	}
	return -1
}

func c17R2(h H) {
	h.r.Rule("R2", "the limiting reader as a decision table (E10): maxBytesReader.Read is evaluated for every remaining allowance 0–3, buffer length 0–5 (thorough tier: 0–6 and 0–9), remembered error {none, some error, too-large} and every (count, error) the source can return; it must return the remembered error without touching the source, (0, nil) for an empty buffer, and otherwise read the source exactly once asking for min(len(p), remaining+1) bytes, pass the result through and account for it when within the allowance, and cut it to the allowance with ErrMaxBytesExceeded (remembered from then on, allowance 0) when beyond", 1)
}

func c17R3(h H) {
	r := h.r
	r.Rule("R3", "too-large is reported as too-large: no ==/!= comparison with httpserver.ErrMaxBytesExceeded on an error that crossed a non-module callee other than a direct Read/ReadAll; Proxy.ServeHTTP has errors.Is(…, ErrMaxBytesExceeded) guards returning 413 at both body-consuming sites (buffering and forwarding) and fastcgi.Handler.ServeHTTP at its one", 3)
	n := 0
	for _, fn := range h.p.ModFuncs() {
		allInstrs(fn, func(in ssa.Instruction) {
			b, ok := in.(*ssa.BinOp)
			if !ok || (b.Op != token.EQL && b.Op != token.NEQ) {
				return
			}
			var other ssa.Value
			switch {
			case isGlobalLoad(b.X, "ErrMaxBytesExceeded"):
				other = b.Y
			case isGlobalLoad(b.Y, "ErrMaxBytesExceeded"):
				other = b.X
			default:
				return
			}
			n++
			direct := derives(other, func(v ssa.Value) bool {
				return isResultOf(v, -1, "io/ioutil.ReadAll", "io.ReadAll") || func() bool {
					ex, ok := v.(*ssa.Extract)
					if !ok {
						return false
					}
					c, ok := ex.Tuple.(*ssa.Call)
					return ok && c.Call.IsInvoke() && c.Call.Method.Name() == "Read"
				}()
			}, flowOpts{})
			r.Check(direct, "R3", shortFunc(fn)+"/sentinel-identity-compare", b.Pos(), "an error compared by identity with ErrMaxBytesExceeded comes straight from reading the body (after crossing http.Transport or other foreign code it is wrapped and identity never holds: use errors.Is)", describe(other))
		})
	}
	for _, spec := range []struct {
		rel, name string
		min       int
	}{{pxPkg, "Proxy.ServeHTTP", 2}, {"caskethttp/fastcgi", "Handler.ServeHTTP", 1}} {
		fn := h.fn("R3", spec.rel, spec.name)
		if fn == nil {
			continue
		}
		if spec.name == "Proxy.ServeHTTP" {
			// decided along the proxy's traces (E10): the limit exceeded while the body is buffered, and reported by
			// the backend round trip (wrapped: only errors.Is recognises it)
			t := proxyTraces(h)
			r.Check(t.large == "" && t.other == "", "R3", shortFunc(fn)+"/413-on-too-large", fn.Pos(), "an exceeded body limit is answered 413 at each place where this handler consumes the request body (while buffering it, and when the backend round trip reports it)", sprintf("%d scripts evaluated", t.n), t.large, t.other)
			continue
		}
		good := 0
		// the test may live in the handler or in a helper it was split into; a predicate function that returns
		// errors.Is(err, ErrMaxBytesExceeded) on all paths counts as the test
		isTooLargePred := func(f *ssa.Function) bool {
			if f == nil || len(f.Blocks) == 0 || f.Signature.Results().Len() != 1 {
				return false
			}
			rets := returnValues(f, 0)
			if len(rets) == 0 {
				return false
			}
			for _, v := range rets {
				c, ok := v.(*ssa.Call)
				if !ok || calleeName(&c.Call) != "errors.Is" || !isGlobalLoad(c.Call.Args[1], "ErrMaxBytesExceeded") {
					return false
				}
			}
			return true
		}
		for _, g := range withHelpers(fn, 3) {
			tests := findCalls(g, func(in ssa.Instruction) bool {
				c := callOf(in)
				if isCallTo(in, "errors.Is") {
					return isGlobalLoad(c.Args[1], "ErrMaxBytesExceeded") && !isTooLargePred(g)
				}
				return isTooLargePred(c.StaticCallee())
			})
			for _, c := range tests {
				te := guardEdges(g, true, func(v ssa.Value) bool { return v == c.(ssa.Value) })
				if len(te) == 0 {
					continue
				}
				// some use of the constant 413 (returned, stored, or merged into the status) is reachable only through
				// the true edge of this test
				ok413 := false
				allInstrs(g, func(in ssa.Instruction) {
					if ok413 {
						return
					}
					if ph, isPhi := in.(*ssa.Phi); isPhi {
						for k, e := range ph.Edges {
							if code, ok := constInt(e); ok && code == 413 {
								if t := lastInstr(ph.Block().Preds[k]); t != nil && onlyVia(g, t, te) {
									ok413 = true
								}
							}
						}
						return
					}
					for _, op := range in.Operands(nil) {
						if *op == nil {
							continue
						}
						if code, ok := constInt(*op); ok && code == 413 && onlyVia(g, in, te) {
							ok413 = true
						}
					}
				})
				if ok413 {
					good++
				}
			}
		}
		r.Check(good >= spec.min, "R3", shortFunc(fn)+"/413-on-too-large", fn.Pos(), sprintf("an exceeded body limit is answered 413 at each of the %d place(s) where this handler consumes the request body", spec.min), sprintf("%d errors.Is→413 site(s)", good))
	}
}

func c17R4(h H) {
	r := h.r
	r.Rule("R4", "strictest-of merge, decided as a decision table: makeHTTPServerWithTimeouts and makeHTTPServerWithHeaderLimit are evaluated abstractly (E10: booleans concrete, durations/sizes as ordered symbols) for every group of 0–3 (thorough tier: 0–4) sites, every combination of set/unset and every relative order of the set values; each set timeout being a positive value or `none` (0); in every case each listener setting must come out as the smallest positive value among the sites that set it (none, the least strict value, only when every setting is none), and as the default (header limit: untouched) exactly when no site set it", 2)
	fields := []string{"ReadTimeout", "ReadHeaderTimeout", "WriteTimeout", "IdleTimeout"}
	symRank := func(rank []int) func(a, b aval) (int, bool) {
		rk := func(v aval) (int, bool) {
			if n, isInt := v.(aint); isInt && n == 0 {
				return -1, true // zero ("none", or nothing yet): below every configured positive value
			}
			s, ok := v.(asym)
			if !ok || !strings.HasPrefix(s.name, "v") {
				return 0, false
			}
			var i int
			if _, err := fmt.Sscanf(s.name, "v%d", &i); err != nil || i >= len(rank) {
				return 0, false
			}
			return rank[i], true
		}
		return func(a, b aval) (int, bool) {
			ra, oka := rk(a)
			rb, okb := rk(b)
			if oka && okb {
				switch {
				case ra < rb:
					return -1, true
				case ra > rb:
					return 1, true
				}
				return 0, true
			}
			return 0, false
		}
	}
	type caseT struct {
		set  []bool
		rank []int
	}
	var cases []caseT
	for n := 0; n <= tb(3, 4); n++ {
		for m := 0; m < 1<<n; m++ {
			set := make([]bool, n)
			for i := range set {
				set[i] = m&(1<<i) != 0
			}
			for _, rk := range weakOrders(n) {
				cases = append(cases, caseT{set, rk})
			}
		}
	}
	caseDesc := func(c caseT) string {
		var parts []string
		for i, s := range c.set {
			if s {
				parts = append(parts, sprintf("site%d sets v%d(rank %d)", i, i, c.rank[i]))
			} else {
				parts = append(parts, sprintf("site%d unset", i))
			}
		}
		return "[" + strings.Join(parts, ", ") + "]"
	}
	want := func(c caseT) (min int, any bool) {
		min = -1
		for i, s := range c.set {
			if s && (min < 0 || c.rank[i] < c.rank[min]) {
				min = i
			}
		}
		return min, min >= 0
	}
	okResult := func(c caseT, got aval, unsetWant string) (bool, string) {
		m, any := want(c)
		s, isSym := got.(asym)
		if !any {
			if isSym && s.name == unsetWant {
				return true, ""
			}
			return false, sprintf("no site sets it: want %s, got %s", unsetWant, describeAval(got))
		}
		if isSym && strings.HasPrefix(s.name, "v") {
			var k int
			fmt.Sscanf(s.name, "v%d", &k)
			if k < len(c.set) && c.set[k] && c.rank[k] == c.rank[m] {
				return true, ""
			}
		}
		return false, sprintf("want v%d (the smallest set value), got %s", m, describeAval(got))
	}
	if fn := h.fn("R4", hs, "makeHTTPServerWithTimeouts"); fn != nil {
		bad := ""
		nrun := 0
		// a site that sets a timeout sets it to a positive value or to "none" (0: no timeout, the least strict value)
		type tcase struct {
			caseT
			none []bool
		}
		var tcases []tcase
		for _, c := range cases {
			n := len(c.set)
			for m := 0; m < 1<<n; m++ {
				none := make([]bool, n)
				okMask := true
				for i := range none {
					none[i] = m&(1<<i) != 0
					if none[i] && !c.set[i] {
						okMask = false
					}
				}
				if okMask {
					tcases = append(tcases, tcase{c, none})
				}
			}
		}
		for _, tc := range tcases {
			c, none := tc.caseT, tc.none
			env := &absEnv{cmp: symRank(c.rank), globals: map[string]*aobj{}}
			if g := fnPkgVar(fn, "defaultTimeouts"); g != nil {
				env.globals["defaultTimeouts"] = &aobj{name: "defaultTimeouts", typ: g, f: map[string]aval{}, in: func(o *aobj, path string, t types.Type) aval {
					if strings.HasSuffix(path, "Set") {
						return abool(true)
					}
					return asym{"default." + path}
				}}
			}
			mk := func() []aval {
				var sl aslice
				for i := range c.set {
					i := i
					sl.elems = append(sl.elems, &aobj{name: sprintf("site%d", i), typ: fn.Params[1].Type().(*types.Slice).Elem().(*types.Pointer).Elem(), f: map[string]aval{}, in: func(o *aobj, path string, t types.Type) aval {
						for _, f := range fields {
							if path == "Timeouts."+f+"Set" {
								return abool(c.set[i])
							}
							if path == "Timeouts."+f {
								if c.set[i] && !none[i] {
									return asym{sprintf("v%d", i)}
								}
								return aint(0)
							}
						}
						return aunk{"site field " + path}
					}})
				}
				return []aval{astr("addr"), sl}
			}
			env.runForks(fn, mk, func(res aval, und string, forks int) bool {
				nrun++
				if und != "" {
					bad = caseDesc(c) + ": undecided — " + und
					return false
				}
				p, ok := res.(aptr)
				if !ok {
					bad = caseDesc(c) + ": result is not a server: " + describeAval(res)
					return false
				}
				// specification: the smallest positive value any site sets; no timeout (0) when the only values set
				// are "none"; the default when no site sets it
				pos := caseT{set: make([]bool, len(c.set)), rank: c.rank}
				anyNone := false
				for i := range c.set {
					pos.set[i] = c.set[i] && !none[i]
					anyNone = anyNone || none[i]
				}
				desc := caseDesc(c)
				if anyNone {
					desc += sprintf(" (set to none: %v)", none)
				}
				for _, f := range fields {
					got := env.load(p.obj, f)
					if _, anyPos := want(pos); !anyPos && anyNone {
						if n, isInt := got.(aint); !isInt || n != 0 {
							bad = desc + ": " + f + ": every site that sets it sets it to none: want 0 (no timeout), got " + describeAval(got)
							return false
						}
						continue
					}
					if ok, why := okResult(pos, got, "default."+f); !ok {
						bad = desc + ": " + f + ": " + why + " (none is the least strict value: a positive value set by another site wins)"
						return false
					}
				}
				return true
			})
			if bad != "" {
				break
			}
		}
		r.Check(bad == "", "R4", "httpserver.makeHTTPServerWithTimeouts/decision-table", fn.Pos(),
			"for every group of up to three sites the four listener timeouts are the smallest positive values set by any site (a site's `none` never lifts another site's timeout), 0 when every setting is none, or the defaults when no site sets one", sprintf("%d cases evaluated", nrun), bad)
	}
	if fn := h.fn("R4", hs, "makeHTTPServerWithHeaderLimit"); fn != nil {
		bad := ""
		nrun := 0
		for _, c := range cases {
			c := c
			base := symRank(c.rank)
			env := &absEnv{globals: map[string]*aobj{}, cmp: func(a, b aval) (int, bool) {
				if x, ok := base(a, b); ok {
					return x, true
				}
				// configured sizes are positive; 0 encodes 'unset'
				if s, ok := a.(asym); ok && strings.HasPrefix(s.name, "v") {
					if z, ok := b.(aint); ok && z == 0 {
						return 1, true
					}
				}
				if s, ok := b.(asym); ok && strings.HasPrefix(s.name, "v") {
					if z, ok := a.(aint); ok && z == 0 {
						return -1, true
					}
				}
				return 0, false
			}}
			mk := func() []aval {
				var sl aslice
				for i := range c.set {
					i := i
					sl.elems = append(sl.elems, &aobj{name: sprintf("site%d", i), typ: fn.Params[1].Type().(*types.Slice).Elem().(*types.Pointer).Elem(), f: map[string]aval{}, in: func(o *aobj, path string, t types.Type) aval {
						if path == "Limits.MaxRequestHeaderSize" {
							if c.set[i] {
								return asym{sprintf("v%d", i)}
							}
							return aint(0)
						}
						return aunk{"site field " + path}
					}})
				}
				srv := &aobj{name: "server", typ: fn.Params[0].Type().(*types.Pointer).Elem(), f: map[string]aval{}, in: func(o *aobj, path string, t types.Type) aval {
					if path == "MaxHeaderBytes" {
						return asym{"untouched"}
					}
					return aunk{"server field " + path}
				}}
				return []aval{aptr{srv, ""}, sl}
			}
			env.runForks(fn, mk, func(res aval, und string, forks int) bool {
				nrun++
				if und != "" {
					bad = caseDesc(c) + ": undecided — " + und
					return false
				}
				p, ok := res.(aptr)
				if !ok {
					bad = caseDesc(c) + ": result is not a server: " + describeAval(res)
					return false
				}
				got := env.load(p.obj, "MaxHeaderBytes")
				if ok, why := okResult(c, got, "untouched"); !ok {
					bad = caseDesc(c) + ": MaxHeaderBytes: " + why
					return false
				}
				return true
			})
			if bad != "" {
				break
			}
		}
		r.Check(bad == "", "R4", "httpserver.makeHTTPServerWithHeaderLimit/decision-table", fn.Pos(),
			"for every group of up to three sites the listener's header limit is the smallest limit set by any site, and is left alone when none sets one", sprintf("%d cases evaluated", nrun), bad)
	}
}

// fnPkgVar: the type of a package-level variable of fn's package.
func fnPkgVar(fn *ssa.Function, name string) types.Type {
	if fn.Pkg == nil {
		return nil
	}
	if g, ok := fn.Pkg.Members[name].(*ssa.Global); ok {
		return g.Type().(*types.Pointer).Elem()
	}
	return nil
}

// c17Tables: the body-limit handler and its reader as decision tables (E10).
func c17Tables(h H) {
	r := h.r
	// --- Limit.ServeHTTP: which limit wraps the body
	if fn := h.fn("R1", limPkg, "Limit.ServeHTTP"); fn != nil {
		limT := fn.Params[0].Type()
		reqT := fn.Params[2].Type().(*types.Pointer).Elem()
		var plT types.Type
		if st, ok := underlying(limT).(*types.Struct); ok {
			for i := 0; i < st.NumFields(); i++ {
				if st.Field(i).Name() == "BodyLimits" {
					plT = underlying(st.Field(i).Type()).(*types.Slice).Elem()
				}
			}
		}
		bad, nrun := "", 0
		for n := 0; n <= tb(3, 5) && bad == "" && plT != nil; n++ {
			for m := 0; m < 1<<n && bad == ""; m++ {
				for _, hasBody := range []bool{true, false} {
					var seenBody aval
					called := 0
					env := &absEnv{globals: map[string]*aobj{}, maxSteps: 50000}
					env.ext = func(callee string, args []aval) (aval, bool) {
						switch {
						case strings.HasSuffix(callee, "httpserver.Path).Matches"):
							if s, ok := args[len(args)-1].(asym); ok {
								var i int
								fmt.Sscanf(s.name, "path%d", &i)
								return abool(m&(1<<i) != 0), true
							}
							return aunk{"Matches of something that is not a configured path"}, true
						case callee == "invoke:ServeHTTP":
							called++
							if p, ok := args[2].(aptr); ok {
								seenBody = env.load(p.obj, "Body")
							}
							return atuple{aint(0), anil{}}, true
						}
						return nil, false
					}
					origBody := aiface{aptr{&aobj{name: "body", typ: types.Typ[types.Int], f: map[string]aval{}}, ""}, types.NewPointer(types.Typ[types.Int])}
					mk := func() []aval {
						seenBody, called = nil, 0
						var entries []aval
						for i := 0; i < n; i++ {
							entries = append(entries, astruct{map[string]aval{"Path": asym{fmt.Sprintf("path%d", i)}, "Limit": asym{fmt.Sprintf("limit%d", i)}}})
						}
						lim := astruct{map[string]aval{"Next": aiface{aptr{&aobj{name: "next", typ: types.Typ[types.Int], f: map[string]aval{}}, ""}, types.Typ[types.Int]}, "BodyLimits": newVals(entries, plT)}}
						req := &aobj{name: "request", typ: reqT, f: map[string]aval{}}
						if hasBody {
							req.f["Body"] = origBody
						} else {
							req.f["Body"] = anil{}
						}
						url := &aobj{name: "url", typ: types.Typ[types.Int], f: map[string]aval{}}
						req.in = func(o *aobj, path string, t types.Type) aval {
							if path == "URL" {
								if p, ok := underlying(t).(*types.Pointer); ok {
									url.typ = p.Elem()
								}
								url.in = func(o *aobj, path string, t types.Type) aval {
									if path == "Path" {
										return asym{"reqpath"}
									}
									return aunk{"url field " + path}
								}
								return aptr{url, ""}
							}
							return aunk{"request field " + path}
						}
						return []aval{lim, anil{}, aptr{req, ""}}
					}
					env.runForks(fn, mk, func(res aval, und string, _ int) bool {
						nrun++
						desc := fmt.Sprintf("%d limits, matching mask %b, body present=%v", n, m, hasBody)
						if und != "" {
							bad = desc + ": undecided — " + und
							return false
						}
						if called != 1 {
							bad = fmt.Sprintf("%s: the next handler is invoked %d times", desc, called)
							return false
						}
						first := -1
						for i := 0; i < n; i++ {
							if m&(1<<i) != 0 {
								first = i
								break
							}
						}
						if !hasBody || first < 0 {
							same := false
							if !hasBody {
								_, same = seenBody.(anil)
							} else if v, ok := seenBody.(aiface); ok {
								p1, ok1 := v.val.(aptr)
								p2, _ := origBody.val.(aptr)
								same = ok1 && p1.obj == p2.obj
							}
							if !same {
								bad = desc + ": the body handed on should be the request's own, got " + describeAval(seenBody)
								return false
							}
							return true
						}
						v, ok := seenBody.(aiface)
						rp, ok2 := v.val.(aptr)
						if !ok || !ok2 {
							bad = desc + ": the body handed on is not a limiting reader: " + describeAval(seenBody)
							return false
						}
						fn0, _, fsrc, _ := readerFields(rp.obj.typ)
						lim := env.load(rp.obj, fn0)
						src := env.load(rp.obj, fsrc)
						srcOK := false
						if sv, ok := src.(aiface); ok {
							p1, ok1 := sv.val.(aptr)
							p2, _ := origBody.val.(aptr)
							srcOK = ok1 && p1.obj == p2.obj
						}
						if s, ok := lim.(asym); !ok || s.name != fmt.Sprintf("limit%d", first) || !srcOK {
							bad = fmt.Sprintf("%s: want the request body wrapped with limit%d (the first matching entry), got limit %s over %s", desc, first, describeAval(lim), describeAval(src))
							return false
						}
						return true
					})
				}
			}
		}
		r.Check(bad == "", "R1", "limits.Limit.ServeHTTP/table", fn.Pos(),
			"for every list of up to three path limits and every set of matching entries the next handler runs exactly once, with the request body wrapped once by a reader carrying the first matching entry's limit — or with the body untouched when nothing matches or there is no body (no dependence on Content-Length, method or framing)",
			fmt.Sprintf("%d evaluations", nrun), bad)
	}
	// --- maxBytesReader.Read
	if fn := h.fn("R2", limPkg, "(*maxBytesReader).Read"); fn != nil {
		rdT := fn.Params[0].Type().(*types.Pointer).Elem()
		fN, fErr, fSrc, fW := readerFields(rdT)
		if fN == "" || fErr == "" || fSrc == "" {
			r.Unresolve("R2", "maxBytesReader: fields for the allowance, the remembered error and the source not found by type")
			return
		}
		sentinel := &aobj{name: "ErrMaxBytesExceeded", typ: types.Typ[types.Int], f: map[string]aval{}}
		bad, nrun := "", 0
		type srcRes struct {
			k   int64
			err string // "", "eof", "other"
		}
		var allowances []int64
		for remaining := int64(0); remaining <= int64(tb(3, 6)); remaining++ {
			allowances = append(allowances, remaining)
		}
		// the largest limits a configuration can name: remaining+1 must not be computed in a way that wraps
		allowances = append(allowances, math.MaxInt64-1, math.MaxInt64)
		for _, remaining := range allowances {
			if bad != "" {
				break
			}
			for plen := int64(0); plen <= int64(tb(5, 9)) && bad == ""; plen++ {
				for _, sticky := range []string{"", "other", "toolarge"} {
					want := plen
					if remaining < want-1 {
						want = remaining + 1
					}
					var results []srcRes
					for k := int64(0); k <= want; k++ {
						for _, e := range []string{"", "eof", "other"} {
							results = append(results, srcRes{k, e})
						}
					}
					for _, sr := range results {
						sr := sr
						errObjs := map[string]aval{"": anil{}, "eof": aptr{&aobj{name: "io.EOF", typ: types.Typ[types.Int], f: map[string]aval{}}, ""}, "other": aptr{&aobj{name: "some error", typ: types.Typ[types.Int], f: map[string]aval{}}, ""}, "toolarge": aptr{sentinel, ""}}
						reads := 0
						var asked int64 = -1
						env := &absEnv{globals: map[string]*aobj{"ErrMaxBytesExceeded": {name: "ErrMaxBytesExceeded", typ: types.Typ[types.Int], f: map[string]aval{"": aptr{sentinel, ""}}}}, noFork: true, maxSteps: 20000}
						env.ext = func(callee string, args []aval) (aval, bool) {
							if callee == "invoke:Read" {
								reads++
								if sl, ok := args[1].(avals); ok {
									asked = int64(len(sl.cells))
								}
								return atuple{aint(sr.k), errObjs[sr.err]}, true
							}
							return nil, false
						}
						rd := &aobj{name: "reader", typ: rdT, f: map[string]aval{fN: aint(remaining), fErr: errObjs[sticky], fW: anil{}, fSrc: aiface{aptr{&aobj{name: "source", typ: types.Typ[types.Int], f: map[string]aval{}}, ""}, types.Typ[types.Int]}}}
						var buf []aval
						for i := int64(0); i < plen; i++ {
							buf = append(buf, aint(0))
						}
						var p aval = newVals(buf, types.Typ[types.Uint8])
						res, und := env.run(fn, []aval{aptr{rd, ""}, p})
						nrun++
						desc := fmt.Sprintf("remaining=%d len(p)=%d sticky=%q source returns (%d,%q)", remaining, plen, sticky, sr.k, sr.err)
						if und != "" {
							bad = desc + ": undecided — " + und
							break
						}
						tp, ok := res.(atuple)
						if !ok || len(tp) != 2 {
							bad = desc + ": unexpected result " + describeAval(res)
							break
						}
						sameErr := func(v aval, which string) bool {
							if which == "" {
								_, isNil := v.(anil)
								return isNil
							}
							p1, ok1 := v.(aptr)
							p2 := errObjs[which].(aptr)
							return ok1 && p1.obj == p2.obj
						}
						var wn int64
						werr := ""
						wreads := 0
						wrem := remaining
						wsticky := sticky
						switch {
						case sticky != "":
							wn, werr = 0, sticky
						case plen == 0:
							wn, werr = 0, ""
						default:
							wreads = 1
							if sr.k <= remaining {
								wn, werr = sr.k, sr.err
								wrem = remaining - sr.k
								wsticky = sr.err
							} else {
								wn, werr = remaining, "toolarge"
								wrem = 0
								wsticky = "toolarge"
							}
						}
						gn, _ := tp[0].(aint)
						switch {
						case int64(gn) != wn || !sameErr(tp[1], werr):
							bad = fmt.Sprintf("%s: returns (%s, %s), specification says (%d, %q)", desc, describeAval(tp[0]), describeAval(tp[1]), wn, werr)
						case reads != wreads:
							bad = fmt.Sprintf("%s: the source is read %d time(s), specification says %d", desc, reads, wreads)
						case wreads == 1 && asked != want:
							bad = fmt.Sprintf("%s: asks the source for %d bytes, specification says min(len(p), remaining+1) = %d", desc, asked, want)
						case !sameErr(env.load(rd, fErr), wsticky):
							bad = fmt.Sprintf("%s: remembers error %s afterwards, specification says %q", desc, describeAval(env.load(rd, fErr)), wsticky)
						default:
							if v, ok := env.load(rd, fN).(aint); !ok || int64(v) != wrem {
								bad = fmt.Sprintf("%s: remaining allowance afterwards %s, specification says %d", desc, describeAval(env.load(rd, fN)), wrem)
							}
						}
						if bad != "" {
							break
						}
					}
					if bad != "" {
						break
					}
				}
			}
		}
		r.Check(bad == "", "R2", "limits.(*maxBytesReader).Read/table", fn.Pos(),
			"for every remaining allowance 0–3 and the two largest representable ones, buffer length 0–5, remembered error and every result the source can give, Read returns what the specification says: the remembered error without touching the source; (0, nil) for an empty buffer; otherwise one read of min(len(p), remaining+1) bytes, passed through and accounted when within the allowance, cut to the allowance with the too-large error (remembered from then on) when beyond it",
			fmt.Sprintf("%d evaluations", nrun), bad)
	}
}

// readerFields: the fields of the limiting reader by role (their names are not part of the contract).
func readerFields(t types.Type) (n, err, src, w string) {
	// leaf paths, descending into nested struct values (the accounting may live in a struct of its own)
	var ints []string
	var walk func(t types.Type, prefix string, depth int)
	walk = func(t types.Type, prefix string, depth int) {
		st, ok := underlying(t).(*types.Struct)
		if !ok || depth > 3 {
			return
		}
		for i := 0; i < st.NumFields(); i++ {
			f := st.Field(i)
			p := joinPath(prefix, f.Name())
			switch ft := f.Type().String(); {
			case ft == "int64":
				n = p
				ints = append(ints, p)
			case ft == "error":
				err = p
			case ft == "io.ReadCloser" || ft == "io.Reader":
				src = p
			case ft == "net/http.ResponseWriter":
				w = p
			default:
				if _, isStruct := underlying(f.Type()).(*types.Struct); isStruct {
					if _, named := f.Type().(*types.Named); named {
						walk(f.Type(), p, depth+1)
					}
				}
			}
		}
	}
	walk(t, "", 0)
	if len(ints) > 1 && theProgram != nil {
		// several int64 fields (a configured limit kept beside the count-down, say): the allowance is the one the
		// type's Read method writes
		if rd := theProgram.Func(limPkg, "(*maxBytesReader).Read"); rd != nil {
			written := map[string]bool{}
			for _, b := range rd.Blocks {
				for _, in := range b.Instrs {
					if st, ok := in.(*ssa.Store); ok {
						if fa, ok := st.Addr.(*ssa.FieldAddr); ok {
							if s, ok := underlying(derefType(fa.X.Type())).(*types.Struct); ok {
								written[s.Field(fa.Field).Name()] = true
							}
						}
					}
				}
			}
			for _, p := range ints {
				leaf := p
				if i := strings.LastIndex(p, "."); i >= 0 {
					leaf = p[i+1:]
				}
				if written[leaf] {
					n = p
					break
				}
			}
		}
	}
	return
}

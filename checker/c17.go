package main

import (
	"fmt"
	"go/token"
	"go/types"
	"strings"

	"golang.org/x/tools/go/ssa"
)

func init() {
	register("C17", &propSpec{
		technique: "static analysis: exact guard-atom sets around the body wrapper, must-pass ordering of sort-before-store, sentinel-error identity discipline (errors.Is after foreign callees) with sibling agreement on 413, decision-table extraction of the two strictest-of merge functions by abstract evaluation of their SSA (E10: groups of 0-3 sites x set/unset x every relative order)",
		run:       runC17,
		decided: "R1 the request body is replaced by the limiting reader under exactly {body present, path matches} using the matched entry's own limit, once, and the limit list is sorted longest-path-first before it is stored; " +
			"R2 the limiting reader returns its sticky error before touching the source, reads at most limit+1 bytes, records the too-large sentinel, never remembers any other error than the source's own or that sentinel, and answers (apart from the sticky and empty-buffer cases) only after reading the source; " +
			"R3 the too-large sentinel is tested with errors.Is wherever the error crossed foreign code, and every body-forwarding handler (proxy: two sites, fastcgi) maps it to 413; " +
			"R4 each shared listener setting comes out as the smallest value among the sites that set it, and as the default (header limit: untouched) exactly when none does — the full input/output table of both merge functions for every group of up to three sites.",
		notDecided: "off-by-one exactness over all body lengths × read sizes; groups of more than three co-hosted sites (the merge is a fold of the step the table covers); whether an explicit `timeouts none` should win the merge (recorded for triage, not asserted).",
	})
}

const limPkg = "caskethttp/limits"

func runC17(r *Report, p *Program) {
	h := H{r, p}
	c17R1(h)
	c17R2(h)
	c17R3(h)
	c17R4(h)
}

func c17R1(h H) {
	r := h.r
	r.Rule("R1", "the body is wrapped before the handlers see it: in Limit.ServeHTTP the store r.Body = MaxBytesReader(w, r.Body, <entry>.Limit) is guarded by exactly {r.Body != nil, loop continuation, Path.Matches(<same entry>.Path)}, cannot be executed twice for one request, and precedes Next on that path; parseLimits calls SortPathLimits on the slice before storing it into the site config; the comparator orders by longer path first", 4)
	fn := h.fn("R1", limPkg, "Limit.ServeHTTP")
	if fn != nil {
		n := 0
		allInstrs(fn, func(in ssa.Instruction) {
			st, ok := in.(*ssa.Store)
			if !ok {
				return
			}
			fa, ok := st.Addr.(*ssa.FieldAddr)
			if !ok || fieldName(fa.X.Type(), fa.Field) != "Body" {
				return
			}
			n++
			mk, isMk := st.Val.(*ssa.Call)
			shape := isMk && strings.HasSuffix(calleeName(&mk.Call), "limits.MaxBytesReader")
			var limitArg ssa.Value
			if shape {
				limitArg = mk.Call.Args[2]
			} else {
				// the same reader built in place: &maxBytesReader{…, n: <limit>}
				v := st.Val
				if mi, ok := v.(*ssa.MakeInterface); ok {
					v = mi.X
				}
				if al, ok := v.(*ssa.Alloc); ok && strings.HasSuffix(al.Type().String(), "limits.maxBytesReader") {
					for _, ref := range *al.Referrers() {
						fa, ok := ref.(*ssa.FieldAddr)
						if !ok || fieldName(fa.X.Type(), fa.Field) != "n" {
							continue
						}
						for _, r2 := range *fa.Referrers() {
							if s2, ok := r2.(*ssa.Store); ok && s2.Addr == ssa.Value(fa) {
								limitArg = s2.Val
								shape = true
							}
						}
					}
				}
			}
			limOK := false
			var entry ssa.Value
			if shape {
				// the limit handed to the reader: possibly through a merge of "found"/"not found" results, of which
				// only the values that can reach this store count
				limOK = true
				for _, lv := range valuesAt(fn, limitArg, in) {
					p, root := fieldPath(lv)
					if p != "Limit" || (entry != nil && !sameValue(root, entry) && root != entry) {
						limOK = false
					}
					entry = root
				}
			}
			var match, body bool
			var extra []string
			for _, g := range guardAtoms(fn, nil, in) {
				switch {
				case isNilCmpOfField(g, "Body", false):
					body = true
				case isLoopCond(g):
				case isConstFlag(g.Cond):
					// a found/not-found flag: the conditions under which it is set appear as guards themselves
				default:
					if c, ok := g.Cond.(*ssa.Call); ok && strings.HasSuffix(calleeName(&c.Call), "httpserver.Path).Matches") && g.Pos {
						p, root := fieldPath(c.Call.Args[1])
						if p == "Path" && (entry == nil || sameValue(root, entry) || root == entry) {
							match = true
							continue
						}
					}
					extra = append(extra, describe(g.Cond))
				}
			}
			r.Check(shape && limOK && match && body && len(extra) == 0, "R1", "limits.Limit.ServeHTTP/wrap-body", st.Pos(),
				"every body on a matching path is wrapped with that path's limit — independent of Content-Length, method or framing", append([]string{sprintf("shape:%v limit-field:%v matches:%v body!=nil:%v", shape, limOK, match, body)}, extra...)...)
			r.Check(!canReach(fn, in, in, cut{}), "R1", "limits.Limit.ServeHTTP/first-match-wins", st.Pos(), "after the first (longest) matching entry wrapped the body no further entry wraps it again")
		})
		if n == 0 {
			r.Fail("R1", "limits.Limit.ServeHTTP/wrap-body", fn.Pos(), "the request body is never replaced by a limiting reader")
		}
	}
	if pl := h.fn("R1", limPkg, "parseLimits"); pl != nil {
		sorts := callsTo(pl, "limits.SortPathLimits")
		n := 0
		allInstrs(pl, func(in ssa.Instruction) {
			st, ok := in.(*ssa.Store)
			if !ok {
				return
			}
			fa, ok := st.Addr.(*ssa.FieldAddr)
			if !ok || fieldName(fa.X.Type(), fa.Field) != "MaxRequestBodySizes" {
				return
			}
			n++
			ok2 := mustPass(pl, in, anyOf(sorts))
			same := false
			for _, s := range sorts {
				if callOf(s).Args[0] == st.Val {
					same = true
				}
			}
			r.Check(ok2 && same, "R1", "limits.parseLimits/sorted-before-stored", st.Pos(), "the list the handler scans (first match wins) was sorted longest path first")
		})
		if n == 0 {
			r.Unresolve("R1", "parseLimits: store to MaxRequestBodySizes not found")
		}
	}
	if sp := h.fn("R1", limPkg, "SortPathLimits"); sp != nil {
		cmpFn := h.p.Func(limPkg, "LengthDescending")
		uses := false
		allInstrs(sp, func(in ssa.Instruction) {
			if st, ok := in.(*ssa.Store); ok {
				if f, ok := st.Val.(*ssa.Function); ok && f == cmpFn {
					uses = true
				}
				if mc, ok := st.Val.(*ssa.MakeClosure); ok && mc.Fn == cmpFn {
					uses = true
				}
			}
		})
		desc := false
		if cmpFn != nil {
			for _, rv := range returnValues(cmpFn, 0) {
				if b, ok := rv.(*ssa.BinOp); ok {
					lx, ly := lenOfParamField(b.X), lenOfParamField(b.Y)
					if b.Op == token.GTR && lx == 0 && ly == 1 || b.Op == token.LSS && lx == 1 && ly == 0 {
						desc = true
					}
				}
			}
		}
		r.Check(uses && desc, "R1", "limits.SortPathLimits/longest-first", sp.Pos(), "paths are ordered by decreasing length so the most specific limit is found first")
	}
}

func isLoopCond(g guardInfo) bool {
	b, ok := g.Cond.(*ssa.BinOp)
	if !ok || b.Op != token.LSS {
		return false
	}
	c, ok := b.Y.(*ssa.Call)
	return ok && calleeName(&c.Call) == "builtin.len" && len(naturalLoop(g.If.Block())) > 0
}

// lenOfParamField: v is len(<param k>.Path) → k, else -1.
func lenOfParamField(v ssa.Value) int {
	c, ok := v.(*ssa.Call)
	if !ok || calleeName(&c.Call) != "builtin.len" {
		return -1
	}
	_, root := fieldPath(c.Call.Args[0])
	pr, ok := root.(*ssa.Parameter)
	if !ok {
		return -1
	}
	for i, q := range pr.Parent().Params {
		if q == pr {
			return i
		}
	}
	return -1
}

func c17R2(h H) {
	r := h.r
	r.Rule("R2", "sticky error and limit+1 read: maxBytesReader.Read invokes the underlying Read only on the err==nil edge, slices the buffer to at most n+1, and on the over-limit path stores httpserver.ErrMaxBytesExceeded into its sticky error and returns it; the sticky error is only ever the source's error or that sentinel, and every other return follows a Read of the source", 5)
	fn := h.fn("R2", limPkg, "(*maxBytesReader).Read")
	if fn == nil {
		return
	}
	var reads []ssa.Instruction
	allInstrs(fn, func(in ssa.Instruction) {
		if c := callOf(in); c != nil && c.IsInvoke() && c.Method.Name() == "Read" {
			reads = append(reads, in)
		}
	})
	errNil := nilEdges(fn, true, func(v ssa.Value) bool { return readsField(v, "err") })
	for _, rd := range reads {
		r.Check(onlyVia(fn, rd, errNil), "R2", "limits.(*maxBytesReader).Read/sticky-error-first", rd.Pos(), "once the limit was hit every further Read fails without touching the source")
	}
	if len(reads) == 0 {
		r.Unresolve("R2", "maxBytesReader.Read: underlying Read invoke not found")
	}
	plus1 := false
	allInstrs(fn, func(in ssa.Instruction) {
		sl, ok := in.(*ssa.Slice)
		if !ok || sl.High == nil {
			return
		}
		if derives(sl.High, func(v ssa.Value) bool {
			b, ok := v.(*ssa.BinOp)
			if !ok || b.Op != token.ADD {
				return false
			}
			c, okc := constInt(b.Y)
			return okc && c == 1 && readsField(b.X, "n")
		}, flowOpts{}) {
			plus1 = true
		}
	})
	r.Check(plus1, "R2", "limits.(*maxBytesReader).Read/reads-limit-plus-one", fn.Pos(), "the reader asks for at most remaining+1 bytes: enough to tell 'exactly at the limit' from 'over it'")
	stored := false
	allInstrs(fn, func(in ssa.Instruction) {
		st, ok := in.(*ssa.Store)
		if !ok {
			return
		}
		fa, ok := st.Addr.(*ssa.FieldAddr)
		if ok && fieldName(fa.X.Type(), fa.Field) == "err" && isGlobalLoad(st.Val, "ErrMaxBytesExceeded") {
			stored = true
		}
	})
	r.Check(stored, "R2", "limits.(*maxBytesReader).Read/records-sentinel", fn.Pos(), "going over the limit is recorded as ErrMaxBytesExceeded")
	// the reader never invents an end of stream: its sticky error is only ever the source's own error or the
	// too-large sentinel, and every return other than the sticky one and the empty-buffer one follows a Read of the source
	allInstrs(fn, func(in ssa.Instruction) {
		st, ok := in.(*ssa.Store)
		if !ok {
			return
		}
		fa, ok := st.Addr.(*ssa.FieldAddr)
		if !ok || fieldName(fa.X.Type(), fa.Field) != "err" {
			return
		}
		fromSrc := false
		for _, rd := range reads {
			if ex, isEx := st.Val.(*ssa.Extract); isEx && ex.Tuple == rd.(ssa.Value) && ex.Index == 1 {
				fromSrc = true
			}
		}
		r.Check(fromSrc || isGlobalLoad(st.Val, "ErrMaxBytesExceeded"), "R2", "limits.(*maxBytesReader).Read/sticky-error-source:"+describe(st.Val), st.Pos(),
			"the error the reader remembers is the source's own error or the too-large sentinel — never a made-up end of stream that would pass a truncated body off as complete", describe(st.Val))
	})
	errNonNil := nilEdges(fn, false, func(v ssa.Value) bool { return readsField(v, "err") })
	k := 0
	for _, rt := range realReturns(fn) {
		if onlyVia(fn, rt, errNonNil) {
			continue // sticky
		}
		empty := false
		for _, g := range guardAtoms(fn, nil, rt) {
			if x, kind, c, ok := intCmp(g.Cond); ok && c == 0 && ((kind == "eq" && g.Pos) || (kind == "ne" && !g.Pos) || (kind == "gt" && !g.Pos)) {
				if call, isCall := x.(*ssa.Call); isCall && calleeName(&call.Call) == "builtin.len" {
					if _, isP := call.Call.Args[0].(*ssa.Parameter); isP {
						empty = true
					}
				}
			}
		}
		if empty {
			continue
		}
		k++
		ok := mustPass(fn, rt, func(in ssa.Instruction) bool {
			for _, rd := range reads {
				if in == rd {
					return true
				}
			}
			return false
		})
		r.Check(ok, "R2", sprintf("limits.(*maxBytesReader).Read/return-after-source-read#%d", k), rt.Pos(), "apart from the sticky error and the empty buffer, the reader answers only after asking the source (it cannot know the body ended at the limit without reading one byte more)")
	}
}

func c17R3(h H) {
	r := h.r
	r.Rule("R3", "too-large is reported as too-large: no ==/!= comparison with httpserver.ErrMaxBytesExceeded on an error that crossed a non-module callee other than a direct Read/ReadAll; Proxy.ServeHTTP has errors.Is(…, ErrMaxBytesExceeded) guards returning 413 at both body-consuming sites (buffering and forwarding) and fastcgi.Handler.ServeHTTP at its one", 3)
	n := 0
	for _, fn := range h.p.ModFuncs() {
		allInstrs(fn, func(in ssa.Instruction) {
			b, ok := in.(*ssa.BinOp)
			if !ok || (b.Op != token.EQL && b.Op != token.NEQ) {
				return
			}
			var other ssa.Value
			switch {
			case isGlobalLoad(b.X, "ErrMaxBytesExceeded"):
				other = b.Y
			case isGlobalLoad(b.Y, "ErrMaxBytesExceeded"):
				other = b.X
			default:
				return
			}
			n++
			direct := derives(other, func(v ssa.Value) bool {
				return isResultOf(v, -1, "io/ioutil.ReadAll", "io.ReadAll") || func() bool {
					ex, ok := v.(*ssa.Extract)
					if !ok {
						return false
					}
					c, ok := ex.Tuple.(*ssa.Call)
					return ok && c.Call.IsInvoke() && c.Call.Method.Name() == "Read"
				}()
			}, flowOpts{})
			r.Check(direct, "R3", shortFunc(fn)+"/sentinel-identity-compare", b.Pos(), "an error compared by identity with ErrMaxBytesExceeded comes straight from reading the body (after crossing http.Transport or other foreign code it is wrapped and identity never holds: use errors.Is)", describe(other))
		})
	}
	for _, spec := range []struct {
		rel, name string
		min       int
	}{{pxPkg, "Proxy.ServeHTTP", 2}, {"caskethttp/fastcgi", "Handler.ServeHTTP", 1}} {
		fn := h.fn("R3", spec.rel, spec.name)
		if fn == nil {
			continue
		}
		good := 0
		for _, c := range findCalls(fn, func(in ssa.Instruction) bool { return isCallTo(in, "errors.Is") }) {
			if !isGlobalLoad(callOf(c).Args[1], "ErrMaxBytesExceeded") {
				continue
			}
			te := guardEdges(fn, true, func(v ssa.Value) bool { return v == c.(ssa.Value) })
			ok413 := false
			for e := range te {
				s := e.From.Succs[e.Idx]
				if rt, ok := lastInstr(s).(*ssa.Return); ok {
					if code, ok := constInt(retResults(rt)[0]); ok && code == 413 {
						ok413 = true
					}
				}
			}
			if ok413 {
				good++
			}
		}
		r.Check(good >= spec.min, "R3", shortFunc(fn)+"/413-on-too-large", fn.Pos(), sprintf("an exceeded body limit is answered 413 at each of the %d place(s) where this handler consumes the request body", spec.min), sprintf("%d errors.Is→413 site(s)", good))
	}
}

func c17R4(h H) {
	r := h.r
	r.Rule("R4", "strictest-of merge, decided as a decision table: makeHTTPServerWithTimeouts and makeHTTPServerWithHeaderLimit are evaluated abstractly (E10: booleans concrete, durations/sizes as ordered symbols) for every group of 0–3 sites, every combination of set/unset and every relative order of the set values; in every case each listener setting must come out as the smallest value among the sites that set it, and as the default (header limit: untouched) exactly when no site set it", 2)
	fields := []string{"ReadTimeout", "ReadHeaderTimeout", "WriteTimeout", "IdleTimeout"}
	symRank := func(rank []int) func(a, b aval) (int, bool) {
		rk := func(v aval) (int, bool) {
			s, ok := v.(asym)
			if !ok || !strings.HasPrefix(s.name, "v") {
				return 0, false
			}
			var i int
			if _, err := fmt.Sscanf(s.name, "v%d", &i); err != nil || i >= len(rank) {
				return 0, false
			}
			return rank[i], true
		}
		return func(a, b aval) (int, bool) {
			ra, oka := rk(a)
			rb, okb := rk(b)
			if oka && okb {
				switch {
				case ra < rb:
					return -1, true
				case ra > rb:
					return 1, true
				}
				return 0, true
			}
			return 0, false
		}
	}
	type caseT struct {
		set  []bool
		rank []int
	}
	var cases []caseT
	for n := 0; n <= 3; n++ {
		for m := 0; m < 1<<n; m++ {
			set := make([]bool, n)
			for i := range set {
				set[i] = m&(1<<i) != 0
			}
			for _, rk := range weakOrders(n) {
				cases = append(cases, caseT{set, rk})
			}
		}
	}
	caseDesc := func(c caseT) string {
		var parts []string
		for i, s := range c.set {
			if s {
				parts = append(parts, sprintf("site%d sets v%d(rank %d)", i, i, c.rank[i]))
			} else {
				parts = append(parts, sprintf("site%d unset", i))
			}
		}
		return "[" + strings.Join(parts, ", ") + "]"
	}
	want := func(c caseT) (min int, any bool) {
		min = -1
		for i, s := range c.set {
			if s && (min < 0 || c.rank[i] < c.rank[min]) {
				min = i
			}
		}
		return min, min >= 0
	}
	okResult := func(c caseT, got aval, unsetWant string) (bool, string) {
		m, any := want(c)
		s, isSym := got.(asym)
		if !any {
			if isSym && s.name == unsetWant {
				return true, ""
			}
			return false, sprintf("no site sets it: want %s, got %s", unsetWant, describeAval(got))
		}
		if isSym && strings.HasPrefix(s.name, "v") {
			var k int
			fmt.Sscanf(s.name, "v%d", &k)
			if k < len(c.set) && c.set[k] && c.rank[k] == c.rank[m] {
				return true, ""
			}
		}
		return false, sprintf("want v%d (the smallest set value), got %s", m, describeAval(got))
	}
	if fn := h.fn("R4", hs, "makeHTTPServerWithTimeouts"); fn != nil {
		bad := ""
		nrun := 0
		for _, c := range cases {
			c := c
			env := &absEnv{cmp: symRank(c.rank), globals: map[string]*aobj{}}
			if g := fnPkgVar(fn, "defaultTimeouts"); g != nil {
				env.globals["defaultTimeouts"] = &aobj{name: "defaultTimeouts", typ: g, f: map[string]aval{}, in: func(o *aobj, path string, t types.Type) aval {
					if strings.HasSuffix(path, "Set") {
						return abool(true)
					}
					return asym{"default." + path}
				}}
			}
			mk := func() []aval {
				var sl aslice
				for i := range c.set {
					i := i
					sl.elems = append(sl.elems, &aobj{name: sprintf("site%d", i), typ: fn.Params[1].Type().(*types.Slice).Elem().(*types.Pointer).Elem(), f: map[string]aval{}, in: func(o *aobj, path string, t types.Type) aval {
						for _, f := range fields {
							if path == "Timeouts."+f+"Set" {
								return abool(c.set[i])
							}
							if path == "Timeouts."+f {
								if c.set[i] {
									return asym{sprintf("v%d", i)}
								}
								return aint(0)
							}
						}
						return aunk{"site field " + path}
					}})
				}
				return []aval{astr("addr"), sl}
			}
			env.runForks(fn, mk, func(res aval, und string, forks int) bool {
				nrun++
				if und != "" {
					bad = caseDesc(c) + ": undecided — " + und
					return false
				}
				p, ok := res.(aptr)
				if !ok {
					bad = caseDesc(c) + ": result is not a server: " + describeAval(res)
					return false
				}
				for _, f := range fields {
					got := env.load(p.obj, f)
					if ok, why := okResult(c, got, "default."+f); !ok {
						bad = caseDesc(c) + ": " + f + ": " + why
						return false
					}
				}
				return true
			})
			if bad != "" {
				break
			}
		}
		r.Check(bad == "", "R4", "httpserver.makeHTTPServerWithTimeouts/decision-table", fn.Pos(),
			"for every group of up to three sites the four listener timeouts are the smallest values set by any site, or the defaults when none sets one", sprintf("%d cases evaluated", nrun), bad)
	}
	if fn := h.fn("R4", hs, "makeHTTPServerWithHeaderLimit"); fn != nil {
		bad := ""
		nrun := 0
		for _, c := range cases {
			c := c
			base := symRank(c.rank)
			env := &absEnv{globals: map[string]*aobj{}, cmp: func(a, b aval) (int, bool) {
				if x, ok := base(a, b); ok {
					return x, true
				}
				// configured sizes are positive; 0 encodes 'unset'
				if s, ok := a.(asym); ok && strings.HasPrefix(s.name, "v") {
					if z, ok := b.(aint); ok && z == 0 {
						return 1, true
					}
				}
				if s, ok := b.(asym); ok && strings.HasPrefix(s.name, "v") {
					if z, ok := a.(aint); ok && z == 0 {
						return -1, true
					}
				}
				return 0, false
			}}
			mk := func() []aval {
				var sl aslice
				for i := range c.set {
					i := i
					sl.elems = append(sl.elems, &aobj{name: sprintf("site%d", i), typ: fn.Params[1].Type().(*types.Slice).Elem().(*types.Pointer).Elem(), f: map[string]aval{}, in: func(o *aobj, path string, t types.Type) aval {
						if path == "Limits.MaxRequestHeaderSize" {
							if c.set[i] {
								return asym{sprintf("v%d", i)}
							}
							return aint(0)
						}
						return aunk{"site field " + path}
					}})
				}
				srv := &aobj{name: "server", typ: fn.Params[0].Type().(*types.Pointer).Elem(), f: map[string]aval{}, in: func(o *aobj, path string, t types.Type) aval {
					if path == "MaxHeaderBytes" {
						return asym{"untouched"}
					}
					return aunk{"server field " + path}
				}}
				return []aval{aptr{srv, ""}, sl}
			}
			env.runForks(fn, mk, func(res aval, und string, forks int) bool {
				nrun++
				if und != "" {
					bad = caseDesc(c) + ": undecided — " + und
					return false
				}
				p, ok := res.(aptr)
				if !ok {
					bad = caseDesc(c) + ": result is not a server: " + describeAval(res)
					return false
				}
				got := env.load(p.obj, "MaxHeaderBytes")
				if ok, why := okResult(c, got, "untouched"); !ok {
					bad = caseDesc(c) + ": MaxHeaderBytes: " + why
					return false
				}
				return true
			})
			if bad != "" {
				break
			}
		}
		r.Check(bad == "", "R4", "httpserver.makeHTTPServerWithHeaderLimit/decision-table", fn.Pos(),
			"for every group of up to three sites the listener's header limit is the smallest limit set by any site, and is left alone when none sets one", sprintf("%d cases evaluated", nrun), bad)
	}
}

// fnPkgVar: the type of a package-level variable of fn's package.
func fnPkgVar(fn *ssa.Function, name string) types.Type {
	if fn.Pkg == nil {
		return nil
	}
	if g, ok := fn.Pkg.Members[name].(*ssa.Global); ok {
		return g.Type().(*types.Pointer).Elem()
	}
	return nil
}

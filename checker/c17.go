package main

import (
	"go/token"
	"strings"

	"golang.org/x/tools/go/ssa"
)

func init() {
	register("C17", &propSpec{
		technique: "static analysis: exact guard-atom sets around the body wrapper, must-pass ordering of sort-before-store, sentinel-error identity discipline (errors.Is after foreign callees) with sibling agreement on 413, accumulator shape of the strictest-of merges",
		run:       runC17,
		decided: "R1 the request body is replaced by the limiting reader under exactly {body present, path matches} using the matched entry's own limit, once, and the limit list is sorted longest-path-first before it is stored; " +
			"R2 the limiting reader returns its sticky error before touching the source, reads at most limit+1 bytes and records the too-large sentinel; " +
			"R3 the too-large sentinel is tested with errors.Is wherever the error crossed foreign code, and every body-forwarding handler (proxy: two sites, fastcgi) maps it to 413; " +
			"R4 each shared listener setting is merged as 'set and (unset so far or smaller)', starting from unset, with defaults only when no site set it.",
		notDecided: "off-by-one exactness over all body lengths × read sizes; whether an explicit `timeouts none` should win the merge (recorded for triage, not asserted).",
	})
}

const limPkg = "caskethttp/limits"

func runC17(r *Report, p *Program) {
	h := H{r, p}
	c17R1(h)
	c17R2(h)
	c17R3(h)
	c17R4(h)
}

func c17R1(h H) {
	r := h.r
	r.Rule("R1", "the body is wrapped before the handlers see it: in Limit.ServeHTTP the store r.Body = MaxBytesReader(w, r.Body, <entry>.Limit) is guarded by exactly {r.Body != nil, loop continuation, Path.Matches(<same entry>.Path)}, cannot be executed twice for one request, and precedes Next on that path; parseLimits calls SortPathLimits on the slice before storing it into the site config; the comparator orders by longer path first", 4)
	fn := h.fn("R1", limPkg, "Limit.ServeHTTP")
	if fn != nil {
		n := 0
		allInstrs(fn, func(in ssa.Instruction) {
			st, ok := in.(*ssa.Store)
			if !ok {
				return
			}
			fa, ok := st.Addr.(*ssa.FieldAddr)
			if !ok || fieldName(fa.X.Type(), fa.Field) != "Body" {
				return
			}
			n++
			mk, isMk := st.Val.(*ssa.Call)
			shape := isMk && strings.HasSuffix(calleeName(&mk.Call), "limits.MaxBytesReader")
			var limitArg ssa.Value
			if shape {
				limitArg = mk.Call.Args[2]
			} else {
				// the same reader built in place: &maxBytesReader{…, n: <limit>}
				v := st.Val
				if mi, ok := v.(*ssa.MakeInterface); ok {
					v = mi.X
				}
				if al, ok := v.(*ssa.Alloc); ok && strings.HasSuffix(al.Type().String(), "limits.maxBytesReader") {
					for _, ref := range *al.Referrers() {
						fa, ok := ref.(*ssa.FieldAddr)
						if !ok || fieldName(fa.X.Type(), fa.Field) != "n" {
							continue
						}
						for _, r2 := range *fa.Referrers() {
							if s2, ok := r2.(*ssa.Store); ok && s2.Addr == ssa.Value(fa) {
								limitArg = s2.Val
								shape = true
							}
						}
					}
				}
			}
			limOK := false
			var entry ssa.Value
			if shape {
				// the limit handed to the reader: possibly through a merge of "found"/"not found" results, of which
				// only the values that can reach this store count
				limOK = true
				for _, lv := range valuesAt(fn, limitArg, in) {
					p, root := fieldPath(lv)
					if p != "Limit" || (entry != nil && !sameValue(root, entry) && root != entry) {
						limOK = false
					}
					entry = root
				}
			}
			var match, body bool
			var extra []string
			for _, g := range guardAtoms(fn, nil, in) {
				switch {
				case isNilCmpOfField(g, "Body", false):
					body = true
				case isLoopCond(g):
				case isConstFlag(g.Cond):
					// a found/not-found flag: the conditions under which it is set appear as guards themselves
				default:
					if c, ok := g.Cond.(*ssa.Call); ok && strings.HasSuffix(calleeName(&c.Call), "httpserver.Path).Matches") && g.Pos {
						p, root := fieldPath(c.Call.Args[1])
						if p == "Path" && (entry == nil || sameValue(root, entry) || root == entry) {
							match = true
							continue
						}
					}
					extra = append(extra, describe(g.Cond))
				}
			}
			r.Check(shape && limOK && match && body && len(extra) == 0, "R1", "limits.Limit.ServeHTTP/wrap-body", st.Pos(),
				"every body on a matching path is wrapped with that path's limit — independent of Content-Length, method or framing", append([]string{sprintf("shape:%v limit-field:%v matches:%v body!=nil:%v", shape, limOK, match, body)}, extra...)...)
			r.Check(!canReach(fn, in, in, cut{}), "R1", "limits.Limit.ServeHTTP/first-match-wins", st.Pos(), "after the first (longest) matching entry wrapped the body no further entry wraps it again")
		})
		if n == 0 {
			r.Fail("R1", "limits.Limit.ServeHTTP/wrap-body", fn.Pos(), "the request body is never replaced by a limiting reader")
		}
	}
	if pl := h.fn("R1", limPkg, "parseLimits"); pl != nil {
		sorts := callsTo(pl, "limits.SortPathLimits")
		n := 0
		allInstrs(pl, func(in ssa.Instruction) {
			st, ok := in.(*ssa.Store)
			if !ok {
				return
			}
			fa, ok := st.Addr.(*ssa.FieldAddr)
			if !ok || fieldName(fa.X.Type(), fa.Field) != "MaxRequestBodySizes" {
				return
			}
			n++
			ok2 := mustPass(pl, in, anyOf(sorts))
			same := false
			for _, s := range sorts {
				if callOf(s).Args[0] == st.Val {
					same = true
				}
			}
			r.Check(ok2 && same, "R1", "limits.parseLimits/sorted-before-stored", st.Pos(), "the list the handler scans (first match wins) was sorted longest path first")
		})
		if n == 0 {
			r.Unresolve("R1", "parseLimits: store to MaxRequestBodySizes not found")
		}
	}
	if sp := h.fn("R1", limPkg, "SortPathLimits"); sp != nil {
		cmpFn := h.p.Func(limPkg, "LengthDescending")
		uses := false
		allInstrs(sp, func(in ssa.Instruction) {
			if st, ok := in.(*ssa.Store); ok {
				if f, ok := st.Val.(*ssa.Function); ok && f == cmpFn {
					uses = true
				}
				if mc, ok := st.Val.(*ssa.MakeClosure); ok && mc.Fn == cmpFn {
					uses = true
				}
			}
		})
		desc := false
		if cmpFn != nil {
			for _, rv := range returnValues(cmpFn, 0) {
				if b, ok := rv.(*ssa.BinOp); ok {
					lx, ly := lenOfParamField(b.X), lenOfParamField(b.Y)
					if b.Op == token.GTR && lx == 0 && ly == 1 || b.Op == token.LSS && lx == 1 && ly == 0 {
						desc = true
					}
				}
			}
		}
		r.Check(uses && desc, "R1", "limits.SortPathLimits/longest-first", sp.Pos(), "paths are ordered by decreasing length so the most specific limit is found first")
	}
}

func isLoopCond(g guardInfo) bool {
	b, ok := g.Cond.(*ssa.BinOp)
	if !ok || b.Op != token.LSS {
		return false
	}
	c, ok := b.Y.(*ssa.Call)
	return ok && calleeName(&c.Call) == "builtin.len" && len(naturalLoop(g.If.Block())) > 0
}

// lenOfParamField: v is len(<param k>.Path) → k, else -1.
func lenOfParamField(v ssa.Value) int {
	c, ok := v.(*ssa.Call)
	if !ok || calleeName(&c.Call) != "builtin.len" {
		return -1
	}
	_, root := fieldPath(c.Call.Args[0])
	pr, ok := root.(*ssa.Parameter)
	if !ok {
		return -1
	}
	for i, q := range pr.Parent().Params {
		if q == pr {
			return i
		}
	}
	return -1
}

func c17R2(h H) {
	r := h.r
	r.Rule("R2", "sticky error and limit+1 read: maxBytesReader.Read invokes the underlying Read only on the err==nil edge, slices the buffer to at most n+1, and on the over-limit path stores httpserver.ErrMaxBytesExceeded into its sticky error and returns it", 3)
	fn := h.fn("R2", limPkg, "(*maxBytesReader).Read")
	if fn == nil {
		return
	}
	var reads []ssa.Instruction
	allInstrs(fn, func(in ssa.Instruction) {
		if c := callOf(in); c != nil && c.IsInvoke() && c.Method.Name() == "Read" {
			reads = append(reads, in)
		}
	})
	errNil := nilEdges(fn, true, func(v ssa.Value) bool { return readsField(v, "err") })
	for _, rd := range reads {
		r.Check(onlyVia(fn, rd, errNil), "R2", "limits.(*maxBytesReader).Read/sticky-error-first", rd.Pos(), "once the limit was hit every further Read fails without touching the source")
	}
	if len(reads) == 0 {
		r.Unresolve("R2", "maxBytesReader.Read: underlying Read invoke not found")
	}
	plus1 := false
	allInstrs(fn, func(in ssa.Instruction) {
		sl, ok := in.(*ssa.Slice)
		if !ok || sl.High == nil {
			return
		}
		if derives(sl.High, func(v ssa.Value) bool {
			b, ok := v.(*ssa.BinOp)
			if !ok || b.Op != token.ADD {
				return false
			}
			c, okc := constInt(b.Y)
			return okc && c == 1 && readsField(b.X, "n")
		}, flowOpts{}) {
			plus1 = true
		}
	})
	r.Check(plus1, "R2", "limits.(*maxBytesReader).Read/reads-limit-plus-one", fn.Pos(), "the reader asks for at most remaining+1 bytes: enough to tell 'exactly at the limit' from 'over it'")
	stored := false
	allInstrs(fn, func(in ssa.Instruction) {
		st, ok := in.(*ssa.Store)
		if !ok {
			return
		}
		fa, ok := st.Addr.(*ssa.FieldAddr)
		if ok && fieldName(fa.X.Type(), fa.Field) == "err" && isGlobalLoad(st.Val, "ErrMaxBytesExceeded") {
			stored = true
		}
	})
	r.Check(stored, "R2", "limits.(*maxBytesReader).Read/records-sentinel", fn.Pos(), "going over the limit is recorded as ErrMaxBytesExceeded")
}

func c17R3(h H) {
	r := h.r
	r.Rule("R3", "too-large is reported as too-large: no ==/!= comparison with httpserver.ErrMaxBytesExceeded on an error that crossed a non-module callee other than a direct Read/ReadAll; Proxy.ServeHTTP has errors.Is(…, ErrMaxBytesExceeded) guards returning 413 at both body-consuming sites (buffering and forwarding) and fastcgi.Handler.ServeHTTP at its one", 3)
	n := 0
	for _, fn := range h.p.ModFuncs() {
		allInstrs(fn, func(in ssa.Instruction) {
			b, ok := in.(*ssa.BinOp)
			if !ok || (b.Op != token.EQL && b.Op != token.NEQ) {
				return
			}
			var other ssa.Value
			switch {
			case isGlobalLoad(b.X, "ErrMaxBytesExceeded"):
				other = b.Y
			case isGlobalLoad(b.Y, "ErrMaxBytesExceeded"):
				other = b.X
			default:
				return
			}
			n++
			direct := derives(other, func(v ssa.Value) bool {
				return isResultOf(v, -1, "io/ioutil.ReadAll", "io.ReadAll") || func() bool {
					ex, ok := v.(*ssa.Extract)
					if !ok {
						return false
					}
					c, ok := ex.Tuple.(*ssa.Call)
					return ok && c.Call.IsInvoke() && c.Call.Method.Name() == "Read"
				}()
			}, flowOpts{})
			r.Check(direct, "R3", shortFunc(fn)+"/sentinel-identity-compare", b.Pos(), "an error compared by identity with ErrMaxBytesExceeded comes straight from reading the body (after crossing http.Transport or other foreign code it is wrapped and identity never holds: use errors.Is)", describe(other))
		})
	}
	for _, spec := range []struct {
		rel, name string
		min       int
	}{{pxPkg, "Proxy.ServeHTTP", 2}, {"caskethttp/fastcgi", "Handler.ServeHTTP", 1}} {
		fn := h.fn("R3", spec.rel, spec.name)
		if fn == nil {
			continue
		}
		good := 0
		for _, c := range findCalls(fn, func(in ssa.Instruction) bool { return isCallTo(in, "errors.Is") }) {
			if !isGlobalLoad(callOf(c).Args[1], "ErrMaxBytesExceeded") {
				continue
			}
			te := guardEdges(fn, true, func(v ssa.Value) bool { return v == c.(ssa.Value) })
			ok413 := false
			for e := range te {
				s := e.From.Succs[e.Idx]
				if rt, ok := lastInstr(s).(*ssa.Return); ok {
					if code, ok := constInt(retResults(rt)[0]); ok && code == 413 {
						ok413 = true
					}
				}
			}
			if ok413 {
				good++
			}
		}
		r.Check(good >= spec.min, "R3", shortFunc(fn)+"/413-on-too-large", fn.Pos(), sprintf("an exceeded body limit is answered 413 at each of the %d place(s) where this handler consumes the request body", spec.min), sprintf("%d errors.Is→413 site(s)", good))
	}
}

func c17R4(h H) {
	r := h.r
	r.Rule("R4", "strictest-of merge: makeHTTPServerWithHeaderLimit keeps an accumulator that starts unset (0), skips unset (0) candidates, takes a candidate when the accumulator is unset or the candidate is smaller, and never when it is larger; makeHTTPServerWithTimeouts takes cfg's value only under cfg's Set flag and (accumulator unset or cfg's value < accumulator's), and falls back to the default only when the accumulator is unset", 9)
	if fn := h.fn("R4", hs, "makeHTTPServerWithHeaderLimit"); fn != nil {
		// accumulator: the φ stored (converted) into MaxHeaderBytes
		var acc *ssa.Phi
		allInstrs(fn, func(in ssa.Instruction) {
			st, ok := in.(*ssa.Store)
			if !ok {
				return
			}
			fa, ok := st.Addr.(*ssa.FieldAddr)
			if !ok || fieldName(fa.X.Type(), fa.Field) != "MaxHeaderBytes" {
				return
			}
			derives(st.Val, func(v ssa.Value) bool {
				if ph, ok := v.(*ssa.Phi); ok && acc == nil {
					acc = ph
				}
				return false
			}, flowOpts{})
		})
		if acc == nil {
			r.Unresolve("R4", "makeHTTPServerWithHeaderLimit: accumulator not found")
		} else {
			// initial value
			initZero := false
			for k, e := range acc.Edges {
				if !naturalLoop(acc.Block())[acc.Block().Preds[k]] {
					if c, ok := constInt(e); ok && c == 0 {
						initZero = true
					}
				}
			}
			r.Check(initZero, "R4", "httpserver.makeHTTPServerWithHeaderLimit/starts-unset", acc.Pos(), "the merged header limit starts as 'unset' so that the first site that sets a limit is taken whatever its position in the group")
			var unsetTake, smallerTake, largerTake, zeroSkip bool
			for _, i := range ifs(fn) {
				x, kind, c, ok := intCmp(i.Cond)
				if ok && kind == "eq" && c == 0 {
					if x == ssa.Value(acc) || derivesPlain(x, acc) {
						unsetTake = true
					} else if readsField(x, "MaxRequestHeaderSize") {
						zeroSkip = true
					}
				}
				if b, ok := i.Cond.(*ssa.BinOp); ok && (b.Op == token.LSS || b.Op == token.GTR) {
					candLeft := readsField(b.X, "MaxRequestHeaderSize")
					candRight := readsField(b.Y, "MaxRequestHeaderSize")
					if b.Op == token.LSS && candLeft || b.Op == token.GTR && candRight {
						smallerTake = true
					}
					if b.Op == token.GTR && candLeft || b.Op == token.LSS && candRight {
						largerTake = true
					}
				}
			}
			r.Check(unsetTake && smallerTake && !largerTake && zeroSkip, "R4", "httpserver.makeHTTPServerWithHeaderLimit/min-merge", fn.Pos(),
				"a candidate replaces the accumulator when the accumulator is unset or the candidate is smaller; unset candidates are skipped", sprintf("take-when-unset:%v take-when-smaller:%v take-when-larger:%v skip-zero:%v", unsetTake, smallerTake, largerTake, zeroSkip))
		}
	}
	if fn := h.fn("R4", hs, "makeHTTPServerWithTimeouts"); fn != nil {
		for _, f := range []string{"ReadTimeout", "ReadHeaderTimeout", "WriteTimeout", "IdleTimeout"} {
			var takes, defaults []*ssa.Store
			allInstrs(fn, func(in ssa.Instruction) {
				st, ok := in.(*ssa.Store)
				if !ok {
					return
				}
				fa, ok := st.Addr.(*ssa.FieldAddr)
				if !ok || fieldName(fa.X.Type(), fa.Field) != f {
					return
				}
				if _, isAlloc := rootOf(fa).(*ssa.Alloc); !isAlloc {
					return
				}
				if strings.HasSuffix(strings.TrimPrefix(rootOf(fa).Type().String(), "*"), "net/http.Server") {
					return
				}
				p, root := fieldPath(st.Val)
				if g, isG := root.(*ssa.Global); isG && g.Name() == "defaultTimeouts" {
					defaults = append(defaults, st)
				} else if (strings.HasSuffix(p, "Timeouts."+f) || p == f) && root != rootOf(fa) {
					// a site's value (read from the site config or from a local copy of its Timeouts) stored into the accumulator
					takes = append(takes, st)
				}
			})
			if len(takes) == 0 {
				r.Unresolve("R4", "makeHTTPServerWithTimeouts: merge store for "+f+" not found")
				continue
			}
			for _, st := range takes {
				acc := rootOf(st.Addr)
				isAcc := func(root ssa.Value) bool { return root == acc }
				setEdges := guardEdges(fn, true, func(v ssa.Value) bool {
					p, root := fieldPath(v)
					return (strings.HasSuffix(p, "Timeouts."+f+"Set") || p == f+"Set") && !isAcc(root)
				})
				accUnset := guardEdges(fn, false, func(v ssa.Value) bool {
					p, root := fieldPath(v)
					return p == f+"Set" && isAcc(root)
				})
				smaller := map[edge]bool{}
				larger := false
				for _, i := range ifs(fn) {
					v, flip := stripNot(i.Cond)
					b, ok := v.(*ssa.BinOp)
					if !ok || (b.Op != token.LSS && b.Op != token.GTR && b.Op != token.LEQ && b.Op != token.GEQ) {
						continue
					}
					px, rx := fieldPath(b.X)
					py, ry := fieldPath(b.Y)
					xAcc, yAcc := isAcc(rx), isAcc(ry)
					if !(strings.HasSuffix(px, f) && strings.HasSuffix(py, f)) || xAcc == yAcc {
						continue
					}
					// the outcome on which the site's value is strictly smaller than the accumulator's
					switch {
					case b.Op == token.LSS && yAcc, b.Op == token.GTR && xAcc:
						smaller[condEdge{i, !flip}.edge()] = true
					case b.Op == token.GEQ && yAcc, b.Op == token.LEQ && xAcc:
						smaller[condEdge{i, flip}.edge()] = true
					default:
						larger = true
					}
				}
				ok := onlyVia(fn, st, setEdges) && onlyVia(fn, st, mergeEdges(accUnset, smaller)) && len(smaller) > 0 && !larger
				r.Check(ok, "R4", "httpserver.makeHTTPServerWithTimeouts/"+f+"-min-merge", st.Pos(), "the listener's "+f+" becomes a site's value only if that site set it and it is the first set value or smaller than the one kept so far")
			}
			for _, st := range defaults {
				unset := guardEdges(fn, false, func(v ssa.Value) bool {
					p, root := fieldPath(v)
					_, isAlloc := root.(*ssa.Alloc)
					return p == f+"Set" && isAlloc
				})
				r.Check(onlyVia(fn, st, unset), "R4", "httpserver.makeHTTPServerWithTimeouts/"+f+"-default-only-if-unset", st.Pos(), "the default "+f+" applies only when no site of the group set one")
			}
		}
	}
}

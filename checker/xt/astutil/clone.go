// Copyright 2023 The Go Authors. All rights reserved.
// Use of this source code is governed by a BSD-style
// license that can be found in the LICENSE file.

package astutil

import (
	"go/ast"
	"reflect"
)

// CloneNode returns a deep copy of a Node.
// It omits pointers to ast.{Scope,Object} variables.
func CloneNode[T ast.Node](n T) T {
	return cloneNode(n).(T)
}

func cloneNode(n ast.Node) ast.Node {
	var clone func(x reflect.Value) reflect.Value
	set := func(dst, src reflect.Value) {
		src = clone(src)
		if src.IsValid() {
			dst.Set(src)
		}
	}
	clone = func(x reflect.Value) reflect.Value {
		switch x.Kind() {
		case reflect.Ptr:
			if x.IsNil() {
				return x
			}
			// Skip fields of types potentially involved in cycles.
			switch x.Interface().(type) {
			case *ast.Object, *ast.Scope:
				return reflect.Zero(x.Type())
			}
			y := reflect.New(x.Type().Elem())
			set(y.Elem(), x.Elem())
			return y

		case reflect.Struct:
			y := reflect.New(x.Type()).Elem()
			for i := 0; i < x.Type().NumField(); i++ {
				set(y.Field(i), x.Field(i))
			}
			return y

		case reflect.Slice:
			if x.IsNil() {
				return x
			}
			y := reflect.MakeSlice(x.Type(), x.Len(), x.Cap())
			for i := 0; i < x.Len(); i++ {
				set(y.Index(i), x.Index(i))
			}
			return y

		case reflect.Interface:
			y := reflect.New(x.Type()).Elem()
			set(y, x.Elem())
			return y

		case reflect.Array, reflect.Chan, reflect.Func, reflect.Map, reflect.UnsafePointer:
			panic(x) // unreachable in AST

		default:
			return x // bool, string, number
		}
	}
	return clone(reflect.ValueOf(n)).Interface().(ast.Node)
}

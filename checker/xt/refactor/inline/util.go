// Copyright 2023 The Go Authors. All rights reserved.
// Use of this source code is governed by a BSD-style
// license that can be found in the LICENSE file.

package inline

// This file defines various common helpers.

import (
	"go/ast"
	"go/constant"
	"go/token"
	"go/types"
	"reflect"
	"strings"

	"verif/checker/xt/typeparams"
)

func is[T any](x any) bool {
	_, ok := x.(T)
	return ok
}

// TODO(adonovan): use go1.21's slices.Index.
func index[T comparable](slice []T, x T) int {
	for i, elem := range slice {
		if elem == x {
			return i
		}
	}
	return -1
}

func btoi(b bool) int {
	if b {
		return 1
	} else {
		return 0
	}
}

func offsetOf(fset *token.FileSet, pos token.Pos) int {
	return fset.PositionFor(pos, false).Offset
}

// objectKind returns an object's kind (e.g. var, func, const, typename).
func objectKind(obj types.Object) string {
	return strings.TrimPrefix(strings.ToLower(reflect.TypeOf(obj).String()), "*types.")
}

// within reports whether pos is within the half-open interval [n.Pos, n.End).
func within(pos token.Pos, n ast.Node) bool {
	return n.Pos() <= pos && pos < n.End()
}

// trivialConversion reports whether it is safe to omit the implicit
// value-to-variable conversion that occurs in argument passing or
// result return. The only case currently allowed is converting from
// untyped constant to its default type (e.g. 0 to int).
//
// The reason for this check is that converting from A to B to C may
// yield a different result than converting A directly to C: consider
// 0 to int32 to any.
//
// trivialConversion under-approximates trivial conversions, as unfortunately
// go/types does not record the type of an expression *before* it is implicitly
// converted, and therefore it cannot distinguish typed constant
// expressions from untyped constant expressions. For example, in the
// expression `c + 2`, where c is a uint32 constant, trivialConversion does not
// detect that the default type of this expression is actually uint32, not untyped
// int.
//
// We could, of course, do better here by reverse engineering some of go/types'
// constant handling. That may or may not be worthwhile.
//
// Example: in func f() int32 { return 0 },
// the type recorded for 0 is int32, not untyped int;
// although it is Identical to the result var,
// the conversion is non-trivial.
func trivialConversion(fromValue constant.Value, from, to types.Type) bool {
	if fromValue != nil {
		var defaultType types.Type
		switch fromValue.Kind() {
		case constant.Bool:
			defaultType = types.Typ[types.Bool]
		case constant.String:
			defaultType = types.Typ[types.String]
		case constant.Int:
			defaultType = types.Typ[types.Int]
		case constant.Float:
			defaultType = types.Typ[types.Float64]
		case constant.Complex:
			defaultType = types.Typ[types.Complex128]
		default:
			return false
		}
		return types.Identical(defaultType, to)
	}
	return types.Identical(from, to)
}

func checkInfoFields(info *types.Info) {
	assert(info.Defs != nil, "types.Info.Defs is nil")
	assert(info.Implicits != nil, "types.Info.Implicits is nil")
	assert(info.Scopes != nil, "types.Info.Scopes is nil")
	assert(info.Selections != nil, "types.Info.Selections is nil")
	assert(info.Types != nil, "types.Info.Types is nil")
	assert(info.Uses != nil, "types.Info.Uses is nil")
}

func funcHasTypeParams(decl *ast.FuncDecl) bool {
	// generic function?
	if decl.Type.TypeParams != nil {
		return true
	}
	// method on generic type?
	if decl.Recv != nil {
		t := decl.Recv.List[0].Type
		if u, ok := t.(*ast.StarExpr); ok {
			t = u.X
		}
		return is[*ast.IndexExpr](t) || is[*ast.IndexListExpr](t)
	}
	return false
}

// intersects reports whether the maps' key sets intersect.
func intersects[K comparable, T1, T2 any](x map[K]T1, y map[K]T2) bool {
	if len(x) > len(y) {
		return intersects(y, x)
	}
	for k := range x {
		if _, ok := y[k]; ok {
			return true
		}
	}
	return false
}

// convert returns syntax for the conversion T(x).
func convert(T, x ast.Expr) *ast.CallExpr {
	// The formatter generally adds parens as needed,
	// but before go1.22 it had a bug (#63362) for
	// channel types that requires this workaround.
	if ch, ok := T.(*ast.ChanType); ok && ch.Dir == ast.RECV {
		T = &ast.ParenExpr{X: T}
	}
	return &ast.CallExpr{
		Fun:  T,
		Args: []ast.Expr{x},
	}
}

// isPointer reports whether t's core type is a pointer.
func isPointer(t types.Type) bool {
	return is[*types.Pointer](typeparams.CoreType(t))
}

// indirectSelection is like seln.Indirect() without bug #8353.
func indirectSelection(seln *types.Selection) bool {
	// Work around bug #8353 in Selection.Indirect when Kind=MethodVal.
	if seln.Kind() == types.MethodVal {
		tArg, indirect := effectiveReceiver(seln)
		if indirect {
			return true
		}

		tParam := seln.Obj().Type().Underlying().(*types.Signature).Recv().Type()
		return isPointer(tArg) && !isPointer(tParam) // implicit *
	}

	return seln.Indirect()
}

// effectiveReceiver returns the effective type of the method
// receiver after all implicit field selections (but not implicit * or
// & operations) have been applied.
//
// The boolean indicates whether any implicit field selection was indirect.
func effectiveReceiver(seln *types.Selection) (types.Type, bool) {
	assert(seln.Kind() == types.MethodVal, "not MethodVal")
	t := seln.Recv()
	indices := seln.Index()
	indirect := false
	for _, index := range indices[:len(indices)-1] {
		if isPointer(t) {
			indirect = true
			t = typeparams.MustDeref(t)
		}
		t = typeparams.CoreType(t).(*types.Struct).Field(index).Type()
	}
	return t, indirect
}

// Copyright 2023 The Go Authors. All rights reserved.
// Use of this source code is governed by a BSD-style
// license that can be found in the LICENSE file.

/*
Package inline implements inlining of Go function calls.

The client provides information about the caller and callee,
including the source text, syntax tree, and type information, and
the inliner returns the modified source file for the caller, or an
error if the inlining operation is invalid (for example because the
function body refers to names that are inaccessible to the caller).

Although this interface demands more information from the client
than might seem necessary, it enables smoother integration with
existing batch and interactive tools that have their own ways of
managing the processes of reading, parsing, and type-checking
packages. In particular, this package does not assume that the
caller and callee belong to the same token.FileSet or
types.Importer realms.

There are many aspects to a function call. It is the only construct
that can simultaneously bind multiple variables of different
explicit types, with implicit assignment conversions. (Neither var
nor := declarations can do that.) It defines the scope of control
labels, of return statements, and of defer statements. Arguments
and results of function calls may be tuples even though tuples are
not first-class values in Go, and a tuple-valued call expression
may be "spread" across the argument list of a call or the operands
of a return statement. All these unique features mean that in the
general case, not everything that can be expressed by a function
call can be expressed without one.

So, in general, inlining consists of modifying a function or method
call expression f(a1, ..., an) so that the name of the function f
is replaced ("literalized") by a literal copy of the function
declaration, with free identifiers suitably modified to use the
locally appropriate identifiers or perhaps constant argument
values.

Inlining must not change the semantics of the call. Semantics
preservation is crucial for clients such as codebase maintenance
tools that automatically inline all calls to designated functions
on a large scale. Such tools must not introduce subtle behavior
changes. (Fully inlining a call is dynamically observable using
reflection over the call stack, but this exception to the rule is
explicitly allowed.)

In many cases it is possible to entirely replace ("reduce") the
call by a copy of the function's body in which parameters have been
replaced by arguments. The inliner supports a number of reduction
strategies, and we expect this set to grow. Nonetheless, sound
reduction is surprisingly tricky.

The inliner is in some ways like an optimizing compiler. A compiler
is considered correct if it doesn't change the meaning of the
program in translation from source language to target language. An
optimizing compiler exploits the particulars of the input to
generate better code, where "better" usually means more efficient.
When a case is found in which it emits suboptimal code, the
compiler is improved to recognize more cases, or more rules, and
more exceptions to rules; this process has no end. Inlining is
similar except that "better" code means tidier code. The baseline
translation (literalization) is correct, but there are endless
rules--and exceptions to rules--by which the output can be
improved.

The following section lists some of the challenges, and ways in
which they can be addressed.

  - All effects of the call argument expressions must be preserved,
    both in their number (they must not be eliminated or repeated),
    and in their order (both with respect to other arguments, and any
    effects in the callee function).

    This must be the case even if the corresponding parameters are
    never referenced, are referenced multiple times, referenced in
    a different order from the arguments, or referenced within a
    nested function that may be executed an arbitrary number of
    times.

    Currently, parameter replacement is not applied to arguments
    with effects, but with further analysis of the sequence of
    strict effects within the callee we could relax this constraint.

  - When not all parameters can be substituted by their arguments
    (e.g. due to possible effects), if the call appears in a
    statement context, the inliner may introduce a var declaration
    that declares the parameter variables (with the correct types)
    and assigns them to their corresponding argument values.
    The rest of the function body may then follow.
    For example, the call

    f(1, 2)

    to the function

    func f(x, y int32) { stmts }

    may be reduced to

    { var x, y int32 = 1, 2; stmts }.

    There are many reasons why this is not always possible. For
    example, true parameters are statically resolved in the same
    scope, and are dynamically assigned their arguments in
    parallel; but each spec in a var declaration is statically
    resolved in sequence and dynamically executed in sequence, so
    earlier parameters may shadow references in later ones.

  - Even an argument expression as simple as ptr.x may not be
    referentially transparent, because another argument may have the
    effect of changing the value of ptr.

    This constraint could be relaxed by some kind of alias or
    escape analysis that proves that ptr cannot be mutated during
    the call.

  - Although constants are referentially transparent, as a matter of
    style we do not wish to duplicate literals that are referenced
    multiple times in the body because this undoes proper factoring.
    Also, string literals may be arbitrarily large.

  - If the function body consists of statements other than just
    "return expr", in some contexts it may be syntactically
    impossible to reduce the call. Consider:

    if x := f(); cond { ... }

    Go has no equivalent to Lisp's progn or Rust's blocks,
    nor ML's let expressions (let param = arg in body);
    its closest equivalent is func(param){body}(arg).
    Reduction strategies must therefore consider the syntactic
    context of the call.

    In such situations we could work harder to extract a statement
    context for the call, by transforming it to:

    { x := f(); if cond { ... } }

  - Similarly, without the equivalent of Rust-style blocks and
    first-class tuples, there is no general way to reduce a call
    to a function such as

    func(params)(args)(results) { stmts; return expr }

    to an expression such as

    { var params = args; stmts; expr }

    or even a statement such as

    results = { var params = args; stmts; expr }

    Consequently the declaration and scope of the result variables,
    and the assignment and control-flow implications of the return
    statement, must be dealt with by cases.

  - A standalone call statement that calls a function whose body is
    "return expr" cannot be simply replaced by the body expression
    if it is not itself a call or channel receive expression; it is
    necessary to explicitly discard the result using "_ = expr".

    Similarly, if the body is a call expression, only calls to some
    built-in functions with no result (such as copy or panic) are
    permitted as statements, whereas others (such as append) return
    a result that must be used, even if just by discarding.

  - If a parameter or result variable is updated by an assignment
    within the function body, it cannot always be safely replaced
    by a variable in the caller. For example, given

    func f(a int) int { a++; return a }

    The call y = f(x) cannot be replaced by { x++; y = x } because
    this would change the value of the caller's variable x.
    Only if the caller is finished with x is this safe.

    A similar argument applies to parameter or result variables
    that escape: by eliminating a variable, inlining would change
    the identity of the variable that escapes.

  - If the function body uses 'defer' and the inlined call is not a
    tail-call, inlining may delay the deferred effects.

  - Because the scope of a control label is the entire function, a
    call cannot be reduced if the caller and callee have intersecting
    sets of control labels. (It is possible to α-rename any
    conflicting ones, but our colleagues building C++ refactoring
    tools report that, when tools must choose new identifiers, they
    generally do a poor job.)

  - Given

    func f() uint8 { return 0 }

    var x any = f()

    reducing the call to var x any = 0 is unsound because it
    discards the implicit conversion to uint8. We may need to make
    each argument-to-parameter conversion explicit if the types
    differ. Assignments to variadic parameters may need to
    explicitly construct a slice.

    An analogous problem applies to the implicit assignments in
    return statements:

    func g() any { return f() }

    Replacing the call f() with 0 would silently lose a
    conversion to uint8 and change the behavior of the program.

  - When inlining a call f(1, x, g()) where those parameters are
    unreferenced, we should be able to avoid evaluating 1 and x
    since they are pure and thus have no effect. But x may be the
    last reference to a local variable in the caller, so removing
    it would cause a compilation error. Parameter substitution must
    avoid making the caller's local variables unreferenced (or must
    be prepared to eliminate the declaration too---this is where an
    iterative framework for simplification would really help).

  - An expression such as s[i] may be valid if s and i are
    variables but invalid if either or both of them are constants.
    For example, a negative constant index s[-1] is always out of
    bounds, and even a non-negative constant index may be out of
    bounds depending on the particular string constant (e.g.
    "abc"[4]).

    So, if a parameter participates in any expression that is
    subject to additional compile-time checks when its operands are
    constant, it may be unsafe to substitute that parameter by a
    constant argument value (#62664).

More complex callee functions are inlinable with more elaborate and
invasive changes to the statements surrounding the call expression.

TODO(adonovan): future work:

  - Handle more of the above special cases by careful analysis,
    thoughtful factoring of the large design space, and thorough
    test coverage.

  - Compute precisely (not conservatively) when parameter
    substitution would remove the last reference to a caller local
    variable, and blank out the local instead of retreating from
    the substitution.

  - Afford the client more control such as a limit on the total
    increase in line count, or a refusal to inline using the
    general approach (replacing name by function literal). This
    could be achieved by returning metadata alongside the result
    and having the client conditionally discard the change.

  - Support inlining of generic functions, replacing type parameters
    by their instantiations.

  - Support inlining of calls to function literals ("closures").
    But note that the existing algorithm makes widespread assumptions
    that the callee is a package-level function or method.

  - Eliminate explicit conversions of "untyped" literals inserted
    conservatively when they are redundant. For example, the
    conversion int32(1) is redundant when this value is used only as a
    slice index; but it may be crucial if it is used in x := int32(1)
    as it changes the type of x, which may have further implications.
    The conversions may also be important to the falcon analysis.

  - Allow non-'go' build systems such as Bazel/Blaze a chance to
    decide whether an import is accessible using logic other than
    "/internal/" path segments. This could be achieved by returning
    the list of added import paths instead of a text diff.

  - Inlining a function from another module may change the
    effective version of the Go language spec that governs it. We
    should probably make the client responsible for rejecting
    attempts to inline from newer callees to older callers, since
    there's no way for this package to access module versions.

  - Use an alternative implementation of the import-organizing
    operation that doesn't require operating on a complete file
    (and reformatting). Then return the results in a higher-level
    form as a set of import additions and deletions plus a single
    diff that encloses the call expression. This interface could
    perhaps be implemented atop imports.Process by post-processing
    its result to obtain the abstract import changes and discarding
    its formatted output.
*/
package inline

// Copyright 2023 The Go Authors. All rights reserved.
// Use of this source code is governed by a BSD-style
// license that can be found in the LICENSE file.

package inline

import (
	"fmt"
	"go/ast"
	"go/token"
	"go/types"
)

// escape implements a simple "address-taken" escape analysis. It
// calls f for each local variable that appears on the left side of an
// assignment (escapes=false) or has its address taken (escapes=true).
// The initialization of a variable by its declaration does not count
// as an assignment.
func escape(info *types.Info, root ast.Node, f func(v *types.Var, escapes bool)) {

	// lvalue is called for each address-taken expression or LHS of assignment.
	// Supported forms are: x, (x), x[i], x.f, *x, T{}.
	var lvalue func(e ast.Expr, escapes bool)
	lvalue = func(e ast.Expr, escapes bool) {
		switch e := e.(type) {
		case *ast.Ident:
			if v, ok := info.Uses[e].(*types.Var); ok {
				if !isPkgLevel(v) {
					f(v, escapes)
				}
			}
		case *ast.ParenExpr:
			lvalue(e.X, escapes)
		case *ast.IndexExpr:
			// TODO(adonovan): support generics without assuming e.X has a core type.
			// Consider:
			//
			// func Index[T interface{ [3]int | []int }](t T, i int) *int {
			//     return &t[i]
			// }
			//
			// We must traverse the normal terms and check
			// whether any of them is an array.
			//
			// We assume TypeOf returns non-nil.
			if _, ok := info.TypeOf(e.X).Underlying().(*types.Array); ok {
				lvalue(e.X, escapes) // &a[i] on array
			}
		case *ast.SelectorExpr:
			// We assume TypeOf returns non-nil.
			if _, ok := info.TypeOf(e.X).Underlying().(*types.Struct); ok {
				lvalue(e.X, escapes) // &s.f on struct
			}
		case *ast.StarExpr:
			// *ptr indirects an existing pointer
		case *ast.CompositeLit:
			// &T{...} creates a new variable
		default:
			panic(fmt.Sprintf("&x on %T", e)) // unreachable in well-typed code
		}
	}

	// Search function body for operations &x, x.f(), x++, and x = y
	// where x is a parameter. Each of these treats x as an address.
	ast.Inspect(root, func(n ast.Node) bool {
		switch n := n.(type) {
		case *ast.UnaryExpr:
			if n.Op == token.AND {
				lvalue(n.X, true) // &x
			}

		case *ast.CallExpr:
			// implicit &x in method call x.f(),
			// where x has type T and method is (*T).f
			if sel, ok := n.Fun.(*ast.SelectorExpr); ok {
				if seln, ok := info.Selections[sel]; ok &&
					seln.Kind() == types.MethodVal &&
					isPointer(seln.Obj().Type().Underlying().(*types.Signature).Recv().Type()) {
					tArg, indirect := effectiveReceiver(seln)
					if !indirect && !isPointer(tArg) {
						lvalue(sel.X, true) // &x.f
					}
				}
			}

		case *ast.AssignStmt:
			for _, lhs := range n.Lhs {
				if id, ok := lhs.(*ast.Ident); ok &&
					info.Defs[id] != nil &&
					n.Tok == token.DEFINE {
					// declaration: doesn't count
				} else {
					lvalue(lhs, false)
				}
			}

		case *ast.IncDecStmt:
			lvalue(n.X, false)
		}
		return true
	})
}

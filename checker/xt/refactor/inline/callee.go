// Copyright 2023 The Go Authors. All rights reserved.
// Use of this source code is governed by a BSD-style
// license that can be found in the LICENSE file.

package inline

// This file defines the analysis of the callee function.

import (
	"bytes"
	"encoding/gob"
	"fmt"
	"go/ast"
	"go/parser"
	"go/token"
	"go/types"
	"strings"

	"golang.org/x/tools/go/types/typeutil"
	"verif/checker/xt/typeparams"
	"verif/checker/xt/typesinternal"
)

// A Callee holds information about an inlinable function. Gob-serializable.
type Callee struct {
	impl gobCallee
}

func (callee *Callee) String() string { return callee.impl.Name }

type gobCallee struct {
	Content []byte // file content, compacted to a single func decl

	// results of type analysis (does not reach go/types data structures)
	PkgPath          string                 // package path of declaring package
	Name             string                 // user-friendly name for error messages
	Unexported       []string               // names of free objects that are unexported
	FreeRefs         []freeRef              // locations of references to free objects
	FreeObjs         []object               // descriptions of free objects
	ValidForCallStmt bool                   // function body is "return expr" where expr is f() or <-ch
	NumResults       int                    // number of results (according to type, not ast.FieldList)
	Params           []*paramInfo           // information about parameters (incl. receiver)
	Results          []*paramInfo           // information about result variables
	Effects          []int                  // order in which parameters are evaluated (see calleefx)
	HasDefer         bool                   // uses defer
	HasBareReturn    bool                   // uses bare return in non-void function
	Returns          [][]returnOperandFlags // metadata about result expressions for each return
	Labels           []string               // names of all control labels
	Falcon           falconResult           // falcon constraint system
}

// returnOperandFlags records metadata about a single result expression in a return
// statement.
type returnOperandFlags int

const (
	nonTrivialResult returnOperandFlags = 1 << iota // return operand has non-trivial conversion to result type
	untypedNilResult                                // return operand is nil literal
)

// A freeRef records a reference to a free object. Gob-serializable.
// (This means free relative to the FuncDecl as a whole, i.e. excluding parameters.)
type freeRef struct {
	Offset int // byte offset of the reference relative to the FuncDecl
	Object int // index into Callee.freeObjs
}

// An object abstracts a free types.Object referenced by the callee. Gob-serializable.
type object struct {
	Name    string // Object.Name()
	Kind    string // one of {var,func,const,type,pkgname,nil,builtin}
	PkgPath string // path of object's package (or imported package if kind="pkgname")
	PkgName string // name of object's package (or imported package if kind="pkgname")
	// TODO(rfindley): should we also track LocalPkgName here? Do we want to
	// preserve the local package name?
	ValidPos bool      // Object.Pos().IsValid()
	Shadow   shadowMap // shadowing info for the object's refs
}

// AnalyzeCallee analyzes a function that is a candidate for inlining
// and returns a Callee that describes it. The Callee object, which is
// serializable, can be passed to one or more subsequent calls to
// Inline, each with a different Caller.
//
// This design allows separate analysis of callers and callees in the
// golang.org/x/tools/go/analysis framework: the inlining information
// about a callee can be recorded as a "fact".
//
// The content should be the actual input to the compiler, not the
// apparent source file according to any //line directives that
// may be present within it.
func AnalyzeCallee(logf func(string, ...any), fset *token.FileSet, pkg *types.Package, info *types.Info, decl *ast.FuncDecl, content []byte) (*Callee, error) {
	checkInfoFields(info)

	// The client is expected to have determined that the callee
	// is a function with a declaration (not a built-in or var).
	fn := info.Defs[decl.Name].(*types.Func)
	sig := fn.Type().(*types.Signature)

	logf("analyzeCallee %v @ %v", fn, fset.PositionFor(decl.Pos(), false))

	// Create user-friendly name ("pkg.Func" or "(pkg.T).Method")
	var name string
	if sig.Recv() == nil {
		name = fmt.Sprintf("%s.%s", fn.Pkg().Name(), fn.Name())
	} else {
		name = fmt.Sprintf("(%s).%s", types.TypeString(sig.Recv().Type(), (*types.Package).Name), fn.Name())
	}

	if decl.Body == nil {
		return nil, fmt.Errorf("cannot inline function %s as it has no body", name)
	}

	// TODO(adonovan): support inlining of instantiated generic
	// functions by replacing each occurrence of a type parameter
	// T by its instantiating type argument (e.g. int). We'll need
	// to wrap the instantiating type in parens when it's not an
	// ident or qualified ident to prevent "if x == struct{}"
	// parsing ambiguity, or "T(x)" where T = "*int" or "func()"
	// from misparsing.
	if funcHasTypeParams(decl) {
		return nil, fmt.Errorf("cannot inline generic function %s: type parameters are not yet supported", name)
	}

	// Record the location of all free references in the FuncDecl.
	// (Parameters are not free by this definition.)
	var (
		fieldObjs    = fieldObjs(sig)
		freeObjIndex = make(map[types.Object]int)
		freeObjs     []object
		freeRefs     []freeRef // free refs that may need renaming
		unexported   []string  // free refs to unexported objects, for later error checks
	)
	var f func(n ast.Node) bool
	visit := func(n ast.Node) { ast.Inspect(n, f) }
	var stack []ast.Node
	stack = append(stack, decl.Type) // for scope of function itself
	f = func(n ast.Node) bool {
		if n != nil {
			stack = append(stack, n) // push
		} else {
			stack = stack[:len(stack)-1] // pop
		}
		switch n := n.(type) {
		case *ast.SelectorExpr:
			// Check selections of free fields/methods.
			if sel, ok := info.Selections[n]; ok &&
				!within(sel.Obj().Pos(), decl) &&
				!n.Sel.IsExported() {
				sym := fmt.Sprintf("(%s).%s", info.TypeOf(n.X), n.Sel.Name)
				unexported = append(unexported, sym)
			}

			// Don't recur into SelectorExpr.Sel.
			visit(n.X)
			return false

		case *ast.CompositeLit:
			// Check for struct literals that refer to unexported fields,
			// whether keyed or unkeyed. (Logic assumes well-typedness.)
			litType := typeparams.Deref(info.TypeOf(n))
			if s, ok := typeparams.CoreType(litType).(*types.Struct); ok {
				if n.Type != nil {
					visit(n.Type)
				}
				for i, elt := range n.Elts {
					var field *types.Var
					var value ast.Expr
					if kv, ok := elt.(*ast.KeyValueExpr); ok {
						field = info.Uses[kv.Key.(*ast.Ident)].(*types.Var)
						value = kv.Value
					} else {
						field = s.Field(i)
						value = elt
					}
					if !within(field.Pos(), decl) && !field.Exported() {
						sym := fmt.Sprintf("(%s).%s", litType, field.Name())
						unexported = append(unexported, sym)
					}

					// Don't recur into KeyValueExpr.Key.
					visit(value)
				}
				return false
			}

		case *ast.Ident:
			if obj, ok := info.Uses[n]; ok {
				// Methods and fields are handled by SelectorExpr and CompositeLit.
				if isField(obj) || isMethod(obj) {
					panic(obj)
				}
				// Inv: id is a lexical reference.

				// A reference to an unexported package-level declaration
				// cannot be inlined into another package.
				if !n.IsExported() &&
					obj.Pkg() != nil && obj.Parent() == obj.Pkg().Scope() {
					unexported = append(unexported, n.Name)
				}

				// Record free reference (incl. self-reference).
				if obj == fn || !within(obj.Pos(), decl) {
					objidx, ok := freeObjIndex[obj]
					if !ok {
						objidx = len(freeObjIndex)
						var pkgPath, pkgName string
						if pn, ok := obj.(*types.PkgName); ok {
							pkgPath = pn.Imported().Path()
							pkgName = pn.Imported().Name()
						} else if obj.Pkg() != nil {
							pkgPath = obj.Pkg().Path()
							pkgName = obj.Pkg().Name()
						}
						freeObjs = append(freeObjs, object{
							Name:     obj.Name(),
							Kind:     objectKind(obj),
							PkgName:  pkgName,
							PkgPath:  pkgPath,
							ValidPos: obj.Pos().IsValid(),
						})
						freeObjIndex[obj] = objidx
					}

					freeObjs[objidx].Shadow = freeObjs[objidx].Shadow.add(info, fieldObjs, obj.Name(), stack)

					freeRefs = append(freeRefs, freeRef{
						Offset: int(n.Pos() - decl.Pos()),
						Object: objidx,
					})
				}
			}
		}
		return true
	}
	visit(decl)

	// Analyze callee body for "return expr" form,
	// where expr is f() or <-ch. These forms are
	// safe to inline as a standalone statement.
	validForCallStmt := false
	if len(decl.Body.List) != 1 {
		// not just a return statement
	} else if ret, ok := decl.Body.List[0].(*ast.ReturnStmt); ok && len(ret.Results) == 1 {
		validForCallStmt = func() bool {
			switch expr := ast.Unparen(ret.Results[0]).(type) {
			case *ast.CallExpr: // f(x)
				callee := typeutil.Callee(info, expr)
				if callee == nil {
					return false // conversion T(x)
				}

				// The only non-void built-in functions that may be
				// called as a statement are copy and recover
				// (though arguably a call to recover should never
				// be inlined as that changes its behavior).
				if builtin, ok := callee.(*types.Builtin); ok {
					return builtin.Name() == "copy" ||
						builtin.Name() == "recover"
				}

				return true // ordinary call f()

			case *ast.UnaryExpr: // <-x
				return expr.Op == token.ARROW // channel receive <-ch
			}

			// No other expressions are valid statements.
			return false
		}()
	}

	// Record information about control flow in the callee
	// (but not any nested functions).
	var (
		hasDefer      = false
		hasBareReturn = false
		returnInfo    [][]returnOperandFlags
		labels        []string
	)
	ast.Inspect(decl.Body, func(n ast.Node) bool {
		switch n := n.(type) {
		case *ast.FuncLit:
			return false // prune traversal
		case *ast.DeferStmt:
			hasDefer = true
		case *ast.LabeledStmt:
			labels = append(labels, n.Label.Name)
		case *ast.ReturnStmt:

			// Are implicit assignment conversions
			// to result variables all trivial?
			var resultInfo []returnOperandFlags
			if len(n.Results) > 0 {
				argInfo := func(i int) (ast.Expr, types.Type) {
					expr := n.Results[i]
					return expr, info.TypeOf(expr)
				}
				if len(n.Results) == 1 && sig.Results().Len() > 1 {
					// Spread return: return f() where f.Results > 1.
					tuple := info.TypeOf(n.Results[0]).(*types.Tuple)
					argInfo = func(i int) (ast.Expr, types.Type) {
						return nil, tuple.At(i).Type()
					}
				}
				for i := 0; i < sig.Results().Len(); i++ {
					expr, typ := argInfo(i)
					var flags returnOperandFlags
					if typ == types.Typ[types.UntypedNil] { // untyped nil is preserved by go/types
						flags |= untypedNilResult
					}
					if !trivialConversion(info.Types[expr].Value, typ, sig.Results().At(i).Type()) {
						flags |= nonTrivialResult
					}
					resultInfo = append(resultInfo, flags)
				}
			} else if sig.Results().Len() > 0 {
				hasBareReturn = true
			}
			returnInfo = append(returnInfo, resultInfo)
		}
		return true
	})

	// Reject attempts to inline cgo-generated functions.
	for _, obj := range freeObjs {
		// There are others (iconst fconst sconst fpvar macro)
		// but this is probably sufficient.
		if strings.HasPrefix(obj.Name, "_Cfunc_") ||
			strings.HasPrefix(obj.Name, "_Ctype_") ||
			strings.HasPrefix(obj.Name, "_Cvar_") {
			return nil, fmt.Errorf("cannot inline cgo-generated functions")
		}
	}

	// Compact content to just the FuncDecl.
	//
	// As a space optimization, we don't retain the complete
	// callee file content; all we need is "package _; func f() { ... }".
	// This reduces the size of analysis facts.
	//
	// Offsets in the callee information are "relocatable"
	// since they are all relative to the FuncDecl.

	content = append([]byte("package _\n"),
		content[offsetOf(fset, decl.Pos()):offsetOf(fset, decl.End())]...)
	// Sanity check: re-parse the compacted content.
	if _, _, err := parseCompact(content); err != nil {
		return nil, err
	}

	params, results, effects, falcon := analyzeParams(logf, fset, info, decl)
	return &Callee{gobCallee{
		Content:          content,
		PkgPath:          pkg.Path(),
		Name:             name,
		Unexported:       unexported,
		FreeObjs:         freeObjs,
		FreeRefs:         freeRefs,
		ValidForCallStmt: validForCallStmt,
		NumResults:       sig.Results().Len(),
		Params:           params,
		Results:          results,
		Effects:          effects,
		HasDefer:         hasDefer,
		HasBareReturn:    hasBareReturn,
		Returns:          returnInfo,
		Labels:           labels,
		Falcon:           falcon,
	}}, nil
}

// parseCompact parses a Go source file of the form "package _\n func f() { ... }"
// and returns the sole function declaration.
func parseCompact(content []byte) (*token.FileSet, *ast.FuncDecl, error) {
	fset := token.NewFileSet()
	const mode = parser.ParseComments | parser.SkipObjectResolution | parser.AllErrors
	f, err := parser.ParseFile(fset, "callee.go", content, mode)
	if err != nil {
		return nil, nil, fmt.Errorf("internal error: cannot compact file: %v", err)
	}
	return fset, f.Decls[0].(*ast.FuncDecl), nil
}

// A paramInfo records information about a callee receiver, parameter, or result variable.
type paramInfo struct {
	Name        string    // parameter name (may be blank, or even "")
	Index       int       // index within signature
	IsResult    bool      // false for receiver or parameter, true for result variable
	IsInterface bool      // parameter has a (non-type parameter) interface type
	Assigned    bool      // parameter appears on left side of an assignment statement
	Escapes     bool      // parameter has its address taken
	Refs        []refInfo // information about references to parameter within body
	Shadow      shadowMap // shadowing info for the above refs; see [shadowMap]
	FalconType  string    // name of this parameter's type (if basic) in the falcon system
}

type refInfo struct {
	Offset           int  // FuncDecl-relative byte offset of parameter ref within body
	Assignable       bool // ref appears in context of assignment to known type
	IfaceAssignment  bool // ref is being assigned to an interface
	AffectsInference bool // ref type may affect type inference
	// IsSelectionOperand indicates whether the parameter reference is the
	// operand of a selection (param.f). If so, and param's argument is itself
	// a receiver parameter (a common case), we don't need to desugar (&v or *ptr)
	// the selection: if param.Method is a valid selection, then so is param.fieldOrMethod.
	IsSelectionOperand bool
}

// analyzeParams computes information about parameters of function fn,
// including a simple "address taken" escape analysis.
//
// It returns two new arrays, one of the receiver and parameters, and
// the other of the result variables of function fn.
//
// The input must be well-typed.
func analyzeParams(logf func(string, ...any), fset *token.FileSet, info *types.Info, decl *ast.FuncDecl) (params, results []*paramInfo, effects []int, _ falconResult) {
	fnobj, ok := info.Defs[decl.Name]
	if !ok {
		panic(fmt.Sprintf("%s: no func object for %q",
			fset.PositionFor(decl.Name.Pos(), false), decl.Name)) // ill-typed?
	}
	sig := fnobj.Type().(*types.Signature)

	paramInfos := make(map[*types.Var]*paramInfo)
	{
		newParamInfo := func(param *types.Var, isResult bool) *paramInfo {
			info := &paramInfo{
				Name:        param.Name(),
				IsResult:    isResult,
				Index:       len(paramInfos),
				IsInterface: isNonTypeParamInterface(param.Type()),
			}
			paramInfos[param] = info
			return info
		}
		if sig.Recv() != nil {
			params = append(params, newParamInfo(sig.Recv(), false))
		}
		for i := 0; i < sig.Params().Len(); i++ {
			params = append(params, newParamInfo(sig.Params().At(i), false))
		}
		for i := 0; i < sig.Results().Len(); i++ {
			results = append(results, newParamInfo(sig.Results().At(i), true))
		}
	}

	// Search function body for operations &x, x.f(), and x = y
	// where x is a parameter, and record it.
	escape(info, decl, func(v *types.Var, escapes bool) {
		if info := paramInfos[v]; info != nil {
			if escapes {
				info.Escapes = true
			} else {
				info.Assigned = true
			}
		}
	})

	// Record locations of all references to parameters.
	// And record the set of intervening definitions for each parameter.
	//
	// TODO(adonovan): combine this traversal with the one that computes
	// FreeRefs. The tricky part is that calleefx needs this one first.
	fieldObjs := fieldObjs(sig)
	var stack []ast.Node
	stack = append(stack, decl.Type) // for scope of function itself
	ast.Inspect(decl.Body, func(n ast.Node) bool {
		if n != nil {
			stack = append(stack, n) // push
		} else {
			stack = stack[:len(stack)-1] // pop
		}

		if id, ok := n.(*ast.Ident); ok {
			if v, ok := info.Uses[id].(*types.Var); ok {
				if pinfo, ok := paramInfos[v]; ok {
					// Record ref information, and any intervening (shadowing) names.
					//
					// If the parameter v has an interface type, and the reference id
					// appears in a context where assignability rules apply, there may be
					// an implicit interface-to-interface widening. In that case it is
					// not necessary to insert an explicit conversion from the argument
					// to the parameter's type.
					//
					// Contrapositively, if param is not an interface type, then the
					// assignment may lose type information, for example in the case that
					// the substituted expression is an untyped constant or unnamed type.
					assignable, ifaceAssign, affectsInference := analyzeAssignment(info, stack)
					ref := refInfo{
						Offset:             int(n.Pos() - decl.Pos()),
						Assignable:         assignable,
						IfaceAssignment:    ifaceAssign,
						AffectsInference:   affectsInference,
						IsSelectionOperand: isSelectionOperand(stack),
					}
					pinfo.Refs = append(pinfo.Refs, ref)
					pinfo.Shadow = pinfo.Shadow.add(info, fieldObjs, pinfo.Name, stack)
				}
			}
		}
		return true
	})

	// Compute subset and order of parameters that are strictly evaluated.
	// (Depends on Refs computed above.)
	effects = calleefx(info, decl.Body, paramInfos)
	logf("effects list = %v", effects)

	falcon := falcon(logf, fset, paramInfos, info, decl)

	return params, results, effects, falcon
}

// -- callee helpers --

// analyzeAssignment looks at the the given stack, and analyzes certain
// attributes of the innermost expression.
//
// In all cases we 'fail closed' when we cannot detect (or for simplicity
// choose not to detect) the condition in question, meaning we err on the side
// of the more restrictive rule. This is noted for each result below.
//
//   - assignable reports whether the expression is used in a position where
//     assignability rules apply, such as in an actual assignment, as call
//     argument, or in a send to a channel. Defaults to 'false'. If assignable
//     is false, the other two results are irrelevant.
//   - ifaceAssign reports whether that assignment is to an interface type.
//     This is important as we want to preserve the concrete type in that
//     assignment. Defaults to 'true'. Notably, if the assigned type is a type
//     parameter, we assume that it could have interface type.
//   - affectsInference is (somewhat vaguely) defined as whether or not the
//     type of the operand may affect the type of the surrounding syntax,
//     through type inference. It is infeasible to completely reverse engineer
//     type inference, so we over approximate: if the expression is an argument
//     to a call to a generic function (but not method!) that uses type
//     parameters, assume that unification of that argument may affect the
//     inferred types.
func analyzeAssignment(info *types.Info, stack []ast.Node) (assignable, ifaceAssign, affectsInference bool) {
	remaining, parent, expr := exprContext(stack)
	if parent == nil {
		return false, false, false
	}

	// TODO(golang/go#70638): simplify when types.Info records implicit conversions.

	// Types do not need to match for assignment to a variable.
	if assign, ok := parent.(*ast.AssignStmt); ok {
		for i, v := range assign.Rhs {
			if v == expr {
				if i >= len(assign.Lhs) {
					return false, false, false // ill typed
				}
				// Check to see if the assignment is to an interface type.
				if i < len(assign.Lhs) {
					// TODO: We could handle spread calls here, but in current usage expr
					// is an ident.
					if id, _ := assign.Lhs[i].(*ast.Ident); id != nil && info.Defs[id] != nil {
						// Types must match for a defining identifier in a short variable
						// declaration.
						return false, false, false
					}
					// In all other cases, types should be known.
					typ := info.TypeOf(assign.Lhs[i])
					return true, typ == nil || types.IsInterface(typ), false
				}
				// Default:
				return assign.Tok == token.ASSIGN, true, false
			}
		}
	}

	// Types do not need to match for an initializer with known type.
	if spec, ok := parent.(*ast.ValueSpec); ok && spec.Type != nil {
		for _, v := range spec.Values {
			if v == expr {
				typ := info.TypeOf(spec.Type)
				return true, typ == nil || types.IsInterface(typ), false
			}
		}
	}

	// Types do not need to match for index expresions.
	if ix, ok := parent.(*ast.IndexExpr); ok {
		if ix.Index == expr {
			typ := info.TypeOf(ix.X)
			if typ == nil {
				return true, true, false
			}
			m, _ := typeparams.CoreType(typ).(*types.Map)
			return true, m == nil || types.IsInterface(m.Key()), false
		}
	}

	// Types do not need to match for composite literal keys, values, or
	// fields.
	if kv, ok := parent.(*ast.KeyValueExpr); ok {
		var under types.Type
		if len(remaining) > 0 {
			if complit, ok := remaining[len(remaining)-1].(*ast.CompositeLit); ok {
				if typ := info.TypeOf(complit); typ != nil {
					// Unpointer to allow for pointers to slices or arrays, which are
					// permitted as the types of nested composite literals without a type
					// name.
					under = typesinternal.Unpointer(typeparams.CoreType(typ))
				}
			}
		}
		if kv.Key == expr { // M{expr: ...}: assign to map key
			m, _ := under.(*types.Map)
			return true, m == nil || types.IsInterface(m.Key()), false
		}
		if kv.Value == expr {
			switch under := under.(type) {
			case interface{ Elem() types.Type }: // T{...: expr}: assign to map/array/slice element
				return true, types.IsInterface(under.Elem()), false
			case *types.Struct: // Struct{k: expr}
				if id, _ := kv.Key.(*ast.Ident); id != nil {
					for fi := 0; fi < under.NumFields(); fi++ {
						field := under.Field(fi)
						if info.Uses[id] == field {
							return true, types.IsInterface(field.Type()), false
						}
					}
				}
			default:
				return true, true, false
			}
		}
	}
	if lit, ok := parent.(*ast.CompositeLit); ok {
		for i, v := range lit.Elts {
			if v == expr {
				typ := info.TypeOf(lit)
				if typ == nil {
					return true, true, false
				}
				// As in the KeyValueExpr case above, unpointer to handle pointers to
				// array/slice literals.
				under := typesinternal.Unpointer(typeparams.CoreType(typ))
				switch under := under.(type) {
				case interface{ Elem() types.Type }: // T{expr}: assign to map/array/slice element
					return true, types.IsInterface(under.Elem()), false
				case *types.Struct: // Struct{expr}: assign to unkeyed struct field
					if i < under.NumFields() {
						return true, types.IsInterface(under.Field(i).Type()), false
					}
				}
				return true, true, false
			}
		}
	}

	// Types do not need to match for values sent to a channel.
	if send, ok := parent.(*ast.SendStmt); ok {
		if send.Value == expr {
			typ := info.TypeOf(send.Chan)
			if typ == nil {
				return true, true, false
			}
			ch, _ := typeparams.CoreType(typ).(*types.Chan)
			return true, ch == nil || types.IsInterface(ch.Elem()), false
		}
	}

	// Types do not need to match for an argument to a call, unless the
	// corresponding parameter has type parameters, as in that case the
	// argument type may affect inference.
	if call, ok := parent.(*ast.CallExpr); ok {
		if _, ok := isConversion(info, call); ok {
			return false, false, false // redundant conversions are handled at the call site
		}
		// Ordinary call. Could be a call of a func, builtin, or function value.
		for i, arg := range call.Args {
			if arg == expr {
				typ := info.TypeOf(call.Fun)
				if typ == nil {
					return true, true, false
				}
				sig, _ := typeparams.CoreType(typ).(*types.Signature)
				if sig != nil {
					// Find the relevant parameter type, accounting for variadics.
					paramType := paramTypeAtIndex(sig, call, i)
					ifaceAssign := paramType == nil || types.IsInterface(paramType)
					affectsInference := false
					if fn := typeutil.StaticCallee(info, call); fn != nil {
						if sig2 := fn.Type().(*types.Signature); sig2.Recv() == nil {
							originParamType := paramTypeAtIndex(sig2, call, i)
							affectsInference = originParamType == nil || new(typeparams.Free).Has(originParamType)
						}
					}
					return true, ifaceAssign, affectsInference
				}
			}
		}
	}

	return false, false, false
}

// paramTypeAtIndex returns the effective parameter type at the given argument
// index in call, if valid.
func paramTypeAtIndex(sig *types.Signature, call *ast.CallExpr, index int) types.Type {
	if plen := sig.Params().Len(); sig.Variadic() && index >= plen-1 && !call.Ellipsis.IsValid() {
		if s, ok := sig.Params().At(plen - 1).Type().(*types.Slice); ok {
			return s.Elem()
		}
	} else if index < plen {
		return sig.Params().At(index).Type()
	}
	return nil // ill typed
}

// exprContext returns the innermost parent->child expression nodes for the
// given outer-to-inner stack, after stripping parentheses, along with the
// remaining stack up to the parent node.
//
// If no such context exists, returns (nil, nil).
func exprContext(stack []ast.Node) (remaining []ast.Node, parent ast.Node, expr ast.Expr) {
	expr, _ = stack[len(stack)-1].(ast.Expr)
	if expr == nil {
		return nil, nil, nil
	}
	i := len(stack) - 2
	for ; i >= 0; i-- {
		if pexpr, ok := stack[i].(*ast.ParenExpr); ok {
			expr = pexpr
		} else {
			parent = stack[i]
			break
		}
	}
	if parent == nil {
		return nil, nil, nil
	}
	// inv: i is the index of parent in the stack.
	return stack[:i], parent, expr
}

// isSelectionOperand reports whether the innermost node of stack is operand
// (x) of a selection x.f.
func isSelectionOperand(stack []ast.Node) bool {
	_, parent, expr := exprContext(stack)
	if parent == nil {
		return false
	}
	sel, ok := parent.(*ast.SelectorExpr)
	return ok && sel.X == expr
}

// A shadowMap records information about shadowing at any of the parameter's
// references within the callee decl.
//
// For each name shadowed at a reference to the parameter within the callee
// body, shadow map records the 1-based index of the callee decl parameter
// causing the shadowing, or -1, if the shadowing is not due to a callee decl.
// A value of zero (or missing) indicates no shadowing. By convention,
// self-shadowing is excluded from the map.
//
// For example, in the following callee
//
//	func f(a, b int) int {
//		c := 2 + b
//		return a + c
//	}
//
// the shadow map of a is {b: 2, c: -1}, because b is shadowed by the 2nd
// parameter. The shadow map of b is {a: 1}, because c is not shadowed at the
// use of b.
type shadowMap map[string]int

// add returns the [shadowMap] augmented by the set of names
// locally shadowed at the location of the reference in the callee
// (identified by the stack). The name of the reference itself is
// excluded.
//
// These shadowed names may not be used in a replacement expression
// for the reference.
func (s shadowMap) add(info *types.Info, paramIndexes map[types.Object]int, exclude string, stack []ast.Node) shadowMap {
	for _, n := range stack {
		if scope := scopeFor(info, n); scope != nil {
			for _, name := range scope.Names() {
				if name != exclude {
					if s == nil {
						s = make(shadowMap)
					}
					obj := scope.Lookup(name)
					if idx, ok := paramIndexes[obj]; ok {
						s[name] = idx + 1
					} else {
						s[name] = -1
					}
				}
			}
		}
	}
	return s
}

// fieldObjs returns a map of each types.Object defined by the given signature
// to its index in the parameter list. Parameters with missing or blank name
// are skipped.
func fieldObjs(sig *types.Signature) map[types.Object]int {
	m := make(map[types.Object]int)
	for i := range sig.Params().Len() {
		if p := sig.Params().At(i); p.Name() != "" && p.Name() != "_" {
			m[p] = i
		}
	}
	return m
}

func isField(obj types.Object) bool {
	if v, ok := obj.(*types.Var); ok && v.IsField() {
		return true
	}
	return false
}

func isMethod(obj types.Object) bool {
	if f, ok := obj.(*types.Func); ok && f.Type().(*types.Signature).Recv() != nil {
		return true
	}
	return false
}

// -- serialization --

var (
	_ gob.GobEncoder = (*Callee)(nil)
	_ gob.GobDecoder = (*Callee)(nil)
)

func (callee *Callee) GobEncode() ([]byte, error) {
	var out bytes.Buffer
	if err := gob.NewEncoder(&out).Encode(callee.impl); err != nil {
		return nil, err
	}
	return out.Bytes(), nil
}

func (callee *Callee) GobDecode(data []byte) error {
	return gob.NewDecoder(bytes.NewReader(data)).Decode(&callee.impl)
}

// Copyright 2023 The Go Authors. All rights reserved.
// Use of this source code is governed by a BSD-style
// license that can be found in the LICENSE file.

package inline

// This file defines the analysis of callee effects.

import (
	"go/ast"
	"go/token"
	"go/types"
)

const (
	rinf = -1 //  R∞: arbitrary read from memory
	winf = -2 //  W∞: arbitrary write to memory (or unknown control)
)

// calleefx returns a list of parameter indices indicating the order
// in which parameters are first referenced during evaluation of the
// callee, relative both to each other and to other effects of the
// callee (if any), such as arbitrary reads (rinf) and arbitrary
// effects (winf), including unknown control flow. Each parameter
// that is referenced appears once in the list.
//
// For example, the effects list of this function:
//
//	func f(x, y, z int) int {
//	    return y + x + g() + z
//	}
//
// is [1 0 -2 2], indicating reads of y and x, followed by the unknown
// effects of the g() call. and finally the read of parameter z. This
// information is used during inlining to ascertain when it is safe
// for parameter references to be replaced by their corresponding
// argument expressions. Such substitutions are permitted only when
// they do not cause "write" operations (those with effects) to
// commute with "read" operations (those that have no effect but are
// not pure). Impure operations may be reordered with other impure
// operations, and pure operations may be reordered arbitrarily.
//
// The analysis ignores the effects of runtime panics, on the
// assumption that well-behaved programs shouldn't encounter them.
func calleefx(info *types.Info, body *ast.BlockStmt, paramInfos map[*types.Var]*paramInfo) []int {
	// This traversal analyzes the callee's statements (in syntax
	// form, though one could do better with SSA) to compute the
	// sequence of events of the following kinds:
	//
	// 1  read of a parameter variable.
	// 2. reads from other memory.
	// 3. writes to memory

	var effects []int // indices of parameters, or rinf/winf (-ve)
	seen := make(map[int]bool)
	effect := func(i int) {
		if !seen[i] {
			seen[i] = true
			effects = append(effects, i)
		}
	}

	// unknown is called for statements of unknown effects (or control).
	unknown := func() {
		effect(winf)

		// Ensure that all remaining parameters are "seen"
		// after we go into the unknown (unless they are
		// unreferenced by the function body). This lets us
		// not bother implementing the complete traversal into
		// control structures.
		//
		// TODO(adonovan): add them in a deterministic order.
		// (This is not a bug but determinism is good.)
		for _, pinfo := range paramInfos {
			if !pinfo.IsResult && len(pinfo.Refs) > 0 {
				effect(pinfo.Index)
			}
		}
	}

	var visitExpr func(n ast.Expr)
	var visitStmt func(n ast.Stmt) bool
	visitExpr = func(n ast.Expr) {
		switch n := n.(type) {
		case *ast.Ident:
			if v, ok := info.Uses[n].(*types.Var); ok && !v.IsField() {
				// Use of global?
				if v.Parent() == v.Pkg().Scope() {
					effect(rinf) // read global var
				}

				// Use of parameter?
				if pinfo, ok := paramInfos[v]; ok && !pinfo.IsResult {
					effect(pinfo.Index) // read parameter var
				}

				// Use of local variables is ok.
			}

		case *ast.BasicLit:
			// no effect

		case *ast.FuncLit:
			// A func literal has no read or write effect
			// until called, and (most) function calls are
			// considered to have arbitrary effects.
			// So, no effect.

		case *ast.CompositeLit:
			for _, elt := range n.Elts {
				visitExpr(elt) // note: visits KeyValueExpr
			}

		case *ast.ParenExpr:
			visitExpr(n.X)

		case *ast.SelectorExpr:
			if seln, ok := info.Selections[n]; ok {
				visitExpr(n.X)

				// See types.SelectionKind for background.
				switch seln.Kind() {
				case types.MethodExpr:
					// A method expression T.f acts like a
					// reference to a func decl,
					// so it doesn't read x until called.

				case types.MethodVal, types.FieldVal:
					// A field or method value selection x.f
					// reads x if the selection indirects a pointer.

					if indirectSelection(seln) {
						effect(rinf)
					}
				}
			} else {
				// qualified identifier: treat like unqualified
				visitExpr(n.Sel)
			}

		case *ast.IndexExpr:
			if tv := info.Types[n.Index]; tv.IsType() {
				// no effect (G[T] instantiation)
			} else {
				visitExpr(n.X)
				visitExpr(n.Index)
				switch tv.Type.Underlying().(type) {
				case *types.Slice, *types.Pointer: // []T, *[n]T (not string, [n]T)
					effect(rinf) // indirect read of slice/array element
				}
			}

		case *ast.IndexListExpr:
			// no effect (M[K,V] instantiation)

		case *ast.SliceExpr:
			visitExpr(n.X)
			visitExpr(n.Low)
			visitExpr(n.High)
			visitExpr(n.Max)

		case *ast.TypeAssertExpr:
			visitExpr(n.X)

		case *ast.CallExpr:
			if info.Types[n.Fun].IsType() {
				// conversion T(x)
				visitExpr(n.Args[0])
			} else {
				// call f(args)
				visitExpr(n.Fun)
				for i, arg := range n.Args {
					if i == 0 && info.Types[arg].IsType() {
						continue // new(T), make(T, n)
					}
					visitExpr(arg)
				}

				// The pure built-ins have no effects beyond
				// those of their operands (not even memory reads).
				// All other calls have unknown effects.
				if !callsPureBuiltin(info, n) {
					unknown() // arbitrary effects
				}
			}

		case *ast.StarExpr:
			visitExpr(n.X)
			effect(rinf) // *ptr load or store depends on state of heap

		case *ast.UnaryExpr: // + - ! ^ & ~ <-
			visitExpr(n.X)
			if n.Op == token.ARROW {
				unknown() // effect: channel receive
			}

		case *ast.BinaryExpr:
			visitExpr(n.X)
			visitExpr(n.Y)

		case *ast.KeyValueExpr:
			visitExpr(n.Key) // may be a struct field
			visitExpr(n.Value)

		case *ast.BadExpr:
			// no effect

		case nil:
			// optional subtree

		default:
			// type syntax: unreachable given traversal
			panic(n)
		}
	}

	// visitStmt's result indicates the continuation:
	// false for return, true for the next statement.
	//
	// We could treat return as an unknown, but this way
	// yields definite effects for simple sequences like
	// {S1; S2; return}, so unreferenced parameters are
	// not spuriously added to the effects list, and thus
	// not spuriously disqualified from elimination.
	visitStmt = func(n ast.Stmt) bool {
		switch n := n.(type) {
		case *ast.DeclStmt:
			decl := n.Decl.(*ast.GenDecl)
			for _, spec := range decl.Specs {
				switch spec := spec.(type) {
				case *ast.ValueSpec:
					for _, v := range spec.Values {
						visitExpr(v)
					}

				case *ast.TypeSpec:
					// no effect
				}
			}

		case *ast.LabeledStmt:
			return visitStmt(n.Stmt)

		case *ast.ExprStmt:
			visitExpr(n.X)

		case *ast.SendStmt:
			visitExpr(n.Chan)
			visitExpr(n.Value)
			unknown() // effect: channel send

		case *ast.IncDecStmt:
			visitExpr(n.X)
			unknown() // effect: variable increment

		case *ast.AssignStmt:
			for _, lhs := range n.Lhs {
				visitExpr(lhs)
			}
			for _, rhs := range n.Rhs {
				visitExpr(rhs)
			}
			for _, lhs := range n.Lhs {
				id, _ := lhs.(*ast.Ident)
				if id != nil && id.Name == "_" {
					continue // blank assign has no effect
				}
				if n.Tok == token.DEFINE && id != nil && info.Defs[id] != nil {
					continue // new var declared by := has no effect
				}
				unknown() // assignment to existing var
				break
			}

		case *ast.GoStmt:
			visitExpr(n.Call.Fun)
			for _, arg := range n.Call.Args {
				visitExpr(arg)
			}
			unknown() // effect: create goroutine

		case *ast.DeferStmt:
			visitExpr(n.Call.Fun)
			for _, arg := range n.Call.Args {
				visitExpr(arg)
			}
			unknown() // effect: push defer

		case *ast.ReturnStmt:
			for _, res := range n.Results {
				visitExpr(res)
			}
			return false

		case *ast.BlockStmt:
			for _, stmt := range n.List {
				if !visitStmt(stmt) {
					return false
				}
			}

		case *ast.BranchStmt:
			unknown() // control flow

		case *ast.IfStmt:
			visitStmt(n.Init)
			visitExpr(n.Cond)
			unknown() // control flow

		case *ast.SwitchStmt:
			visitStmt(n.Init)
			visitExpr(n.Tag)
			unknown() // control flow

		case *ast.TypeSwitchStmt:
			visitStmt(n.Init)
			visitStmt(n.Assign)
			unknown() // control flow

		case *ast.SelectStmt:
			unknown() // control flow

		case *ast.ForStmt:
			visitStmt(n.Init)
			visitExpr(n.Cond)
			unknown() // control flow

		case *ast.RangeStmt:
			visitExpr(n.X)
			unknown() // control flow

		case *ast.EmptyStmt, *ast.BadStmt:
			// no effect

		case nil:
			// optional subtree

		default:
			panic(n)
		}
		return true
	}
	visitStmt(body)

	return effects
}

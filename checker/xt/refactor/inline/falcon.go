// Copyright 2023 The Go Authors. All rights reserved.
// Use of this source code is governed by a BSD-style
// license that can be found in the LICENSE file.

package inline

// This file defines the callee side of the "fallible constant" analysis.

import (
	"fmt"
	"go/ast"
	"go/constant"
	"go/format"
	"go/token"
	"go/types"
	"strconv"
	"strings"

	"golang.org/x/tools/go/types/typeutil"
	"verif/checker/xt/typeparams"
)

// falconResult is the result of the analysis of the callee.
type falconResult struct {
	Types       []falconType // types for falcon constraint environment
	Constraints []string     // constraints (Go expressions) on values of fallible constants
}

// A falconType specifies the name and underlying type of a synthetic
// defined type for use in falcon constraints.
//
// Unique types from callee code are bijectively mapped onto falcon
// types so that constraints are independent of callee type
// information but preserve type equivalence classes.
//
// Fresh names are deliberately obscure to avoid shadowing even if a
// callee parameter has a nanme like "int" or "any".
type falconType struct {
	Name string
	Kind types.BasicKind // string/number/bool
}

// falcon identifies "fallible constant" expressions, which are
// expressions that may fail to compile if one or more of their
// operands is changed from non-constant to constant.
//
// Consider:
//
//	func sub(s string, i, j int) string { return s[i:j] }
//
// If parameters are replaced by constants, the compiler is
// required to perform these additional checks:
//
//   - if i is constant, 0 <= i.
//   - if s and i are constant, i <= len(s).
//   - ditto for j.
//   - if i and j are constant, i <= j.
//
// s[i:j] is thus a "fallible constant" expression dependent on {s, i,
// j}. Each falcon creates a set of conditional constraints across one
// or more parameter variables.
//
//   - When inlining a call such as sub("abc", -1, 2), the parameter i
//     cannot be eliminated by substitution as its argument value is
//     negative.
//
//   - When inlining sub("", 2, 1), all three parameters cannot be
//     simultaneously eliminated by substitution without violating i
//     <= len(s) and j <= len(s), but the parameters i and j could be
//     safely eliminated without s.
//
// Parameters that cannot be eliminated must remain non-constant,
// either in the form of a binding declaration:
//
//	{ var i int = -1; return "abc"[i:2] }
//
// or a parameter of a literalization:
//
//	func (i int) string { return "abc"[i:2] }(-1)
//
// These example expressions are obviously doomed to fail at run
// time, but in realistic cases such expressions are dominated by
// appropriate conditions that make them reachable only when safe:
//
//	if 0 <= i && i <= j && j <= len(s) { _ = s[i:j] }
//
// (In principle a more sophisticated inliner could entirely eliminate
// such unreachable blocks based on the condition being always-false
// for the given parameter substitution, but this is tricky to do safely
// because the type-checker considers only a single configuration.
// Consider: if runtime.GOOS == "linux" { ... }.)
//
// We believe this is an exhaustive list of "fallible constant" operations:
//
//   - switch z { case x: case y } 	// duplicate case values
//   - s[i], s[i:j], s[i:j:k]		// index out of bounds (0 <= i <= j <= k <= len(s))
//   - T{x: 0}				// index out of bounds, duplicate index
//   - x/y, x%y, x/=y, x%=y		// integer division by zero; minint/-1 overflow
//   - x+y, x-y, x*y			// arithmetic overflow
//   - x<<y				// shift out of range
//   - -x				// negation of minint
//   - T(x)				// value out of range
//
// The fundamental reason for this elaborate algorithm is that the
// "separate analysis" of callee and caller, as required when running
// in an environment such as unitchecker, means that there is no way
// for us to simply invoke the type checker on the combination of
// caller and callee code, as by the time we analyze the caller, we no
// longer have access to type information for the callee (and, in
// particular, any of its direct dependencies that are not direct
// dependencies of the caller). So, in effect, we are forced to map
// the problem in a neutral (callee-type-independent) constraint
// system that can be verified later.
func falcon(logf func(string, ...any), fset *token.FileSet, params map[*types.Var]*paramInfo, info *types.Info, decl *ast.FuncDecl) falconResult {

	st := &falconState{
		logf:   logf,
		fset:   fset,
		params: params,
		info:   info,
		decl:   decl,
	}

	// type mapping
	st.int = st.typename(types.Typ[types.Int])
	st.any = "interface{}" // don't use "any" as it may be shadowed
	for obj, info := range st.params {
		if isBasic(obj.Type(), types.IsConstType) {
			info.FalconType = st.typename(obj.Type())
		}
	}

	st.stmt(st.decl.Body)

	return st.result
}

type falconState struct {
	// inputs
	logf   func(string, ...any)
	fset   *token.FileSet
	params map[*types.Var]*paramInfo
	info   *types.Info
	decl   *ast.FuncDecl

	// working state
	int       string
	any       string
	typenames typeutil.Map

	result falconResult
}

// typename returns the name in the falcon constraint system
// of a given string/number/bool type t. Falcon types are
// specified directly in go/types data structures rather than
// by name, avoiding potential shadowing conflicts with
// confusing parameter names such as "int".
//
// Also, each distinct type (as determined by types.Identical)
// is mapped to a fresh type in the falcon system so that we
// can map the types in the callee code into a neutral form
// that does not depend on imports, allowing us to detect
// potential conflicts such as
//
//	map[any]{T1(1): 0, T2(1): 0}
//
// where T1=T2.
func (st *falconState) typename(t types.Type) string {
	name, ok := st.typenames.At(t).(string)
	if !ok {
		basic := t.Underlying().(*types.Basic)

		// That dot ۰ is an Arabic zero numeral U+06F0.
		// It is very unlikely to appear in a real program.
		// TODO(adonovan): use a non-heuristic solution.
		name = fmt.Sprintf("%s۰%d", basic, st.typenames.Len())
		st.typenames.Set(t, name)
		st.logf("falcon: emit type %s %s // %q", name, basic, t)
		st.result.Types = append(st.result.Types, falconType{
			Name: name,
			Kind: basic.Kind(),
		})
	}
	return name
}

// -- constraint emission --

// emit emits a Go expression that must have a legal type.
// In effect, we let the go/types constant folding algorithm
// do most of the heavy lifting (though it may be hard to
// believe from the complexity of this algorithm!).
func (st *falconState) emit(constraint ast.Expr) {
	var out strings.Builder
	if err := format.Node(&out, st.fset, constraint); err != nil {
		panic(err) // can't happen
	}
	syntax := out.String()
	st.logf("falcon: emit constraint %s", syntax)
	st.result.Constraints = append(st.result.Constraints, syntax)
}

// emitNonNegative emits an []T{}[index] constraint,
// which ensures index is non-negative if constant.
func (st *falconState) emitNonNegative(index ast.Expr) {
	st.emit(&ast.IndexExpr{
		X: &ast.CompositeLit{
			Type: &ast.ArrayType{
				Elt: makeIdent(st.int),
			},
		},
		Index: index,
	})
}

// emitMonotonic emits an []T{}[i:j] constraint,
// which ensures i <= j if both are constant.
func (st *falconState) emitMonotonic(i, j ast.Expr) {
	st.emit(&ast.SliceExpr{
		X: &ast.CompositeLit{
			Type: &ast.ArrayType{
				Elt: makeIdent(st.int),
			},
		},
		Low:  i,
		High: j,
	})
}

// emitUnique emits a T{elem1: 0, ... elemN: 0} constraint,
// which ensures that all constant elems are unique.
// T may be a map, slice, or array depending
// on the desired check semantics.
func (st *falconState) emitUnique(typ ast.Expr, elems []ast.Expr) {
	if len(elems) > 1 {
		var elts []ast.Expr
		for _, elem := range elems {
			elts = append(elts, &ast.KeyValueExpr{
				Key:   elem,
				Value: makeIntLit(0),
			})
		}
		st.emit(&ast.CompositeLit{
			Type: typ,
			Elts: elts,
		})
	}
}

// -- traversal --

// The traversal functions scan the callee body for expressions that
// are not constant but would become constant if the parameter vars
// were redeclared as constants, and emits for each one a constraint
// (a Go expression) with the property that it will not type-check
// (using types.CheckExpr) if the particular argument values are
// unsuitable.
//
// These constraints are checked by Inline with the actual
// constant argument values. Violations cause it to reject
// parameters as candidates for substitution.

func (st *falconState) stmt(s ast.Stmt) {
	ast.Inspect(s, func(n ast.Node) bool {
		switch n := n.(type) {
		case ast.Expr:
			_ = st.expr(n)
			return false // skip usual traversal

		case *ast.AssignStmt:
			switch n.Tok {
			case token.QUO_ASSIGN, token.REM_ASSIGN:
				// x /= y
				// Possible "integer division by zero"
				// Emit constraint: 1/y.
				_ = st.expr(n.Lhs[0])
				kY := st.expr(n.Rhs[0])
				if kY, ok := kY.(ast.Expr); ok {
					op := token.QUO
					if n.Tok == token.REM_ASSIGN {
						op = token.REM
					}
					st.emit(&ast.BinaryExpr{
						Op: op,
						X:  makeIntLit(1),
						Y:  kY,
					})
				}
				return false // skip usual traversal
			}

		case *ast.SwitchStmt:
			if n.Init != nil {
				st.stmt(n.Init)
			}
			tBool := types.Type(types.Typ[types.Bool])
			tagType := tBool // default: true
			if n.Tag != nil {
				st.expr(n.Tag)
				tagType = st.info.TypeOf(n.Tag)
			}

			// Possible "duplicate case value".
			// Emit constraint map[T]int{v1: 0, ..., vN:0}
			// to ensure all maybe-constant case values are unique
			// (unless switch tag is boolean, which is relaxed).
			var unique []ast.Expr
			for _, clause := range n.Body.List {
				clause := clause.(*ast.CaseClause)
				for _, caseval := range clause.List {
					if k := st.expr(caseval); k != nil {
						unique = append(unique, st.toExpr(k))
					}
				}
				for _, stmt := range clause.Body {
					st.stmt(stmt)
				}
			}
			if unique != nil && !types.Identical(tagType.Underlying(), tBool) {
				tname := st.any
				if !types.IsInterface(tagType) {
					tname = st.typename(tagType)
				}
				t := &ast.MapType{
					Key:   makeIdent(tname),
					Value: makeIdent(st.int),
				}
				st.emitUnique(t, unique)
			}
		}
		return true
	})
}

// fieldTypes visits the .Type of each field in the list.
func (st *falconState) fieldTypes(fields *ast.FieldList) {
	if fields != nil {
		for _, field := range fields.List {
			_ = st.expr(field.Type)
		}
	}
}

// expr visits the expression (or type) and returns a
// non-nil result if the expression is constant or would
// become constant if all suitable function parameters were
// redeclared as constants.
//
// If the expression is constant, st.expr returns its type
// and value (types.TypeAndValue). If the expression would
// become constant, st.expr returns an ast.Expr tree whose
// leaves are literals and parameter references, and whose
// interior nodes are operations that may become constant,
// such as -x, x+y, f(x), and T(x). We call these would-be
// constant expressions "fallible constants", since they may
// fail to type-check for some values of x, i, and j. (We
// refer to the non-nil cases collectively as "maybe
// constant", and the nil case as "definitely non-constant".)
//
// As a side effect, st.expr emits constraints for each
// fallible constant expression; this is its main purpose.
//
// Consequently, st.expr must visit the entire subtree so
// that all necessary constraints are emitted. It may not
// short-circuit the traversal when it encounters a constant
// subexpression as constants may contain arbitrary other
// syntax that may impose constraints. Consider (as always)
// this contrived but legal example of a type parameter (!)
// that contains statement syntax:
//
//	func f[T [unsafe.Sizeof(func() { stmts })]int]()
//
// There is no need to emit constraints for (e.g.) s[i] when s
// and i are already constants, because we know the expression
// is sound, but it is sometimes easier to emit these
// redundant constraints than to avoid them.
func (st *falconState) expr(e ast.Expr) (res any) { // = types.TypeAndValue | ast.Expr
	tv := st.info.Types[e]
	if tv.Value != nil {
		// A constant value overrides any other result.
		defer func() { res = tv }()
	}

	switch e := e.(type) {
	case *ast.Ident:
		if v, ok := st.info.Uses[e].(*types.Var); ok {
			if _, ok := st.params[v]; ok && isBasic(v.Type(), types.IsConstType) {
				return e // reference to constable parameter
			}
		}
		// (References to *types.Const are handled by the defer.)

	case *ast.BasicLit:
		// constant

	case *ast.ParenExpr:
		return st.expr(e.X)

	case *ast.FuncLit:
		_ = st.expr(e.Type)
		st.stmt(e.Body)
		// definitely non-constant

	case *ast.CompositeLit:
		// T{k: v, ...}, where T ∈ {array,*array,slice,map},
		// imposes a constraint that all constant k are
		// distinct and, for arrays [n]T, within range 0-n.
		//
		// Types matter, not just values. For example,
		// an interface-keyed map may contain keys
		// that are numerically equal so long as they
		// are of distinct types. For example:
		//
		//   type myint int
		//   map[any]bool{1: true, 1:        true} // error: duplicate key
		//   map[any]bool{1: true, int16(1): true} // ok
		//   map[any]bool{1: true, myint(1): true} // ok
		//
		// This can be asserted by emitting a
		// constraint of the form T{k1: 0, ..., kN: 0}.
		if e.Type != nil {
			_ = st.expr(e.Type)
		}
		t := types.Unalias(typeparams.Deref(tv.Type))
		var uniques []ast.Expr
		for _, elt := range e.Elts {
			if kv, ok := elt.(*ast.KeyValueExpr); ok {
				if !is[*types.Struct](t) {
					if k := st.expr(kv.Key); k != nil {
						uniques = append(uniques, st.toExpr(k))
					}
				}
				_ = st.expr(kv.Value)
			} else {
				_ = st.expr(elt)
			}
		}
		if uniques != nil {
			// Inv: not a struct.

			// The type T in constraint T{...} depends on the CompLit:
			// - for a basic-keyed map, use map[K]int;
			// - for an interface-keyed map, use map[any]int;
			// - for a slice, use []int;
			// - for an array or *array, use [n]int.
			// The last two entail progressively stronger index checks.
			var ct ast.Expr // type syntax for constraint
			switch t := typeparams.CoreType(t).(type) {
			case *types.Map:
				if types.IsInterface(t.Key()) {
					ct = &ast.MapType{
						Key:   makeIdent(st.any),
						Value: makeIdent(st.int),
					}
				} else {
					ct = &ast.MapType{
						Key:   makeIdent(st.typename(t.Key())),
						Value: makeIdent(st.int),
					}
				}
			case *types.Array: // or *array
				ct = &ast.ArrayType{
					Len: makeIntLit(t.Len()),
					Elt: makeIdent(st.int),
				}
			default:
				panic(fmt.Sprintf("%T: %v", t, t))
			}
			st.emitUnique(ct, uniques)
		}
		// definitely non-constant

	case *ast.SelectorExpr:
		_ = st.expr(e.X)
		_ = st.expr(e.Sel)
		// The defer is sufficient to handle
		// qualified identifiers (pkg.Const).
		// All other cases are definitely non-constant.

	case *ast.IndexExpr:
		if tv.IsType() {
			// type C[T]
			_ = st.expr(e.X)
			_ = st.expr(e.Index)
		} else {
			// term x[i]
			//
			// Constraints (if x is slice/string/array/*array, not map):
			// - i >= 0
			//     if i is a fallible constant
			// - i < len(x)
			//     if x is array/*array and
			//     i is a fallible constant;
			//  or if s is a string and both i,
			//     s are maybe-constants,
			//     but not both are constants.
			kX := st.expr(e.X)
			kI := st.expr(e.Index)
			if kI != nil && !is[*types.Map](st.info.TypeOf(e.X).Underlying()) {
				if kI, ok := kI.(ast.Expr); ok {
					st.emitNonNegative(kI)
				}
				// Emit constraint to check indices against known length.
				// TODO(adonovan): factor with SliceExpr logic.
				var x ast.Expr
				if kX != nil {
					// string
					x = st.toExpr(kX)
				} else if arr, ok := typeparams.CoreType(typeparams.Deref(st.info.TypeOf(e.X))).(*types.Array); ok {
					// array, *array
					x = &ast.CompositeLit{
						Type: &ast.ArrayType{
							Len: makeIntLit(arr.Len()),
							Elt: makeIdent(st.int),
						},
					}
				}
				if x != nil {
					st.emit(&ast.IndexExpr{
						X:     x,
						Index: st.toExpr(kI),
					})
				}
			}
		}
		// definitely non-constant

	case *ast.SliceExpr:
		// x[low:high:max]
		//
		// Emit non-negative constraints for each index,
		// plus low <= high <= max <= len(x)
		// for each pair that are maybe-constant
		// but not definitely constant.

		kX := st.expr(e.X)
		var kLow, kHigh, kMax any
		if e.Low != nil {
			kLow = st.expr(e.Low)
			if kLow != nil {
				if kLow, ok := kLow.(ast.Expr); ok {
					st.emitNonNegative(kLow)
				}
			}
		}
		if e.High != nil {
			kHigh = st.expr(e.High)
			if kHigh != nil {
				if kHigh, ok := kHigh.(ast.Expr); ok {
					st.emitNonNegative(kHigh)
				}
				if kLow != nil {
					st.emitMonotonic(st.toExpr(kLow), st.toExpr(kHigh))
				}
			}
		}
		if e.Max != nil {
			kMax = st.expr(e.Max)
			if kMax != nil {
				if kMax, ok := kMax.(ast.Expr); ok {
					st.emitNonNegative(kMax)
				}
				if kHigh != nil {
					st.emitMonotonic(st.toExpr(kHigh), st.toExpr(kMax))
				}
			}
		}

		// Emit constraint to check indices against known length.
		var x ast.Expr
		if kX != nil {
			// string
			x = st.toExpr(kX)
		} else if arr, ok := typeparams.CoreType(typeparams.Deref(st.info.TypeOf(e.X))).(*types.Array); ok {
			// array, *array
			x = &ast.CompositeLit{
				Type: &ast.ArrayType{
					Len: makeIntLit(arr.Len()),
					Elt: makeIdent(st.int),
				},
			}
		}
		if x != nil {
			// Avoid slice[::max] if kHigh is nonconstant (nil).
			high, max := st.toExpr(kHigh), st.toExpr(kMax)
			if high == nil {
				high = max // => slice[:max:max]
			}
			st.emit(&ast.SliceExpr{
				X:    x,
				Low:  st.toExpr(kLow),
				High: high,
				Max:  max,
			})
		}
		// definitely non-constant

	case *ast.TypeAssertExpr:
		_ = st.expr(e.X)
		if e.Type != nil {
			_ = st.expr(e.Type)
		}

	case *ast.CallExpr:
		_ = st.expr(e.Fun)
		if tv, ok := st.info.Types[e.Fun]; ok && tv.IsType() {
			// conversion T(x)
			//
			// Possible "value out of range".
			kX := st.expr(e.Args[0])
			if kX != nil && isBasic(tv.Type, types.IsConstType) {
				conv := convert(makeIdent(st.typename(tv.Type)), st.toExpr(kX))
				if is[ast.Expr](kX) {
					st.emit(conv)
				}
				return conv
			}
			return nil // definitely non-constant
		}

		// call f(x)

		all := true // all args are possibly-constant
		kArgs := make([]ast.Expr, len(e.Args))
		for i, arg := range e.Args {
			if kArg := st.expr(arg); kArg != nil {
				kArgs[i] = st.toExpr(kArg)
			} else {
				all = false
			}
		}

		// Calls to built-ins with fallibly constant arguments
		// may become constant. All other calls are either
		// constant or non-constant
		if id, ok := e.Fun.(*ast.Ident); ok && all && tv.Value == nil {
			if builtin, ok := st.info.Uses[id].(*types.Builtin); ok {
				switch builtin.Name() {
				case "len", "imag", "real", "complex", "min", "max":
					return &ast.CallExpr{
						Fun:      id,
						Args:     kArgs,
						Ellipsis: e.Ellipsis,
					}
				}
			}
		}

	case *ast.StarExpr: // *T, *ptr
		_ = st.expr(e.X)

	case *ast.UnaryExpr:
		// + - ! ^ & <- ~
		//
		// Possible "negation of minint".
		// Emit constraint: -x
		kX := st.expr(e.X)
		if kX != nil && !is[types.TypeAndValue](kX) {
			if e.Op == token.SUB {
				st.emit(&ast.UnaryExpr{
					Op: e.Op,
					X:  st.toExpr(kX),
				})
			}

			return &ast.UnaryExpr{
				Op: e.Op,
				X:  st.toExpr(kX),
			}
		}

	case *ast.BinaryExpr:
		kX := st.expr(e.X)
		kY := st.expr(e.Y)
		switch e.Op {
		case token.QUO, token.REM:
			// x/y, x%y
			//
			// Possible "integer division by zero" or
			// "minint / -1" overflow.
			// Emit constraint: x/y or 1/y
			if kY != nil {
				if kX == nil {
					kX = makeIntLit(1)
				}
				st.emit(&ast.BinaryExpr{
					Op: e.Op,
					X:  st.toExpr(kX),
					Y:  st.toExpr(kY),
				})
			}

		case token.ADD, token.SUB, token.MUL:
			// x+y, x-y, x*y
			//
			// Possible "arithmetic overflow".
			// Emit constraint: x+y
			if kX != nil && kY != nil {
				st.emit(&ast.BinaryExpr{
					Op: e.Op,
					X:  st.toExpr(kX),
					Y:  st.toExpr(kY),
				})
			}

		case token.SHL, token.SHR:
			// x << y, x >> y
			//
			// Possible "constant shift too large".
			// Either operand may be too large individually,
			// and they may be too large together.
			// Emit constraint:
			//    x << y (if both maybe-constant)
			//    x << 0 (if y is non-constant)
			//    1 << y (if x is non-constant)
			if kX != nil || kY != nil {
				x := st.toExpr(kX)
				if x == nil {
					x = makeIntLit(1)
				}
				y := st.toExpr(kY)
				if y == nil {
					y = makeIntLit(0)
				}
				st.emit(&ast.BinaryExpr{
					Op: e.Op,
					X:  x,
					Y:  y,
				})
			}

		case token.LSS, token.GTR, token.EQL, token.NEQ, token.LEQ, token.GEQ:
			// < > == != <= <=
			//
			// A "x cmp y" expression with constant operands x, y is
			// itself constant, but I can't see how a constant bool
			// could be fallible: the compiler doesn't reject duplicate
			// boolean cases in a switch, presumably because boolean
			// switches are less like n-way branches and more like
			// sequential if-else chains with possibly overlapping
			// conditions; and there is (sadly) no way to convert a
			// boolean constant to an int constant.
		}
		if kX != nil && kY != nil {
			return &ast.BinaryExpr{
				Op: e.Op,
				X:  st.toExpr(kX),
				Y:  st.toExpr(kY),
			}
		}

	// types
	//
	// We need to visit types (and even type parameters)
	// in order to reach all the places where things could go wrong:
	//
	// 	const (
	// 		s = ""
	// 		i = 0
	// 	)
	// 	type C[T [unsafe.Sizeof(func() { _ = s[i] })]int] bool

	case *ast.IndexListExpr:
		_ = st.expr(e.X)
		for _, expr := range e.Indices {
			_ = st.expr(expr)
		}

	case *ast.Ellipsis:
		if e.Elt != nil {
			_ = st.expr(e.Elt)
		}

	case *ast.ArrayType:
		if e.Len != nil {
			_ = st.expr(e.Len)
		}
		_ = st.expr(e.Elt)

	case *ast.StructType:
		st.fieldTypes(e.Fields)

	case *ast.FuncType:
		st.fieldTypes(e.TypeParams)
		st.fieldTypes(e.Params)
		st.fieldTypes(e.Results)

	case *ast.InterfaceType:
		st.fieldTypes(e.Methods)

	case *ast.MapType:
		_ = st.expr(e.Key)
		_ = st.expr(e.Value)

	case *ast.ChanType:
		_ = st.expr(e.Value)
	}
	return
}

// toExpr converts the result of visitExpr to a falcon expression.
// (We don't do this in visitExpr as we first need to discriminate
// constants from maybe-constants.)
func (st *falconState) toExpr(x any) ast.Expr {
	switch x := x.(type) {
	case nil:
		return nil

	case types.TypeAndValue:
		lit := makeLiteral(x.Value)
		if !isBasic(x.Type, types.IsUntyped) {
			// convert to "typed" type
			lit = &ast.CallExpr{
				Fun:  makeIdent(st.typename(x.Type)),
				Args: []ast.Expr{lit},
			}
		}
		return lit

	case ast.Expr:
		return x

	default:
		panic(x)
	}
}

func makeLiteral(v constant.Value) ast.Expr {
	switch v.Kind() {
	case constant.Bool:
		// Rather than refer to the true or false built-ins,
		// which could be shadowed by poorly chosen parameter
		// names, we use 0 == 0 for true and 0 != 0 for false.
		op := token.EQL
		if !constant.BoolVal(v) {
			op = token.NEQ
		}
		return &ast.BinaryExpr{
			Op: op,
			X:  makeIntLit(0),
			Y:  makeIntLit(0),
		}

	case constant.String:
		return &ast.BasicLit{
			Kind:  token.STRING,
			Value: v.ExactString(),
		}

	case constant.Int:
		return &ast.BasicLit{
			Kind:  token.INT,
			Value: v.ExactString(),
		}

	case constant.Float:
		return &ast.BasicLit{
			Kind:  token.FLOAT,
			Value: v.ExactString(),
		}

	case constant.Complex:
		// The components could be float or int.
		y := makeLiteral(constant.Imag(v))
		y.(*ast.BasicLit).Value += "i" // ugh
		if re := constant.Real(v); !consteq(re, kZeroInt) {
			// complex: x + yi
			y = &ast.BinaryExpr{
				Op: token.ADD,
				X:  makeLiteral(re),
				Y:  y,
			}
		}
		return y

	default:
		panic(v.Kind())
	}
}

func makeIntLit(x int64) *ast.BasicLit {
	return &ast.BasicLit{
		Kind:  token.INT,
		Value: strconv.FormatInt(x, 10),
	}
}

func isBasic(t types.Type, info types.BasicInfo) bool {
	basic, ok := t.Underlying().(*types.Basic)
	return ok && basic.Info()&info != 0
}

package main

import (
	"fmt"
	"go/constant"
	"go/token"
	"go/types"
	"strings"

	"golang.org/x/tools/go/ssa"
)

func init() {
	register("C13", &propSpec{
		technique: "static analysis: protocol constant/struct-layout tables via go/types, arithmetic-width rule on record lengths, error-discipline on the body path, value-flow isolation of stderr, case-fold flow of the extension test; decision tables of record.read and streamReader.Read against a scripted record source (E10)",
		run:       runC13,
		decided: "R1 the record-type, role and header-layout constants equal the FastCGI specification, record payloads are capped at ≤ 65535, name-value lengths switch to the 4-byte form above 127 with bit 31 set, padding is -n&7, and record lengths are summed in int (no uint16 wrap); " +
			"R2 the request body handed to the client is the request's Body itself, unconditionally, and errors from copying it to the responder or closing the stdin stream are propagated; " +
			"R4 the demultiplexer's decision table (streamReader.Read against scripted sequences of stdout and stderr records, several read sizes): the reader of the response receives exactly the stdout payloads in order, the error buffer exactly the stderr payloads, and that buffer reaches only the returned log error; " +
			"R5 the extension test that routes a request to the responder lower-cases both sides, and the split position folds case unless CaseSensitivePath; " +
			"R6 the record reader's decision table (headers with version, type, content length up to 65535 and padding up to 255, payload reads succeeding or failing): success means the 8-byte header and contentLength+paddingLength bytes were consumed, without 16-bit wrap-around, and exactly the content is handed back; R3 (bounds obligations of the client code) is decided under C19. Since round 4: R2 also: FCGIClient.Post hands the request body reader on unwrapped for every announced length; R5 splitPos as a table. Since round 6: R7 two fastcgi blocks yield rules that each hold their own block's env entries, index files and exceptions (the evaluator models in-place append into shared arrays). Since round 7: R8 a parameter whose encoded pair fits a record is sent whole (pairs of maxWrite-3 … maxWrite bytes). R9 an accepted response's header block holds the application's fields and not the CGI status line; R5's splitPos table finds the split string in any letter case with CaseSensitivePath on and off. Since round 8: R10 the body reader NewReplacer installs hands on every byte before, across and after the 100 KiB it keeps for {request_body}.",
		notDecided: "byte equality of params/body for all sizes (arithmetic of the flush thresholds); demultiplexing beyond the scripted framings (the table is per record and per short script).",
	})
}

const fcPkg = "caskethttp/fastcgi"

func runC13(r *Report, p *Program) {
	h := H{r, p}
	c13R1(h)
	c13R2(h)
	c13R4(h)
	c13R5(h)
	c13R6(h)
	c13R7(h)
	c13R8(h)
	c13R9(h)
	c13R10(h)
}

func (p *Program) constInt(rel, name string) (int64, bool) {
	pk := p.ByPath[modPath+"/"+rel]
	if pk == nil {
		return 0, false
	}
	c, ok := pk.Types.Scope().Lookup(name).(*types.Const)
	if !ok || c.Val().Kind() != constant.Int {
		return 0, false
	}
	return constant.Int64Val(c.Val())
}

func c13R1(h H) {
	r := h.r
	r.Rule("R1", "wire tables: BeginRequest…UnknownType = 1…11 and Responder = 1 (constants via go/types); the header struct is Version,Type uint8; ID,ContentLength uint16; PaddingLength,Reserved uint8 in that order; maxWrite ≤ 65535; encodeSize compares with 127 and sets bit 31; header.init pads to -n&7; every addition involving ContentLength/PaddingLength is carried out in int", 16)
	want := []struct {
		n string
		v int64
	}{{"BeginRequest", 1}, {"AbortRequest", 2}, {"EndRequest", 3}, {"Params", 4}, {"Stdin", 5}, {"Stdout", 6}, {"Stderr", 7}, {"Data", 8}, {"GetValues", 9}, {"GetValuesResult", 10}, {"UnknownType", 11}, {"Responder", 1}}
	pk := h.p.ByPath[modPath+"/"+fcPkg]
	if pk == nil {
		r.Unresolve("R1", "package fastcgi not loaded")
		return
	}
	for _, w := range want {
		v, ok := h.p.constInt(fcPkg, w.n)
		pos := token.NoPos
		if o := pk.Types.Scope().Lookup(w.n); o != nil {
			pos = o.Pos()
		}
		r.Check(ok && v == w.v, "R1", "fastcgi.const:"+w.n, pos, sprintf("%s = %d as in the FastCGI specification", w.n, w.v), sprintf("%d", v))
	}
	if mw, ok := h.p.constInt(fcPkg, "maxWrite"); ok {
		r.Check(mw > 0 && mw <= 65535, "R1", "fastcgi.const:maxWrite", pk.Types.Scope().Lookup("maxWrite").Pos(), "a record's content length fits the 16-bit length field", sprintf("%d", mw))
	} else {
		r.Unresolve("R1", "constant maxWrite not found")
	}
	if tn, ok := pk.Types.Scope().Lookup("header").(*types.TypeName); ok {
		st, _ := tn.Type().Underlying().(*types.Struct)
		layout := ""
		if st != nil {
			for i := 0; i < st.NumFields(); i++ {
				layout += st.Field(i).Name() + ":" + st.Field(i).Type().String() + ";"
			}
		}
		r.Check(layout == "Version:uint8;Type:uint8;ID:uint16;ContentLength:uint16;PaddingLength:uint8;Reserved:uint8;", "R1", "fastcgi.header/layout", tn.Pos(), "the 8-byte record header has the protocol's fields, widths and order (it is written with binary.Write)", layout)
	} else {
		r.Unresolve("R1", "type header not found")
	}
	if es := h.fn("R1", fcPkg, "encodeSize"); es != nil {
		// the 4-byte form (high bit set) is produced exactly for sizes >= 128, the 1-byte form exactly for sizes <= 127
		thr, bit := true, false
		isSize := func(v ssa.Value) bool { _, ok := v.(*ssa.Parameter); return ok }
		allInstrs(es, func(in ssa.Instruction) {
			if b, ok := in.(*ssa.BinOp); ok && b.Op == token.OR {
				if c, ok := constInt(b.Y); ok && c == 1<<31 {
					bit = true
					thr = thr && guardsImplyAtLeast(guardAtoms(es, nil, in), isSize, 128)
				}
			}
			if rt, ok := in.(*ssa.Return); ok && len(rt.Results) == 1 {
				switch n, _ := constInt(rt.Results[0]); n {
				case 4:
					thr = thr && guardsImplyAtLeast(guardAtoms(es, nil, in), isSize, 128)
				case 1:
					thr = thr && guardsImplyAtMost(guardAtoms(es, nil, in), isSize, 127)
				default:
					thr = false
				}
			}
		})
		r.Check(thr && bit, "R1", "fastcgi.encodeSize/length-forms", es.Pos(), "lengths above 127 use the 4-byte form with the high bit set")
	}
	if hi := h.fn("R1", fcPkg, "(*header).init"); hi != nil {
		pad := false
		allInstrs(hi, func(in ssa.Instruction) {
			if b, ok := in.(*ssa.BinOp); ok && b.Op == token.AND {
				if c, ok := constInt(b.Y); ok && c == 7 {
					if u, ok := b.X.(*ssa.UnOp); ok && u.Op == token.SUB {
						pad = true
					}
				}
			}
		})
		r.Check(pad, "R1", "fastcgi.(*header).init/padding", hi.Pos(), "records are padded to a multiple of 8 bytes (-n & 7)")
	}
	// width rule
	n := 0
	for _, fn := range h.p.PkgFuncs(fcPkg) {
		allInstrs(fn, func(in ssa.Instruction) {
			b, ok := in.(*ssa.BinOp)
			if !ok || b.Op != token.ADD {
				return
			}
			inv := func(v ssa.Value) bool {
				return derives(v, func(x ssa.Value) bool { return readsField(x, "ContentLength") || readsField(x, "PaddingLength") }, flowOpts{})
			}
			if !inv(b.X) && !inv(b.Y) {
				return
			}
			n++
			bt, _ := b.Type().Underlying().(*types.Basic)
			wide := bt != nil && (bt.Kind() == types.Int || bt.Kind() == types.Int64 || bt.Kind() == types.Int32 || bt.Kind() == types.Uint32 || bt.Kind() == types.Uint64 || bt.Kind() == types.Uint)
			r.Check(wide, "R1", shortFunc(fn)+"/length-sum-width", b.Pos(), "content length + padding length is added in a type that cannot wrap at 65536", b.Type().String())
		})
	}
	if n == 0 {
		r.Unresolve("R1", "no addition over ContentLength/PaddingLength found in package fastcgi")
	}
}

func c13R2(h H) {
	r := h.r
	r.Rule("R2", "body path: Handler.ServeHTTP passes the request's own Body (a direct load of r.Body, not a φ with nil) to FCGIClient.Get/Post; FCGIClient.Post, evaluated (E10) for a declared and for an unknown length (0), hands that very reader on to Request — not a wrapper that could cut it short — and announces the length it was given; in FCGIClient.Do the error results of io.Copy(body, req) and of closing the stdin stream are each tested and lead to an error return", 4)
	c13PostTable(h)
	if fn := h.fn("R2", fcPkg, "Handler.ServeHTTP"); fn != nil {
		n := 0
		allInstrs(fn, func(in ssa.Instruction) {
			c := callOf(in)
			if c == nil || c.IsInvoke() {
				return
			}
			name := calleeName(c)
			idx := -1
			switch {
			case strings.HasSuffix(name, "fastcgi.FCGIClient).Post"):
				idx = 4
			case strings.HasSuffix(name, "fastcgi.FCGIClient).Get"):
				idx = 2
			default:
				return
			}
			n++
			arg := c.Args[idx]
			if ci, ok := arg.(*ssa.ChangeInterface); ok {
				arg = ci.X
			}
			if mi, ok := arg.(*ssa.MakeInterface); ok {
				arg = mi.X
			}
			pth, root := fieldPath(arg)
			_, isParam := paramRoot(root)
			_, isLoad := arg.(*ssa.UnOp)
			r.Check(isLoad && pth == "Body" && isParam, "R2", "fastcgi.Handler.ServeHTTP/body-arg:"+lastSeg(name), in.Pos(), "the responder's stdin is fed from the request body whatever its announced length (chunked bodies have none)", describe(arg))
		})
		if n < 2 {
			r.Unresolve("R2", "Handler.ServeHTTP: Get/Post calls not found")
		}
	}
	if do := h.fn("R2", fcPkg, "(*FCGIClient).Do"); do != nil {
		chk := func(call ssa.Instruction, label string) {
			v, _ := call.(ssa.Value)
			var errV ssa.Value
			if v != nil {
				if tup, ok := v.Type().(*types.Tuple); ok {
					for _, ref := range *v.Referrers() {
						if ex, ok := ref.(*ssa.Extract); ok && ex.Index == tup.Len()-1 {
							errV = ex
						}
					}
				} else {
					errV = v
				}
			}
			ok := false
			if errV != nil {
				ne := nilEdges(do, false, func(x ssa.Value) bool {
					return x == errV || derives(x, func(y ssa.Value) bool { return y == errV }, flowOpts{})
				})
				for e := range ne {
					s := e.From.Succs[e.Idx]
					if rt, isR := lastInstr(s).(*ssa.Return); isR {
						res := retResults(rt)
						if c, isC := res[len(res)-1].(*ssa.Const); !isC || c.Value != nil {
							ok = true
						}
					}
				}
			}
			r.Check(ok, "R2", "fastcgi.(*FCGIClient).Do/"+label, call.Pos(), "a failure here is reported to the caller instead of letting a truncated body pass as complete")
		}
		nCopy, nClose := 0, 0
		allInstrs(do, func(in ssa.Instruction) {
			c := callOf(in)
			if c == nil {
				return
			}
			if _, isDefer := in.(*ssa.Defer); isDefer {
				return
			}
			if calleeName(c) == "io.Copy" {
				nCopy++
				chk(in, "io.Copy-error-propagated")
			}
			if f := c.StaticCallee(); f != nil && f.Name() == "Close" && strings.Contains(funcName(f), "bufWriter") {
				nClose++
				chk(in, "stdin-close-error-propagated")
			}
		})
		if nCopy == 0 || nClose == 0 {
			r.Unresolve("R2", "FCGIClient.Do: io.Copy / bufWriter.Close not found")
		}
	}
}

func c13R4(h H) {
	r := h.r
	r.Rule("R4", "stderr never reaches the client: the demultiplexer as a decision table (E10) — streamReader.Read against scripted record sequences (six hand-picked scripts x read sizes 1, 2, 4; thorough tier: every sequence of up to three records, each stdout or stderr with 0-3 payload bytes, x read sizes 1-5) hands the reader exactly the stdout payloads in order and the error buffer exactly the stderr payloads; structurally, in streamReader.Read a record whose Type == Stderr is written to the client's stderr buffer and control returns to reading the next record without assigning it to the stdout buffer; in Handler.ServeHTTP the stderr buffer's content flows only into LogError", 2)
	// the demultiplexer as a decision table (E10): the record source is an oracle that yields a scripted sequence of
	// stdout/stderr records (or an error); stdout payload bytes are 1,2,3…, stderr payload bytes 101,102,…
	if fn := h.fn("R4", fcPkg, "(*streamReader).Read"); fn != nil {
		rdT := fn.Params[0].Type().(*types.Pointer).Elem()
		type rec struct {
			stderr bool
			n      int
		}
		scripts := [][]rec{
			{{false, 2}},
			{{true, 2}, {false, 2}},
			{{true, 1}, {true, 2}, {false, 3}},
			{{false, 0}},
			{{true, 2}},             // then the stream ends with an error
			{{true, 1}, {false, 1}}, // small reads
		}
		plens := []int{1, 2, 4}
		if theTier == "thorough" {
			// every script of up to three records, each stdout or stderr with 0-3 payload bytes; read sizes 1-5
			scripts = nil
			var kinds []rec
			for _, e := range []bool{false, true} {
				for n := 0; n <= 3; n++ {
					kinds = append(kinds, rec{e, n})
				}
			}
			for _, a := range kinds {
				scripts = append(scripts, []rec{a})
				for _, b := range kinds {
					scripts = append(scripts, []rec{a, b})
					for _, c := range kinds {
						scripts = append(scripts, []rec{a, b, c})
					}
				}
			}
			plens = []int{1, 2, 3, 4, 5}
		}
		bad, nrun := "", 0
		for si, script := range scripts {
			for _, plen := range plens {
				pos := 0
				var errBytes []int64
				streamErr := aptr{&aobj{name: "err:eof", typ: types.Typ[types.Int], f: map[string]aval{}}, ""}
				nextOut, nextErr := int64(1), int64(101)
				var wantOut, wantErr []int64
				env := &absEnv{globals: map[string]*aobj{}, noFork: true, maxSteps: 50000}
				env.ext = func(callee string, args []aval) (aval, bool) {
					switch {
					case strings.HasSuffix(callee, "fastcgi.record).read"):
						if pos >= len(script) {
							return atuple{anil{}, streamErr}, true
						}
						rc := script[pos]
						pos++
						var payload []aval
						for k := 0; k < rc.n; k++ {
							if rc.stderr {
								payload = append(payload, aint(nextErr))
								wantErr = append(wantErr, nextErr)
								nextErr++
							} else {
								payload = append(payload, aint(nextOut))
								wantOut = append(wantOut, nextOut)
								nextOut++
							}
						}
						if p, ok := args[0].(aptr); ok {
							ty := int64(6) // Stdout
							if rc.stderr {
								ty = 7
							}
							env.store(p.obj, "h.Type", aint(ty))
						}
						return atuple{newVals(payload, types.Typ[types.Uint8]), anil{}}, true
					case strings.HasSuffix(callee, "bytes.Buffer).Write"):
						if sl, ok := args[1].(avals); ok {
							for _, cl := range sl.cells {
								if v, ok := cl.f[""].(aint); ok {
									errBytes = append(errBytes, int64(v))
								}
							}
						}
						return atuple{aint(0), anil{}}, true
					}
					return nil, false
				}
				client := &aobj{name: "client", typ: types.Typ[types.Int], f: map[string]aval{}}
				if st, ok := underlying(rdT).(*types.Struct); ok {
					for k := 0; k < st.NumFields(); k++ {
						if p, ok := st.Field(k).Type().(*types.Pointer); ok {
							client.typ = p.Elem()
						}
					}
				}
				rd := &aobj{name: "reader", typ: rdT, f: map[string]aval{"c": aptr{client, ""}, "buf": anil{}}}
				var gotOut []int64
				desc := fmt.Sprintf("script %d (%v), reads of %d bytes", si, script, plen)
				for call := 0; call < 64 && bad == ""; call++ {
					var cells []aval
					for k := 0; k < plen; k++ {
						cells = append(cells, aint(0))
					}
					p := newVals(cells, types.Typ[types.Uint8])
					res, und := env.run(fn, []aval{aptr{rd, ""}, p})
					nrun++
					if und != "" {
						bad = desc + ": undecided — " + und
						break
					}
					tp, ok := res.(atuple)
					if !ok || len(tp) != 2 {
						bad = desc + ": unexpected result " + describeAval(res)
						break
					}
					if _, isNil := tp[1].(anil); !isNil {
						break // end of stream
					}
					n, _ := tp[0].(aint)
					for k := 0; k < int(n) && k < plen; k++ {
						if v, ok := p.cells[k].f[""].(aint); ok {
							gotOut = append(gotOut, int64(v))
						}
					}
					if n == 0 && pos >= len(script) {
						break
					}
				}
				if bad != "" {
					break
				}
				eq := func(a, b []int64) bool {
					if len(a) != len(b) {
						return false
					}
					for i := range a {
						if a[i] != b[i] {
							return false
						}
					}
					return true
				}
				if !eq(gotOut, wantOut) {
					bad = fmt.Sprintf("%s: the reader of the response receives bytes %v, the responder's stdout was %v", desc, gotOut, wantOut)
				} else if !eq(errBytes, wantErr) {
					bad = fmt.Sprintf("%s: the error buffer receives bytes %v, the responder's stderr was %v", desc, errBytes, wantErr)
				}
			}
			if bad != "" {
				break
			}
		}
		r.Check(bad == "", "R4", "fastcgi.(*streamReader).Read/demultiplex-table", fn.Pos(),
			"for scripted sequences of stdout and stderr records and several read sizes, the reader of the response receives exactly the stdout payloads in order and the error buffer exactly the stderr payloads", fmt.Sprintf("%d evaluations", nrun), bad)
	}
	if sv := h.fn("R4", fcPkg, "Handler.ServeHTTP"); sv != nil {
		okFlow := true
		used := false
		allInstrs(sv, func(in ssa.Instruction) {
			c := callOf(in)
			if c == nil {
				return
			}
			for _, a := range c.Args {
				if readsFieldDeepCalls(a, "stderr") {
					n := calleeName(c)
					switch {
					case strings.HasSuffix(n, "bytes.Buffer).Len"), strings.HasSuffix(n, "bytes.Buffer).String"), n == "strings.TrimSuffix":
					case strings.HasSuffix(n, "fastcgi.LogError"):
						used = true
					default:
						if _, _, isW := clientWrite(in); isW {
							okFlow = false
						}
					}
				}
			}
			if w, _, isW := clientWrite(in); isW && readsFieldDeepCalls(w, "stderr") {
				okFlow = false
			}
		})
		// LogError is a conversion, not a call
		allInstrs(sv, func(in ssa.Instruction) {
			if cv, ok := in.(*ssa.ChangeType); ok && strings.HasSuffix(cv.Type().String(), "fastcgi.LogError") && readsFieldDeepCalls(cv.X, "stderr") {
				used = true
			}
			if cv, ok := in.(*ssa.Convert); ok && strings.HasSuffix(cv.Type().String(), "fastcgi.LogError") && readsFieldDeepCalls(cv.X, "stderr") {
				used = true
			}
		})
		r.Check(okFlow && used, "R4", "fastcgi.Handler.ServeHTTP/stderr-only-to-log-error", sv.Pos(), "what the responder wrote to stderr becomes the returned (logged) error and is not written to the client")
	}
}

func c13R5(h H) {
	r := h.r
	r.Rule("R5", "script files are never served as text: the strings.HasSuffix test on rule.Ext in Handler.ServeHTTP takes strings.ToLower of both operands; Rule.splitPos, as a table (E10), finds the split string in any letter case with CaseSensitivePath on and off", 2)
	if sv := h.fn("R5", fcPkg, "Handler.ServeHTTP"); sv != nil {
		n := 0
		allInstrs(sv, func(in ssa.Instruction) {
			c, ok := in.(*ssa.Call)
			if !ok || calleeName(&c.Call) != "strings.HasSuffix" || !readsFieldDeepCalls(c.Call.Args[1], "Ext") {
				return
			}
			n++
			low := func(v ssa.Value) bool { return isResultOf(v, 0, "strings.ToLower") }
			r.Check(low(c.Call.Args[0]) && low(c.Call.Args[1]), "R5", "fastcgi.Handler.ServeHTTP/extension-test-casefolded", in.Pos(), "a request for x.PHP is routed to the responder like x.php (otherwise the source would be served as a static file)")
		})
		if n == 0 {
			r.Fail("R5", "fastcgi.Handler.ServeHTTP/extension-test-casefolded", sv.Pos(), "no extension test against rule.Ext found")
		}
	}
	if sp := h.fn("R5", fcPkg, "Rule.splitPos"); sp != nil {
		// decided as a table (E10, concrete strings)
		type cs struct {
			path, split string
			sens        bool
			want        int64
		}
		bad, n := "", 0
		for _, c := range []cs{
			{"/a/index.php/info", ".php", false, 8}, {"/a/index.php/info", ".php", true, 8},
			// (the statement says "in any letter case", with no exception for CASE_SENSITIVE_PATH; until round 7 this
			// table expected -1 for the two case-sensitive rows — the code's own behaviour, not the property's)
			{"/App/Index.PHP/info", ".php", false, 10}, {"/App/Index.PHP/info", ".php", true, 10},
			{"/app/index.php", ".PHP", false, 10}, {"/app/index.php", ".PHP", true, 10},
			{"/app/static.txt", ".php", false, -1}, {"/x.php/y.php", ".php", false, 2},
		} {
			n++
			recv := astruct{map[string]aval{"SplitPath": astr(c.split)}}
			env := &absEnv{noFork: true, maxSteps: 20000, globals: map[string]*aobj{"CaseSensitivePath": {name: "CaseSensitivePath", typ: types.Typ[types.Bool], f: map[string]aval{"": abool(c.sens)}}}}
			res, und := env.run(sp, []aval{recv, astr(c.path)})
			if got, ok := res.(aint); und != "" || !ok || int64(got) != c.want {
				bad = sprintf("splitPos(%q) with split string %q and CaseSensitivePath=%v is %s, specification says %d %s", c.path, c.split, c.sens, describeAval(res), c.want, und)
				break
			}
		}
		r.Check(bad == "", "R5", "fastcgi.Rule.splitPos/casefolded", sp.Pos(), "the split string is found regardless of letter case, whatever CaseSensitivePath says (a script that cannot be split falls through to the file server)", sprintf("%d cases evaluated", n), bad)
	}
}

// c13R6: the record reader stays in step with the record stream.  A necessary condition of "responses are
// demultiplexed intact under every framing": whenever read() reports success it has consumed exactly one record —
// the 8-byte header and contentLength+paddingLength bytes after it.  Returning success (a nil error) without
// having read the payload-and-padding leaves the padding (or payload) in the stream, where it is taken for the
// next record's header.
func c13R6(h H) {
	r := h.r
	r.Rule("R6", "record framing as a decision table (E10): record.read is evaluated against a modelled byte source for every header with version {1,2}, type {stdout, stderr, end-request}, content length {0, 2, 5, 65535} and padding {0, 3, 255} (thorough tier: 16 content lengths around 0, 255/256, 32767/32768, 65280 and 65535 x 9 paddings), with the payload read succeeding or failing; on success it must have consumed exactly the 8-byte header and contentLength+paddingLength further bytes (computed without 16-bit wrap-around) and hand back exactly the first contentLength payload bytes; a wrong version and a failing read are errors, end-request is end of stream", 1)
	fn := h.fn("R6", fcPkg, "(*record).read")
	if fn == nil {
		return
	}
	recT := fn.Params[0].Type().(*types.Pointer).Elem()
	bad, nrun := "", 0
	for _, version := range []int64{1, 2} {
		for _, typ := range []int64{6, 7, 3} {
			cls, pls := []int64{0, 2, 5, 65535}, []int64{0, 3, 255}
			if theTier == "thorough" {
				cls, pls = []int64{0, 1, 2, 5, 7, 8, 255, 256, 257, 32767, 32768, 65279, 65280, 65281, 65534, 65535}, []int64{0, 1, 3, 7, 8, 127, 128, 254, 255}
			}
			for _, cl := range cls {
				for _, pl := range pls {
					for _, fail := range []bool{false, true} {
						if bad != "" {
							continue
						}
						asked := int64(0)
						reads := 0
						hdrReads := 0
						readErr := aptr{&aobj{name: "err:short read", typ: types.Typ[types.Int], f: map[string]aval{}}, ""}
						env := &absEnv{globals: map[string]*aobj{}, noFork: true, maxSteps: 2000000}
						env.ext = func(callee string, args []aval) (aval, bool) {
							switch callee {
							case "encoding/binary.Read":
								hdrReads++
								dst := args[2]
								if ifc, ok := dst.(aiface); ok {
									dst = ifc.val
								}
								if p, ok := dst.(aptr); ok {
									pre := p.path
									env.store(p.obj, joinPath(pre, "Version"), aint(version))
									env.store(p.obj, joinPath(pre, "Type"), aint(typ))
									env.store(p.obj, joinPath(pre, "ContentLength"), aint(cl))
									env.store(p.obj, joinPath(pre, "PaddingLength"), aint(pl))
								}
								return anil{}, true
							case "io.ReadFull":
								reads++
								sl, ok := args[1].(avals)
								if _, isNil := args[1].(anil); isNil {
									ok = true // a nil slice: nothing to read
								}
								if !ok {
									return aunk{"ReadFull into " + describeAval(args[1])}, true
								}
								if fail {
									return atuple{aint(0), readErr}, true
								}
								for k, cell := range sl.cells {
									env.store(cell, "", aint((asked+int64(k))%251+1))
								}
								asked += int64(len(sl.cells))
								return atuple{aint(len(sl.cells)), anil{}}, true
							}
							return nil, false
						}
						rec := &aobj{name: "record", typ: recT, f: map[string]aval{}}
						res, und := env.run(fn, []aval{aptr{rec, ""}, aiface{aptr{&aobj{name: "conn", typ: types.Typ[types.Int], f: map[string]aval{}}, ""}, types.Typ[types.Int]}})
						nrun++
						desc := fmt.Sprintf("version=%d type=%d contentLength=%d paddingLength=%d payload read fails=%v", version, typ, cl, pl, fail)
						if und != "" {
							bad = desc + ": undecided — " + und
							continue
						}
						tp, ok := res.(atuple)
						if !ok || len(tp) != 2 {
							bad = desc + ": unexpected result " + describeAval(res)
							continue
						}
						_, errNil := tp[1].(anil)
						switch {
						case hdrReads != 1:
							bad = fmt.Sprintf("%s: the header is read %d times", desc, hdrReads)
						case version != 1 || typ == 3:
							if errNil {
								bad = desc + ": reports success for a record that is an error / the end of the stream"
							}
						case fail:
							if errNil {
								bad = desc + ": a failed payload read is reported as success"
							}
						default:
							if !errNil {
								bad = desc + ": reports an error for a well-formed record: " + describeAval(tp[1])
								break
							}
							if asked != cl+pl {
								bad = fmt.Sprintf("%s: consumes %d bytes after the header, the record has contentLength+paddingLength = %d", desc, asked, cl+pl)
								break
							}
							buf, ok := tp[0].(avals)
							if _, isNil := tp[0].(anil); isNil && cl == 0 {
								ok = true
							}
							if !ok || int64(len(buf.cells)) != cl {
								bad = fmt.Sprintf("%s: hands back %s, want the %d content bytes", desc, describeAval(tp[0]), cl)
								break
							}
							for k, cell := range buf.cells {
								if v, ok := cell.f[""].(aint); !ok || int64(v) != int64(k)%251+1 {
									bad = fmt.Sprintf("%s: content byte %d is not the %d-th payload byte read", desc, k, k)
									break
								}
							}
						}
					}
				}
			}
		}
	}
	r.Check(bad == "", "R6", "fastcgi.(*record).read/table", fn.Pos(),
		"the record reader stays in step with the record stream: success means the whole record (content and padding) was consumed and exactly its content is returned", fmt.Sprintf("%d evaluations", nrun), bad)
}

func isZero(v ssa.Value) bool {
	c, ok := constInt(v)
	return ok && c == 0
}

// c13PostTable: the body reader reaches the request writer unwrapped.  ServeHTTP passes 0 as the length when the
// client did not declare one (chunked bodies): anything that limits the reader to the announced length sends such a
// body as zero bytes.
func c13PostTable(h H) {
	r := h.r
	fn := h.fn("R2", fcPkg, "(*FCGIClient).Post")
	if fn == nil {
		return
	}
	mapT, _ := underlying(fn.Params[1].Type()).(*types.Map)
	bad, n := "", 0
	for _, l := range []int64{0, 5, 70000} {
		n++
		body := &aobj{name: "request body", typ: types.Typ[types.Int], f: map[string]aval{}}
		var got aval
		var params amap
		env := &absEnv{noFork: true, maxSteps: 100000, globals: map[string]*aobj{}}
		env.ext = func(callee string, args []aval) (aval, bool) {
			if strings.HasSuffix(callee, "FCGIClient).Request") {
				if m, ok := args[1].(amap); ok {
					params = m
				}
				got = args[2]
				return atuple{anil{}, anil{}}, true
			}
			if callee == "strconv.FormatInt" {
				if v, ok := args[0].(aint); ok {
					return astr(sprintf("%d", int64(v))), true
				}
			}
			return nil, false
		}
		client := &aobj{name: "client", typ: fn.Params[0].Type().(*types.Pointer).Elem(), f: map[string]aval{}}
		client.in = func(o *aobj, path string, t types.Type) aval { return aunk{"client field " + path} }
		p := amap{&amapData{vals: map[string]aval{}, keys: map[string]aval{}, typ: mapT}}
		_, und := env.run(fn, []aval{aptr{client, ""}, p, astr("PUT"), astr("text/plain"), aiface{aptr{body, ""}, types.Typ[types.Int]}, aint(l)})
		desc := sprintf("Post with length %d", l)
		if und != "" {
			bad = desc + ": undecided — " + und
			break
		}
		rd := ifaceVal(got)
		if pp, ok := rd.(aptr); !ok || pp.obj != body {
			bad = sprintf("%s: the reader handed to Request is %s, not the request body itself (with length 0 meaning unknown, a length-limited wrapper sends a chunked body as no bytes at all)", desc, describeAval(got))
			break
		}
		if params.m != nil {
			if cl, _ := params.m.vals["s:CONTENT_LENGTH"].(astr); string(cl) != sprintf("%d", l) {
				bad = sprintf("%s: CONTENT_LENGTH is announced as %s", desc, describeAval(params.m.vals["s:CONTENT_LENGTH"]))
				break
			}
		}
	}
	r.Check(bad == "", "R2", "fastcgi.(*FCGIClient).Post/body-reader-handed-on", fn.Pos(), "the responder's stdin is fed from the request body itself, whatever length was announced", sprintf("%d cases evaluated", n), bad)
}

package main

import (
	"go/constant"
	"go/token"
	"go/types"
	"strings"

	"golang.org/x/tools/go/ssa"
)

func init() {
	register("C13", &propSpec{
		technique: "static analysis: protocol constant/struct-layout tables via go/types, arithmetic-width rule on record lengths, error-discipline on the body path, value-flow isolation of stderr, case-fold flow of the extension test",
		run:       runC13,
		decided: "R1 the record-type, role and header-layout constants equal the FastCGI specification, record payloads are capped at ≤ 65535, name-value lengths switch to the 4-byte form above 127 with bit 31 set, padding is -n&7, and record lengths are summed in int (no uint16 wrap); " +
			"R2 the request body handed to the client is the request's Body itself, unconditionally, and errors from copying it to the responder or closing the stdin stream are propagated; " +
			"R4 stderr records go to the client's stderr buffer and are never assigned to the stdout read buffer, and that buffer reaches only the returned log error; " +
			"R5 the extension test that routes a request to the responder lower-cases both sides, and the split position folds case unless CaseSensitivePath; " +
			"R6 the record reader reports success only after consuming the record's content and padding together and hands back exactly buffer[:contentLength]; R3 (bounds obligations of the client code) is decided under C19.",
		notDecided: "byte equality of params/body for all sizes (arithmetic of the flush thresholds); demultiplexing under arbitrary framings.",
	})
}

const fcPkg = "caskethttp/fastcgi"

func runC13(r *Report, p *Program) {
	h := H{r, p}
	c13R1(h)
	c13R2(h)
	c13R4(h)
	c13R5(h)
	c13R6(h)
}

func (p *Program) constInt(rel, name string) (int64, bool) {
	pk := p.ByPath[modPath+"/"+rel]
	if pk == nil {
		return 0, false
	}
	c, ok := pk.Types.Scope().Lookup(name).(*types.Const)
	if !ok || c.Val().Kind() != constant.Int {
		return 0, false
	}
	return constant.Int64Val(c.Val())
}

func c13R1(h H) {
	r := h.r
	r.Rule("R1", "wire tables: BeginRequest…UnknownType = 1…11 and Responder = 1 (constants via go/types); the header struct is Version,Type uint8; ID,ContentLength uint16; PaddingLength,Reserved uint8 in that order; maxWrite ≤ 65535; encodeSize compares with 127 and sets bit 31; header.init pads to -n&7; every addition involving ContentLength/PaddingLength is carried out in int", 16)
	want := []struct {
		n string
		v int64
	}{{"BeginRequest", 1}, {"AbortRequest", 2}, {"EndRequest", 3}, {"Params", 4}, {"Stdin", 5}, {"Stdout", 6}, {"Stderr", 7}, {"Data", 8}, {"GetValues", 9}, {"GetValuesResult", 10}, {"UnknownType", 11}, {"Responder", 1}}
	pk := h.p.ByPath[modPath+"/"+fcPkg]
	if pk == nil {
		r.Unresolve("R1", "package fastcgi not loaded")
		return
	}
	for _, w := range want {
		v, ok := h.p.constInt(fcPkg, w.n)
		pos := token.NoPos
		if o := pk.Types.Scope().Lookup(w.n); o != nil {
			pos = o.Pos()
		}
		r.Check(ok && v == w.v, "R1", "fastcgi.const:"+w.n, pos, sprintf("%s = %d as in the FastCGI specification", w.n, w.v), sprintf("%d", v))
	}
	if mw, ok := h.p.constInt(fcPkg, "maxWrite"); ok {
		r.Check(mw > 0 && mw <= 65535, "R1", "fastcgi.const:maxWrite", pk.Types.Scope().Lookup("maxWrite").Pos(), "a record's content length fits the 16-bit length field", sprintf("%d", mw))
	} else {
		r.Unresolve("R1", "constant maxWrite not found")
	}
	if tn, ok := pk.Types.Scope().Lookup("header").(*types.TypeName); ok {
		st, _ := tn.Type().Underlying().(*types.Struct)
		layout := ""
		if st != nil {
			for i := 0; i < st.NumFields(); i++ {
				layout += st.Field(i).Name() + ":" + st.Field(i).Type().String() + ";"
			}
		}
		r.Check(layout == "Version:uint8;Type:uint8;ID:uint16;ContentLength:uint16;PaddingLength:uint8;Reserved:uint8;", "R1", "fastcgi.header/layout", tn.Pos(), "the 8-byte record header has the protocol's fields, widths and order (it is written with binary.Write)", layout)
	} else {
		r.Unresolve("R1", "type header not found")
	}
	if es := h.fn("R1", fcPkg, "encodeSize"); es != nil {
		// the 4-byte form (high bit set) is produced exactly for sizes >= 128, the 1-byte form exactly for sizes <= 127
		thr, bit := true, false
		isSize := func(v ssa.Value) bool { _, ok := v.(*ssa.Parameter); return ok }
		allInstrs(es, func(in ssa.Instruction) {
			if b, ok := in.(*ssa.BinOp); ok && b.Op == token.OR {
				if c, ok := constInt(b.Y); ok && c == 1<<31 {
					bit = true
					thr = thr && guardsImplyAtLeast(guardAtoms(es, nil, in), isSize, 128)
				}
			}
			if rt, ok := in.(*ssa.Return); ok && len(rt.Results) == 1 {
				switch n, _ := constInt(rt.Results[0]); n {
				case 4:
					thr = thr && guardsImplyAtLeast(guardAtoms(es, nil, in), isSize, 128)
				case 1:
					thr = thr && guardsImplyAtMost(guardAtoms(es, nil, in), isSize, 127)
				default:
					thr = false
				}
			}
		})
		r.Check(thr && bit, "R1", "fastcgi.encodeSize/length-forms", es.Pos(), "lengths above 127 use the 4-byte form with the high bit set")
	}
	if hi := h.fn("R1", fcPkg, "(*header).init"); hi != nil {
		pad := false
		allInstrs(hi, func(in ssa.Instruction) {
			if b, ok := in.(*ssa.BinOp); ok && b.Op == token.AND {
				if c, ok := constInt(b.Y); ok && c == 7 {
					if u, ok := b.X.(*ssa.UnOp); ok && u.Op == token.SUB {
						pad = true
					}
				}
			}
		})
		r.Check(pad, "R1", "fastcgi.(*header).init/padding", hi.Pos(), "records are padded to a multiple of 8 bytes (-n & 7)")
	}
	// width rule
	n := 0
	for _, fn := range h.p.PkgFuncs(fcPkg) {
		allInstrs(fn, func(in ssa.Instruction) {
			b, ok := in.(*ssa.BinOp)
			if !ok || b.Op != token.ADD {
				return
			}
			inv := func(v ssa.Value) bool {
				return derives(v, func(x ssa.Value) bool { return readsField(x, "ContentLength") || readsField(x, "PaddingLength") }, flowOpts{})
			}
			if !inv(b.X) && !inv(b.Y) {
				return
			}
			n++
			bt, _ := b.Type().Underlying().(*types.Basic)
			wide := bt != nil && (bt.Kind() == types.Int || bt.Kind() == types.Int64 || bt.Kind() == types.Int32 || bt.Kind() == types.Uint32 || bt.Kind() == types.Uint64 || bt.Kind() == types.Uint)
			r.Check(wide, "R1", shortFunc(fn)+"/length-sum-width", b.Pos(), "content length + padding length is added in a type that cannot wrap at 65536", b.Type().String())
		})
	}
	if n == 0 {
		r.Unresolve("R1", "no addition over ContentLength/PaddingLength found in package fastcgi")
	}
}

func c13R2(h H) {
	r := h.r
	r.Rule("R2", "body path: Handler.ServeHTTP passes the request's own Body (a direct load of r.Body, not a φ with nil) to FCGIClient.Get/Post; in FCGIClient.Do the error results of io.Copy(body, req) and of closing the stdin stream are each tested and lead to an error return", 4)
	if fn := h.fn("R2", fcPkg, "Handler.ServeHTTP"); fn != nil {
		n := 0
		allInstrs(fn, func(in ssa.Instruction) {
			c := callOf(in)
			if c == nil || c.IsInvoke() {
				return
			}
			name := calleeName(c)
			idx := -1
			switch {
			case strings.HasSuffix(name, "fastcgi.FCGIClient).Post"):
				idx = 4
			case strings.HasSuffix(name, "fastcgi.FCGIClient).Get"):
				idx = 2
			default:
				return
			}
			n++
			arg := c.Args[idx]
			if ci, ok := arg.(*ssa.ChangeInterface); ok {
				arg = ci.X
			}
			if mi, ok := arg.(*ssa.MakeInterface); ok {
				arg = mi.X
			}
			pth, root := fieldPath(arg)
			_, isParam := paramRoot(root)
			_, isLoad := arg.(*ssa.UnOp)
			r.Check(isLoad && pth == "Body" && isParam, "R2", "fastcgi.Handler.ServeHTTP/body-arg:"+lastSeg(name), in.Pos(), "the responder's stdin is fed from the request body whatever its announced length (chunked bodies have none)", describe(arg))
		})
		if n < 2 {
			r.Unresolve("R2", "Handler.ServeHTTP: Get/Post calls not found")
		}
	}
	if do := h.fn("R2", fcPkg, "(*FCGIClient).Do"); do != nil {
		chk := func(call ssa.Instruction, label string) {
			v, _ := call.(ssa.Value)
			var errV ssa.Value
			if v != nil {
				if tup, ok := v.Type().(*types.Tuple); ok {
					for _, ref := range *v.Referrers() {
						if ex, ok := ref.(*ssa.Extract); ok && ex.Index == tup.Len()-1 {
							errV = ex
						}
					}
				} else {
					errV = v
				}
			}
			ok := false
			if errV != nil {
				ne := nilEdges(do, false, func(x ssa.Value) bool { return x == errV || derives(x, func(y ssa.Value) bool { return y == errV }, flowOpts{}) })
				for e := range ne {
					s := e.From.Succs[e.Idx]
					if rt, isR := lastInstr(s).(*ssa.Return); isR {
						res := retResults(rt)
						if c, isC := res[len(res)-1].(*ssa.Const); !isC || c.Value != nil {
							ok = true
						}
					}
				}
			}
			r.Check(ok, "R2", "fastcgi.(*FCGIClient).Do/"+label, call.Pos(), "a failure here is reported to the caller instead of letting a truncated body pass as complete")
		}
		nCopy, nClose := 0, 0
		allInstrs(do, func(in ssa.Instruction) {
			c := callOf(in)
			if c == nil {
				return
			}
			if _, isDefer := in.(*ssa.Defer); isDefer {
				return
			}
			if calleeName(c) == "io.Copy" {
				nCopy++
				chk(in, "io.Copy-error-propagated")
			}
			if f := c.StaticCallee(); f != nil && f.Name() == "Close" && strings.Contains(funcName(f), "bufWriter") {
				nClose++
				chk(in, "stdin-close-error-propagated")
			}
		})
		if nCopy == 0 || nClose == 0 {
			r.Unresolve("R2", "FCGIClient.Do: io.Copy / bufWriter.Close not found")
		}
	}
}

func c13R4(h H) {
	r := h.r
	r.Rule("R4", "stderr never reaches the client: in streamReader.Read a record whose Type == Stderr is written to the client's stderr buffer and control returns to reading the next record without assigning it to the stdout buffer; in Handler.ServeHTTP the stderr buffer's content flows only into LogError", 2)
	if fn := h.fn("R4", fcPkg, "(*streamReader).Read"); fn != nil {
		se := map[edge]bool{}
		for _, i := range ifs(fn) {
			v, flip := stripNot(i.Cond)
			b, ok := v.(*ssa.BinOp)
			if !ok || (b.Op != token.EQL && b.Op != token.NEQ) {
				continue
			}
			// the outcome on which the record IS a stderr record, whichever way the test is written
			if c, okc := constInt(b.Y); okc && c == 7 && readsField(b.X, "Type") {
				se[condEdge{i, (b.Op == token.EQL) != flip}.edge()] = true
			}
		}
		okAll := len(se) > 0
		for e := range se {
			s := e.From.Succs[e.Idx]
			f := firstInstr(s)
			wrote := false
			leaked := false
			visit := func(in ssa.Instruction) bool {
				if c := callOf(in); c != nil && strings.HasSuffix(calleeName(c), "bytes.Buffer).Write") && readsFieldDeep(c.Args[0], "stderr") {
					wrote = true
				}
				if st, ok := in.(*ssa.Store); ok {
					if fa, ok := st.Addr.(*ssa.FieldAddr); ok && fieldName(fa.X.Type(), fa.Field) == "buf" {
						leaked = true
					}
				}
				return true
			}
			if f != nil && visit(f) {
				// stop at the next record read
				reach(fn, f, cut{instr: func(in ssa.Instruction) bool {
					c := callOf(in)
					return c != nil && strings.HasSuffix(calleeName(c), "fastcgi.record).read")
				}}, visit)
			}
			if !wrote || leaked {
				okAll = false
			}
		}
		r.Check(okAll, "R4", "fastcgi.(*streamReader).Read/stderr-diverted", fn.Pos(), "stderr records are appended to the error buffer and never handed to the reader of the response")
	}
	if sv := h.fn("R4", fcPkg, "Handler.ServeHTTP"); sv != nil {
		okFlow := true
		used := false
		allInstrs(sv, func(in ssa.Instruction) {
			c := callOf(in)
			if c == nil {
				return
			}
			for _, a := range c.Args {
				if readsFieldDeepCalls(a, "stderr") {
					n := calleeName(c)
					switch {
					case strings.HasSuffix(n, "bytes.Buffer).Len"), strings.HasSuffix(n, "bytes.Buffer).String"), n == "strings.TrimSuffix":
					case strings.HasSuffix(n, "fastcgi.LogError"):
						used = true
					default:
						if _, _, isW := clientWrite(in); isW {
							okFlow = false
						}
					}
				}
			}
			if w, _, isW := clientWrite(in); isW && readsFieldDeepCalls(w, "stderr") {
				okFlow = false
			}
		})
		// LogError is a conversion, not a call
		allInstrs(sv, func(in ssa.Instruction) {
			if cv, ok := in.(*ssa.ChangeType); ok && strings.HasSuffix(cv.Type().String(), "fastcgi.LogError") && readsFieldDeepCalls(cv.X, "stderr") {
				used = true
			}
			if cv, ok := in.(*ssa.Convert); ok && strings.HasSuffix(cv.Type().String(), "fastcgi.LogError") && readsFieldDeepCalls(cv.X, "stderr") {
				used = true
			}
		})
		r.Check(okFlow && used, "R4", "fastcgi.Handler.ServeHTTP/stderr-only-to-log-error", sv.Pos(), "what the responder wrote to stderr becomes the returned (logged) error and is not written to the client")
	}
}

func c13R5(h H) {
	r := h.r
	r.Rule("R5", "script files are never served as text: the strings.HasSuffix test on rule.Ext in Handler.ServeHTTP takes strings.ToLower of both operands; Rule.splitPos lower-cases both operands of strings.Index outside the CaseSensitivePath branch", 2)
	if sv := h.fn("R5", fcPkg, "Handler.ServeHTTP"); sv != nil {
		n := 0
		allInstrs(sv, func(in ssa.Instruction) {
			c, ok := in.(*ssa.Call)
			if !ok || calleeName(&c.Call) != "strings.HasSuffix" || !readsFieldDeepCalls(c.Call.Args[1], "Ext") {
				return
			}
			n++
			low := func(v ssa.Value) bool { return isResultOf(v, 0, "strings.ToLower") }
			r.Check(low(c.Call.Args[0]) && low(c.Call.Args[1]), "R5", "fastcgi.Handler.ServeHTTP/extension-test-casefolded", in.Pos(), "a request for x.PHP is routed to the responder like x.php (otherwise the source would be served as a static file)")
		})
		if n == 0 {
			r.Fail("R5", "fastcgi.Handler.ServeHTTP/extension-test-casefolded", sv.Pos(), "no extension test against rule.Ext found")
		}
	}
	if sp := h.fn("R5", fcPkg, "Rule.splitPos"); sp != nil {
		cs := guardEdges(sp, true, func(v ssa.Value) bool { return isGlobalLoad(v, "CaseSensitivePath") })
		okAll, n := true, 0
		allInstrs(sp, func(in ssa.Instruction) {
			c, ok := in.(*ssa.Call)
			if !ok || calleeName(&c.Call) != "strings.Index" {
				return
			}
			n++
			if len(cs) > 0 && onlyVia(sp, in, cs) {
				return
			}
			low := func(v ssa.Value) bool { return isResultOf(v, 0, "strings.ToLower") }
			if !(low(c.Call.Args[0]) && low(c.Call.Args[1])) {
				okAll = false
			}
		})
		r.Check(okAll && n > 0, "R5", "fastcgi.Rule.splitPos/casefolded", sp.Pos(), "the split string is found regardless of letter case unless paths are case sensitive")
	}
}

// c13R6: the record reader stays in step with the record stream.  A necessary condition of "responses are
// demultiplexed intact under every framing": whenever read() reports success it has consumed exactly one record —
// the 8-byte header and contentLength+paddingLength bytes after it.  Returning success (a nil error) without
// having read the payload-and-padding leaves the padding (or payload) in the stream, where it is taken for the
// next record's header.
func c13R6(h H) {
	r := h.r
	r.Rule("R6", "record framing: in record.read every return whose error can be nil lies behind the io.ReadFull that consumes contentLength+paddingLength bytes (both fields enter the slice bound), the header is read by binary.Read into the record's own header before that, and the content handed back is a slice of the buffer just filled, bounded by contentLength", 3)
	fn := h.fn("R6", fcPkg, "(*record).read")
	if fn == nil {
		return
	}
	isCL := func(v ssa.Value) bool { return readsField(v, "ContentLength") }
	isPL := func(v ssa.Value) bool { return readsField(v, "PaddingLength") }
	var payload []ssa.Instruction
	allInstrs(fn, func(in ssa.Instruction) {
		c := callOf(in)
		if c == nil || calleeName(c) != "io.ReadFull" {
			return
		}
		sl, ok := c.Args[1].(*ssa.Slice)
		if !ok || sl.High == nil {
			return
		}
		if derives(sl.High, isCL, flowOpts{}) && derives(sl.High, isPL, flowOpts{}) {
			payload = append(payload, in)
		}
	})
	if len(payload) == 0 {
		r.Check(false, "R6", "fastcgi.(*record).read/payload-read", fn.Pos(), "no io.ReadFull over contentLength+paddingLength bytes found: content and padding are not consumed together")
		return
	}
	r.Hold("R6", "fastcgi.(*record).read/payload-read", payload[0].Pos(), "content and padding are consumed by one io.ReadFull whose length is computed from both header fields")
	isPayload := func(in ssa.Instruction) bool {
		for _, p := range payload {
			if in == p {
				return true
			}
		}
		return false
	}
	nonNilErr := func(v ssa.Value, rt *ssa.Return) bool {
		if certainlyNonNil(v) {
			return true
		}
		if u, ok := v.(*ssa.UnOp); ok {
			if g, ok := u.X.(*ssa.Global); ok && g.Pkg != nil && !isModPkg(g.Pkg.Pkg.Path()) && types.Identical(g.Type().(*types.Pointer).Elem(), types.Universe.Lookup("error").Type()) {
				return true // a standard-library error sentinel such as io.EOF
			}
		}
		for _, g := range guardAtoms(fn, nil, rt) {
			if x, nilWhenTrue, ok := nilCmp(g.Cond); ok && x == v && g.Pos != nilWhenTrue {
				return true
			}
		}
		return false
	}
	n := 0
	for _, rt := range realReturns(fn) {
		res := retResults(rt)
		if len(res) != 2 {
			continue
		}
		mayBeNil := false
		for _, v := range valuesAt(fn, res[1], rt) {
			if !nonNilErr(v, rt) {
				mayBeNil = true
			}
		}
		if !mayBeNil {
			continue
		}
		n++
		r.Check(mustPass(fn, rt, isPayload), "R6", sprintf("fastcgi.(*record).read/success-return#%d", n), rt.Pos(),
			"a return that can report success has consumed the record's content and padding (otherwise the next header is read from the middle of this record)")
		// what is handed back is the filled buffer cut at contentLength
		okBuf := true
		var facts []string
		for _, v := range valuesAt(fn, res[0], rt) {
			facts = append(facts, describe(v))
			sl, ok := v.(*ssa.Slice)
			if !ok || sl.High == nil || !derives(sl.High, isCL, flowOpts{}) || derives(sl.High, isPL, flowOpts{}) || (sl.Low != nil && !isZero(sl.Low)) {
				okBuf = false
			}
		}
		r.Check(okBuf, "R6", sprintf("fastcgi.(*record).read/content-slice#%d", n), rt.Pos(), "the content returned is buffer[:contentLength] (padding excluded, nothing skipped)", facts...)
	}
	if n == 0 {
		r.Unresolve("R6", "record.read: no return that can report success")
	}
	// header first, into the record's own header
	hdr := findCalls(fn, func(in ssa.Instruction) bool {
		c := callOf(in)
		return c != nil && calleeName(c) == "encoding/binary.Read"
	})
	okHdr := len(hdr) > 0
	for _, p := range payload {
		okHdr = okHdr && mustPass(fn, p, func(in ssa.Instruction) bool {
			for _, x := range hdr {
				if in == x {
					return true
				}
			}
			return false
		})
	}
	r.Check(okHdr, "R6", "fastcgi.(*record).read/header-before-payload", fn.Pos(), "the fixed-size header is read (big-endian, binary.Read) before the payload whose length it announces")
}

func isZero(v ssa.Value) bool {
	c, ok := constInt(v)
	return ok && c == 0
}

package main

import (
	"fmt"
	"go/ast"
	"go/constant"
	"go/token"
	"go/types"
	"strings"

	"golang.org/x/tools/go/ssa"
)

func init() {
	register("C18", &propSpec{
		technique: "static analysis: table agreement between the file server's encodings and the gzip skip filter, must-pass ordering of header rewriting, who-may-set Content-Length, loop-carried-flag analysis of the sibling selection; decision tables of SkipCompressedFilter and of FileServer.serveFile's sibling selection (E10); gzip stream life cycle",
		run:       runC18,
		decided: "R1 every Content-Encoding the file server can emit for a precompressed sibling (and gzip itself) makes SkipCompressedFilter decline compression; " +
			"R2 the gzip writer deletes Content-Length and sets Content-Encoding before it commits the header, the filter writer consults every filter and decides before either underlying WriteHeader, writes go to the gzip stream exactly on the compress path, and nothing in package gzip ever sets Content-Length; " +
			"R3 gzip's setup always installs SkipCompressedFilter; " +
			"R4 the file server's decision table (serveFile against a modelled file system: hidden file, offered and explicitly refused (q=0) codings, existing and hidden siblings): exactly one file reaches ServeContent — the sibling of the first coding of the priority table that the client offers and does not refuse, that exists and is not hidden, labelled with that coding's name — or the file itself without Content-Encoding; " +
			"R5 the compressed stream is finished exactly once per response and the pooled compressor returned exactly once (no second release that would let two responses share one compressor). Since round 4: R2 the filter writer's Write as a table. R6 no response-writer type that declares Write inherits ReadFrom or WriteString from an embedded writer. Since round 5: R3 as a table of gzipParse (every directive text keeps SkipCompressedFilter). Since round 6: R2 the filter writer along WriteHeader/Write/Flush sequences: decided once, before the first commit, and kept. Since round 7: R1 any spelling of an existing coding (case, list, repeated line, unknown) is declined; R2 an informational header commits nothing and the compressor is attached once; R7 a client that does not offer gzip (absent, other codings, q=0) is handed the plain writer. Since round 8: R6 a writer that declares Flush does not inherit FlushError.",
		notDecided: "decoded-body equality; exact Content-Length values set by handlers.",
	})
}

const gzPkg = "caskethttp/gzip"

func runC18(r *Report, p *Program) {
	h := H{r, p}
	c18R1(h)
	c18R2(h)
	c18R3(h)
	c18R4(h)
	gzipStreamRule(h, "R5")
	bodyBypassRule(h, "R6", 3, nil)
	c18R7(h)
}

// firstFieldTable reads the first (string) field of each element of a package-level []struct literal.
func (p *Program) firstFieldTable(rel, name string) ([]string, token.Pos) {
	pk := p.ByPath[modPath+"/"+rel]
	if pk == nil {
		return nil, token.NoPos
	}
	for _, f := range pk.Syntax {
		for _, d := range f.Decls {
			gd, ok := d.(*ast.GenDecl)
			if !ok || gd.Tok != token.VAR {
				continue
			}
			for _, sp := range gd.Specs {
				vs := sp.(*ast.ValueSpec)
				for i, n := range vs.Names {
					if n.Name != name || i >= len(vs.Values) {
						continue
					}
					cl, ok := vs.Values[i].(*ast.CompositeLit)
					if !ok {
						return nil, n.Pos()
					}
					var out []string
					for _, e := range cl.Elts {
						el, ok := e.(*ast.CompositeLit)
						if !ok || len(el.Elts) == 0 {
							return nil, n.Pos()
						}
						first := el.Elts[0]
						if kv, ok := first.(*ast.KeyValueExpr); ok {
							// find the key named "name"
							first = nil
							for _, x := range el.Elts {
								if kv2, ok := x.(*ast.KeyValueExpr); ok {
									if id, ok := kv2.Key.(*ast.Ident); ok && id.Name == "name" {
										first = kv2.Value
									}
								}
							}
							_ = kv
							if first == nil {
								return nil, n.Pos()
							}
						}
						tv, ok := pk.TypesInfo.Types[first]
						if !ok || tv.Value == nil || tv.Value.Kind() != constant.String {
							return nil, n.Pos()
						}
						out = append(out, constant.StringVal(tv.Value))
					}
					return out, n.Pos()
				}
			}
		}
	}
	return nil, token.NoPos
}

func c18R1(h H) {
	r := h.r
	r.Rule("R1", "already-encoded table (E10): SkipCompressedFilter.ShouldCompress, evaluated on a response whose header carries each Content-Encoding the file server can emit (the names in staticfiles.staticEncodingPriority) or gzip, returns false; for a response without Content-Encoding it returns true; and a table of 13 spellings (other case, a list, a repeated line, codings the server does not know, identity)", 5)
	names, pos := h.p.firstFieldTable(sfPkg, "staticEncodingPriority")
	if len(names) == 0 {
		r.Unresolve("R1", "staticfiles.staticEncodingPriority not found as a literal table")
		return
	}
	fn := h.fn("R1", gzPkg, "SkipCompressedFilter.ShouldCompress")
	if fn == nil {
		return
	}
	// the filter as a decision table (E10): the response header carries one Content-Encoding value
	declined := map[string]bool{}
	undecided := map[string]string{}
	mapT, _ := types.Unalias(h.p.typeByName("net/http", "Header")).Underlying().(*types.Map)
	// spellings of "already has a coding" / "has none" (codings are case-insensitive tokens, the field is a comma list
	// and may be repeated; identity is the absence of a coding) — ⏎ separates header lines
	spelledCoded := []string{"GZIP", "Br", " gzip", "identity, br", "⏎zstd", "compress", "deflate", "x-gzip", "dcb", "gzip, gzip"}
	spelledPlain := []string{"identity", "Identity", " identity , identity"}
	all := append([]string{"gzip", ""}, names...)
	all = append(append(all, spelledCoded...), spelledPlain...)
	for _, enc := range all {
		enc := enc
		env := &absEnv{globals: map[string]*aobj{}, noFork: true, maxSteps: 20000}
		env.ext = func(callee string, args []aval) (aval, bool) {
			if callee == "invoke:Header" {
				m := amap{&amapData{vals: map[string]aval{}, keys: map[string]aval{}, typ: mapT}}
				if enc != "" {
					var lines []aval
					for _, l := range strings.Split(enc, "⏎") {
						lines = append(lines, astr(l))
					}
					m.m.vals["s:Content-Encoding"] = newVals(lines, types.Typ[types.String])
					m.m.keys["s:Content-Encoding"] = astr("Content-Encoding")
				}
				return m, true
			}
			return nil, false
		}
		res, und := env.run(fn, []aval{astruct{map[string]aval{}}, aiface{aptr{&aobj{name: "writer", typ: types.Typ[types.Int], f: map[string]aval{}}, ""}, types.Typ[types.Int]}})
		if b, ok := res.(abool); ok && und == "" {
			declined[enc] = !bool(b)
		} else {
			undecided[enc] = und + " " + describeAval(res)
		}
	}
	{
		bad := ""
		for _, enc := range spelledCoded {
			if undecided[enc] != "" {
				bad = fmt.Sprintf("Content-Encoding %q: undecided — %s", enc, undecided[enc])
			} else if !declined[enc] {
				bad = fmt.Sprintf("a response that already carries Content-Encoding %q is compressed again (the client would decode one layer and get compressed bytes)", strings.ReplaceAll(enc, "⏎", `" + "`))
			}
			if bad != "" {
				break
			}
		}
		for _, enc := range spelledPlain {
			if bad != "" {
				break
			}
			if undecided[enc] != "" {
				bad = fmt.Sprintf("Content-Encoding %q: undecided — %s", enc, undecided[enc])
			} else if declined[enc] {
				bad = fmt.Sprintf("a response labelled Content-Encoding %q (no coding applied) is refused compression", enc)
			}
		}
		r.Check(bad == "", "R1", "gzip.SkipCompressedFilter.ShouldCompress/any-spelling", pos, "whatever coding a response already names — any case, in a list, on a repeated line, known or not — it is not compressed again; identity is no coding", fmt.Sprintf("%d spellings", len(spelledCoded)+len(spelledPlain)), bad)
	}
	r.Check(!declined[""] && undecided[""] == "", "R1", "gzip.SkipCompressedFilter.ShouldCompress/compresses-unencoded", pos, "a response without Content-Encoding is eligible for compression", undecided[""])
	want := []string{"gzip"}
	for _, n := range names {
		if n != "gzip" {
			want = append(want, n)
		}
	}
	for _, n := range want {
		r.Check(declined[n], "R1", "gzip.SkipCompressedFilter.ShouldCompress/declines:"+n, pos, "a response already encoded with "+n+" is not gzipped again", undecided[n])
	}
}

func c18R2(h H) {
	r := h.r
	r.Rule("R2", "header rewriting: gzipResponseWriter.WriteHeader calls Del(\"Content-Length\") and Set(\"Content-Encoding\",\"gzip\") before the underlying WriteHeader; ResponseFilterWriter along WriteHeader/Write sequences (E10; two scripted filters, also a header written twice and early hints): the filters are consulted before the first commit, the header goes through the gzip writer exactly when all agree, and everything later takes the route the first header announced; ResponseFilterWriter.Write sends bytes to the gzip writer only on the shouldCompress edge and to the raw writer only on the other; no function of package gzip sets or adds Content-Length", 5)
	if fn := h.fn("R2", gzPkg, "(*gzipResponseWriter).WriteHeader"); fn != nil {
		var under []ssa.Instruction
		allInstrs(fn, func(in ssa.Instruction) {
			if c := callOf(in); c != nil {
				if c.IsInvoke() && c.Method.Name() == "WriteHeader" {
					under = append(under, in)
				} else if f := c.StaticCallee(); f != nil && f.Name() == "WriteHeader" && f != fn {
					under = append(under, in)
				}
			}
		})
		if len(under) == 0 {
			r.Unresolve("R2", "gzipResponseWriter.WriteHeader: underlying WriteHeader call not found")
		}
		isHdr := func(method, key, val string) func(ssa.Instruction) bool {
			return func(in ssa.Instruction) bool {
				c := callOf(in)
				if c == nil || calleeName(c) != "(net/http.Header)."+method {
					return false
				}
				if s, ok := constString(c.Args[1]); !ok || s != key {
					return false
				}
				if val != "" {
					if s, ok := constString(c.Args[2]); !ok || s != val {
						return false
					}
				}
				return true
			}
		}
		for _, u := range under {
			r.Check(mustPass(fn, u, isHdr("Del", "Content-Length", "")), "R2", "gzip.(*gzipResponseWriter).WriteHeader/del-content-length-first", u.Pos(), "the upstream Content-Length (length of the uncompressed body) is removed before the header is committed")
			r.Check(mustPass(fn, u, isHdr("Set", "Content-Encoding", "gzip")), "R2", "gzip.(*gzipResponseWriter).WriteHeader/content-encoding-first", u.Pos(), "Content-Encoding: gzip is set before the header is committed")
		}
	}
	if fn := h.fn("R2", gzPkg, "(*ResponseFilterWriter).WriteHeader"); fn != nil {
		// decided along call sequences (E10, c18FilterWriterTable): the filters are consulted before the first commit,
		// and what follows keeps the route the first header announced
		bad, n := c18FilterWriterTable(h)
		r.Check(bad == "", "R2", "gzip.(*ResponseFilterWriter).WriteHeader/decide-before-commit", fn.Pos(), "every response filter is consulted before the header is committed, and the decision taken then holds for the rest of the response", sprintf("%d call sequences evaluated", n), bad)
	}
	if fn := h.fn("R2", gzPkg, "(*ResponseFilterWriter).Write"); fn != nil {
		// decided as a table (E10): with the header written, the body goes to the gzip writer exactly when the
		// decision was "compress", and to the wrapped writer otherwise
		rfT := fn.Params[0].Type().(*types.Pointer).Elem()
		var gzT types.Type = types.Typ[types.Int]
		if st, ok := underlying(rfT).(*types.Struct); ok {
			for i := 0; i < st.NumFields(); i++ {
				if p, ok := st.Field(i).Type().(*types.Pointer); ok && strings.HasSuffix(p.Elem().String(), "gzipResponseWriter") {
					gzT = p.Elem()
				}
			}
		}
		var wrapT types.Type = types.Typ[types.Int]
		if st, ok := underlying(gzT).(*types.Struct); ok {
			for i := 0; i < st.NumFields(); i++ {
				if p, ok := st.Field(i).Type().(*types.Pointer); ok && strings.HasSuffix(p.Elem().String(), "ResponseWriterWrapper") {
					wrapT = p.Elem()
				}
			}
		}
		bad := ""
		for _, caseNo := range []int{0, 1, 2, 3} {
			compress, nbytes := caseNo%2 == 0, 1+2*(caseNo/2)
			raw := &aobj{name: "wrapped writer", typ: types.Typ[types.Int], f: map[string]aval{}}
			wrap := &aobj{name: "wrapper", typ: wrapT, f: map[string]aval{"ResponseWriter": aiface{aptr{raw, ""}, types.Typ[types.Int]}}}
			gz := &aobj{name: "gzip writer", typ: gzT, f: map[string]aval{"ResponseWriterWrapper": aptr{wrap, ""}, "statusCodeWritten": abool(true)}}
			gz.in = func(o *aobj, path string, t types.Type) aval { return aunk{"gzip writer field " + path} }
			rf := &aobj{name: "filter writer", typ: rfT, f: map[string]aval{"shouldCompress": abool(compress), "statusCodeWritten": abool(true), "gzipResponseWriter": aptr{gz, ""}}}
			rf.in = func(o *aobj, path string, t types.Type) aval { return aunk{"filter writer field " + path} }
			var went []string
			who := func(v aval) *aobj {
				if i, ok := v.(aiface); ok {
					v = i.val
				}
				if p, ok := v.(aptr); ok {
					return p.obj
				}
				return nil
			}
			env := &absEnv{noFork: true, maxSteps: 50000, globals: map[string]*aobj{}}
			env.ext = func(callee string, args []aval) (aval, bool) {
				switch {
				case strings.HasSuffix(callee, "gzipResponseWriter).Write"):
					went = append(went, "gzip")
					return atuple{aint(3), anil{}}, true
				case callee == "invoke:Write":
					switch who(args[0]) {
					case gz:
						went = append(went, "gzip")
					case raw:
						went = append(went, "raw")
					default:
						went = append(went, "elsewhere")
					}
					return atuple{aint(3), anil{}}, true
				case strings.HasSuffix(callee, "ResponseWriterWrapper).Write"):
					went = append(went, "raw")
					return atuple{aint(3), anil{}}, true
				}
				return nil, false
			}
			var bs []aval
			for k := 0; k < nbytes; k++ {
				bs = append(bs, aint(int64(k+1)))
			}
			buf := newVals(bs, types.Typ[types.Uint8])
			if _, und := env.run(fn, []aval{aptr{rf, ""}, buf}); und != "" {
				bad = sprintf("decision compress=%v, %d bytes: undecided — %s", compress, nbytes, und)
				break
			}
			want := "raw"
			if compress {
				want = "gzip"
			}
			if len(went) != 1 || went[0] != want {
				bad = sprintf("decision compress=%v, %d bytes: the body bytes go to %v, specification says once to the %s writer", compress, nbytes, went, want)
				break
			}
		}
		r.Check(bad == "", "R2", "gzip.(*ResponseFilterWriter).Write/route-by-decision", fn.Pos(), "body bytes go through the gzip stream exactly when the header said Content-Encoding: gzip, and untouched otherwise", bad)
	}
	// nobody in package gzip sets Content-Length
	bad := 0
	for _, fn := range h.p.PkgFuncs(gzPkg) {
		allInstrs(fn, func(in ssa.Instruction) {
			hv, ok := headerMutation(in)
			_ = hv
			if !ok {
				return
			}
			key := ""
			switch t := in.(type) {
			case *ssa.MapUpdate:
				key, _ = constString(t.Key)
			case *ssa.Call:
				if calleeName(&t.Call) == "(net/http.Header).Del" {
					return
				}
				key, _ = constString(t.Call.Args[1])
			}
			if strings.EqualFold(key, "Content-Length") {
				bad++
				r.Fail("R2", shortFunc(fn)+"/sets-content-length", in.Pos(), "package gzip writes a Content-Length: it cannot know the length of what will finally be sent (compressed or multi-write bodies)")
			}
		})
	}
	r.Check(bad == 0, "R2", "gzip/never-sets-content-length", token.NoPos, "no function of package gzip sets or adds a Content-Length header")
}

// c18R3: decided as a table of the gzip directive's parser (E10); the dataflow formulation (c18R3Patterns) is kept
// for reference and no longer registered.
func c18R3(h H) {
	r := h.r
	r.Rule("R3", "SkipCompressedFilter is always installed, as a table (E10): gzipParse, evaluated on `gzip`, `gzip { min_length 100 }`, `gzip { ext .txt .html ⏎ not /api ⏎ level 5 }` and two gzip directives in one block, returns one configuration per directive and each of them has the already-compressed filter among its response filters", 1)
	fn := h.fn("R3", gzPkg, "gzipParse")
	if fn == nil {
		return
	}
	ctlT := fn.Params[0].Type().(*types.Pointer).Elem()
	scripts := [][][]string{
		{{"gzip"}},
		{{"gzip", "{"}, {"min_length", "100"}, {"}"}},
		{{"gzip", "{"}, {"ext", ".txt", ".html"}, {"not", "/api"}, {"level", "5"}, {"}"}},
		{{"gzip"}, {"gzip", "{"}, {"ext", ".css"}, {"}"}},
	}
	bad, n := "", 0
	for _, lines := range scripts {
		n++
		var text []string
		ndir := 0
		for _, l := range lines {
			text = append(text, strings.Join(l, " "))
			if l[0] == "gzip" {
				ndir++
			}
		}
		desc := "`" + strings.Join(text, " ⏎ ") + "`"
		c := mkController(ctlT, lines)
		if c == nil {
			r.Unresolve("R3", "casket.Controller: embedded dispenser not found")
			return
		}
		env := &absEnv{noFork: true, maxSteps: 400000, globals: map[string]*aobj{}}
		res, und := env.run(fn, []aval{aptr{c, ""}})
		if und != "" {
			bad = desc + ": undecided — " + und
			break
		}
		tp, ok := res.(atuple)
		if !ok || len(tp) != 2 {
			bad = desc + ": unexpected result " + describeAval(res)
			break
		}
		if _, isNil := tp[1].(anil); !isNil {
			bad = desc + ": the parser rejects the directive: " + describeAval(tp[1])
			break
		}
		cfgs, ok := tp[0].(avals)
		if !ok || len(cfgs.cells) != ndir {
			bad = sprintf("%s: %d configurations expected, the parser returns %s", desc, ndir, describeAval(tp[0]))
			break
		}
		for i, cell := range cfgs.cells {
			has := false
			switch fl := env.load(cell, "ResponseFilters").(type) {
			case avals:
				for _, fc := range fl.cells {
					if iv, ok := env.cellVal(fc).(aiface); ok && strings.HasSuffix(iv.typ.String(), "gzip.SkipCompressedFilter") {
						has = true
					}
				}
			}
			if !has {
				bad = sprintf("%s: configuration %d has the response filters %s — the already-compressed filter is missing", desc, i, describeAval(env.load(cell, "ResponseFilters")))
				break
			}
		}
		if bad != "" {
			break
		}
	}
	r.Check(bad == "", "R3", "gzip.gzipParse/skip-filter-installed", fn.Pos(), "every gzip configuration carries the already-compressed filter", sprintf("%d directive texts evaluated", n), bad)
}

func c18R3Patterns(h H) {
	r := h.r
	r.Rule("R3", "SkipCompressedFilter is always installed: in gzipParse every append of a Config to the result is preceded on all paths by an append of SkipCompressedFilter{} to that Config's ResponseFilters", 1)
	fn := h.fn("R3", gzPkg, "gzipParse")
	if fn == nil {
		return
	}
	isSkipAppend := func(in ssa.Instruction) bool {
		c, ok := in.(*ssa.Call)
		if !ok || calleeName(&c.Call) != "builtin.append" {
			return false
		}
		return derives(c.Call.Args[1], func(v ssa.Value) bool {
			mi, ok := v.(*ssa.MakeInterface)
			return ok && strings.HasSuffix(mi.X.Type().String(), "gzip.SkipCompressedFilter")
		}, flowOpts{})
	}
	n := 0
	allInstrs(fn, func(in ssa.Instruction) {
		c, ok := in.(*ssa.Call)
		if !ok || calleeName(&c.Call) != "builtin.append" || !strings.HasSuffix(c.Type().String(), "gzip.Config") {
			return
		}
		n++
		hd, _ := loopOf(in.Block())
		start := ssa.Instruction(nil)
		if hd != nil {
			start = firstInstr(hd)
		}
		ok2 := !canReach(fn, start, in, cut{instr: isSkipAppend})
		r.Check(ok2, "R3", "gzip.gzipParse/skip-filter-installed", in.Pos(), "every gzip configuration carries the already-compressed filter")
	})
	if n == 0 {
		r.Unresolve("R3", "gzipParse: append of a Config not found")
	}
}

func c18R4(h H) {
	r := h.r
	r.Rule("R4", "sibling selection as a decision table (E10): FileServer.serveFile is evaluated against a modelled file system for every combination of {codings the client offers} x {precompressed siblings that exist} x {siblings on the hide list}; exactly one file reaches http.ServeContent — the sibling of the first coding of staticEncodingPriority that is offered, exists and is not hidden, labelled Content-Encoding: <that coding>, or the file itself without a Content-Encoding", 1)
	t := fileServerTable(h)
	fn := h.p.Func(sfPkg, "FileServer.serveFile")
	pos := token.NoPos
	if fn != nil {
		pos = fn.Pos()
	}
	r.Check(t.sibling == "" && t.other == "", "R4", "staticfiles.FileServer.serveFile/sibling-table", pos,
		"a precompressed sibling is served only in a coding the client offered, labelled with that coding's own name, and in table order", sprintf("%d cases evaluated", t.cases), t.sibling, t.other)
}

func c18R7(h H) {
	r := h.r
	r.Rule("R7", "offer table (E10): Gzip.ServeHTTP, evaluated with one configuration that no request filter vetoes, hands the next handler the server's own writer — identity coding — for every request of a table of 20 Accept-Encoding spellings that do not offer gzip: no field, an empty one, other codings, tokens that merely contain the letters gzip, gzip with q=0 in four spellings, on one line or two", 1)
	fn := h.fn("R7", gzPkg, "Gzip.ServeHTTP")
	if fn == nil {
		return
	}
	bad, n := c18OfferTable(h)
	r.Check(bad == "", "R7", "gzip.Gzip.ServeHTTP/offer-table", fn.Pos(), "a client that did not offer gzip gets the identity coding", fmt.Sprintf("%d requests", n), bad)
}

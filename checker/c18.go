package main

import (
	"go/ast"
	"go/constant"
	"go/token"
	"strings"

	"golang.org/x/tools/go/ssa"
)

func init() {
	register("C18", &propSpec{
		technique: "static analysis: table agreement between the file server's encodings and the gzip skip filter, must-pass ordering of header rewriting, who-may-set Content-Length, loop-carried-flag analysis of the sibling selection",
		run:       runC18,
		decided: "R1 every Content-Encoding the file server can emit for a precompressed sibling (and gzip itself) makes SkipCompressedFilter decline compression; " +
			"R2 the gzip writer deletes Content-Length and sets Content-Encoding before it commits the header, the filter writer consults every filter and decides before either underlying WriteHeader, writes go to the gzip stream exactly on the compress path, and nothing in package gzip ever sets Content-Length; " +
			"R3 gzip's setup always installs SkipCompressedFilter; " +
			"R4 the file server offers a precompressed sibling only in a coding found in the client's Accept-Encoding during that same coding's iteration, labels it with that coding's name and opens that coding's extension; " +
			"R5 the compressed stream is finished exactly once per response and the pooled compressor returned exactly once (no second release that would let two responses share one compressor).",
		notDecided: "decoded-body equality; Accept-Encoding q-values (gzip;q=0 counts as acceptance by the substring test — noted); exact Content-Length values set by handlers.",
	})
}

const gzPkg = "caskethttp/gzip"

func runC18(r *Report, p *Program) {
	h := H{r, p}
	c18R1(h)
	c18R2(h)
	c18R3(h)
	c18R4(h)
	gzipStreamRule(h, "R5")
}

// firstFieldTable reads the first (string) field of each element of a package-level []struct literal.
func (p *Program) firstFieldTable(rel, name string) ([]string, token.Pos) {
	pk := p.ByPath[modPath+"/"+rel]
	if pk == nil {
		return nil, token.NoPos
	}
	for _, f := range pk.Syntax {
		for _, d := range f.Decls {
			gd, ok := d.(*ast.GenDecl)
			if !ok || gd.Tok != token.VAR {
				continue
			}
			for _, sp := range gd.Specs {
				vs := sp.(*ast.ValueSpec)
				for i, n := range vs.Names {
					if n.Name != name || i >= len(vs.Values) {
						continue
					}
					cl, ok := vs.Values[i].(*ast.CompositeLit)
					if !ok {
						return nil, n.Pos()
					}
					var out []string
					for _, e := range cl.Elts {
						el, ok := e.(*ast.CompositeLit)
						if !ok || len(el.Elts) == 0 {
							return nil, n.Pos()
						}
						first := el.Elts[0]
						if kv, ok := first.(*ast.KeyValueExpr); ok {
							// find the key named "name"
							first = nil
							for _, x := range el.Elts {
								if kv2, ok := x.(*ast.KeyValueExpr); ok {
									if id, ok := kv2.Key.(*ast.Ident); ok && id.Name == "name" {
										first = kv2.Value
									}
								}
							}
							_ = kv
							if first == nil {
								return nil, n.Pos()
							}
						}
						tv, ok := pk.TypesInfo.Types[first]
						if !ok || tv.Value == nil || tv.Value.Kind() != constant.String {
							return nil, n.Pos()
						}
						out = append(out, constant.StringVal(tv.Value))
					}
					return out, n.Pos()
				}
			}
		}
	}
	return nil, token.NoPos
}

func c18R1(h H) {
	r := h.r
	r.Rule("R1", "already-encoded table: the set of Content-Encoding values for which SkipCompressedFilter.ShouldCompress returns false ⊇ {gzip} ∪ names in staticfiles.staticEncodingPriority", 3)
	names, pos := h.p.firstFieldTable(sfPkg, "staticEncodingPriority")
	if len(names) == 0 {
		r.Unresolve("R1", "staticfiles.staticEncodingPriority not found as a literal table")
		return
	}
	fn := h.fn("R1", gzPkg, "SkipCompressedFilter.ShouldCompress")
	if fn == nil {
		return
	}
	// constants compared with Header().Get("Content-Encoding") whose equal-edge leads to `return false`
	declined := map[string]bool{}
	for _, i := range ifs(fn) {
		x, eq, lit, ok := strCmp(i.Cond)
		if !ok {
			continue
		}
		c, isCall := x.(*ssa.Call)
		if !isCall || calleeName(&c.Call) != "(net/http.Header).Get" {
			continue
		}
		if s, ok := constString(c.Call.Args[1]); !ok || s != "Content-Encoding" {
			continue
		}
		e := condEdge{i, eq}.edge()
		s := e.From.Succs[e.Idx]
		// all returns reachable from the equal edge without another comparison return false
		allFalse, any := true, false
		visit := func(in ssa.Instruction) bool {
			if rt, ok := in.(*ssa.Return); ok {
				any = true
				if cst, ok := rt.Results[0].(*ssa.Const); !ok || cst.Value.String() != "false" {
					allFalse = false
				}
			}
			return true
		}
		if f := firstInstr(s); f != nil && visit(f) {
			reach(fn, f, cut{instr: func(in ssa.Instruction) bool { _, isIf := in.(*ssa.If); return isIf }}, visit)
		}
		if any && allFalse {
			declined[lit] = true
		}
	}
	want := []string{"gzip"}
	for _, n := range names {
		if n != "gzip" {
			want = append(want, n)
		}
	}
	for _, n := range want {
		r.Check(declined[n], "R1", "gzip.SkipCompressedFilter.ShouldCompress/declines:"+n, pos, "a response already encoded with "+n+" is not gzipped again")
	}
}

func c18R2(h H) {
	r := h.r
	r.Rule("R2", "header rewriting: gzipResponseWriter.WriteHeader calls Del(\"Content-Length\") and Set(\"Content-Encoding\",\"gzip\") before the underlying WriteHeader; ResponseFilterWriter.WriteHeader calls ShouldCompress inside a loop over all filters and reaches either underlying WriteHeader only after that loop; ResponseFilterWriter.Write sends bytes to the gzip writer only on the shouldCompress edge and to the raw writer only on the other; no function of package gzip sets or adds Content-Length", 5)
	if fn := h.fn("R2", gzPkg, "(*gzipResponseWriter).WriteHeader"); fn != nil {
		var under []ssa.Instruction
		allInstrs(fn, func(in ssa.Instruction) {
			if c := callOf(in); c != nil {
				if c.IsInvoke() && c.Method.Name() == "WriteHeader" {
					under = append(under, in)
				} else if f := c.StaticCallee(); f != nil && f.Name() == "WriteHeader" && f != fn {
					under = append(under, in)
				}
			}
		})
		if len(under) == 0 {
			r.Unresolve("R2", "gzipResponseWriter.WriteHeader: underlying WriteHeader call not found")
		}
		isHdr := func(method, key, val string) func(ssa.Instruction) bool {
			return func(in ssa.Instruction) bool {
				c := callOf(in)
				if c == nil || calleeName(c) != "(net/http.Header)."+method {
					return false
				}
				if s, ok := constString(c.Args[1]); !ok || s != key {
					return false
				}
				if val != "" {
					if s, ok := constString(c.Args[2]); !ok || s != val {
						return false
					}
				}
				return true
			}
		}
		for _, u := range under {
			r.Check(mustPass(fn, u, isHdr("Del", "Content-Length", "")), "R2", "gzip.(*gzipResponseWriter).WriteHeader/del-content-length-first", u.Pos(), "the upstream Content-Length (length of the uncompressed body) is removed before the header is committed")
			r.Check(mustPass(fn, u, isHdr("Set", "Content-Encoding", "gzip")), "R2", "gzip.(*gzipResponseWriter).WriteHeader/content-encoding-first", u.Pos(), "Content-Encoding: gzip is set before the header is committed")
		}
	}
	if fn := h.fn("R2", gzPkg, "(*ResponseFilterWriter).WriteHeader"); fn != nil {
		hd, _ := loopOverField(fn, "filters")
		var under []ssa.Instruction
		allInstrs(fn, func(in ssa.Instruction) {
			if c := callOf(in); c != nil {
				if c.IsInvoke() && c.Method.Name() == "WriteHeader" {
					under = append(under, in)
				} else if f := c.StaticCallee(); f != nil && f.Name() == "WriteHeader" && f != fn {
					under = append(under, in)
				}
			}
		})
		should := false
		if hd != nil {
			loop := naturalLoop(hd)
			allInstrs(fn, func(in ssa.Instruction) {
				if c := callOf(in); c != nil && c.IsInvoke() && c.Method.Name() == "ShouldCompress" && loop[in.Block()] {
					should = true
				}
			})
		}
		okOrder := hd != nil && len(under) >= 2
		if hd != nil {
			loop := naturalLoop(hd)
			exits := map[edge]bool{}
			for _, e := range loopExitEdges(loop) {
				exits[e] = true
			}
			for _, u := range under {
				if !onlyVia(fn, u, exits) {
					okOrder = false
				}
			}
		}
		r.Check(should && okOrder, "R2", "gzip.(*ResponseFilterWriter).WriteHeader/decide-before-commit", fn.Pos(), "every response filter is consulted, and the compress/identity decision is final, before either underlying WriteHeader runs")
	}
	if fn := h.fn("R2", gzPkg, "(*ResponseFilterWriter).Write"); fn != nil {
		yes := guardEdges(fn, true, func(v ssa.Value) bool { return readsField(v, "shouldCompress") })
		no := guardEdges(fn, false, func(v ssa.Value) bool { return readsField(v, "shouldCompress") })
		okAll, n := true, 0
		allInstrs(fn, func(in ssa.Instruction) {
			c := callOf(in)
			if c == nil {
				return
			}
			if f := c.StaticCallee(); f != nil && f.Name() == "Write" && strings.Contains(funcName(f), "gzipResponseWriter") {
				n++
				if !onlyVia(fn, in, yes) {
					okAll = false
				}
			}
			if c.IsInvoke() && c.Method.Name() == "Write" {
				n++
				if !onlyVia(fn, in, no) {
					okAll = false
				}
			}
		})
		r.Check(okAll && n >= 2, "R2", "gzip.(*ResponseFilterWriter).Write/route-by-decision", fn.Pos(), "body bytes go through the gzip stream exactly when the header said Content-Encoding: gzip, and untouched otherwise")
	}
	// nobody in package gzip sets Content-Length
	bad := 0
	for _, fn := range h.p.PkgFuncs(gzPkg) {
		allInstrs(fn, func(in ssa.Instruction) {
			hv, ok := headerMutation(in)
			_ = hv
			if !ok {
				return
			}
			key := ""
			switch t := in.(type) {
			case *ssa.MapUpdate:
				key, _ = constString(t.Key)
			case *ssa.Call:
				if calleeName(&t.Call) == "(net/http.Header).Del" {
					return
				}
				key, _ = constString(t.Call.Args[1])
			}
			if strings.EqualFold(key, "Content-Length") {
				bad++
				r.Fail("R2", shortFunc(fn)+"/sets-content-length", in.Pos(), "package gzip writes a Content-Length: it cannot know the length of what will finally be sent (compressed or multi-write bodies)")
			}
		})
	}
	r.Check(bad == 0, "R2", "gzip/never-sets-content-length", token.NoPos, "no function of package gzip sets or adds a Content-Length header")
}

func c18R3(h H) {
	r := h.r
	r.Rule("R3", "SkipCompressedFilter is always installed: in gzipParse every append of a Config to the result is preceded on all paths by an append of SkipCompressedFilter{} to that Config's ResponseFilters", 1)
	fn := h.fn("R3", gzPkg, "gzipParse")
	if fn == nil {
		return
	}
	isSkipAppend := func(in ssa.Instruction) bool {
		c, ok := in.(*ssa.Call)
		if !ok || calleeName(&c.Call) != "builtin.append" {
			return false
		}
		return derives(c.Call.Args[1], func(v ssa.Value) bool {
			mi, ok := v.(*ssa.MakeInterface)
			return ok && strings.HasSuffix(mi.X.Type().String(), "gzip.SkipCompressedFilter")
		}, flowOpts{})
	}
	n := 0
	allInstrs(fn, func(in ssa.Instruction) {
		c, ok := in.(*ssa.Call)
		if !ok || calleeName(&c.Call) != "builtin.append" || !strings.HasSuffix(c.Type().String(), "gzip.Config") {
			return
		}
		n++
		hd, _ := loopOf(in.Block())
		start := ssa.Instruction(nil)
		if hd != nil {
			start = firstInstr(hd)
		}
		ok2 := !canReach(fn, start, in, cut{instr: isSkipAppend})
		r.Check(ok2, "R3", "gzip.gzipParse/skip-filter-installed", in.Pos(), "every gzip configuration carries the already-compressed filter")
	})
	if n == 0 {
		r.Unresolve("R3", "gzipParse: append of a Config not found")
	}
}

func c18R4(h H) {
	r := h.r
	r.Rule("R4", "sibling selection: in FileServer.serveFile the Open of <path>+E.ext is guarded by an 'accepted' flag that is (re)initialised inside the loop over staticEncodingPriority (no φ of the flag at that loop's header), whose true assignment lies behind a comparison of a token of the Accept-Encoding header with E.name, and the response is labelled Content-Encoding: E.name — all three with the same element E", 3)
	fn := h.fn("R4", sfPkg, "FileServer.serveFile")
	if fn == nil {
		return
	}
	// the sibling open
	var open *ssa.Call
	allInstrs(fn, func(in ssa.Instruction) {
		if ex, ok := in.(*ssa.Extract); ok {
			if c := isJailedOpen(ex); c != nil && openKind(c.Call.Args[0]) == "precompressed-sibling" {
				open = c
			}
		}
	})
	if open == nil {
		r.Unresolve("R4", "serveFile: open of the precompressed sibling not found")
		return
	}
	hd, loop := loopOf(open.Block())
	if hd == nil {
		r.Unresolve("R4", "serveFile: sibling open is not in a loop")
		return
	}
	// element E: root of the .ext field read feeding the open
	var elem ssa.Value
	derives(open.Call.Args[0], func(v ssa.Value) bool {
		if p, root := fieldPath(v); p == "ext" && elem == nil {
			elem = root
		}
		return false
	}, flowOpts{})
	// flag guards of the open
	flagOK, cmpOK := false, false
	for _, g := range dominatingGuards(fn, firstInstr(hd), open) {
		ph, isPhi := g.Cond.(*ssa.Phi)
		if !isPhi || !g.Pos {
			continue
		}
		src, pure := trueSources(ph)
		if !pure || len(src) == 0 {
			continue
		}
		// φ web must not sit at the outer loop header
		carried := false
		seen := map[ssa.Value]bool{}
		var walk func(v ssa.Value)
		walk = func(v ssa.Value) {
			p2, ok := v.(*ssa.Phi)
			if !ok || seen[v] {
				return
			}
			seen[v] = true
			if p2.Block() == hd || !loop[p2.Block()] {
				carried = true
			}
			for _, e := range p2.Edges {
				walk(e)
			}
		}
		walk(ph)
		flagOK = !carried
		// true sources behind name comparison with the same element
		all := true
		for _, b := range src {
			okB := false
			for _, gg := range guardAtoms(fn, firstInstr(hd), lastInstr(b)) {
				bo, ok := gg.Cond.(*ssa.BinOp)
				if !ok || bo.Op != token.EQL || !gg.Pos {
					continue
				}
				for _, pair := range [][2]ssa.Value{{bo.X, bo.Y}, {bo.Y, bo.X}} {
					p, root := fieldPath(pair[1])
					fromHdr := derives(pair[0], func(v ssa.Value) bool {
						c, ok := v.(*ssa.Call)
						if !ok || calleeName(&c.Call) != "(net/http.Header).Get" {
							return false
						}
						s, _ := constString(c.Call.Args[1])
						return s == "Accept-Encoding"
					}, flowOpts{throughCalls: true})
					if p == "name" && fromHdr && (elem == nil || sameValue(root, elem) || root == elem) {
						okB = true
					}
				}
			}
			if !okB {
				all = false
			}
		}
		cmpOK = all
	}
	// flag-free form of the same decision (e.g. a token-matching helper with early returns): within one
	// iteration of the coding loop, the open is reachable only through the 'equal' outcome of a comparison of
	// an Accept-Encoding token with this coding's name
	{
		fromHdr := func(x ssa.Value) bool {
			return derives(x, func(v ssa.Value) bool {
				c, ok := v.(*ssa.Call)
				if !ok || calleeName(&c.Call) != "(net/http.Header).Get" {
					return false
				}
				s, _ := constString(c.Call.Args[1])
				return s == "Accept-Encoding"
			}, flowOpts{throughCalls: true})
		}
		eqEdges := map[edge]bool{}
		for _, i := range ifs(fn) {
			v, flip := stripNot(i.Cond)
			bo, ok := v.(*ssa.BinOp)
			if !ok || (bo.Op != token.EQL && bo.Op != token.NEQ) {
				continue
			}
			for _, pair := range [][2]ssa.Value{{bo.X, bo.Y}, {bo.Y, bo.X}} {
				p, root := fieldPath(pair[1])
				if p == "name" && (elem == nil || sameValue(root, elem) || root == elem) && fromHdr(pair[0]) {
					eqEdges[condEdge{i, (bo.Op == token.EQL) != flip}.edge()] = true
				}
			}
		}
		if len(eqEdges) > 0 && !canReach(fn, firstInstr(hd), open, cut{edges: eqEdges}) {
			flagOK, cmpOK = true, true
		}
	}
	r.Check(flagOK, "R4", "staticfiles.FileServer.serveFile/accepted-flag-per-encoding", open.Pos(), "whether the client accepts a coding is decided afresh for every coding (a flag carried over from a previous coding would serve codings the client never offered)")
	r.Check(cmpOK, "R4", "staticfiles.FileServer.serveFile/accepted-means-listed", open.Pos(), "a coding counts as accepted only if one of the Accept-Encoding tokens equals that coding's name")
	// label
	lbl := false
	allInstrs(fn, func(in ssa.Instruction) {
		c := callOf(in)
		if c == nil || calleeName(c) != "(net/http.Header).Set" {
			return
		}
		if s, ok := constString(c.Args[1]); !ok || s != "Content-Encoding" {
			return
		}
		p, root := fieldPath(c.Args[2])
		if p == "name" && (elem == nil || sameValue(root, elem) || root == elem) {
			lbl = true
		}
	})
	r.Check(lbl, "R4", "staticfiles.FileServer.serveFile/labelled-with-same-coding", open.Pos(), "the sibling is labelled with the name of the coding whose extension was opened")
}

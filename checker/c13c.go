package main

import (
	"fmt"
	"go/constant"
	"go/types"
	"strings"
)

// c13R7: every fastcgi rule carries its own block's settings.  The parameters a responder receives include the
// `env` entries of the matching rule; fastcgiParse is evaluated (E10) on two fastcgi blocks that both have env
// entries, index files and exceptions.  Each resulting rule must hold exactly what its own block wrote — nothing of
// the other block's, in particular not through slices that share a backing array.
func c13R7(h H) {
	r := h.r
	r.Rule("R7", "fastcgi rules are configured independently, as a table (E10) of fastcgiParse: for `fastcgi /shop a:9000 php { env APP_NAME shop ⏎ env APP_MODE production ⏎ index shop.php }` followed by `fastcgi /blog b:9000 php { env APP_NAME blog ⏎ env APP_SECRET s3cr3t ⏎ env APP_EXTRA yes ⏎ except /blog/static }` each rule ends up with the path, extension, split string, index files, exceptions and env entries of its own block", 1)
	fn := h.fn("R7", fcPkg, "fastcgiParse")
	if fn == nil {
		return
	}
	ctlT := fn.Params[0].Type().(*types.Pointer).Elem()
	lines := [][]string{
		{"fastcgi", "/shop", "a:9000", "php", "{"}, {"env", "APP_NAME", "shop"}, {"env", "APP_MODE", "production"}, {"index", "shop.php"}, {"}"},
		{"fastcgi", "/blog", "b:9000", "php", "{"}, {"env", "APP_NAME", "blog"}, {"env", "APP_SECRET", "s3cr3t"}, {"env", "APP_EXTRA", "yes"}, {"except", "/blog/static"}, {"}"},
	}
	c := mkController(ctlT, lines)
	if c == nil {
		r.Unresolve("R7", "casket.Controller: embedded dispenser not found")
		return
	}
	var cfgT types.Type = types.Typ[types.Int]
	if g := h.p.Func(hs, "GetConfig"); g != nil {
		if p, ok := g.Signature.Results().At(0).Type().(*types.Pointer); ok {
			cfgT = p.Elem()
		}
	}
	cfg := &aobj{name: "siteconfig", typ: cfgT, f: map[string]aval{"Root": astr("/srv")}}
	cfg.in = func(o *aobj, path string, t types.Type) aval { return aunk{"site config field " + path} }
	env := &absEnv{globals: map[string]*aobj{}, noFork: true, maxSteps: 800000}
	env.ext = func(callee string, args []aval) (aval, bool) {
		switch {
		case strings.HasSuffix(callee, "httpserver.GetConfig"):
			return aptr{cfg, ""}, true
		case callee == "path/filepath.Abs":
			return atuple{args[0], anil{}}, true
		case callee == "time.ParseDuration":
			return atuple{aint(1), anil{}}, true
		}
		return nil, false
	}
	res, und := env.run(fn, []aval{aptr{c, ""}})
	bad := ""
	strs := func(v aval) string {
		var out []string
		if sl, ok := v.(avals); ok {
			for _, cl := range sl.cells {
				out = append(out, strings.Trim(describeAval(env.cellVal(cl)), "\""))
			}
		}
		return strings.Join(out, " ")
	}
	envs := func(v aval) string {
		var out []string
		if sl, ok := v.(avals); ok {
			for _, cl := range sl.cells {
				k, _ := env.load(cl, "#0").(astr)
				val, _ := env.load(cl, "#1").(astr)
				out = append(out, string(k)+"="+string(val))
			}
		}
		return strings.Join(out, " ")
	}
	type want struct{ path, ext, split, index, except, env string }
	wants := []want{
		{"/shop", ".php", ".php", "shop.php", "", "APP_NAME=shop APP_MODE=production"},
		{"/blog", ".php", ".php", "index.php", "/blog/static", "APP_NAME=blog APP_SECRET=s3cr3t APP_EXTRA=yes"},
	}
	switch {
	case und != "":
		bad = "undecided — " + und
	default:
		tp, ok := res.(atuple)
		if !ok || len(tp) != 2 {
			bad = "fastcgiParse returns " + describeAval(res)
			break
		}
		if _, isNil := tp[1].(anil); !isNil {
			bad = "fastcgiParse rejects the two blocks: " + describeAval(tp[1])
			break
		}
		rules, _ := tp[0].(avals)
		if len(rules.cells) != 2 {
			bad = fmt.Sprintf("%d rules for 2 blocks", len(rules.cells))
			break
		}
		for i, cl := range rules.cells {
			s := func(f string) string {
				v, _ := env.load(cl, f).(astr)
				return string(v)
			}
			got := want{s("Path"), s("Ext"), s("SplitPath"), strs(env.load(cl, "IndexFiles")), strs(env.load(cl, "IgnoredSubPaths")), envs(env.load(cl, "EnvVars"))}
			if got != wants[i] && bad == "" {
				bad = fmt.Sprintf("the rule of the block `fastcgi %s …` holds %+v, its block says %+v", wants[i].path, got, wants[i])
			}
		}
	}
	r.Check(bad == "", "R7", "fastcgi.fastcgiParse/independent-rules", fn.Pos(), "each fastcgi rule carries the settings of its own block only", bad)
}

// c13R8: a parameter that fits a record reaches the responder whole.  writePairs cuts a value only when the encoded
// pair (the two length prefixes — one byte up to 127, four above — the name and the value) is longer than a record may
// be; it is evaluated (E10; the record writer is an oracle that records what it is handed) on one pair with a
// ten-byte name and values around that limit.
func c13R8(h H) {
	r := h.r
	r.Rule("R8", "parameters that fit are sent whole, as a table (E10) of FCGIClient.writePairs: for a ten-byte name and values whose encoded pair is 20, maxWrite-3 … maxWrite bytes long the value handed to the record writer is the value given, byte for byte (a value beyond the limit may be cut, never one within it)", 1)
	fn := h.fn("R8", fcPkg, "(*FCGIClient).writePairs")
	if fn == nil {
		return
	}
	maxWrite := int64(0)
	if pk := h.p.Pkg(fcPkg); pk != nil {
		if c, ok := pk.Pkg.Scope().Lookup("maxWrite").(*types.Const); ok {
			maxWrite, _ = constant.Int64Val(c.Val())
		}
	}
	if maxWrite < 1000 {
		r.Unresolve("R8", "fastcgi.maxWrite: constant not found")
		return
	}
	mapT, _ := underlying(fn.Params[2].Type()).(*types.Map)
	if mapT == nil {
		r.Unresolve("R8", "writePairs: third parameter is not a map")
		return
	}
	name := "SCRIPT_FIL"
	bad, n := "", 0
	for _, encoded := range []int64{20, maxWrite - 3, maxWrite - 2, maxWrite - 1, maxWrite} {
		vlen := encoded - int64(len(name)) - 1 - 1
		if vlen > 127 {
			vlen = encoded - int64(len(name)) - 1 - 4
		}
		value := strings.Repeat("v", int(vlen))
		var strs []string
		env := &absEnv{globals: map[string]*aobj{}, noFork: true, maxSteps: 400000}
		writer := &aobj{name: "record writer", typ: types.Typ[types.Int], f: map[string]aval{}}
		env.ext = func(callee string, args []aval) (aval, bool) {
			switch {
			case strings.HasSuffix(callee, "fastcgi.newWriter"):
				return aptr{writer, ""}, true
			case strings.HasSuffix(callee, "bufWriter).WriteString"), strings.HasSuffix(callee, "bufio.Writer).WriteString"):
				if s, ok := args[1].(astr); ok {
					strs = append(strs, string(s))
					return atuple{aint(int64(len(s))), anil{}}, true
				}
				return aunk{"WriteString of " + describeAval(args[1])}, true
			case strings.HasSuffix(callee, "bufWriter).Write"), strings.HasSuffix(callee, "bufio.Writer).Write"):
				if sl, ok := args[1].(avals); ok {
					return atuple{aint(int64(len(sl.cells))), anil{}}, true
				}
			case strings.HasSuffix(callee, "bufWriter).Flush"), strings.HasSuffix(callee, "bufio.Writer).Flush"), strings.HasSuffix(callee, "bufWriter).Close"):
				return anil{}, true
			}
			return nil, false
		}
		pairs := amap{&amapData{vals: map[string]aval{"s:" + name: astr(value)}, keys: map[string]aval{"s:" + name: astr(name)}, typ: mapT}}
		client := &aobj{name: "client", typ: derefType(fn.Params[0].Type()), f: map[string]aval{}}
		client.in = func(o *aobj, path string, t types.Type) aval { return aunk{"client field " + path} }
		_, und := env.run(fn, []aval{aptr{client, ""}, aint(4), pairs})
		n++
		desc := fmt.Sprintf("name of %d bytes, value of %d bytes (encoded pair: %d bytes, a record holds %d)", len(name), vlen, encoded, maxWrite)
		switch {
		case und != "":
			bad = desc + ": undecided — " + und
		case len(strs) != 2 || strs[0] != name:
			bad = fmt.Sprintf("%s: the record writer is handed %d strings, the first of %d bytes; specification: the name, then the value", desc, len(strs), len(append(strs, "")[0]))
		case strs[1] != value:
			bad = fmt.Sprintf("%s: the value reaches the record writer with %d bytes — cut although the pair fits a record", desc, len(strs[1]))
		}
		if bad != "" {
			break
		}
	}
	r.Check(bad == "", "R8", "fastcgi.(*FCGIClient).writePairs/fits-whole-table", fn.Pos(), "a parameter whose encoding fits a record is sent whole", fmt.Sprintf("%d pairs evaluated", n), bad)
}

// c13R9: the client receives the responder's header fields — and not the CGI status line, which is the status.
func c13R9(h H) {
	r := h.r
	r.Rule("R9", "the responder's header block is handed on without the CGI status line, as a table (E10) of FCGIClient.Request over the status lines of C19 R3: an accepted response's Header holds the application's fields (Content-Type) and no `Status` field", 1)
	fn := h.fn("R9", fcPkg, "(*FCGIClient).Request")
	if fn == nil {
		return
	}
	_, hdrBad, n, total := fcgiStatusTable(h, fn)
	r.Check(hdrBad == "" && total > 0, "R9", "fastcgi.(*FCGIClient).Request/header-without-status-line", fn.Pos(), "the status line is consumed, the other fields are kept", fmt.Sprintf("%d header blocks evaluated", n), hdrBad)
}

// c13R10: the request body a handler reads is the body the client sent, whatever is kept of it for the log.  The
// per-request replacer wraps r.Body so that the first 100 KiB can be shown by {request_body}; the wrapper must hand on
// every byte the connection delivers, before, across and after that limit.  NewReplacer is evaluated (E10; the
// connection's body is an oracle that fills each buffer it is given, io.TeeReader is modelled as the standard library
// defines it, the capture buffer's own Write is module code and is evaluated) and the body it leaves in the request is
// read three times with a 60 000-byte buffer: every read returns the 60 000 bytes the connection delivered.
func c13R10(h H) {
	r := h.r
	r.Rule("R10", "keeping a copy of the body for the log does not shorten the body, as a table (E10) of the reader httpserver.NewReplacer leaves in Request.Body: three reads of 60 000 bytes — before, across and beyond the 100 KiB the {request_body} placeholder keeps — each return exactly what the connection delivered, with no error", 1)
	fn := h.fn("R10", hs, "NewReplacer")
	if fn == nil {
		return
	}
	reqT := derefType(fn.Params[0].Type())
	const chunk = 60000
	src := &aobj{name: "connection body", typ: types.Typ[types.Int], f: map[string]aval{}}
	type tee struct{ r, w aval }
	tees := map[*aobj]tee{}
	env := &absEnv{globals: map[string]*aobj{}, noFork: true, maxSteps: 5000000}
	prog := h.p.SSA
	env.ext = func(callee string, args []aval) (aval, bool) {
		switch {
		case callee == "(*net/http.Request).Context":
			return aiface{aptr{&aobj{name: "ctx", typ: types.Typ[types.Int], f: map[string]aval{}}, ""}, types.Typ[types.Int]}, true
		case callee == "invoke:Value":
			return anil{}, true
		case callee == "io.TeeReader":
			o := &aobj{name: "tee reader", typ: types.Typ[types.Int], f: map[string]aval{}}
			tees[o] = tee{args[0], args[1]}
			return aiface{aptr{o, ""}, types.Typ[types.Int]}, true
		case callee == "(*bytes.Buffer).Write":
			if sl, ok := args[1].(avals); ok {
				return atuple{aint(int64(len(sl.cells))), anil{}}, true
			}
		case callee == "invoke:Read":
			p, _ := ifaceVal(args[0]).(aptr)
			if p.obj == src {
				if sl, ok := args[1].(avals); ok {
					return atuple{aint(int64(len(sl.cells))), anil{}}, true
				}
			}
			if t, ok := tees[p.obj]; ok {
				// io.TeeReader: n, err = r.Read(p); if n > 0 { if n, err := w.Write(p[:n]); err != nil { return n, err } }; return
				res, handled := env.ext("invoke:Read", []aval{t.r, args[1]})
				tp, isT := res.(atuple)
				if !handled || !isT {
					return aunk{"tee source"}, true
				}
				if w, ok := t.w.(aiface); ok {
					if wr, ok := env.callMethod(prog, w, "Write", args[1]); ok {
						if wt, ok := wr.(atuple); ok && len(wt) == 2 {
							if _, isNil := wt[1].(anil); !isNil {
								return atuple{wt[0], wt[1]}, true
							}
						}
					} else {
						return aunk{"tee writer's Write could not be evaluated"}, true
					}
				}
				return tp, true
			}
		case callee == "invoke:Close":
			return anil{}, true
		}
		return nil, false
	}
	req := &aobj{name: "request", typ: reqT, f: map[string]aval{"Body": aiface{aptr{src, ""}, types.Typ[types.Int]}}}
	req.in = func(o *aobj, path string, t types.Type) aval { return aunk{"request field " + path} }
	_, und := env.run(fn, []aval{aptr{req, ""}, anil{}, astr("")})
	bad, n := "", 0
	if und != "" {
		bad = "NewReplacer: undecided — " + und
	}
	body, isI := env.load(req, "Body").(aiface)
	if bad == "" && !isI {
		bad = "NewReplacer leaves the request body " + describeAval(env.load(req, "Body"))
	}
	for i := 1; i <= 3 && bad == ""; i++ {
		var cells []aval
		for k := 0; k < chunk; k++ {
			cells = append(cells, aint(0))
		}
		buf := newVals(cells, types.Typ[types.Uint8])
		var res aval
		if p, ok := body.val.(aptr); ok && p.obj == src {
			res, _ = env.ext("invoke:Read", []aval{body, buf}) // the body was left as it came
		} else if rv, ok := env.callMethod(prog, body, "Read", buf); ok {
			res = rv
		} else {
			bad = sprintf("read %d: the Read method of the body NewReplacer installed could not be evaluated", i)
			break
		}
		n++
		tp, ok := res.(atuple)
		if !ok || len(tp) != 2 {
			bad = sprintf("read %d: returns %s", i, describeAval(res))
			break
		}
		got, _ := tp[0].(aint)
		_, noErr := tp[1].(anil)
		if int64(got) != chunk || !noErr {
			bad = sprintf("read %d of %d bytes (%d bytes read before it; the log keeps the first 102400): the connection delivers %d bytes and the handler is told %s, error %s — the rest of this read never reaches the responder or the backend, and nothing reports it", i, chunk, (i-1)*chunk, chunk, describeAval(tp[0]), describeAval(tp[1]))
		}
	}
	r.Check(bad == "", "R10", "httpserver.NewReplacer/body-reader-hands-on-every-byte", fn.Pos(), "the body wrapper for {request_body} is transparent", sprintf("%d reads evaluated", n), bad)
}

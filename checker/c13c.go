package main

import (
	"fmt"
	"go/types"
	"strings"
)

// c13R7: every fastcgi rule carries its own block's settings.  The parameters a responder receives include the
// `env` entries of the matching rule; fastcgiParse is evaluated (E10) on two fastcgi blocks that both have env
// entries, index files and exceptions.  Each resulting rule must hold exactly what its own block wrote — nothing of
// the other block's, in particular not through slices that share a backing array.
func c13R7(h H) {
	r := h.r
	r.Rule("R7", "fastcgi rules are configured independently, as a table (E10) of fastcgiParse: for `fastcgi /shop a:9000 php { env APP_NAME shop ⏎ env APP_MODE production ⏎ index shop.php }` followed by `fastcgi /blog b:9000 php { env APP_NAME blog ⏎ env APP_SECRET s3cr3t ⏎ env APP_EXTRA yes ⏎ except /blog/static }` each rule ends up with the path, extension, split string, index files, exceptions and env entries of its own block", 1)
	fn := h.fn("R7", fcPkg, "fastcgiParse")
	if fn == nil {
		return
	}
	ctlT := fn.Params[0].Type().(*types.Pointer).Elem()
	lines := [][]string{
		{"fastcgi", "/shop", "a:9000", "php", "{"}, {"env", "APP_NAME", "shop"}, {"env", "APP_MODE", "production"}, {"index", "shop.php"}, {"}"},
		{"fastcgi", "/blog", "b:9000", "php", "{"}, {"env", "APP_NAME", "blog"}, {"env", "APP_SECRET", "s3cr3t"}, {"env", "APP_EXTRA", "yes"}, {"except", "/blog/static"}, {"}"},
	}
	c := mkController(ctlT, lines)
	if c == nil {
		r.Unresolve("R7", "casket.Controller: embedded dispenser not found")
		return
	}
	var cfgT types.Type = types.Typ[types.Int]
	if g := h.p.Func(hs, "GetConfig"); g != nil {
		if p, ok := g.Signature.Results().At(0).Type().(*types.Pointer); ok {
			cfgT = p.Elem()
		}
	}
	cfg := &aobj{name: "siteconfig", typ: cfgT, f: map[string]aval{"Root": astr("/srv")}}
	cfg.in = func(o *aobj, path string, t types.Type) aval { return aunk{"site config field " + path} }
	env := &absEnv{globals: map[string]*aobj{}, noFork: true, maxSteps: 800000}
	env.ext = func(callee string, args []aval) (aval, bool) {
		switch {
		case strings.HasSuffix(callee, "httpserver.GetConfig"):
			return aptr{cfg, ""}, true
		case callee == "path/filepath.Abs":
			return atuple{args[0], anil{}}, true
		case callee == "time.ParseDuration":
			return atuple{aint(1), anil{}}, true
		}
		return nil, false
	}
	res, und := env.run(fn, []aval{aptr{c, ""}})
	bad := ""
	strs := func(v aval) string {
		var out []string
		if sl, ok := v.(avals); ok {
			for _, cl := range sl.cells {
				out = append(out, strings.Trim(describeAval(env.cellVal(cl)), "\""))
			}
		}
		return strings.Join(out, " ")
	}
	envs := func(v aval) string {
		var out []string
		if sl, ok := v.(avals); ok {
			for _, cl := range sl.cells {
				k, _ := env.load(cl, "#0").(astr)
				val, _ := env.load(cl, "#1").(astr)
				out = append(out, string(k)+"="+string(val))
			}
		}
		return strings.Join(out, " ")
	}
	type want struct{ path, ext, split, index, except, env string }
	wants := []want{
		{"/shop", ".php", ".php", "shop.php", "", "APP_NAME=shop APP_MODE=production"},
		{"/blog", ".php", ".php", "index.php", "/blog/static", "APP_NAME=blog APP_SECRET=s3cr3t APP_EXTRA=yes"},
	}
	switch {
	case und != "":
		bad = "undecided — " + und
	default:
		tp, ok := res.(atuple)
		if !ok || len(tp) != 2 {
			bad = "fastcgiParse returns " + describeAval(res)
			break
		}
		if _, isNil := tp[1].(anil); !isNil {
			bad = "fastcgiParse rejects the two blocks: " + describeAval(tp[1])
			break
		}
		rules, _ := tp[0].(avals)
		if len(rules.cells) != 2 {
			bad = fmt.Sprintf("%d rules for 2 blocks", len(rules.cells))
			break
		}
		for i, cl := range rules.cells {
			s := func(f string) string {
				v, _ := env.load(cl, f).(astr)
				return string(v)
			}
			got := want{s("Path"), s("Ext"), s("SplitPath"), strs(env.load(cl, "IndexFiles")), strs(env.load(cl, "IgnoredSubPaths")), envs(env.load(cl, "EnvVars"))}
			if got != wants[i] && bad == "" {
				bad = fmt.Sprintf("the rule of the block `fastcgi %s …` holds %+v, its block says %+v", wants[i].path, got, wants[i])
			}
		}
	}
	r.Check(bad == "", "R7", "fastcgi.fastcgiParse/independent-rules", fn.Pos(), "each fastcgi rule carries the settings of its own block only", bad)
}

package main

import (
	"fmt"
	"go/types"
	"path"
	"strings"
)

// c02R5: a directory listing never names a hidden file, however the directory's URL is spelled.  R2 shows that
// directoryListing asks IsHidden for every entry; what IsHidden can answer depends on the hide list of the file
// server value it is asked on.  Browse.loadDirectoryContents is evaluated (E10) for a directory holding a hidden
// file (the site's Casketfile in the root, /sub/secret in /sub) and an ordinary file, requested as "/", "//", "/./", "/sub/../" and "/sub/" — the file system, the
// entries and IsHidden being oracles; the IsHidden oracle answers from the hide list of the very file server value
// it is called on (hidden: its list still holds the Casketfile's path).  The listing must hold the ordinary file and
// must not hold the Casketfile.
func c02R5(h H) {
	r := h.r
	r.Rule("R5", "listings and hidden files, as a decision table (E10): Browse.loadDirectoryContents evaluated on a directory that holds the site's hidden Casketfile and an ordinary file, for the request paths /, //, /./, /sub/../ and /sub/ (file system and entries being oracles, IsHidden answering from the hide list of the file server value it is called on), returns a listing that names the ordinary file and never the hidden one", 1)
	fn := h.fn("R5", brPkg, "Browse.loadDirectoryContents")
	if fn == nil {
		return
	}
	if len(fn.Params) != 4 {
		r.Unresolve("R5", "Browse.loadDirectoryContents: unexpected signature")
		return
	}
	cfgPT, ok := fn.Params[3].Type().(*types.Pointer)
	if !ok {
		r.Unresolve("R5", "Browse.loadDirectoryContents: the configuration is not passed by pointer")
		return
	}
	cfgT := cfgPT.Elem()
	bT := fn.Params[0].Type()
	var cfgsT types.Type
	if st, ok := underlying(bT).(*types.Struct); ok {
		for i := 0; i < st.NumFields(); i++ {
			if sl, ok := underlying(st.Field(i).Type()).(*types.Slice); ok && types.Identical(sl.Elem(), cfgT) {
				cfgsT = sl.Elem()
			}
		}
	}
	if cfgsT == nil {
		r.Unresolve("R5", "Browse: no field holding the []Config")
		return
	}
	// the file server inside the configuration, and its hide list, by type
	fsField, hideField := "", ""
	if st, ok := underlying(cfgT).(*types.Struct); ok {
		for i := 0; i < st.NumFields(); i++ {
			if strings.HasSuffix(st.Field(i).Type().String(), "staticfiles.FileServer") {
				fsField = st.Field(i).Name()
				if fst, ok := underlying(st.Field(i).Type()).(*types.Struct); ok {
					for k := 0; k < fst.NumFields(); k++ {
						if fst.Field(k).Name() == "Hide" {
							hideField = "Hide"
						}
					}
				}
			}
		}
	}
	if fsField == "" || hideField == "" {
		r.Unresolve("R5", "browse.Config: file server / hide list not found by type")
		return
	}
	hideList := []string{"/Casketfile", "/sub/secret"}
	bad, nrun := "", 0
	for _, urlPath := range []string{"/", "//", "/./", "/sub/../", "/sub/", "/sub//"} {
		mkInfo := func(name string) aval {
			return aiface{aptr{&aobj{name: name, typ: types.Typ[types.Int], f: map[string]aval{}}, ""}, types.Typ[types.Int]}
		}
		// the directory the path resolves to (http.Dir cleans it), its hidden entry and an ordinary one
		dir := path.Clean(urlPath)
		hiddenName := "Casketfile"
		if dir == "/sub" {
			hiddenName = "secret"
		}
		hidden := path.Join(dir, hiddenName)
		entries := []aval{mkInfo(hiddenName), mkInfo("a.txt")}
		cfg := &aobj{name: "browse config", typ: cfgT, f: map[string]aval{
			"PathScope": astr("/"), joinPath(fsField, hideField): newVals([]aval{astr(hideList[0]), astr(hideList[1])}, types.Typ[types.String]),
			joinPath(fsField, "IndexPages"): newVals([]aval{astr("index.html")}, types.Typ[types.String]),
		}}
		cfg.in = func(o *aobj, path string, t types.Type) aval {
			if _, isSl := underlying(t).(*types.Slice); isSl {
				return anil{}
			}
			return aunk{"config field " + path}
		}
		nameOf := func(v aval) string {
			if p, ok := ifaceVal(v).(aptr); ok {
				return p.obj.name
			}
			return "?"
		}
		asked := 0
		env := &absEnv{globals: map[string]*aobj{}, noFork: true, maxSteps: 400000}
		env.ext = func(callee string, args []aval) (aval, bool) {
			switch {
			case callee == "invoke:Readdir":
				return atuple{newVals(entries, types.Typ[types.Int]), anil{}}, true
			case callee == "invoke:Name":
				return astr(nameOf(args[0])), true
			case callee == "invoke:IsDir":
				return abool(false), true
			case callee == "invoke:Mode":
				return aint(0644), true
			case callee == "invoke:Size":
				return aint(7), true
			case callee == "invoke:ModTime", strings.HasSuffix(callee, "time.Time).UTC"):
				return astruct{map[string]aval{}}, true
			case strings.HasSuffix(callee, "url.URL).String"):
				if p, ok := args[0].(aptr); ok {
					return env.load(p.obj, joinPath(p.path, "Path")), true
				}
			case strings.HasSuffix(callee, "FileServer).IsHidden"):
				asked++
				// the hide list of the value asked
				var list aval
				switch rv := args[0].(type) {
				case astruct:
					list = rv.f[hideField]
				case aptr:
					list = env.load(rv.obj, joinPath(rv.path, hideField))
				}
				has := false
				if sl, ok := list.(avals); ok {
					for _, c := range sl.cells {
						if s, ok := c.f[""].(astr); ok && string(s) == hidden {
							has = true
						}
					}
				}
				return abool(has && nameOf(args[1]) == hiddenName), true
			}
			return nil, false
		}
		b := astruct{map[string]aval{}}
		if st, ok := underlying(bT).(*types.Struct); ok {
			for i := 0; i < st.NumFields(); i++ {
				if sl, ok := underlying(st.Field(i).Type()).(*types.Slice); ok && types.Identical(sl.Elem(), cfgT) {
					b.f[st.Field(i).Name()] = anil{}
				}
			}
		}
		file := aiface{aptr{&aobj{name: "directory", typ: types.Typ[types.Int], f: map[string]aval{}}, ""}, types.Typ[types.Int]}
		res, und := env.run(fn, []aval{b, file, astr(urlPath), aptr{cfg, ""}})
		nrun++
		desc := fmt.Sprintf("listing requested as %q", urlPath)
		if und != "" {
			bad = desc + ": undecided — " + und
			break
		}
		tp, ok := res.(atuple)
		var lp aptr
		if ok && len(tp) == 3 {
			lp, ok = tp[0].(aptr)
		}
		if !ok {
			bad = desc + ": returns " + describeAval(res)
			break
		}
		items, _ := env.load(lp.obj, joinPath(lp.path, "Items")).(avals)
		var names []string
		for _, c := range items.cells {
			names = append(names, describeAval(c.f["Name"]))
		}
		got := strings.Join(names, " ")
		switch {
		case strings.Contains(got, hiddenName):
			bad = fmt.Sprintf("%s: the listing names the hidden file %s (hide list %v; items: %s)", desc, hidden, hideList, got)
		case !strings.Contains(got, "a.txt"):
			bad = fmt.Sprintf("%s: the listing lacks the ordinary file a.txt (items: %s)", desc, got)
		case asked < 2:
			bad = fmt.Sprintf("%s: IsHidden was asked %d times for 2 entries", desc, asked)
		}
		if bad != "" {
			break
		}
	}
	r.Check(bad == "", "R5", "browse.Browse.loadDirectoryContents/listing-table", fn.Pos(), "whatever way the directory's URL is spelled, its listing shows the ordinary entries and none of the hidden ones", fmt.Sprintf("%d listings evaluated", nrun), bad)
}

package main

import (
	"fmt"
	"go/token"
	"go/types"
	"net"
	"strings"

	"golang.org/x/tools/go/ssa"
)

func init() {
	register("C15", &propSpec{
		technique: "static analysis: decision-table extraction of the qualification function by abstract evaluation of its SSA over all combinations of its 13 boolean inputs (E10), guard-atom sets of the redirect-synthesis stores, constant tables, value flow into the redirect target, contradiction rule between TLS stripping and redirect synthesis",
		run:       runC15,
		decided: "R1 a site is marked managed in exactly the cases of the documented conjunction (host and listen host neither loopback nor internal, scheme not http, and in QualifiesForManagedTLS: TLS settings and manager present, not manual unless on-demand, not self-signed, port not the literal 80, ACME e-mail not 'off', subject qualifies for a public certificate unless on-demand) — decided as the function's full decision table, in whatever form the code spells it — and the loopback/internal tables contain the reserved names; " +
			"R2 MakeServers disables TLS exactly for sites on the HTTP port or with scheme http; " +
			"R3 a redirect site is synthesised only for TLS-enabled sites that are not themselves plain-HTTP sites, do not opt out and have no other site on the HTTP port; its handler answers 301 to \"https://\" + request host (+ port unless default) + the request URI as received. Since round 4: R2 as a table of MakeServers (TLS enabled x port x scheme). R4 the opt-out flags Manual and SelfSigned are only ever raised. Since round 7: R1 a public DNS name that begins with 127. is not loopback; R3 opaque request targets and own-certificate sites without a port.",
		notDecided: "which names certmagic can really certify; DNS; behaviour of http.Redirect itself.",
	})
}

func runC15(r *Report, p *Program) {
	h := H{r, p}
	c15R1(h)
	c15R2(h)
	c15R3(h)
	c15R4(h)
}

// returnsTrueOnlyVia: in a bool function, every way of returning a possibly-true
// value lies behind one of the edges, or the returned leaf itself satisfies leafOK.
func returnsTrueOnlyVia(fn *ssa.Function, edges map[edge]bool, leafOK func(ssa.Value) bool) bool {
	ok := true
	for _, rt := range realReturns(fn) {
		res := retResults(rt)
		if len(res) == 0 {
			continue
		}
		seen := map[ssa.Value]bool{}
		var walk func(v ssa.Value, at ssa.Instruction)
		walk = func(v ssa.Value, at ssa.Instruction) {
			if ph, isPhi := v.(*ssa.Phi); isPhi {
				if seen[v] {
					return
				}
				seen[v] = true
				for k, e := range ph.Edges {
					walk(e, lastInstr(ph.Block().Preds[k]))
				}
				return
			}
			if c, isC := v.(*ssa.Const); isC && c.Value != nil && c.Value.String() == "false" {
				return
			}
			if leafOK != nil && leafOK(v) {
				return
			}
			if len(edges) == 0 || !onlyVia(fn, at, edges) {
				ok = false
			}
		}
		walk(res[0], rt)
	}
	return ok
}

func c15R1(h H) {
	r := h.r
	r.Rule("R1", "qualification is exactly the documented conjunction, decided as a decision table: markQualifiedForAutoHTTPS (with QualifiesForManagedTLS and the SiteConfig accessors it calls) is evaluated abstractly (E10) for every combination of its 13 boolean inputs — the loopback/internal answers for Addr.Host and ListenHost, Scheme == \"http\", TLS settings and manager present, on-demand, Manual, SelfSigned, Port == \"80\" (the literal), ACMEEmail == \"off\", SubjectQualifiesForPublicCert(Host) — and TLS.Managed must end up true in exactly the specified cases; IsInternal's TLD table ⊇ {.example,.invalid,.test,.local}; IsLoopback tests localhost, .localhost, 127., ::1", 7)
	// The qualification decision as a decision table (E10).  Inputs: the answers of the host predicates for the
	// site's two hosts, the scheme and port literals, and the TLS settings; the store TLS.Managed = true must happen
	// exactly under the documented conjunction, in whatever form the code spells it.
	fn := h.fn("R1", hs, "markQualifiedForAutoHTTPS")
	if fn != nil {
		names := []string{"IsLoopback(Addr.Host)", "IsLoopback(ListenHost)", "IsInternal(Addr.Host)", "IsInternal(ListenHost)", "Scheme==http", "TLS==nil", "Manager==nil", "OnDemand!=nil", "Manual", "SelfSigned", "Port==80", "ACMEEmail==off", "SubjectQualifies(Host)"}
		const nb = 13
		bad := ""
		nrun := 0
		siteT := fn.Params[0].Type().(*types.Slice).Elem().(*types.Pointer).Elem()
		ptrElem := func(t types.Type) types.Type {
			if p, ok := underlying(t).(*types.Pointer); ok {
				return p.Elem()
			}
			return nil
		}
		for m := 0; m < 1<<nb && bad == ""; m++ {
			b := func(i int) bool { return m&(1<<i) != 0 }
			if b(5) && m>>6 != 0 {
				continue // without a TLS config the remaining inputs do not exist
			}
			if b(6) && b(7) {
				continue // no manager, no on-demand settings
			}
			var tlsObj, mgrObj, odObj *aobj
			var site *aobj
			env := &absEnv{globals: map[string]*aobj{}}
			mk := func() []aval {
				tlsObj, mgrObj, odObj = nil, nil, nil
				site = &aobj{name: "site", typ: siteT, f: map[string]aval{}}
				site.in = func(o *aobj, path string, t types.Type) aval {
					switch path {
					case "Addr.Host":
						return asym{"Addr.Host"}
					case "ListenHost":
						return asym{"ListenHost"}
					case "Addr.Scheme":
						if b(4) {
							return astr("http")
						}
						return astr("https")
					case "Addr.Port":
						if b(10) {
							return astr("80")
						}
						return astr("443")
					case "TLS":
						if b(5) {
							return anil{}
						}
						if tlsObj == nil {
							tlsObj = &aobj{name: "tls", typ: ptrElem(t), f: map[string]aval{}}
							tlsObj.in = func(o *aobj, path string, t types.Type) aval {
								switch path {
								case "Manager":
									if b(6) {
										return anil{}
									}
									if mgrObj == nil {
										mgrObj = &aobj{name: "manager", typ: ptrElem(t), f: map[string]aval{}}
										mgrObj.in = func(o *aobj, path string, t types.Type) aval {
											if path == "OnDemand" {
												if !b(7) {
													return anil{}
												}
												if odObj == nil {
													odObj = &aobj{name: "ondemand", typ: ptrElem(t), f: map[string]aval{}}
												}
												return aptr{odObj, ""}
											}
											return aunk{"manager field " + path}
										}
									}
									return aptr{mgrObj, ""}
								case "Manual":
									return abool(b(8))
								case "SelfSigned":
									return abool(b(9))
								case "ACMEEmail":
									if b(11) {
										return astr("off")
									}
									return astr("admin@example.com")
								case "Managed":
									return abool(false)
								}
								return aunk{"tls field " + path}
							}
						}
						return aptr{tlsObj, ""}
					}
					return aunk{"site field " + path}
				}
				env.load(site, "TLS") // materialise the settings object even if the code under analysis never looks at it
				return []aval{aslice{[]*aobj{site}}}
			}
			env.ext = func(callee string, args []aval) (aval, bool) {
				key := ""
				if len(args) > 0 {
					if s, ok := args[len(args)-1].(asym); ok {
						key = s.name
					}
				}
				switch {
				case strings.HasSuffix(callee, "casket.IsLoopback"):
					switch key {
					case "Addr.Host":
						return abool(b(0)), true
					case "ListenHost":
						return abool(b(1)), true
					}
					return aunk{"IsLoopback of something that is not one of the site's hosts"}, true
				case strings.HasSuffix(callee, "casket.IsInternal"):
					switch key {
					case "Addr.Host":
						return abool(b(2)), true
					case "ListenHost":
						return abool(b(3)), true
					}
					return aunk{"IsInternal of something that is not one of the site's hosts"}, true
				case strings.HasSuffix(callee, "certmagic.SubjectQualifiesForPublicCert"):
					if key == "Addr.Host" {
						return abool(b(12)), true
					}
					return aunk{"SubjectQualifiesForPublicCert of something that is not the site's host"}, true
				}
				return nil, false
			}
			desc := func() string {
				var on []string
				for i, n := range names {
					if b(i) {
						on = append(on, n)
					}
				}
				return "{" + strings.Join(on, ", ") + "}"
			}
			want := !b(0) && !b(1) && !b(2) && !b(3) && !b(4) && !b(6) && (!b(8) || b(7)) && !b(9) && !b(10) && !b(11) && (b(12) || b(7))
			env.runForks(fn, mk, func(_ aval, und string, forks int) bool {
				nrun++
				if und != "" {
					bad = "inputs true: " + desc() + ": undecided — " + und
					return false
				}
				if b(5) {
					return true
				}
				got, isB := env.load(tlsObj, "Managed").(abool)
				if !isB || bool(got) != want {
					bad = sprintf("inputs true: %s: Managed=%v, specification says %v", desc(), describeAval(env.load(tlsObj, "Managed")), want)
					return false
				}
				return true
			})
		}
		r.Check(bad == "", "R1", "httpserver.markQualifiedForAutoHTTPS/decision-table", fn.Pos(),
			"a site is marked for managed HTTPS exactly when neither of its hosts is loopback or internal, its scheme is not http, and QualifiesForManagedTLS holds: TLS settings with a manager present, not manual unless on-demand, not self-signed, port not the literal 80, ACME e-mail not 'off', subject certifiable unless on-demand",
			sprintf("%d input combinations evaluated", nrun), bad)
	}
	// the host classification predicates as decision tables (E10): names are built from opaque labels
	evalPred := func(fn *ssa.Function, addr aval) (bool, string) {
		env := &absEnv{globals: map[string]*aobj{}, noFork: true, maxSteps: 50000}
		env.ext = func(callee string, args []aval) (aval, bool) {
			switch callee {
			case "net.ParseIP":
				// names are not IP literals; concrete literals are parsed by the library
				if s, ok := args[0].(astr); ok {
					if ip := net.ParseIP(string(s)); ip != nil {
						return aptr{&aobj{name: "ip:" + ip.String(), typ: types.Typ[types.Int], f: map[string]aval{}}, ""}, true
					}
				}
				return anil{}, true
			case "net.ParseCIDR":
				if s, ok := args[0].(astr); ok {
					return atuple{anil{}, aptr{&aobj{name: "net:" + string(s), typ: types.Typ[types.Int], f: map[string]aval{}}, ""}, anil{}}, true
				}
			case "(*net.IPNet).Contains":
				np, ok1 := args[0].(aptr)
				ip, ok2 := args[1].(aptr)
				if ok1 && ok2 {
					_, n, err := net.ParseCIDR(strings.TrimPrefix(np.obj.name, "net:"))
					if err == nil {
						return abool(n.Contains(net.ParseIP(strings.TrimPrefix(ip.obj.name, "ip:")))), true
					}
				}
			}
			return nil, false
		}
		res, und := env.run(fn, []aval{addr})
		if b, ok := res.(abool); ok && und == "" {
			return bool(b), ""
		}
		return false, "undecided — " + und + " " + describeAval(res)
	}
	name := func(parts ...atom) aval { return mkStr(parts) }
	L := func(n string) atom { return atom{sym: n} }
	lit := func(s string) atom { return atom{lit: s} }
	if in := h.fn("R1", "", "IsInternal"); in != nil {
		for _, tld := range []string{".example", ".invalid", ".test", ".local"} {
			bad := ""
			for _, addr := range []aval{name(L("site"), lit(tld)), name(L("www"), lit("."), L("site"), lit(tld)), name(L("a"), lit("."), L("b"), lit("."), L("c"), lit(tld)), name(L("site"), lit(tld+":8080"))} {
				if got, und := evalPred(in, addr); und != "" || !got {
					bad = describeAval(addr) + ": IsInternal = false " + und
				}
			}
			r.Check(bad == "", "R1", "casket.IsInternal/tld:"+tld, in.Pos(), "names under the reserved TLD "+tld+" (any number of labels, with or without port) count as internal-only", bad)
		}
		bad := ""
		for _, addr := range []aval{name(L("site"), lit(".com")), name(L("www"), lit("."), L("site"), lit(".org:443")), name(L("testing"), lit(".com"))} {
			if got, und := evalPred(in, addr); und != "" || got {
				bad = describeAval(addr) + ": IsInternal = true " + und
			}
		}
		for _, ip := range []string{"10.1.2.3", "172.16.0.9", "192.168.1.1", "fc00::1", "10.1.2.3:80"} {
			if got, und := evalPred(in, astr(ip)); und != "" || !got {
				bad = ip + ": IsInternal = false " + und
			}
		}
		for _, ip := range []string{"8.8.8.8", "172.32.0.1", "2001:db8::1"} {
			if got, und := evalPred(in, astr(ip)); und != "" || got {
				bad = ip + ": IsInternal = true " + und
			}
		}
		r.Check(bad == "", "R1", "casket.IsInternal/suffix-test", in.Pos(), "public names and addresses are not internal; private address ranges are", bad)
	}
	if lb := h.fn("R1", "", "IsLoopback"); lb != nil {
		bad := ""
		for _, addr := range []aval{astr("localhost"), astr("localhost:2015"), name(L("app"), lit(".localhost")), name(L("a"), lit("."), L("b"), lit(".localhost:80")), astr("127.0.0.1"), astr("127.9.9.9:80"), astr("::1"), astr("[::1]"), astr("[::1]:443")} {
			if got, und := evalPred(lb, addr); und != "" || !got {
				bad = describeAval(addr) + ": IsLoopback = false " + und
			}
		}
		for _, addr := range []aval{name(L("site"), lit(".com")), name(L("localhost"), lit(".com")), astr("128.0.0.1"), astr("[::2]:80"), astr("127.example.com"), astr("127.0.0.1.nip.io:443"), astr("127.shop")} {
			if got, und := evalPred(lb, addr); und != "" || got {
				bad = describeAval(addr) + ": IsLoopback = true " + und
			}
		}
		r.Check(bad == "", "R1", "casket.IsLoopback/names", lb.Pos(), "localhost, *.localhost, the addresses 127.* and ::1, with or without port, count as loopback; other names — also public DNS names that merely begin with 127. — and other addresses do not (site hosts reach this predicate lower-cased)", bad)
	}
}

// c15R2: decided as a table of MakeServers (E10).  c15R2Patterns, the guard formulation, is kept for reference.
func c15R2(h H) {
	r := h.r
	r.Rule("R2", "plain-HTTP sites lose TLS, as a decision table (E10): httpContext.MakeServers, evaluated for one site with TLS enabled or not, port {80, 443, 8080, none} and scheme {http, https, none} (grouping and server construction being oracles), leaves TLS enabled exactly when it was enabled and the site is neither on the HTTP port nor declared with http://; a TLS site without port that is not manual or self-signed gets the HTTPS port", 1)
	fn := h.fn("R2", hs, "(*httpContext).MakeServers")
	if fn == nil {
		return
	}
	ctxT := fn.Params[0].Type().(*types.Pointer).Elem()
	var siteT, tlsT, mgrT types.Type
	if st, ok := underlying(ctxT).(*types.Struct); ok {
		for i := 0; i < st.NumFields(); i++ {
			if st.Field(i).Name() == "siteConfigs" {
				if sl, ok := underlying(st.Field(i).Type()).(*types.Slice); ok {
					if p, ok := sl.Elem().(*types.Pointer); ok {
						siteT = p.Elem()
					}
				}
			}
		}
	}
	if siteT != nil {
		if st, ok := underlying(siteT).(*types.Struct); ok {
			for i := 0; i < st.NumFields(); i++ {
				if p, ok := st.Field(i).Type().(*types.Pointer); ok && strings.HasSuffix(p.Elem().String(), "caskettls.Config") {
					tlsT = p.Elem()
				}
			}
		}
	}
	if tlsT != nil {
		if st, ok := underlying(tlsT).(*types.Struct); ok {
			for i := 0; i < st.NumFields(); i++ {
				if st.Field(i).Name() == "Manager" {
					if p, ok := st.Field(i).Type().(*types.Pointer); ok {
						mgrT = p.Elem()
					}
				}
			}
		}
	}
	if siteT == nil || tlsT == nil {
		r.Unresolve("R2", "httpContext.siteConfigs / SiteConfig.TLS not found by type")
		return
	}
	bad, n := "", 0
	for _, enabled := range []bool{true, false} {
		for _, port := range []string{"80", "443", "8080", ""} {
			for _, scheme := range []string{"http", "https", ""} {
				n++
				mgr := &aobj{name: "certmagic config", typ: types.Typ[types.Int], f: map[string]aval{"OnDemand": anil{}}}
				if mgrT != nil {
					mgr.typ = mgrT
				}
				tlsc := &aobj{name: "tls config", typ: tlsT, f: map[string]aval{"Enabled": abool(enabled), "Manual": abool(false), "SelfSigned": abool(false), "ClientAuth": aint(0), "Manager": aptr{mgr, ""}}}
				tlsc.in = func(o *aobj, path string, t types.Type) aval { return aunk{"tls field " + path} }
				site := &aobj{name: "site", typ: siteT, f: map[string]aval{"TLS": aptr{tlsc, ""}, "Addr.Port": astr(port), "Addr.Scheme": astr(scheme), "Addr.Host": astr("example.com"), "ListenHost": astr("")}}
				site.in = func(o *aobj, path string, t types.Type) aval { return aunk{"site field " + path} }
				ctx := &aobj{name: "context", typ: ctxT, f: map[string]aval{"siteConfigs": aslice{[]*aobj{site}}}}
				ctx.in = func(o *aobj, path string, t types.Type) aval { return aunk{"context field " + path} }
				env := &absEnv{noFork: true, maxSteps: 200000, globals: map[string]*aobj{
					"HTTPPort":  {name: "HTTPPort", typ: types.Typ[types.Int], f: map[string]aval{"": aint(80)}},
					"HTTPSPort": {name: "HTTPSPort", typ: types.Typ[types.Int], f: map[string]aval{"": aint(443)}},
					"QUIC":      {name: "QUIC", typ: types.Typ[types.Bool], f: map[string]aval{"": abool(false)}},
				}}
				env.ext = func(callee string, args []aval) (aval, bool) {
					switch {
					case strings.HasSuffix(callee, "casket.IsLoopback"), strings.HasSuffix(callee, "casket.IsInternal"):
						return abool(true), true
					case strings.HasSuffix(callee, "groupSiteConfigsByListenAddr"):
						var mt *types.Map
						if g := h.p.Func(hs, "groupSiteConfigsByListenAddr"); g != nil && g.Signature.Results().Len() > 0 {
							mt, _ = underlying(g.Signature.Results().At(0).Type()).(*types.Map)
						}
						return atuple{amap{&amapData{vals: map[string]aval{}, keys: map[string]aval{}, typ: mt}}, anil{}}, true
					case strings.HasPrefix(callee, "log."), strings.HasPrefix(callee, "fmt."):
						return atuple{}, true
					}
					return nil, false
				}
				desc := sprintf("TLS enabled=%v, port %q, scheme %q", enabled, port, scheme)
				if _, und := env.run(fn, []aval{aptr{ctx, ""}}); und != "" {
					bad = desc + ": undecided — " + und
					break
				}
				want := enabled && port != "80" && scheme != "http"
				got, ok := tlsc.f["Enabled"].(abool)
				if !ok || bool(got) != want {
					bad = sprintf("%s: afterwards TLS enabled is %s, specification says %v", desc, describeAval(tlsc.f["Enabled"]), want)
					break
				}
				if want && port == "" {
					if p, _ := site.f["Addr.Port"].(astr); string(p) != "443" {
						bad = sprintf("%s: the site's port afterwards is %s, specification says the HTTPS port", desc, describeAval(site.f["Addr.Port"]))
						break
					}
				}
			}
			if bad != "" {
				break
			}
		}
		if bad != "" {
			break
		}
	}
	r.Check(bad == "", "R2", "httpserver.(*httpContext).MakeServers/disable-tls-for-http-sites", fn.Pos(), "TLS is switched off for a site exactly when it sits on the HTTP port or was declared with http://", sprintf("%d cases evaluated", n), bad)
}

func c15R2Patterns(h H) {
	r := h.r
	r.Rule("R2", "plain-HTTP sites lose TLS: in httpContext.MakeServers the store TLS.Enabled = false is guarded by exactly {Enabled was true, Port == HTTP port or Scheme == \"http\"}", 1)
	fn := h.fn("R2", hs, "(*httpContext).MakeServers")
	if fn == nil {
		return
	}
	n := 0
	allInstrs(fn, func(in ssa.Instruction) {
		st, ok := in.(*ssa.Store)
		if !ok {
			return
		}
		fa, ok := st.Addr.(*ssa.FieldAddr)
		if !ok || fieldName(fa.X.Type(), fa.Field) != "Enabled" {
			return
		}
		if c, isC := st.Val.(*ssa.Const); !isC || c.Value.String() != "false" {
			return
		}
		n++
		// allowed ways in: Port == httpPort (true) or Scheme == "http" (true)
		allowed := map[edge]bool{}
		for _, i := range ifs(fn) {
			v, flip := stripNot(i.Cond)
			if x, eq, lit, ok := strCmp(v); ok && lit == "http" && readsField(x, "Scheme") {
				allowed[condEdge{i, eq != flip}.edge()] = true
			}
			if b, ok := v.(*ssa.BinOp); ok && (b.Op == token.EQL || b.Op == token.NEQ) {
				if readsField(b.X, "Port") && isResultOf(b.Y, 0, "strconv.Itoa") || readsField(b.Y, "Port") && isResultOf(b.X, 0, "strconv.Itoa") {
					allowed[condEdge{i, (b.Op == token.EQL) != flip}.edge()] = true
				}
			}
		}
		enabled := guardEdges(fn, true, func(v ssa.Value) bool { return readsField(v, "TLS.Enabled") || readsField(v, "Enabled") })
		var extra []string
		for _, g := range dominatingGuards(fn, nil, in) {
			if isLoopCond(g) || readsField(g.Cond, "Enabled") {
				continue
			}
			if _, isPhi := g.Cond.(*ssa.Phi); isPhi {
				continue
			}
			extra = append(extra, describe(g.Cond))
		}
		r.Check(len(allowed) >= 2 && onlyVia(fn, in, allowed) && onlyVia(fn, in, enabled) && len(extra) == 0, "R2", "httpserver.(*httpContext).MakeServers/disable-tls-for-http-sites", st.Pos(),
			"TLS is switched off for a site exactly when it sits on the HTTP port or was declared with http://", extra...)
	})
	if n == 0 {
		r.Fail("R2", "httpserver.(*httpContext).MakeServers/disable-tls-for-http-sites", fn.Pos(), "TLS is never disabled for explicitly-HTTP sites")
	}
}

func c15R3(h H) {
	r := h.r
	r.Rule("R3", "redirect synthesis: makePlaintextRedirects appends redirPlaintextHost(cfg) only behind TLS.Enabled, Scheme != \"http\", Port != HTTP port (the sites MakeServers strips TLS from — contradiction rule), !NoRedirect and !hostHasOtherPort(…, HTTP port); the synthesised handler redirects with 301 to a target that starts with the constant \"https://\", contains the request's host (an IPv6 literal in brackets, with or without a port in the Host header) and ends with r.URL.RequestURI()", 7)
	fn := h.fn("R3", hs, "makePlaintextRedirects")
	if fn != nil {
		calls := callsTo(fn, "httpserver.redirPlaintextHost")
		if len(calls) == 0 {
			r.Unresolve("R3", "makePlaintextRedirects: redirPlaintextHost call not found")
		}
		for _, c := range calls {
			have := map[string]bool{}
			for _, g := range guardAtoms(fn, nil, c) {
				switch {
				case readsField(g.Cond, "Enabled") && g.Pos:
					have["Enabled"] = true
				case readsField(g.Cond, "NoRedirect") && !g.Pos:
					have["!NoRedirect"] = true
				}
				if x, eq, lit, ok := strCmp(g.Cond); ok && lit == "http" && readsField(x, "Scheme") && eq != g.Pos {
					have["Scheme!=http"] = true
				}
				if b, ok := g.Cond.(*ssa.BinOp); ok && (b.Op == token.NEQ || b.Op == token.EQL) {
					if readsField(b.X, "Port") && isResultOf(b.Y, 0, "strconv.Itoa") && (b.Op == token.NEQ) == g.Pos {
						if isHTTPPortValue(b.Y) {
							have["Port!=httpPort"] = true
						}
					}
				}
				if cc, ok := g.Cond.(*ssa.Call); ok && strings.HasSuffix(calleeName(&cc.Call), "httpserver.hostHasOtherPort") && !g.Pos && isHTTPPortValue(cc.Call.Args[2]) {
					have["!hostHasOtherPort(httpPort)"] = true
				}
			}
			for _, need := range []string{"Enabled", "Scheme!=http", "Port!=httpPort", "!NoRedirect", "!hostHasOtherPort(httpPort)"} {
				r.Check(have[need], "R3", "httpserver.makePlaintextRedirects/requires:"+need, c.Pos(), "an HTTP→HTTPS redirect site is synthesised only if "+need)
			}
		}
	}
	// the synthesised redirect site as a decision table (E10): redirPlaintextHost is evaluated, the middleware it
	// installs is taken from the returned site and invoked on a request
	if rp := h.fn("R3", hs, "redirPlaintextHost"); rp != nil {
		cfgT := rp.Params[0].Type().(*types.Pointer).Elem()
		bad, nrun := "", 0
		// "": no port of its own, managed certificate (it will be served on 443); "manual": no port of its own but its
		// own certificate (it stays on the default port, 2015)
		for _, sitePort := range []string{"443", "8443", "", "manual"} {
			for _, hostKind := range []int{0, 1, 2, 3, 4} {
				if hostKind == 4 && sitePort != "443" {
					continue
				}
				// 0: a name; 1: a name with port; 2: an IPv6 literal with port; 3: an IPv6 literal without port
				hostHasPort := hostKind == 1 || hostKind == 2
				var redirURL aval
				redirCode := int64(-1)
				nRedir := 0
				env := &absEnv{maxSteps: 100000, globals: map[string]*aobj{
					"HTTPSPort": {name: "HTTPSPort", typ: types.Typ[types.Int], f: map[string]aval{"": aint(443)}},
					"HTTPPort":  {name: "HTTPPort", typ: types.Typ[types.Int], f: map[string]aval{"": aint(80)}},
					"Quiet":     {name: "Quiet", typ: types.Typ[types.Bool], f: map[string]aval{"": abool(true)}},
					"Port":      {name: "Port", typ: types.Typ[types.String], f: map[string]aval{"": astr("2015")}},
				}}
				env.ext = func(callee string, args []aval) (aval, bool) {
					switch {
					case strings.HasSuffix(callee, "casket.Started"):
						return abool(true), true
					case callee == "(*net/url.URL).RequestURI":
						if hostKind == 4 {
							// the request target `http:@evil.org/x` is kept opaque: no leading slash
							return astr("@evil.org/x"), true
						}
						return mkStr([]atom{{lit: "/"}, {sym: "request-uri"}}), true
					case callee == "invoke:Header":
						return amap{&amapData{vals: map[string]aval{}, keys: map[string]aval{}, typ: underlying(types.Unalias(h.p.typeByName("net/http", "Header"))).(*types.Map)}}, true
					case callee == "net/http.Redirect":
						nRedir++
						redirURL = args[2]
						if c, ok := args[3].(aint); ok {
							redirCode = int64(c)
						}
						return atuple{}, true
					}
					return nil, false
				}
				tlsObj := &aobj{name: "tls", typ: types.Typ[types.Int], f: map[string]aval{"Manual": abool(sitePort == "manual"), "SelfSigned": abool(false), "Manager": anil{}}, in: func(o *aobj, path string, t types.Type) aval { return aunk{"tls field " + path} }}
				cfg := &aobj{name: "site", typ: cfgT, f: map[string]aval{}}
				cfg.in = func(o *aobj, path string, t types.Type) aval {
					switch path {
					case "Addr.Host":
						return symLabel("sitehost")
					case "Addr.Port":
						if sitePort == "manual" {
							return astr("")
						}
						return astr(sitePort)
					case "TLS":
						if p, ok := underlying(t).(*types.Pointer); ok {
							tlsObj.typ = p.Elem()
						}
						return aptr{tlsObj, ""}
					}
					return aunk{"site field " + path}
				}
				desc := fmt.Sprintf("site on port %s, request Host with port=%v", sitePort, hostHasPort)
				if hostKind == 2 || hostKind == 3 {
					desc += " (an IPv6 literal: [2001:db8::1])"
				}
				if hostKind == 4 {
					desc += ", opaque request target http:@evil.org/x"
				}
				if sitePort == "manual" {
					desc = "site with its own certificate and no port (served on the default port 2015), " + desc
				}
				res, und := env.run(rp, []aval{aptr{cfg, ""}})
				nrun++
				np, ok := res.(aptr)
				if und != "" || !ok {
					bad = desc + ": redirPlaintextHost undecided — " + und + " " + describeAval(res)
					break
				}
				if p, ok := env.load(np.obj, "Addr.Port").(astr); !ok || p != "80" {
					bad = desc + ": the redirect site listens on port " + describeAval(env.load(np.obj, "Addr.Port")) + ", not on the HTTP port"
					break
				}
				if hst := describeAval(env.load(np.obj, "Addr.Host")); hst != "\"‹sitehost›\"" {
					bad = desc + ": the redirect site is for host " + hst
					break
				}
				mws, ok := env.load(np.obj, "middleware").(avals)
				if !ok || len(mws.cells) != 1 {
					bad = desc + ": the redirect site has middleware " + describeAval(env.load(np.obj, "middleware"))
					break
				}
				mw, ok := mws.cells[0].f[""].(afunc)
				if !ok {
					bad = desc + ": middleware is " + describeAval(mws.cells[0].f[""])
					break
				}
				hv, und := env.runFunc(mw, []aval{anil{}})
				if ifc, isI := hv.(aiface); isI {
					hv = ifc.val // HandlerFunc(f) as a Handler: ServeHTTP calls f
				}
				handler, ok := hv.(afunc)
				if und != "" || !ok {
					bad = desc + ": middleware constructor undecided — " + und + " " + describeAval(hv)
					break
				}
				reqHost := mkStr([]atom{{sym: "reqhost"}})
				switch hostKind {
				case 1:
					reqHost = mkStr([]atom{{sym: "reqhost"}, {lit: ":80"}})
				case 2:
					reqHost = astr("[2001:db8::1]:80")
				case 3:
					reqHost = astr("[2001:db8::1]")
				}
				req := &aobj{name: "request", typ: types.Typ[types.Int], f: map[string]aval{"Host": reqHost}}
				if sig := handler.fn.Signature; sig.Params().Len() == 2 {
					req.typ = sig.Params().At(1).Type().(*types.Pointer).Elem()
				}
				urlObj := &aobj{name: "url", typ: types.Typ[types.Int], f: map[string]aval{}}
				req.in = func(o *aobj, path string, t types.Type) aval {
					if path == "URL" {
						return aptr{urlObj, ""}
					}
					return aunk{"request field " + path}
				}
				_, und = env.runFunc(handler, []aval{aiface{aptr{&aobj{name: "writer", typ: types.Typ[types.Int], f: map[string]aval{}}, ""}, types.Typ[types.Int]}, aptr{req, ""}})
				want := "\"https://‹reqhost›"
				if hostKind == 2 || hostKind == 3 {
					want = "\"https://[2001:db8::1]"
				}
				switch sitePort {
				case "443", "":
				case "manual":
					want += ":2015"
				default:
					want += ":" + sitePort
				}
				if hostKind == 4 {
					want += "/@evil.org/x\""
				} else {
					want += "/‹request-uri›\""
				}
				switch {
				case und != "":
					bad = desc + ": handler undecided — " + und
				case nRedir != 1 || redirCode != 301:
					bad = fmt.Sprintf("%s: %d redirect(s), status %d (want one permanent redirect, 301)", desc, nRedir, redirCode)
				case describeAval(redirURL) != want:
					bad = desc + ": Location is " + describeAval(redirURL) + ", specification says " + want
				}
				if bad != "" {
					break
				}
			}
			if bad != "" {
				break
			}
		}
		r.Check(bad == "", "R3", "httpserver.redirPlaintextHost/redirect-table", rp.Pos(),
			"the synthesised site listens on the HTTP port for the same host and answers every request with a 301 to https://<request host without port>[:<site port> unless it is the HTTPS default]<request URI as received>", fmt.Sprintf("%d evaluations", nrun), bad)
	}
}

// isHTTPPortValue: strconv.Itoa(certmagic.HTTPPort) (possibly through a φ/variable).
func isHTTPPortValue(v ssa.Value) bool {
	return derives(v, func(x ssa.Value) bool {
		c, ok := x.(*ssa.Call)
		if !ok || calleeName(&c.Call) != "strconv.Itoa" {
			return false
		}
		return derives(c.Call.Args[0], func(y ssa.Value) bool {
			g, ok := y.(*ssa.Global)
			return ok && g.Name() == "HTTPPort"
		}, flowOpts{})
	}, flowOpts{})
}

// unwrapLoad: the value last stored into a local that v loads, if v is such a load in the same block.
func unwrapLoad(v ssa.Value) ssa.Value {
	ld, ok := v.(*ssa.UnOp)
	if !ok || ld.Op != token.MUL {
		return v
	}
	var last ssa.Value
	for _, in := range ld.Block().Instrs {
		if in == ssa.Instruction(ld) {
			break
		}
		if st, ok := in.(*ssa.Store); ok && st.Addr == ld.X {
			last = st.Val
		}
	}
	if last != nil {
		return last
	}
	return v
}
